"""Translator for C03: which node classes can mypy hand to a visitor, and which does refurb's `accept` dispatch on."""

from __future__ import annotations

import ast

from . import extract
from .extract import HEADER, lstrs


def visitable_classes() -> list[str]:
    """node classes named in a `visit_*` signature of mypy/visitor.py (NodeVisitor + PatternVisitor and their bases)"""
    import mypy.visitor

    path = mypy.visitor.__file__
    if path.endswith(".so"):
        path = path.split(".cpython")[0] + ".py"
    tree = ast.parse(open(path).read())
    out: list[str] = []
    for cls in tree.body:
        if isinstance(cls, ast.ClassDef):
            for fn in cls.body:
                if isinstance(fn, ast.FunctionDef) and fn.name.startswith("visit_") and len(fn.args.args) == 2:
                    ann = fn.args.args[1].annotation
                    name = ann.attr if isinstance(ann, ast.Attribute) else getattr(ann, "id", None)
                    if isinstance(ann, ast.Constant) and isinstance(ann.value, str):
                        name = ann.value.split(".")[-1]
                    if name and name not in out:
                        out.append(name)
    return out


def registered_classes() -> list[str]:
    from refurb.visitor.traverser import accept

    return sorted(c.__name__ for c in accept.registry if c is not object)


def buildable_classes() -> list[str]:
    """visitable classes that are real node classes of the installed mypy with their own `accept`"""
    import mypy.nodes
    import mypy.patterns

    out = []
    for name in visitable_classes():
        c = getattr(mypy.nodes, name, None) or getattr(mypy.patterns, name, None)
        if isinstance(c, type) and "accept" in vars(c):
            out.append(name)
    return out


@extract.register("Dispatch")
def gen_dispatch() -> str:
    from refurb.visitor import METHOD_NODE_MAPPINGS

    return (
        HEADER
        + "namespace RefurbVerif.Generated\n\n"
        + "/-- node classes that mypy's NodeVisitor/PatternVisitor can be handed (read off mypy/visitor.py) and that exist,\n"
        + "    with their own `accept`, in the installed mypy -/\n"
        + "def mypyVisitable : List String := %s\n\n" % lstrs(buildable_classes())
        + "/-- classes for which refurb's singledispatch `accept` has an overload (accept.registry, at run time) -/\n"
        + "def acceptRegistered : List String := %s\n\n" % lstrs(registered_classes())
        + "/-- node classes a check may subscribe to (METHOD_NODE_MAPPINGS values) -/\n"
        + "def subscribable : List String := %s\n" % lstrs(sorted(t.__name__ for t in METHOD_NODE_MAPPINGS.values()))
        + "\nend RefurbVerif.Generated\n"
    )
