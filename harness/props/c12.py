"""C12 — per-path (amend) ignores cover exactly the files under that path.

Lean: Props/C12.lean over Model/Paths.lean (component-prefix test, the verdict as an equivalence for an
arbitrary resolver, others-unaffected, cwd-invariance, facts about `resolve` over any finite symlink map).

Correspondence (in-process, on REAL directory trees built in a scratch directory):
  * `Path(s)` / `a / b` / `Path(cfg).parent`  vs  model parse_path / path_join / config_root;
  * `Path(s).resolve()` run from several working directories  vs  model `resolve` fed with the symlink
    map read off the tree;
  * `refurb.main.is_ignored_via_amend(error, settings)` with `settings` obtained from the real
    `load_settings` on a real config file  vs  model `amend`, for every (layout, working directory,
    config-file placement/spelling, amend table, file spelling, error class).
Oracle (independent of pathlib/os.path and of the model): the KERNEL's own canonical names
(`open(O_PATH)` + readlink /proc/self/fd/N): a diagnostic must be silenced iff some amend entry lists
its code or one of its categories and canonical(dir-of-config-file-in-use / entry path) is a component-wise
prefix of canonical(file).  Applied to the in-process verdicts and, end to end, to the per-file output of
the CLI run with and without the amend tables (fresh tree per scenario, every leaf linted in one run).
"""

from __future__ import annotations

import errno
import json
import os
import re
from concurrent.futures import ThreadPoolExecutor
from pathlib import Path
from typing import Any

from .. import core, settings_io

GENERATED: list[str] = []

PROBE = 'import os\nx = int(0)\nprint("")\nos.path.exists("f")\n'
# (prefix, code, categories) of the three diagnostics every probe file produces
PROBE_CODES = [("FURB", 123), ("FURB", 105), ("FURB", 141)]
FUEL = 4096
MAX_CLI_FILES = 48
# XYZ123 / ABCD105 / XYZ141: the NUMBER of a built-in check under another prefix (an amend entry names prefix AND number)
IGNORE_ATOMS = ["FURB123", "123", "105", "FURB141", "#builtin", "#readability", "#pathlib", "#nosuch", "XYZ007", "FURB999", "XYZ123", "ABCD105", "XYZ141"]


# ------------------------------------------------------------------------------------------
# layouts: a list of operations relative to the scratch root


def fixed_layout() -> list[tuple]:
    """siblings sharing a string prefix, nesting, dir/file symlinks in both directions, config dirs"""
    ops: list[tuple] = []
    k = 0

    def f(d: str) -> None:
        nonlocal k
        k += 1
        ops.append(("file", f"{d}/m{k}.py"))

    for d in ["proj", "proj/src", "proj/src/deep", "proj/src/deep/er", "proj/src2", "proj/src_old", "proj/other", "proj/conf", "proj/src/nestedconf", "outside"]:
        ops.append(("dir", d))
    for d in ["proj", "proj/src", "proj/src/deep", "proj/src/deep/er", "proj/src2", "proj/src_old", "proj/other", "outside"]:
        f(d)
    ops += [
        ("link", "proj/srcx", "src"),  # dir link next to its target, name shares the prefix
        ("link", "proj/other/into_src", "../src"),  # from outside into src
        ("link", "proj/src/out", "../other"),  # from inside src to outside
        ("link", "proj/src/l1.py", "../src2/m5.py"),  # file link inside src -> file outside
        ("link", "proj/other/l2.py", "../src/deep/m3.py"),  # file link outside -> file inside src
        ("link", "proj/abs_src2", "@ROOT@/proj/src2"),  # absolute target
        ("link", "proj/chain", "srcx/deep"),  # link through a link
        ("link", "proj/dangling", "nowhere"),
        ("link", "outside/proj_link", "../proj"),
        ("link", "proj/cfglink.toml", "conf/cfg.toml"),  # a symlinked config FILE
    ]
    return ops


NAMES = ["src", "src2", "src_old", "sr", "a", "ab", "pkg", "pkg2", "lib"]


def random_layout(rng) -> list[tuple]:
    ops: list[tuple] = [("dir", "proj")]
    dirs = ["proj"]
    for _ in range(rng.randint(4, 8)):
        parent = rng.choice(dirs)
        if parent.count("/") >= 3:
            continue
        d = f"{parent}/{rng.choice(NAMES)}"
        if d not in dirs:
            dirs.append(d)
            ops.append(("dir", d))
    k = 0
    files = []
    for d in dirs:
        if d == "proj" or rng.random() < 0.8:
            k += 1
            files.append(f"{d}/m{k}.py")
            ops.append(("file", files[-1]))
    taken = set(dirs)
    for i in range(rng.randint(2, 5)):
        parent = rng.choice(dirs)
        kind = rng.choice(["dir", "dir", "file", "dangling"])
        if kind == "file":
            name = f"{parent}/l{i}.py"
            target = rng.choice(files)
        else:
            name = f"{parent}/{rng.choice(NAMES)}{rng.choice(['', 'x', '_l'])}"
            target = rng.choice(dirs) if kind == "dir" else "proj/none"
        if name in taken:
            continue
        taken.add(name)
        if rng.random() < 0.25:
            tgt = "@ROOT@/" + target
        else:
            tgt = os.path.relpath(target, os.path.dirname(name))
        ops.append(("link", name, tgt))
    ops.append(("dir", "proj/conf"))
    return ops


JUNGLE_DIRS = ["a", "a/b", "a/b/c", "d", "d/e"]
JUNGLE_ATOMS = ["..", ".", "a", "b", "c", "d", "e", "l0", "l1", "l2", "l3", "l4", "l5", "l6", "nope"]


def jungle_layout(rng) -> list[tuple]:
    """adversarial symlink forest for `resolve`: chains, '..' inside targets, absolute targets, dangling links, loops"""
    ops: list[tuple] = [("dir", d) for d in JUNGLE_DIRS]
    taken = set()
    for i in range(7):
        name = f"{rng.choice(['.'] + JUNGLE_DIRS)}/l{i}"
        if name in taken:
            continue
        taken.add(name)
        tgt = "/".join(rng.choice(JUNGLE_ATOMS if rng.random() < 0.6 else JUNGLE_ATOMS[7:14]) for _ in range(rng.randint(1, 3)))
        if rng.random() < 0.2:
            tgt = "@ROOT@/" + tgt
        ops.append(("link", name, tgt))
    return ops


def build(root: Path, ops: list[tuple]) -> None:
    for op in ops:
        p = root / op[1]
        if op[0] == "dir":
            p.mkdir(parents=True, exist_ok=True)
        elif op[0] == "file":
            p.parent.mkdir(parents=True, exist_ok=True)
            p.write_text(PROBE)
        else:
            p.parent.mkdir(parents=True, exist_ok=True)
            os.symlink(op[2].replace("@ROOT@", str(root)), p)


def links_of(root: Path) -> list[list]:
    """symlink map for the model: physical components of each link -> its target string"""
    out = []
    for dirpath, dirnames, filenames in os.walk(root, followlinks=False):
        for n in dirnames + filenames:
            p = os.path.join(dirpath, n)
            if os.path.islink(p):
                out.append([comps(p), os.readlink(p)])
    return out


def comps(p: str) -> list[str]:
    return [c for c in p.split("/") if c]


def lexical_leaves(root: Path, max_hops: int = 2, max_depth: int = 7) -> list[str]:
    """every way of naming a .py file below proj/ and outside/, also through directory links"""
    out: list[str] = []

    def rec(d: str, hops: int, depth: int) -> None:
        if depth > max_depth:
            return
        try:
            names = sorted(os.listdir(d))
        except OSError:
            return
        for n in names:
            p = os.path.join(d, n)
            link = os.path.islink(p)
            if n.endswith(".py") and os.path.isfile(p):
                out.append(p)
            elif os.path.isdir(p) and n != ".mypy_cache":
                if link and hops >= max_hops:
                    continue
                rec(p, hops + (1 if link else 0), depth + 1)

    rec(str(root), 0, 0)
    return out


# ------------------------------------------------------------------------------------------
# the oracle: kernel canonical names


def kernel_real(path: str) -> tuple[str, Any]:
    """('ok', components) | ('enoent', None) | ('eloop', None) | ('other', errno)"""
    try:
        fd = os.open(path, os.O_PATH)
    except OSError as e:
        if e.errno == errno.ENOENT:
            return "enoent", None
        if e.errno == errno.ENOTDIR:
            return "enotdir", None  # `file/` or `file/x`: pathlib drops a trailing slash, the kernel refuses it
        if e.errno == errno.ELOOP:
            return "eloop", None
        return "other", e.errno
    except ValueError:
        return "nul", None
    try:
        return "ok", comps(os.readlink(f"/proc/self/fd/{fd}"))
    finally:
        os.close(fd)


def entry_names(atom: str, pfx: str, code: int, cats: tuple) -> bool:
    if atom.startswith("#"):
        return atom[1:] in cats
    m = re.fullmatch(r"([A-Z]{3,4})?(\d{3})", atom)
    assert m, atom
    return (m.group(1) or "FURB", int(m.group(2))) == (pfx, code)


def flags(cwd: str, config_given: str | None, table: list[dict], file_given: str) -> set[str]:
    """what makes a case interesting (coverage counters only)"""
    out = set()
    cfg_dir = cwd if config_given is None else os.path.join(cwd, os.path.dirname(config_given))
    st, f = kernel_real(os.path.join(cwd, file_given))
    if st != "ok":
        return out
    lex_f = comps(os.path.normpath(os.path.join(cwd, file_given)))
    if lex_f != f:
        out.add("file-named-through-symlink")
    for ent in table:
        full = os.path.join(cfg_dir, ent["path"]) if ent["path"] else cfg_dir
        st, e = kernel_real(full)
        if st != "ok" or not e:
            continue
        lex_e = comps(os.path.normpath(full))
        if lex_e != e:
            out.add("entry-named-through-symlink-or-dotdot-after-link")
        if (f[: len(e)] == e) != (lex_f[: len(lex_e)] == lex_e):
            out.add("lexical-containment-differs-from-resolved")
        if len(f) >= len(e) and f[: len(e) - 1] == e[:-1] and f[len(e) - 1] != e[-1] and (f[len(e) - 1].startswith(e[-1]) or e[-1].startswith(f[len(e) - 1])):
            out.add("sibling-shares-string-prefix")
        if "/".join(f).startswith("/".join(e)) and f[: len(e)] != e:
            out.add("string-prefix-but-not-component-prefix")
        if ".." in ent["path"].split("/"):
            out.add("entry-has-dotdot")
        if ent["path"].startswith("/"):
            out.add("entry-absolute")
    return out


def unresolvable(cwd: str, config_given: str | None, table: list[dict]) -> str:
    """'' or the reason why some entry of the table cannot be resolved at all (labels a crash)"""
    cfg_dir = cwd if config_given is None else os.path.join(cwd, os.path.dirname(config_given))
    for ent in table:
        st, _ = kernel_real(os.path.join(cfg_dir, ent["path"]) if ent["path"] else cfg_dir)
        if st in ("eloop", "nul"):
            return "crash-" + st
    return ""


def oracle(cwd: str, config_given: str | None, table: list[dict], file_given: str, pfx: str, code: int, cats: tuple, anchor_cwd: bool = False) -> Any:
    """True/False = must be silenced / kept (an entry that cannot be resolved at all — symlink loop, NUL — or does
    not exist covers nothing); None = the property does not say (entry through a non-existent component followed by '..')"""
    cfg_dir = cwd if (config_given is None or anchor_cwd) else os.path.join(cwd, os.path.dirname(config_given))
    st, f = kernel_real(os.path.join(cwd, file_given))
    if st != "ok":
        return None
    verdict: Any = False
    for ent in table:
        st, e = kernel_real(os.path.join(cfg_dir, ent["path"]) if ent["path"] else cfg_dir)
        if st == "eloop" and ".." in ent["path"].split("/"):
            return None  # CPython leaves a loop lexically through '..'; the kernel does not: unspecified
        if st in ("eloop", "nul"):
            continue  # nothing lies at or below a path that cannot be resolved
        if st == "enoent":
            if ".." in ent["path"].split("/"):
                return None
            continue  # nothing lies at or below a path that does not exist
        if st != "ok":
            return None
        if f[: len(e)] == e and any(entry_names(a, pfx, code, cats) for a in ent["ignore"]):
            verdict = True
    return verdict


# ------------------------------------------------------------------------------------------
# scenario generation


def toml_of(table: list[dict], extra_ignore: list[str] | None = None) -> str:
    lines = ["[tool.refurb]"]
    if extra_ignore:
        lines.append(f"ignore = {json.dumps(extra_ignore)}")
    for ent in table:
        lines += ["", "[[tool.refurb.amend]]", f"path = {json.dumps(ent['path'])}", f"ignore = {json.dumps(ent['ignore'])}"]
    return "\n".join(lines) + "\n"


def decorate(rng, rel: str, root: Path, base: str) -> str:
    """respell a relative path without changing what it names (lexically safe decorations only)"""
    r = rng.random()
    if r < 0.35 or rel in ("", "."):
        return rel
    if not os.path.isdir(os.path.join(base, rel)) and (0.45 <= r < 0.55 or 0.70 <= r < 0.78):
        return "./" + rel  # a trailing slash on a non-directory is not a spelling of the same path
    if r < 0.45:
        return "./" + rel
    if r < 0.55:
        return rel + "/"
    if r < 0.62:
        return rel.replace("/", "//", 1)
    if r < 0.70:
        return rel.replace("/", "/./", 1)
    if r < 0.78:
        return "./" + rel + "/."
    if r < 0.90:
        # detour through an existing real directory of `base` and back: x/../rel
        try:
            subs = [n for n in sorted(os.listdir(base)) if os.path.isdir(os.path.join(base, n)) and not os.path.islink(os.path.join(base, n)) and n != ".mypy_cache"]
        except OSError:
            subs = []
        if subs:
            return f"{rng.choice(subs)}/../{rel}"
        return rel
    return rel


def gen_entry_path(rng, root: Path, cfg_dir_given: str, targets: list[str], cwd_real: str | None = None) -> str:
    """an amend `path`: mostly a (respelled) way from the config directory to some directory/file/link"""
    r = rng.random()
    if cwd_real is not None and rng.random() < 0.12:
        # the way from the WORKING directory to a target: when the config file lives elsewhere this names something
        # under the working directory but (usually) nothing under the config directory — it must then cover nothing
        return os.path.relpath(rng.choice(targets), cwd_real)
    if r < 0.06:
        return rng.choice(["", ".", "./", ".."])
    if r < 0.14:
        return rng.choice(["sr", "src_", "nope", "src/nope", "src2x", "proj/sr", "nope/../src", "src/deep/../../src2"])
    t = rng.choice(targets)
    if r < 0.26:
        return t if rng.random() < 0.7 else "/" + t  # absolute (also with a doubled leading slash)
    cfg_real = os.path.realpath(cfg_dir_given)
    rel = os.path.relpath(t, cfg_real)
    return decorate(rng, rel, root, cfg_real)


def gen_table(rng, root: Path, cfg_dir_given: str, targets: list[str], cwd_real: str | None = None) -> list[dict]:
    table = []
    for _ in range(rng.choice([1, 1, 1, 2, 2, 3])):
        n = rng.choice([1, 1, 2, 3])
        table.append({"path": gen_entry_path(rng, root, cfg_dir_given, targets, cwd_real), "ignore": rng.sample(IGNORE_ATOMS, n)})
    return table


def config_placements(root: Path) -> list[tuple[str, str]]:
    """(label, absolute lexical path of the config file)"""
    proj = root / "proj"
    out = [("cwd-default", ""), ("proj", str(proj / "cfg.toml")), ("sibling-dir", str(proj / "conf" / "cfg.toml")), ("parent", str(root / "outer.toml"))]
    for sub in ("src", "src/nestedconf", "other", "srcx"):
        if (proj / sub).is_dir():
            out.append(("nested:" + sub, str(proj / sub / "cfg.toml")))
    if (proj / "cfglink.toml").is_symlink():
        out.append(("symlinked-file", str(proj / "cfglink.toml")))
    return out


def spell_config(rng, cfg_abs: str, cwd_real: str) -> str:
    r = rng.random()
    if r < 0.3:
        return cfg_abs
    rel = os.path.relpath(os.path.dirname(cfg_abs), cwd_real)
    rel = "" if rel == "." else rel + "/"
    name = os.path.basename(cfg_abs)
    if r < 0.8:
        return rel + name
    if r < 0.9:
        return "./" + rel + name
    return (rel or "./") + "/" + name  # doubled slash


def spell_file(rng, lex_abs: str, cwd_real: str) -> str:
    r = rng.random()
    if r < 0.25:
        return lex_abs
    rel = os.path.relpath(lex_abs, cwd_real)
    if r < 0.8:
        return rel
    if r < 0.9:
        return "./" + rel
    return rel.replace("/", "//", 1)


class Scenario:
    def __init__(self, **kw: Any) -> None:
        self.__dict__.update(kw)


def gen_scenarios(rng, root: Path, n: int) -> list[Scenario]:
    proj = root / "proj"
    cwds = [str(proj), str(root)] + [str(proj / s) for s in ("src", "other", "conf", "srcx", "other/into_src") if (proj / s).is_dir()]
    alld = sorted(dp for dp, dn, fn in os.walk(proj, followlinks=False) if ".mypy_cache" not in dp)
    cwds += rng.sample(alld, min(2, len(alld)))
    targets = []
    for dirpath, dirnames, filenames in os.walk(root, followlinks=False):
        for nme in dirnames + filenames:
            if nme != ".mypy_cache" and not nme.endswith(".toml"):
                p = os.path.join(dirpath, nme)
                targets += [p] * (4 if os.path.isdir(p) else 1)  # mostly directories (also through links)
    # a few routes through links as well
    targets += [p for p in lexical_leaves(root)[:40:3]]
    placements = config_placements(root)
    out = []
    for i in range(n):
        cwd_given = rng.choice(cwds)
        cwd_real = os.path.realpath(cwd_given)
        label, cfg_abs = rng.choice(placements)
        if label == "cwd-default":
            cfg_given = None
            cfg_dir_given = cwd_real
            cfg_write = os.path.join(cwd_real, "pyproject.toml")
        else:
            cfg_given = spell_config(rng, cfg_abs, cwd_real)
            cfg_dir_given = os.path.join(cwd_real, os.path.dirname(cfg_given))
            cfg_write = cfg_abs
        table = gen_table(rng, root, cfg_dir_given, targets, cwd_real)
        extra = rng.choice([None, None, None, ["FURB999"], ["#nosuch"]])
        out.append(Scenario(idx=i, cwd=cwd_given, cwd_real=cwd_real, placement=label, cfg_given=cfg_given, cfg_write=cfg_write, table=table, extra_ignore=extra))
    return out


# ------------------------------------------------------------------------------------------
# running the implementation


def error_classes() -> list[Any]:
    from refurb.error import Error
    from refurb.loader import get_error_class, get_modules

    want = {123, 105, 141}
    out = []
    for m in get_modules([]):
        e = get_error_class(m)
        if e and e.prefix == "FURB" and e.code in want:
            out.append(e)
    out.sort(key=lambda e: e.code)
    out.append(type("ErrorInfoXYZ7", (Error,), {"prefix": "XYZ", "code": 7, "categories": ("zz", "builtin"), "name": "probe"}))
    # a plugin check that shares its NUMBER with a built-in one
    out.append(type("ErrorInfoXYZ123", (Error,), {"prefix": "XYZ", "code": 123, "categories": ("zz",), "name": "probe123"}))
    return out


def impl_verdict(err_cls: Any, filename: str, settings: Any) -> Any:
    from refurb.main import is_ignored_via_amend

    try:
        return bool(is_ignored_via_amend(err_cls(1, 0, "m", filename), settings))
    except RuntimeError as e:
        return "crash-eloop" if "Symlink loop" in str(e) else "crash:RuntimeError"
    except ValueError as e:
        return "crash-nul" if "null" in str(e) else "crash:ValueError"
    except Exception as e:  # noqa: BLE001
        return "crash:" + type(e).__name__


def model_ignore(table: list[dict], extra_ignore: list[str] | None) -> list[dict]:
    """the classifiers the config yields, for the model: raw TOML path strings (the model parses them itself)"""
    out = []

    def one(atom: str, path: Any) -> dict:
        if atom.startswith("#"):
            return {"k": "cat", "n": atom[1:], "path": path}
        m = re.fullmatch(r"([A-Z]{3,4})?(\d{3})", atom)
        return {"k": "code", "p": m.group(1) or "FURB", "i": int(m.group(2)), "path": path}

    for a in extra_ignore or []:
        out.append(one(a, None))
    for ent in table:
        for a in ent["ignore"]:
            # Path("") is Path("."); the wire format uses null for "no path"
            out.append(one(a, ent["path"] if ent["path"] else "."))
    return out


def model_verdict(v: Any) -> Any:
    return "crash" if v is None else v


def norm_crash(v: Any) -> Any:
    return "crash" if isinstance(v, str) and v.startswith("crash") else v


def replay_of(root_ops: list[tuple], sc: Scenario, file_given: str, extra: dict) -> dict:
    argv = [file_given, "--quiet"] + (["--config-file", sc.cfg_given] if sc.cfg_given else [])
    return {
        "layout_ops": root_ops,
        "how": "create the layout (harness/props/c12.py:build) under an empty directory ROOT, write `config` to ROOT-relative `config_written_to`, cd to `cwd`, run python -m refurb with argv; compare with the same run after deleting the [[tool.refurb.amend]] tables",
        "cwd": sc.cwd,
        "config_written_to": sc.cfg_write,
        "config": toml_of(sc.table, sc.extra_ignore),
        "argv": argv,
        **extra,
    }


# ------------------------------------------------------------------------------------------


def crash_scenarios(root: Path) -> list[Scenario]:
    """entries that cannot be resolved: symlink loops (self, mutual, below a loop) and a NUL (these crashed the whole
    run before fix 5e5fe5a; now such an entry must simply cover nothing)"""
    proj = root / "proj"
    for name, tgt in (("loop", "loop"), ("loopa", "loopb"), ("loopb", "loopa")):
        if not (proj / name).is_symlink():
            os.symlink(tgt, proj / name)
    out = []
    for i, table in enumerate(
        [
            [{"path": "loop", "ignore": ["FURB123"]}],
            [{"path": "src", "ignore": ["#pathlib"]}, {"path": "loopa/x", "ignore": ["105"]}],
            [{"path": "./src/../loopb/", "ignore": ["#nosuch"]}],
            [{"path": "a\x00b", "ignore": ["FURB123"]}],
            [{"path": str(proj / "loop" / "y"), "ignore": ["FURB141"]}, {"path": "src2", "ignore": ["123"]}],
        ]
    ):
        out.append(Scenario(idx=1000 + i, cwd=str(proj), cwd_real=str(proj), placement="proj", cfg_given="cfg.toml", cfg_write=str(proj / "cfg.toml"), table=table, extra_ignore=None))
    return out


def inprocess(ctx, rng, root: Path, ops: list[tuple], layout_id: str, n_scen: int, reqs: list, pending: list) -> None:
    """real is_ignored_via_amend on a real tree; queues the model requests; applies the kernel oracle"""
    res = ctx.res
    from refurb.settings import load_settings

    classes = error_classes()
    leaves = lexical_leaves(root)
    scenarios = gen_scenarios(rng, root, n_scen)
    if layout_id == "fixed":
        scenarios += crash_scenarios(root)  # adds the loop links AFTER the ordinary scenarios were generated
        ops = ops + [("link", "proj/loop", "loop"), ("link", "proj/loopa", "loopb"), ("link", "proj/loopb", "loopa")]
    links = links_of(root)
    for sc in scenarios:
        Path(sc.cfg_write).write_text(toml_of(sc.table, sc.extra_ignore))  # follows a symlinked config file
        with settings_io.Cwd(Path(sc.cwd)):
            try:
                settings = load_settings(["x.py", *(["--config-file", sc.cfg_given] if sc.cfg_given else [])])
            except ValueError as e:
                res.disagree("load_settings", {"layout": layout_id, "cfg": sc.cfg_given, "cwd": sc.cwd}, "ok", str(e))
                continue
            picks = rng.sample(leaves, min(len(leaves), 10 if ctx.quick else 16))
            diags, impl, want, alt = [], [], [], []
            for lex in picks:
                fg = spell_file(rng, lex, sc.cwd_real)
                for fl in flags(sc.cwd_real, sc.cfg_given, sc.table, fg):
                    res.bump("inproc-files:" + fl)
                for cls in classes:
                    diags.append({"file": fg, "prefix": cls.prefix, "code": cls.code, "categories": list(cls.categories)})
                    impl.append(impl_verdict(cls, fg, settings))
                    want.append(oracle(sc.cwd_real, sc.cfg_given, sc.table, fg, cls.prefix, cls.code, tuple(cls.categories)))
                    alt.append(oracle(sc.cwd_real, sc.cfg_given, sc.table, fg, cls.prefix, cls.code, tuple(cls.categories), anchor_cwd=True))
        if sc.placement == "cwd-default":
            os.unlink(sc.cfg_write)
        reqs.append({"verb": "amend", "links": links, "fuel": FUEL, "cwd": comps(sc.cwd_real), "config_file": sc.cfg_given, "ignore": model_ignore(sc.table, sc.extra_ignore), "diags": diags})
        pending.append((layout_id, ops, sc, diags, impl))
        for dg, got, w, a in zip(diags, impl, want, alt):
            key = json.dumps([layout_id, sc.cwd, sc.cfg_given, sc.table, dg["file"], dg["prefix"], dg["code"]], sort_keys=True).replace(str(root), "ROOT")
            res.case(key, nontrivial=True)
            res.bump(f"inproc:verdict={got}")
            res.bump(f"inproc:placement={sc.placement.split(':')[0]}")
            if w is None:
                res.bump("inproc:oracle-unspecified")
                continue
            if a is not None and a != w:
                res.bump("inproc:cwd-anchored-reading-would-differ")
            if norm_crash(got) == "crash":
                cause = unresolvable(sc.cwd_real, sc.cfg_given, sc.table)
                res.violate(
                    f"is_ignored_via_amend raises instead of giving a verdict ({got}); tables {sc.table}",
                    {"kind": "entry-unresolvable-crash", "cause": cause} if cause else {"kind": "amend-filter-raises", "what": str(got)},
                    replay_of(ops, sc, dg["file"], {"observed": got, "required": f"a verdict: silenced={w}"}),
                )
                continue
            if got != w:
                res.violate(
                    f"amend verdict differs from 'file at or below the entry path, taken from the config file's directory, by components': "
                    f"cwd={sc.cwd} config={sc.cfg_given or 'pyproject.toml (default)'} table={sc.table} file={dg['file']} code={dg['prefix']}{dg['code']}: silenced={got}, required={w}",
                    {"kind": "silenced-but-outside" if got is True else "reported-but-covered" if got is False else "crash", "placement": sc.placement.split(":")[0], "via": "in-process"},
                    replay_of(ops, sc, dg["file"], {"observed_silenced": got, "required_silenced": w, "code": f"{dg['prefix']}{dg['code']}"}),
                )


def primitives(ctx, rng, root: Path, reqs: list, expect: list, meta: list) -> None:
    """Path(s), a / b, Path(cfg).parent and Path(s).resolve() against the model on real trees"""
    links = links_of(root)
    leaves = lexical_leaves(root)
    proj = root / "proj"
    pool = [os.path.relpath(p, proj) for p in leaves[:30]] + ["", ".", "..", "/", "//", "//x/y", "///x", "a/./b/../c/", "./a//b", "../..", "src/../src2/./", "srcx/..", "chain/..", "dangling/x/..", "nope/../src", "/../x"]
    strs = []
    for _ in range(120 if ctx.quick else 600):
        s = rng.choice(pool)
        if rng.random() < 0.3:
            s = decorate(rng, s, root, str(proj))
        if rng.random() < 0.15:
            s = str(proj) + "/" + s
        strs.append(s)
    for s in strs:
        p = Path(s)
        reqs.append({"verb": "parse_path", "s": s})
        expect.append({"abs": p.is_absolute(), "parts": list(p.parts[1:] if p.is_absolute() else p.parts)})
        meta.append(("parse_path", s))
        t = rng.choice(strs)
        j = Path(s) / Path(t)
        reqs.append({"verb": "path_join", "a": s, "b": t})
        expect.append({"abs": j.is_absolute(), "parts": list(j.parts[1:] if j.is_absolute() else j.parts)})
        meta.append(("path_join", (s, t)))
        for cf in (s, None):
            r = Path(cf).parent if cf else Path()
            reqs.append({"verb": "config_root", "config_file": cf})
            expect.append({"abs": r.is_absolute(), "parts": list(r.parts[1:] if r.is_absolute() else r.parts)})
            meta.append(("config_root", cf))
    for cwd in [proj, root, proj / "src", proj / "srcx", proj / "other" / "into_src"]:
        if not cwd.is_dir():
            continue
        with settings_io.Cwd(cwd):
            real = []
            for s in strs:
                try:
                    real.append(comps(str(Path(s).resolve())))
                except RuntimeError:
                    real.append(None)
            cwd_real = os.getcwd()
        reqs.append({"verb": "resolve", "links": links, "fuel": FUEL, "cwd": comps(cwd_real), "paths": strs})
        expect.append({"r": real})
        meta.append(("resolve", str(cwd)))


def jungle(ctx, rng, root: Path, reqs: list, expect: list, meta: list) -> None:
    """Path(s).resolve() vs the model on an adversarial symlink forest (incl. loops: RuntimeError = null)"""
    links = links_of(root)
    strs = []
    for _ in range(150 if ctx.quick else 400):
        s = "/".join(rng.choice(JUNGLE_ATOMS) for _ in range(rng.randint(1, 5)))
        if rng.random() < 0.15:
            s = str(root) + "/" + s
        strs.append(s)
    for cwd in [root, root / "a" / "b", root / "d"]:
        with settings_io.Cwd(cwd):
            real = []
            for s in strs:
                try:
                    real.append(comps(str(Path(s).resolve())))
                except RuntimeError:
                    real.append(None)
            # realpath(strict=False) met a loop, gave up and returned a partly unresolved path (no exception because the
            # final stat() said ENOENT or, after lexical normalisation, succeeded): the kernel reports ELOOP for the
            # original path, or the "resolved" path still contains a symlink
            lexrec = [
                kernel_real(s)[0] == "eloop" or (r is not None and any(os.path.islink("/" + "/".join(r[:k])) for k in range(1, len(r) + 1)))
                for s, r in zip(strs, real)
            ]
        reqs.append({"verb": "resolve", "links": links, "fuel": 200000, "cwd": comps(str(cwd)), "paths": strs})
        expect.append({"r": real, "kernel_eloop": lexrec})
        meta.append(("resolve", str(cwd)))


def cli_scenario(job: tuple) -> dict:
    """fresh tree, one refurb run with the amend tables and one without, all leaves at once"""
    base, idx, ops, sc_spec, seed_tag = job
    root = Path(os.path.realpath(base)) / f"cli{idx}"
    root.mkdir()
    build(root, ops)
    rng = core.rng(seed_tag)
    sc = gen_scenarios(rng, root, 1)[0] if sc_spec is None else sc_spec(root)
    leaves = lexical_leaves(root)
    # one spelling per module name mypy will derive: dotted lexical path under cwd, else the bare stem
    chosen: dict[str, str] = {}
    order = list(leaves)
    rng.shuffle(order)
    for lex in order:
        under = lex.startswith(sc.cwd_real + "/")
        key = lex if under else "stem:" + os.path.basename(lex)
        chosen.setdefault(key, lex)
    # a top-level module under cwd and an outside module may still share a name: drop outside duplicates
    top = {os.path.basename(l) for k, l in chosen.items() if not k.startswith("stem:") and os.path.dirname(l) == sc.cwd_real}
    files = {}
    for key, lex in list(chosen.items())[:MAX_CLI_FILES]:
        if key.startswith("stem:") and os.path.basename(lex) in top:
            continue
        files[spell_file(rng, lex, sc.cwd_real)] = lex
    # sometimes hand a whole (link-free) directory below cwd to refurb instead of its files: mypy then names the files
    dir_files: list[str] = []
    dir_arg: list[str] = []
    if sc_spec is None and rng.random() < 0.35:
        cands = []
        for dp, _dn, _fn in os.walk(sc.cwd_real, followlinks=False):
            if dp == sc.cwd_real or ".mypy_cache" in dp:
                continue
            sub = list(os.walk(dp, followlinks=False))
            if any(os.path.islink(os.path.join(a, n)) for a, b, c in sub for n in b + c):
                continue
            if any(n.endswith(".py") for _a, _b, c in sub for n in c):
                cands.append(dp)
        if cands:
            D = rng.choice(sorted(cands))
            files = {k: v for k, v in files.items() if not v.startswith(D + "/")}
            dir_files = [os.path.join(a, n) for a, _b, c in os.walk(D) for n in c if n.endswith(".py")]
            dir_arg = [rng.choice(["", "./"]) + os.path.relpath(D, sc.cwd_real) + rng.choice(["", "/"])]
    cfg_target = sc.cfg_write  # open() follows a symlinked config file
    argv = [*files.keys(), *dir_arg, "--quiet", *(["--config-file", sc.cfg_given] if sc.cfg_given else [])]
    Path(cfg_target).write_text(toml_of(sc.table, sc.extra_ignore))
    rc1, out1, err1 = core.refurb_cli(argv, cwd=Path(sc.cwd))
    # the oracle and the model inputs must be computed while the tree is as the run saw it
    links = links_of(root)
    Path(cfg_target).write_text(toml_of([], sc.extra_ignore))
    rc0, out0, err0 = core.refurb_cli(argv, cwd=Path(sc.cwd))
    return {"root": str(root), "ops": ops, "sc": sc, "files": files, "dir_files": dir_files, "argv": argv, "links": links, "with": (rc1, out1, err1), "without": (rc0, out0, err0)}


def nkey(cwd_real: str, name: str) -> str:
    return os.path.normpath(os.path.join(cwd_real, name))


def reported(out: str, cwd_real: str) -> tuple[set, list[str]]:
    diags, other = core.parse_plain(out)
    return {(nkey(cwd_real, d["file"]), d["prefix"], d["code"]) for d in diags}, other


def loop_scenario(kind: str):
    def make(root: Path) -> Scenario:
        proj = root / "proj"
        if kind == "eloop":
            os.symlink("loop", proj / "loop")
            path = "loop"
        else:
            path = "a\x00b"
        return Scenario(idx=0, cwd=str(proj), cwd_real=str(proj), placement="proj", cfg_given="cfg.toml", cfg_write=str(proj / "cfg.toml"), table=[{"path": path, "ignore": ["FURB123"]}], extra_ignore=None)

    return make


def run(ctx) -> None:
    res = ctx.res
    rng = ctx.rng("c12")
    n_layouts = 3 if ctx.quick else 12
    n_scen = 60 if ctx.quick else 200
    n_cli = 20 if ctx.quick else 160
    res.rule = (
        "real directory trees (1 fixed layout: src/src2/src_old/srcx siblings, nesting, dir+file symlinks in both directions, absolute/"
        "chained/dangling links, config dirs; + random layouts over sibling-prefixed names) x working directory (project root, its parent, "
        "sub-directories, a directory entered through a symlink) x config placement (default pyproject.toml in cwd, same dir, sibling dir, "
        "parent dir, nested dirs, a symlinked config file; spelled absolute / relative / with ./ and //) x amend tables (1-3 entries; paths: "
        "respelled relative ways to dirs/files/links incl. ./ // /./ x/../ and trailing slashes, absolute, '', '.', '..', string-prefix "
        "near-misses, non-existent; ignore lists over 10 code/category atoms) x file spelling (absolute, relative, ./, //; also through "
        "directory links) x error class (FURB123, FURB105, FURB141, plugin XYZ7). A case = one (layout, cwd, config, table, file, code); "
        "every case has at least one path-scoped entry (non-trivial); distinct = distinct tuples. CLI cases = per (scenario, file, code) "
        "verdicts of a with/without-amend pair of runs over all leaves of a fresh tree."
    )
    reqs: list = []
    pending: list = []
    p_reqs: list = []
    p_expect: list = []
    p_meta: list = []
    with core.scratch("rv-c12-") as d0:
        d = Path(os.path.realpath(d0))
        layouts = [("fixed", fixed_layout())] + [(f"rand{i}", random_layout(ctx.rng(f"layout{i}"))) for i in range(n_layouts - 1)]
        for lid, ops in layouts:
            root = d / lid
            root.mkdir()
            build(root, ops)
            (root / "proj" / "conf").mkdir(exist_ok=True)
            inprocess(ctx, ctx.rng("inproc:" + lid), root, ops, lid, n_scen, reqs, pending)
            if lid == "fixed" or not ctx.quick:
                primitives(ctx, ctx.rng("prim:" + lid), root, p_reqs, p_expect, p_meta)
        for i in range(4 if ctx.quick else 30):
            root = d / f"jungle{i}"
            root.mkdir()
            build(root, jungle_layout(ctx.rng(f"jungle{i}")))
            jungle(ctx, ctx.rng(f"junglepaths{i}"), root, p_reqs, p_expect, p_meta)

        # ---- model vs implementation
        if ctx.driver.available():
            answers = ctx.driver.batch(reqs)
            for a, (lid, ops, sc, diags, impl) in zip(answers, pending):
                for dg, got, mv in zip(diags, impl, a["r"]):
                    if norm_crash(got) != model_verdict(mv):
                        res.disagree("amend", {"layout": lid, "cwd": sc.cwd, "config_file": sc.cfg_given, "table": sc.table, "diag": dg}, model_verdict(mv), got)
            for rq, a, e, m in zip(p_reqs, ctx.driver.batch(p_reqs), p_expect, p_meta):
                if m[0] != "resolve":
                    res.case(("prim", m[0], json.dumps(m[1]).replace(str(d), "SCRATCH")), nontrivial=True)
                    res.bump("prim:" + m[0])
                    if a != e:
                        res.disagree(m[0], m[1], a, e)
                    continue
                for i, (sp, x, y) in enumerate(zip(rq["paths"], a["r"], e["r"])):
                    res.case(("resolve", m[1].replace(str(d), "SCRATCH"), sp.replace(str(d), "SCRATCH")), nontrivial=True)
                    res.bump("prim:resolve-paths")
                    if y is None:
                        res.bump("prim:resolve-symlink-loop")
                    if x == y:
                        continue
                    if x is None and e.get("kernel_eloop", [False] * (i + 1))[i]:
                        # a loop that the path leaves again ('..') or that sits behind a missing component: realpath gives
                        # up, normalises lexically and the final stat() does not say ELOOP; the model reports the loop.
                        # Documented over-approximation of the model (refurb then has an entry path that covers nothing).
                        res.bump("prim:resolve-loop-then-lexical-recovery")
                        continue
                    res.disagree("resolve", {"cwd": m[1], "path": sp}, x, y)
        else:
            res.disagreements.append({"where": "driver", "reason": "driver executable not built"})
        if pending:
            lid, ops, sc, diags, impl = pending[len(pending) // 2]
            res.sample(json.loads(json.dumps({"layout": lid, "cwd": sc.cwd, "config_file": sc.cfg_given, "table": sc.table, "file": diags[0]["file"], "code": f"{diags[0]['prefix']}{diags[0]['code']}", "impl_silenced": impl[0]}).replace(str(d), "SCRATCH")))
            lid, ops, sc, diags, impl = pending[-1]
            res.sample(json.loads(json.dumps({"layout": lid, "cwd": sc.cwd, "config_file": sc.cfg_given, "table": sc.table, "file": diags[-1]["file"], "code": f"{diags[-1]['prefix']}{diags[-1]['code']}", "impl_silenced": impl[-1]}).replace(str(d), "SCRATCH")))

        # ---- end to end through the CLI
        jobs = []
        for i in range(n_cli):
            ops = fixed_layout() if i % 3 != 2 else random_layout(ctx.rng(f"clilayout{i}"))
            jobs.append((str(d), i, ops, None, f"{core.seed()}:C12:cli{i}"))
        jobs.append((str(d), n_cli, fixed_layout(), loop_scenario("eloop"), f"{core.seed()}:C12:loop"))
        jobs.append((str(d), n_cli + 1, fixed_layout(), loop_scenario("nul"), f"{core.seed()}:C12:nul"))
        with ThreadPoolExecutor(14) as ex:
            results = list(ex.map(cli_scenario, jobs))
        cli_reqs = []
        for r in results:
            sc = r["sc"]
            # the names refurb itself prints (for a directory argument: the names mypy gave the files)
            printed = sorted({x["file"] for x in core.parse_plain(r["without"][1])[0]})
            given = {nkey(sc.cwd_real, f): f for f in r["files"]}
            names = [given.get(nkey(sc.cwd_real, f), f) for f in printed] if printed else list(r["files"])
            r["names"] = sorted(set(names) | set(r["files"]))
            dg = [{"file": f, "prefix": p, "code": c, "categories": list(CATS[(p, c)])} for f in r["names"] for p, c in PROBE_CODES]
            cli_reqs.append({"verb": "amend", "links": r["links"], "fuel": FUEL, "cwd": comps(sc.cwd_real), "config_file": sc.cfg_given, "ignore": model_ignore(sc.table, sc.extra_ignore), "diags": dg})
        cli_model = ctx.driver.batch(cli_reqs) if ctx.driver.available() else [None] * len(results)
        for r, creq, cm in zip(results, cli_reqs, cli_model):
            sc = r["sc"]
            res.bump("cli:runs", 2)
            rc1, out1, err1 = r["with"]
            rc0, out0, err0 = r["without"]
            rep1, other1 = reported(out1, sc.cwd_real)
            rep0, other0 = reported(out0, sc.cwd_real)
            rp = lambda extra: replay_of(r["ops"], sc, "", {**extra, "argv": r["argv"]})  # noqa: E731
            if err0.strip() or other0:
                res.notes.append(f"baseline run (no amend tables) of a CLI scenario failed: {(err0.strip() or other0[0])[-200:]}")
                res.bump("cli:baseline-failed")
                continue
            missing = [(f, p, c) for f in [*r["files"], *r["dir_files"]] for p, c in PROBE_CODES if (nkey(sc.cwd_real, f), p, c) not in rep0]
            if r["dir_files"]:
                res.bump("cli:scenarios-with-directory-argument")
            if missing:
                res.notes.append(f"baseline run lacks {len(missing)} expected diagnostics, e.g. {missing[0]}")
                res.bump("cli:baseline-incomplete")
                continue
            if err1.strip() or other1:
                tail = (err1.strip().splitlines() or other1)[-1]
                cause = unresolvable(sc.cwd_real, sc.cfg_given, sc.table)
                res.violate(
                    f"with the amend tables the run fails instead of reporting ({tail[:120]}); without them it reports {len(rep0)} diagnostics",
                    {"kind": "entry-unresolvable-crash", "cause": cause} if cause else {"kind": "run-fails-with-amend", "tail": tail[:80]},
                    rp({"observed": tail, "required": "diagnostics for every file not covered by an entry", "extra_setup": "ln -s loop proj/loop" if cause == "crash-eloop" else ""}),
                )
                continue
            for i, dgm in enumerate(creq["diags"]):
                f, p, c = dgm["file"], dgm["prefix"], dgm["code"]
                silenced = (nkey(sc.cwd_real, f), p, c) not in rep1
                res.case(json.dumps(["cli", r["root"].rsplit("/", 1)[-1], f, p, c, sc.table, sc.cwd, sc.cfg_given], sort_keys=True).replace(r["root"], "ROOT"), nontrivial=True)
                res.bump(f"cli:silenced={silenced}")
                res.bump(f"cli:placement={sc.placement.split(':')[0]}")
                if cm is not None and model_verdict(cm["r"][i]) != silenced:
                    res.disagree("cli-amend", {"cwd": sc.cwd, "config_file": sc.cfg_given, "table": sc.table, "file": f, "code": f"{p}{c}"}, model_verdict(cm["r"][i]), silenced)
                w = oracle(sc.cwd_real, sc.cfg_given, sc.table, f, p, c, CATS[(p, c)])
                if w is None:
                    res.bump("cli:oracle-unspecified")
                    continue
                a = oracle(sc.cwd_real, sc.cfg_given, sc.table, f, p, c, CATS[(p, c)], anchor_cwd=True)
                if a is not None and a != w:
                    res.bump("cli:cwd-anchored-reading-would-differ")
                if silenced != w:
                    res.violate(
                        f"CLI: {p}{c} in {f} is {'silenced' if silenced else 'reported'} but the amend tables {sc.table} (config {sc.cfg_given or 'pyproject.toml'}, cwd {sc.cwd}) require the opposite",
                        {"kind": "silenced-but-outside" if silenced else "reported-but-covered", "placement": sc.placement.split(":")[0], "via": "cli"},
                        rp({"file": f, "code": f"{p}{c}", "observed_silenced": silenced, "required_silenced": w}),
                    )
            # files elsewhere / other codes: nothing may appear that the baseline did not have
            extra = rep1 - rep0
            if extra:
                res.violate("the amend tables ADD diagnostics", {"kind": "amend-adds"}, rp({"added": sorted(extra)[:5]}))
        if results:
            r = results[0]
            res.sample({"cli_argv": r["argv"][-6:], "n_files": len(r["names"]), "cwd": r["sc"].cwd.replace(r["root"], "ROOT"), "table": r["sc"].table, "reported_with": len(reported(r["with"][1], r["sc"].cwd_real)[0]), "reported_without": len(reported(r["without"][1], r["sc"].cwd_real)[0])})
    res.assumptions += [
        "`resolve` in the model = os.path.realpath(strict=False) + Path.resolve's loop check, over the finite symlink map read off the scratch tree; the working directory is physical (os.getcwd()); fuel 4096 is enough for every generated layout (fuel monotonicity is proved)",
        "the directory of the config file in use = the directory through which the config file was named (dirname of --config-file, else the working directory): a symlinked config DIRECTORY is followed, a symlinked config FILE is not",
        "oracle: kernel canonical names via open(O_PATH) + /proc/self/fd; entries that do not exist or cannot be resolved (symlink loop, NUL) cover nothing; entries that reach '..' through a non-existent component are left unspecified",
        "model over-approximation: a path that runs through a symlink loop and leaves it again lexically (`loop/../x`) is 'unresolvable' in the model (as for the kernel) while CPython's realpath recovers lexically; generated entries avoid this shape, the resolve correspondence counts it separately",
        "file arguments name regular .py files that exist; error.filename is the path mypy reports, relative to the working directory",
    ]
    res.not_proved += [
        "that `walk` is what os.path.realpath does and that `parsePath` is `Path(...)`: correspondence on real trees, not a theorem",
        "mypy's choice of `file.path` for directory arguments (the CLI oracle names files by what refurb prints)",
    ]


def _cats() -> dict:
    from refurb.loader import get_error_class, get_modules

    out = {}
    for m in get_modules([]):
        e = get_error_class(m)
        if e and (e.prefix, e.code) in PROBE_CODES:
            out[(e.prefix, e.code)] = tuple(e.categories)
    return out


class _Lazy(dict):
    def __missing__(self, key):
        self.update(_cats())
        return dict.__getitem__(self, key)


CATS = _Lazy()


def replay(path) -> int:
    print(Path(path).read_text())
    return 0
