"""Running refurb's settings code in-process and canonicalising what comes out (C09, C14, C12)."""

from __future__ import annotations

import datetime as _dt
import os
import tomllib
from pathlib import Path
from typing import Any


def annotate(v: Any) -> dict[str, Any]:
    """tomllib value -> wire form of Model.Toml (each node carries Python's str())."""
    if isinstance(v, bool):
        return {"t": "bool", "v": v}
    if isinstance(v, int):
        return {"t": "int", "v": v}
    if isinstance(v, float):
        return {"t": "float", "py": str(v), "truthy": bool(v)}
    if isinstance(v, str):
        return {"t": "str", "v": v}
    if isinstance(v, (_dt.datetime, _dt.date, _dt.time)):
        return {"t": "datetime", "py": str(v)}
    if isinstance(v, list):
        return {"t": "arr", "items": [annotate(x) for x in v], "py": str(v)}
    if isinstance(v, dict):
        return {"t": "tbl", "items": [[k, annotate(x)] for k, x in v.items()], "py": str(v)}
    raise TypeError(type(v))


def file_outcome(path: Path) -> dict[str, Any]:
    """What reading + tomllib-parsing the config file yields (input of the model's load_settings)."""
    try:
        text = path.read_text()
    except FileNotFoundError:
        return {"r": "notFound"}
    except IsADirectoryError:
        return {"r": "isDir"}
    except UnicodeDecodeError as e:
        return {"r": "invalid", "msg": str(e)}
    except OSError as e:
        return {"r": "crash", "kind": type(e).__name__}
    try:
        doc = tomllib.loads(text)
    except tomllib.TOMLDecodeError as e:
        return {"r": "invalid", "msg": str(e)}
    return {"r": "ok", "doc": annotate(doc)}


def clsf_json(c: Any) -> dict[str, Any]:
    from refurb.error import ErrorCode

    path = None if c.path is None else str(c.path)
    if isinstance(c, ErrorCode):
        return {"k": "code", "p": c.prefix, "i": c.id, "path": path}
    return {"k": "cat", "n": c.value, "path": path}


def _ckey(d: dict[str, Any]) -> tuple:
    return (d["k"], d.get("p", ""), d.get("i", 0), d.get("n", ""), d.get("path") or "")


def canon_set(items: list[dict[str, Any]]) -> list[dict[str, Any]]:
    seen = {}
    for d in items:
        seen[_ckey(d)] = d
    return [seen[k] for k in sorted(seen)]


def settings_json(s: Any) -> dict[str, Any]:
    return {
        "files": list(s.files),
        "explain": None if s.explain is None else [s.explain.prefix, s.explain.id],
        "ignore": canon_set([clsf_json(c) for c in s.ignore]),
        "load": [str(x) if isinstance(x, str) else str(x) for x in s.load],
        "enable": canon_set([clsf_json(c) for c in s.enable]),
        "disable": canon_set([clsf_json(c) for c in s.disable]),
        "debug": s.debug,
        "generate": s.generate,
        "help": s.help,
        "version": s.version,
        "quiet": s.quiet,
        "enable_all": s.enable_all,
        "disable_all": s.disable_all,
        "config_file": s.config_file,
        "python_version": None if s.python_version is None else list(s.python_version),
        "mypy_args": list(s.mypy_args),
        "format": s.format,
        "sort_by": s.sort_by,
        "verbose": s.verbose,
        "timing_stats": None if s.timing_stats is None else str(s.timing_stats),
        "color": s.color,
        "load_all_str": all(isinstance(x, str) for x in s.load),
    }


def canon_model_settings(v: dict[str, Any]) -> dict[str, Any]:
    v = dict(v)
    for k in ("ignore", "enable", "disable"):
        v[k] = canon_set(v[k])
    v["load_all_str"] = True  # the model's parser rejects anything else
    if v.get("timing_stats") is not None:
        v["timing_stats"] = str(Path(v["timing_stats"]))
    return v


def classify_exception(e: BaseException) -> dict[str, Any]:
    if isinstance(e, ValueError):
        msg = str(e)
        if msg.startswith("refurb: "):
            return {"r": "refurb", "msg": msg}
        return {"r": "foreign", "kind": type(e).__name__ if type(e).__name__ != "ValueError" else "ValueError"}
    return {"r": "crash", "kind": type(e).__name__}


def impl_outcome(fn: Any, *args: Any) -> dict[str, Any]:
    try:
        return {"r": "ok", "v": settings_json(fn(*args))}
    except SystemExit as e:  # pragma: no cover
        return {"r": "crash", "kind": f"SystemExit({e.code})"}
    except BaseException as e:  # noqa: BLE001
        return classify_exception(e)


def model_outcome(ans: dict[str, Any]) -> dict[str, Any]:
    if ans.get("r") == "ok" and isinstance(ans.get("v"), dict):
        return {"r": "ok", "v": canon_model_settings(ans["v"])}
    return ans


class Cwd:
    def __init__(self, d: Path) -> None:
        self.d = d

    def __enter__(self) -> None:
        self.old = os.getcwd()
        os.chdir(self.d)

    def __exit__(self, *a: Any) -> None:
        os.chdir(self.old)
