/-
Model of refurb's lightweight type resolver (refurb/checks/common.py:540-783):

  `_is_same_type` / `is_same_type`, `SIMPLE_TYPES` (a parameter, regenerated into Generated/SimpleTypes.lean),
  `_get_builtin_mypy_type`, `get_mypy_type`, `mypy_type_to_python_type`, `extract_typeinfo`, `is_subclass`,
  `is_mapping_type`, `is_sized_type`, and FURB123's decision (`no_unnecessary_cast.check`),

over a model of the part of mypy's `Type` / `SymbolNode` ADTs they look at.  The code that exists is modelled,
including its fall-through to `None`, the missing alias expansion in `extract_typeinfo`, the declaration-based typing of
names (no flow sensitivity) and the conservative `IndexExpr` case (base must resolve to an `Instance`).

`inferRef` / `Res` are NOT a model of refurb: they are a small reference for "what mypy infers" on the same
expression fragment (flow-sensitive names, enum members, walrus = value), validated against mypy's own
`result.types` by harness/props/c05.py.
-/
namespace RefurbVerif.Types

/-- mypy `Type` (the constructors the resolver distinguishes).  `inst` = `Instance(type.fullname, args)`,
    `tuple` = `TupleType(items, partial_fallback.type.fullname)`, `alias` = `TypeAliasType` with its target,
    `aliasUnresolved` = a `TypeAliasType` whose `.alias` is None, `typeVar` = a not-yet-instantiated type
    variable, `other` = every other `Type` subclass (TypedDictType, TypeType, Overloaded, ...). -/
inductive Ty where
  | inst (fullname : String) (args : List Ty)
  | any
  | none
  | union (items : List Ty)
  | tuple (items : List Ty) (fallback : String)
  | callable (ret : Ty)
  | typeVar
  | alias (target : Ty)
  | aliasUnresolved
  | literal (base : Ty)
  | uninhabited
  | other
  deriving Repr, Inhabited, BEq

/-- the `expected` argument of `is_same_type`: `None`, `typing.Any`, a Python type object (identified by its
    name: `int`, `os.PathLike`, ...), or a fully qualified class name given as a `str` -/
inductive Expected where
  | pyNone
  | pyAny
  | pyType (name : String)
  | named (fullname : String)
  deriving Repr, Inhabited, DecidableEq

/-- mypy symbol nodes as far as `get_mypy_type` distinguishes them -/
inductive Sym where
  | var (ty : Option Ty)
  | func (ty : Option Ty)
  | overloaded
  | decorator
  | typeInfo (fullname : String)
  | typeAlias (target : Ty)
  | module (name : String)
  | otherSym
  deriving Repr, Inhabited, BEq

/-- what `get_mypy_type` returns when it is not `None`: a `Type`, or one of the symbol nodes it passes through -/
inductive Val where
  | ty (t : Ty)
  | info (fullname : String)
  | aliasNode (target : Ty)
  | file (name : String)
  deriving Repr, Inhabited, BEq

structure ClassInfo where
  fullname : String
  /-- `TypeInfo.mro` as fullnames (starts with the class itself) -/
  mro : List String
  /-- `TypeInfo.names` (the class's own symbol table; entries whose `.node` is None are left out) -/
  names : List (String × Sym)
  /-- `TypeInfo.is_enum` -/
  isEnum : Bool := false
  /-- names of the enum members, if the class is an enum (used by the reference only, never by the resolver) -/
  enumMembers : List String := []
  /-- calling the class does not give a plain instance of it: `builtins.type` (mypy special-cases `type(x)`),
      TypedDict classes (the call has a `TypedDictType`); used by the reference only -/
  specialCtor : Bool := false
  deriving Repr, Inhabited

structure Ctx where
  classes : List ClassInfo
  modules : List (String × List (String × Sym))
  /-- `types.BUILTINS_MYPY_FILE.names` -/
  builtins : List (String × Sym)
  deriving Repr, Inhabited

def Ctx.cls (Γ : Ctx) (c : String) : Option ClassInfo := Γ.classes.find? (fun k => k.fullname == c)

def Ctx.mro (Γ : Ctx) (c : String) : List String := ((Γ.cls c).map (·.mro)).getD []

def Ctx.classNames (Γ : Ctx) (c : String) : List (String × Sym) := ((Γ.cls c).map (·.names)).getD []

def Ctx.moduleNames (Γ : Ctx) (m : String) : List (String × Sym) := (Γ.modules.lookup m).getD []

/-- `TypeInfo.get(name)`: first hit along the MRO -/
def Ctx.lookupMro (Γ : Ctx) (c : String) (n : String) : Option Sym :=
  (Γ.mro c).findSome? (fun k => (Γ.classNames k).lookup n)

def Ctx.specialCtor (Γ : Ctx) (c : String) : Bool :=
  match Γ.cls c with
  | some k => k.specialCtor
  | none => false

def Ctx.isEnum (Γ : Ctx) (c : String) : Bool :=
  match Γ.cls c with
  | some k => k.isEnum
  | none => false

def Ctx.isEnumMember (Γ : Ctx) (c : String) (n : String) : Bool :=
  match Γ.cls c with
  | some k => k.isEnum && k.enumMembers.contains n
  | none => false

/-- the expression forms `get_mypy_type` distinguishes.  Children that it never looks at (arguments, display
    items, operands of operators: it reads mypy's `method_type` annotation instead) are not represented.
    `narrowed` is a fact about mypy's binder at that reference (the narrowed type, when it differs from the
    declaration); the resolver never reads it. -/
inductive Expr where
  | strLit | bytesLit | intLit | floatLit | complexLit
  | name (fullname : String) (node : Option Sym) (narrowed : Option Ty)
  | dictE | listE | tupleE | setE
  | member (e : Expr) (name : String) (narrowed : Option Ty)
  /-- `CallExpr(analyzed=CastExpr(type=ty))` -/
  | castCall (ty : Ty)
  | call (callee : Expr)
  | unary (op : String) (methodType : Option Ty)
  | op (op : String) (methodType : Option Ty)
  /-- `baseUnion`: mypy's type of the indexed value is a union (mypy then checks every member in turn and
      `method_type` keeps whatever the LAST member selected); a fact the resolver never reads — it asks instead
      whether the base resolves to an `Instance` -/
  | index (base : Expr) (methodType : Option Ty) (baseUnion : Bool)
  | await (e : Expr)
  /-- a lambda whose body is exactly `return <e>` -/
  | lambda (body : Expr)
  | lambdaOther
  | walrus (target value : Expr)
  /-- ConditionalExpr, comprehensions, ComparisonExpr, SliceExpr, StarExpr, ... -/
  | other
  deriving Repr, Inhabited

/-! ### is_same_type -/

abbrev SimpleTypes := List (String × Expected)

/-- the `Instance | TypeInfo` branch of `_is_same_type` for a class given by its fullname:
    `SIMPLE_TYPES[str_type] is expected` or `isinstance(expected, str) and str_type == expected` -/
def isSameName (tbl : SimpleTypes) (c : String) (e : Expected) : Bool :=
  (match tbl.lookup c with
    | some v => v == e
    | none => false)
  || (match e with
    | .named s => c == s
    | _ => false)

/-- `_is_same_type(ty, expected)` for a `Type` -/
def isSameTy (tbl : SimpleTypes) : Ty → Expected → Bool
  | .alias t, e => isSameTy tbl t e
  | .tuple _ fb, e => e == .pyType "tuple" && fb == "builtins.tuple"
  | .any, e => e == .pyAny
  | .inst c _, e => isSameName tbl c e
  | _, _ => false

/-- `_is_same_type(ty, expected)`; `none` is Python's `None` (the resolver had no answer) -/
def isSame1 (tbl : SimpleTypes) : Option Val → Expected → Bool
  | none, .pyNone => true
  | none, _ => false
  | some (.ty t), e => isSameTy tbl t e
  | some (.info _), _ => false
  | some (.aliasNode _), _ => false
  | some (.file _), _ => false

/-- `is_same_type(ty, *expected)` -/
def isSameType (tbl : SimpleTypes) (v : Option Val) (expected : List Expected) : Bool :=
  expected.any (isSame1 tbl v)

/-! ### get_mypy_type -/

/-- `_get_builtin_mypy_type(name)` -/
def builtinType (Γ : Ctx) (n : String) : Option Ty :=
  match Γ.builtins.lookup n with
  | some (.typeInfo fn) => some (.inst fn [])
  | _ => none

/-- `get_mypy_type` applied to a symbol node -/
def symVal : Sym → Option Val
  | .var t => t.map .ty
  | .func t => t.map .ty
  | .typeInfo c => some (.info c)
  | .typeAlias t => some (.aliasNode t)
  | .module m => some (.file m)
  | _ => none

def isBoolLiteral (fullname : String) : Bool := fullname == "builtins.True" || fullname == "builtins.False"

/-- a class attribute reached through the class object: a `Var` of an enum class has the enum's type -/
def classAttr (Γ : Ctx) (c : String) (s : Sym) : Option Val :=
  match s with
  | .var t => if Γ.isEnum c then some (.ty (.inst c [])) else t.map .ty
  | s => symVal s

/-- the member lookup of the `MemberExpr` case, given what the receiver resolved to -/
def memberOf (Γ : Ctx) (recv : Option Val) (n : String) : Option Val :=
  match recv with
  | some (.file m) => (Γ.moduleNames m).lookup n |>.bind symVal
  | some (.info c) => (Γ.classNames c).lookup n |>.bind (classAttr Γ c)
  | some (.ty (.inst c _)) => (Γ.lookupMro c n).bind symVal
  | _ => none

/-- the `CallExpr(callee=...)` case, given what the callee resolved to -/
def callOf (callee : Option Val) : Option Val :=
  match callee with
  | some (.ty (.callable r)) => some (.ty r)
  | some (.aliasNode t) => some (.ty t)
  | some (.info c) => some (.ty (.inst c []))
  | _ => none

/-- the `method_type=CallableType(ret_type=ty)` pattern -/
def methodRet : Option Ty → Option Val
  | some (.callable r) => some (.ty r)
  | _ => none

/-- the `IndexExpr` case: `method_type`'s return type, provided the base resolved to an `Instance` -/
def Ty.expandAlias : Ty → Ty
  | .alias t => t.expandAlias
  | t => t

def indexOf (base : Option Val) (mt : Option Ty) : Option Val :=
  match base with
  | some (.ty t) =>
    match t.expandAlias with
    | .inst _ _ => methodRet mt
    | _ => none
  | _ => none

/-- the `AwaitExpr` case, given what the operand resolved to -/
def awaitOf (v : Option Val) : Option Val :=
  match v with
  | some (.ty (.inst "typing.Coroutine" [_, _, r])) => some (.ty r)
  | some (.ty (.inst "asyncio.tasks.Task" [r])) => some (.ty r)
  | _ => none

/-- the `LambdaExpr` case: `_build_placeholder_callable(ty)` when the body resolved to a `Type` -/
def lambdaOf (Γ : Ctx) (body : Option Val) : Option Val :=
  match body with
  | some (.ty t) =>
    (match builtinType Γ "function" with
      | some _ => some (.ty (.callable t))
      | none => none)
  | _ => none

def getMypyType (Γ : Ctx) : Expr → Option Val
  | .strLit => (builtinType Γ "str").map .ty
  | .bytesLit => (builtinType Γ "bytes").map .ty
  | .intLit => (builtinType Γ "int").map .ty
  | .floatLit => (builtinType Γ "float").map .ty
  | .complexLit => (builtinType Γ "complex").map .ty
  | .name fn node _ =>
    if isBoolLiteral fn then (builtinType Γ "bool").map .ty
    else node.bind symVal
  | .dictE => (builtinType Γ "dict").map .ty
  | .listE => (builtinType Γ "list").map .ty
  | .tupleE => (builtinType Γ "tuple").map .ty
  | .setE => (builtinType Γ "set").map .ty
  | .member e n _ => memberOf Γ (getMypyType Γ e) n
  | .castCall t => some (.ty t)
  | .call callee => callOf (getMypyType Γ callee)
  | .unary o mt => if o == "not" then (builtinType Γ "bool").map .ty else methodRet mt
  | .op _ mt => methodRet mt
  | .index base mt _ => indexOf (getMypyType Γ base) mt
  | .await e => awaitOf (getMypyType Γ e)
  | .lambda b => lambdaOf Γ (getMypyType Γ b)
  | .lambdaOther => none
  | .walrus _ value => getMypyType Γ value
  | .other => none

/-! ### mypy_type_to_python_type, extract_typeinfo, is_subclass -/

def mypyTypeToPythonType (tbl : SimpleTypes) : Option Val → Option Expected
  | some (.ty (.inst c _)) => tbl.lookup c
  | _ => none

/-- `extract_typeinfo`: the class whose MRO `is_subclass` walks.  No alias expansion; a `TupleType` (also a
    NamedTuple's) is answered with builtins' `tuple` (Python asserts that it exists: `none` here). -/
def extractTypeinfo (Γ : Ctx) : Option Val → Option String
  | some (.ty (.inst c _)) => some c
  | some (.ty (.tuple _ _)) =>
    (match builtinType Γ "tuple" with
      | some (.inst c _) => some c
      | _ => none)
  | _ => none

/-- `any(_is_same_class(x, t) for x in mro for t in expected)` -/
def mroMatches (tbl : SimpleTypes) (mro : List String) (expected : List Expected) : Bool :=
  mro.any (fun c => expected.any (isSameName tbl c))

def isSubclass (tbl : SimpleTypes) (Γ : Ctx) (v : Option Val) (expected : List Expected) : Bool :=
  match extractTypeinfo Γ v with
  | some c => mroMatches tbl (Γ.mro c) expected
  | none => false

def isMappingType (tbl : SimpleTypes) (Γ : Ctx) (v : Option Val) : Bool :=
  isSubclass tbl Γ v [.named "typing.Mapping"]

def isSizedType (tbl : SimpleTypes) (Γ : Ctx) (v : Option Val) : Bool :=
  isSubclass tbl Γ v [.named "typing.Sized", .named "typing.Collection"]

/-! ### FURB123 -/

/-- one row of `FUNC_NAME_MAPPING`: callee fullname ↦ (suffix, expected types) -/
abbrev FuncNameMapping := List (String × String × List Expected)

/-- FURB123's decision given what `get_mypy_type(arg)` returned -/
def furb123V (tbl : SimpleTypes) (fnm : FuncNameMapping) (calleeFullname : String) (v : Option Val) : Bool :=
  match fnm.lookup calleeFullname with
  | some (_, expected) => isSameType tbl v expected
  | none => false

/-- does `no_unnecessary_cast.check` report on `callee(arg)` (one positional argument)? -/
def furb123 (tbl : SimpleTypes) (fnm : FuncNameMapping) (Γ : Ctx) (calleeFullname : String) (arg : Expr) : Bool :=
  furb123V tbl fnm calleeFullname (getMypyType Γ arg)

/-! ### the reference: what mypy infers on the same fragment -/

/-- class of a type after alias expansion: the instance's class, or a tuple type's fallback class -/
def Ty.cls : Ty → Option String
  | .inst c _ => some c
  | .tuple _ fb => some fb
  | .alias t => t.cls
  | _ => Option.none

/-- reference for a class attribute reached through the class object: an enum MEMBER has the enum's type,
    everything else the declared type of the symbol -/
def classAttrRef (Γ : Ctx) (c n : String) (s : Sym) : Option Val :=
  match s with
  | .var t => if Γ.isEnumMember c n then some (.ty (.inst c [])) else t.map .ty
  | s => symVal s

/-- reference for a member access, given the receiver's reference result -/
def memberRef (Γ : Ctx) (recv : Option Val) (n : String) : Option Val :=
  match recv with
  | some (.info c) => (Γ.classNames c).lookup n |>.bind (classAttrRef Γ c n)
  | _ => memberOf Γ recv n

/-- the callee denotes a class whose call is not a plain instance of it -/
def specialCall (Γ : Ctx) (callee : Option Val) : Bool :=
  match callee with
  | some (.info c) => Γ.specialCtor c
  | _ => false

/-- reference for a call: as the resolver, except for the classes with a special constructor (`type(x)` has type
    `type[X]`, a TypedDict call a TypedDict type): the reference makes no claim there -/
def callRef (Γ : Ctx) (callee : Option Val) : Option Val :=
  if specialCall Γ callee then none else callOf callee

/-- executable reference: like the resolver, except that a narrowed reference has its narrowed type, an enum
    member has the enum's type, and a walrus has the type of its VALUE -/
def inferRef (Γ : Ctx) : Expr → Option Val
  | .strLit => (builtinType Γ "str").map .ty
  | .bytesLit => (builtinType Γ "bytes").map .ty
  | .intLit => (builtinType Γ "int").map .ty
  | .floatLit => (builtinType Γ "float").map .ty
  | .complexLit => (builtinType Γ "complex").map .ty
  | .name fn node narrowed =>
    if isBoolLiteral fn then (builtinType Γ "bool").map .ty
    else match narrowed with
      | some t => some (.ty t)
      | none => node.bind symVal
  | .dictE => (builtinType Γ "dict").map .ty
  | .listE => (builtinType Γ "list").map .ty
  | .tupleE => (builtinType Γ "tuple").map .ty
  | .setE => (builtinType Γ "set").map .ty
  | .member e n narrowed =>
    (match narrowed with
      | some t => some (.ty t)
      | none => memberRef Γ (inferRef Γ e) n)
  | .castCall t => some (.ty t)
  | .call callee => callRef Γ (inferRef Γ callee)
  | .unary o mt => if o == "not" then (builtinType Γ "bool").map .ty else methodRet mt
  | .op _ mt => methodRet mt
  | .index _ mt baseUnion => if baseUnion then none else methodRet mt
  | .await e => awaitOf (inferRef Γ e)
  | .lambda b => lambdaOf Γ (inferRef Γ b)
  | .lambdaOther => none
  | .walrus _ value => inferRef Γ value
  | .other => none

/-- the receiver of a member access denotes an enum class and the name is a `Var` of it that is NOT one of its
    members (`_ignore_`, an annotated non-member, ...): the resolver still answers with the enum's type -/
def enumNonMember (Γ : Ctx) (recv : Option Val) (n : String) : Bool :=
  match recv with
  | some (.info c) =>
    Γ.isEnum c && !(Γ.isEnumMember c n) &&
      (match (Γ.classNames c).lookup n with
        | some (.var _) => true
        | _ => false)
  | _ => false

/-- the guard under which the resolver and the reference coincide (Bool version for the driver; the theorems
    use `Plain` in Props/C05.lean) -/
def plainB (Γ : Ctx) : Expr → Bool
  | .name _ _ narrowed => narrowed.isNone
  | .member e n narrowed => narrowed.isNone && plainB Γ e && !(enumNonMember Γ (getMypyType Γ e) n)
  | .call callee => plainB Γ callee && !(specialCall Γ (getMypyType Γ callee))
  | .index base _ baseUnion => plainB Γ base && !baseUnion
  | .await e => plainB Γ e
  | .lambda b => plainB Γ b
  | .walrus _ value => plainB Γ value
  | _ => true

end RefurbVerif.Types
