import RefurbVerif.Wire.Basic
open Lean

namespace RefurbVerif.Wire

/-- driver verbs of this group (filled in by the property that owns it) -/
def handlePaths (_verb : String) (_j : Json) : Option Json := none

end RefurbVerif.Wire
