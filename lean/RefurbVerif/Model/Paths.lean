/-
Model of the path arithmetic behind per-path ("amend") ignores:
`is_ignored_via_amend` (refurb/main.py:100-122) and the pathlib/os.path operations it calls.

  Path(s)                 `parsePath`   (posix `_parse_path`: split on "/", drop "" and ".", keep "..")
  a / b                   `PPath.join`  (an absolute right operand replaces the left one)
  Path(cfg).parent        `PPath.parent` (purely lexical: drops the last component)
  Path(...).resolve()     `resolve fs fuel cwd` — os.path.realpath(strict=False) over a finite symlink
                          map `fs` (physical path of the link ↦ its target): start from the working
                          directory unless the path is absolute, expand components left to right; a
                          ".." pops the last component of the *already resolved* prefix; a component
                          that is a symlink is replaced by its target (restarting at "/" when the
                          target is absolute).  Running out of `fuel` = a symlink loop, for which
                          `Path.resolve` raises RuntimeError = `none`.
                          `resolvePy` adds Python's own failure: a NUL inside a component = `none`.
                          (Over-approximation: for `loop/../x` CPython falls back to lexical
                          normalisation and may succeed; the model says `none`, as the kernel would.)
  p.is_relative_to(q)     `isRelativeTo` on the component lists of two resolved paths
  is_ignored_via_amend    `ignoredViaAmend R s d`, for an arbitrary resolver `R`; an entry whose path
                          does not resolve is skipped (fix 5e5fe5a); `none` = the file itself does not

Components are compared as whole strings; nothing here ever looks inside a component.
-/
import RefurbVerif.Model.Settings

namespace RefurbVerif.Paths

/-- a parsed `PurePosixPath`: is it anchored at "/" (or "//"), and its components -/
structure PPath where
  abs : Bool
  parts : List String
  deriving DecidableEq, Repr

/-- `str.split("/")` on a character list (always non-empty) -/
def splitSlash : List Char → List (List Char)
  | [] => [[]]
  | c :: cs =>
    if c = '/' then [] :: splitSlash cs
    else match splitSlash cs with
      | [] => [[c]]
      | h :: t => (c :: h) :: t

/-- `if x and x != '.'` of `_parse_path` -/
def keepPart (p : List Char) : Bool := p != [] && p != ['.']

def partsOfChars (cs : List Char) : List String := ((splitSlash cs).filter keepPart).map String.ofList

/-- `Path(s)`: components and anchor.  (`//x` has root "//" in pathlib, but `resolve()` turns it into
    "/x", and every comparison in refurb happens after `resolve()`, so one flag is enough.) -/
def parsePath (s : String) : PPath :=
  { abs := s.toList.head? == some '/', parts := partsOfChars s.toList }

/-- `Path()` = `Path(".")` -/
def PPath.cur : PPath := { abs := false, parts := [] }

/-- `a / b` -/
def PPath.join (a b : PPath) : PPath :=
  if b.abs then b else { abs := a.abs, parts := a.parts ++ b.parts }

/-- `p.parent` (lexical; the parent of "." is ".", of "/" is "/") -/
def PPath.parent (p : PPath) : PPath := { p with parts := p.parts.dropLast }

/-- `Path(settings.config_file).parent if settings.config_file else Path()` -/
def configRoot (configFile : Option String) : PPath :=
  match configFile with
  | none => .cur
  | some s => if s = "" then .cur else (parsePath s).parent

/-- the symlinks of the file system: physical path of the link (components from "/") ↦ target -/
abbrev Links := List (List String × PPath)

/-- `_joinrealpath`: `cur` is the resolved prefix (components from "/"), the second list is still to do -/
def walk (fs : Links) : Nat → List String → List String → Option (List String)
  | _, cur, [] => some cur
  | 0, _, _ :: _ => none
  | n + 1, cur, c :: rest =>
    if c = ".." then walk fs n cur.dropLast rest
    else match fs.lookup (cur ++ [c]) with
      | none => walk fs n (cur ++ [c]) rest
      | some t => walk fs n (if t.abs then [] else cur) (t.parts ++ rest)

/-- `Path(p).resolve()` in working directory `cwd` (physical components from "/") -/
def resolve (fs : Links) (fuel : Nat) (cwd : List String) (p : PPath) : Option (List String) :=
  walk fs fuel (if p.abs then [] else cwd) p.parts

/-- a component with an embedded NUL: `os.lstat` raises ValueError ("embedded null byte"), which
    `realpath` does not catch (it only catches OSError) -/
def hasNul (p : PPath) : Bool := p.parts.any (fun c => c.toList.contains (Char.ofNat 0))

/-- `Path(p).resolve()` as Python runs it: `none` = an exception escapes (ValueError for a NUL in any
    component — every component other than ".." is `lstat`ed —, RuntimeError for a symlink loop) -/
def resolvePy (fs : Links) (fuel : Nat) (cwd : List String) (p : PPath) : Option (List String) :=
  if hasNul p then none else resolve fs fuel cwd p

/-- `p.is_relative_to(q)` for two resolved (absolute) paths given by their components -/
def isRelativeTo (p q : List String) : Bool := q.isPrefixOf p

/-- what `is_ignored_via_amend` reads of an `Error` -/
structure AmendDiag where
  file : String
  pfx : String
  code : Nat
  categories : List String
  deriving DecidableEq, Repr

/-- `str(ErrorCode)` = `f"{prefix}{id}"` -/
def codeStr (pfx : String) (id : Nat) : String := pfx ++ toString id

/-- the entry names the diagnostic: same `str(ErrorCode)`, or one of its categories -/
def clsNames (c : Cls) (d : AmendDiag) : Bool :=
  match c with
  | .code p i => codeStr p i == codeStr d.pfx d.code
  | .cat n => d.categories.contains n

/-- a resolver: `Path.resolve` of the environment the run happens in; `none` = RuntimeError -/
abbrev Resolver := PPath → Option (List String)

/-- `(config_root / ignore.path).resolve()` for an entry that has a path (inner `none` = it raised) -/
def entryPath (R : Resolver) (root : PPath) (e : Clsf) : Option (Option (List String)) :=
  e.path.map (fun q => R (root.join (parsePath q)))

/-- the loop body: the entry has a path, the path resolves (otherwise `except …: continue`), the file
    is relative to it, and the entry names the error -/
def entryHits (R : Resolver) (root : PPath) (file : List String) (d : AmendDiag) (e : Clsf) : Bool :=
  match entryPath R root e with
  | some (some ip) => isRelativeTo file ip && clsNames e.cls d
  | _ => false

/-- `is_ignored_via_amend(error, settings)`.  Resolving the FILE is unguarded (`none` = it raises);
    an entry whose path cannot be resolved (OSError / RuntimeError / ValueError) is skipped. -/
def ignoredViaAmend (R : Resolver) (s : Settings) (d : AmendDiag) : Option Bool :=
  match R (parsePath d.file) with
  | none => none
  | some file => some (s.ignore.any (entryHits R (configRoot s.configFile) file d))

end RefurbVerif.Paths
