#!/bin/sh
# tools/eval_seed.sh <ID> <PROPERTY> [out-dir]  — confirm a seeded change and run the property's check against it.
#   <ID> names /tmp/seed-<ID>-out/{patch.diff,demo.py|demo.sh,notes.md}; results go to /verif/seeded/<ID>/
ID="$1"; PROP="$2"; SRC="${3:-/tmp/seed-$ID-out}"
[ -d "$SRC" ] || SRC="/verif/seeded/$ID"   # re-evaluation of a kept seed
WT="/tmp/ev-$ID"; OUT="/verif/seeded/$ID"
mkdir -p "$OUT"
git -C /repo worktree remove --force "$WT" 2>/dev/null
git -C /repo worktree add -q "$WT" HEAD || exit 2
git -C "$WT" apply "$SRC/patch.diff" || { echo "patch does not apply"; git -C /repo worktree remove --force "$WT"; exit 2; }
[ "$SRC" = "$OUT" ] || cp "$SRC/patch.diff" "$OUT/patch.diff"
DEMO=demo.py; RUN="/venv/bin/python demo.py"
[ -f "$SRC/demo.sh" ] && { DEMO=demo.sh; RUN="sh demo.sh"; }
[ "$SRC" = "$OUT" ] || { cp "$SRC/$DEMO" "$OUT/$DEMO"; [ -f "$SRC/notes.md" ] && cp "$SRC/notes.md" "$OUT/notes.md"; }
cd "$SRC"
PYTHONPATH=/repo $RUN >"$OUT/demo_unchanged.log" 2>&1; D0=$?
PYTHONPATH="$WT" $RUN >"$OUT/demo_changed.log" 2>&1; D1=$?
echo "demo: unchanged rc=$D0 changed rc=$D1"
(cd "$WT" && PYTHONPATH="$WT" /venv/bin/python -m pytest -q -p no:cacheprovider --no-cov 2>&1 | tail -2) >"$OUT/pytest_changed.log"; 
T=$(tail -1 "$OUT/pytest_changed.log"); echo "tests: $T"
# the check runs in a private copy of /verif (its Generated/ tables and driver are rebuilt from the patched worktree),
# so that evaluations can run in parallel and /verif itself keeps the tables and evidence of /repo
VV="/tmp/evv-$ID"; rm -rf "$VV"; mkdir -p "$VV"
(cd /verif && tar cf - --exclude=.git --exclude=replays --exclude=seeded .) | (cd "$VV" && tar xf -)
cd "$VV"
VERIF_REPO="$WT" bin/check "$PROP" --tier quick >"$OUT/check_quick.log" 2>&1; C=$?
mkdir -p "$OUT/replays"; for r in $(grep -o "replays/[A-Za-z0-9_./-]*" "$OUT/check_quick.log" | sort -u | head -3); do cp "$VV/$r" "$OUT/replays/" 2>/dev/null; done
cd /verif; rm -rf "$VV"
echo "check $PROP quick rc=$C"; grep -c "^VIOLATION" "$OUT/check_quick.log"; grep "^VIOLATION" -A1 "$OUT/check_quick.log" | head -6
git -C /repo worktree remove --force "$WT"
echo "$D0 $D1 $C" > "$OUT/.result"
