"""C02 — code quoted in a diagnostic is the user's code, and is valid Python.

Lean: Props/C02.lean over Model/Stringify.lean (`sfy` = refurb's `_stringify` case by case, `desugar` = what mypy's
parser does to f-strings, `ppRef` = the precedence-aware reference printer, `Der` = Python's expression grammar as
an inductive relation, `templates` = the message templates of the checks with the level each hole requires).

Correspondence
  (a) `render (sfy n)` vs the real `refurb.checks.common._stringify/stringify/slice_expr_to_slice_call`, byte for
      byte, on every sub-expression of parsed generated expressions and on hand-constructed mypy nodes (shapes
      the parser never produces: negative literals, empty sets, slices outside subscripts, odd argument kinds …);
  (b) `desugar` vs mypy's parser (f-strings);
  (c) `Der` vs CPython: every text the model claims derivable (`ppRef` of a well-formed tree; `stringify` under
      the guard) is parsed with `ast.parse` and must give back the tree the model names; the refutation witnesses
      must give a different tree.  (The grammar's unambiguity is not proved; it rests on CPython's parser being a
      function.)
Oracle (end to end): refurb is run on generated idiom programs (docstring "Bad" examples and test/data/err_*.py
lines with operands of every precedence class substituted); every back-quoted OLD fragment of every diagnostic is
parsed and unified with the syntax tree of the source text at the reported span (`x y z ...` are wildcards), and
every NEW fragment that is built only from quoted fragments must parse.
Attribution: a violation is charged to recorded defects only on evidence.  `Twin` is a second implementation of
refurb's printer over CPython's trees in which every recorded defect is a switch; the causes of a wrong fragment are
the set D of switches that must be off for the twin to print exactly that fragment for the source (or, for fragments
built around a substituted operand, for that operand, when putting the operand's faithful text there makes the
fragment right).  One violation is reported per cause, so each is matched against its own finding; whatever no set of
recorded defects explains is reported with cause `other`.  On every run the twin must also explain what refurb prints
for every generated expression.
"""

from __future__ import annotations

import ast
import json
import re
import subprocess
import sys
from concurrent.futures import ThreadPoolExecutor
from pathlib import Path
from typing import Any

from .. import core

GENERATED = ["Printable"]

# --------------------------------------------------------------------------------------------
# trees as JSON (the wire format of Wire/Stringify.lean)


def cps(s: str) -> list[int]:
    return [ord(c) for c in s]


def uncps(a: list[int] | None) -> str | None:
    return None if a is None else "".join(map(chr, a))


def N(k: str, **f: Any) -> dict[str, Any]:
    return {"k": k, **f}


def name(s: str) -> dict[str, Any]:
    return N("name", s=cps(s))


BIN_OPS = ["or", "and", "|", "^", "&", "<<", ">>", "+", "-", "*", "/", "//", "%", "@", "**"]
CMP_OPS = ["==", "!=", "<", "<=", ">", ">=", "is", "is not", "in", "not in"]
UN_OPS = ["-", "+", "~", "not"]
AST_BIN = {ast.BitOr: "|", ast.BitXor: "^", ast.BitAnd: "&", ast.LShift: "<<", ast.RShift: ">>", ast.Add: "+", ast.Sub: "-", ast.Mult: "*", ast.Div: "/", ast.FloorDiv: "//", ast.Mod: "%", ast.MatMult: "@", ast.Pow: "**"}
AST_CMP = {ast.Eq: "==", ast.NotEq: "!=", ast.Lt: "<", ast.LtE: "<=", ast.Gt: ">", ast.GtE: ">=", ast.Is: "is", ast.IsNot: "is not", ast.In: "in", ast.NotIn: "not in"}
AST_UN = {ast.USub: "-", ast.UAdd: "+", ast.Invert: "~", ast.Not: "not"}


def has_surrogate(s: str) -> bool:
    return any(0xD800 <= ord(c) <= 0xDFFF for c in s)


class Unmodelled(Exception):
    pass


def mypy_to_node(n: Any) -> dict[str, Any]:
    """a mypy expression as the model's `Node` (what `_stringify` sees)"""
    import mypy.nodes as M

    r = mypy_to_node
    if n is None:
        raise Unmodelled("None")
    if isinstance(n, M.NameExpr):
        if n.name is None or has_surrogate(n.name):
            raise Unmodelled("name")
        return name(n.name)
    if isinstance(n, M.MemberExpr):
        return N("member", e=r(n.expr), a=cps(n.name))
    if isinstance(n, M.IntExpr):
        return N("int", v=str(n.value))
    if isinstance(n, M.FloatExpr):
        return N("float", s=cps(str(n.value)))
    if isinstance(n, M.ComplexExpr):
        return N("complex", s=cps(str(n.value)))
    if isinstance(n, M.StrExpr):
        if has_surrogate(n.value):
            raise Unmodelled("surrogate")
        return N("str", v=cps(n.value))
    if isinstance(n, M.BytesExpr):
        return N("bytes", v=cps(n.value))
    if isinstance(n, M.EllipsisExpr):
        return N("ellipsis")
    if isinstance(n, M.DictExpr):
        return N("dict", items=[[None if k is None else r(k), r(v)] for k, v in n.items])
    if isinstance(n, M.TupleExpr):
        return N("tuple", items=[r(x) for x in n.items])
    if isinstance(n, M.ListExpr):
        return N("list", items=[r(x) for x in n.items])
    if isinstance(n, M.SetExpr):
        return N("set", items=[r(x) for x in n.items])
    if isinstance(n, M.CallExpr):
        if not (len(n.args) == len(n.arg_kinds) == len(n.arg_names)):
            raise Unmodelled("ragged call")
        return N("call", f=r(n.callee), args=[[k.name, "None" if nm is None else cps(nm), r(a)] for a, k, nm in zip(n.args, n.arg_kinds, n.arg_names)])
    if isinstance(n, M.IndexExpr):
        return N("index", b=r(n.base), i=r(n.index))
    if isinstance(n, M.SliceExpr):
        o = lambda x: None if x is None else r(x)  # noqa: E731
        return N("slice", b=o(n.begin_index), e=o(n.end_index), s=o(n.stride))
    if isinstance(n, M.OpExpr):
        if n.op not in BIN_OPS:
            raise Unmodelled("op")
        return N("op", o=n.op, l=r(n.left), r=r(n.right))
    if isinstance(n, M.ComparisonExpr):
        if len(n.operands) != len(n.operators) + 1 or any(o not in CMP_OPS for o in n.operators):
            raise Unmodelled("ragged comparison")
        return N("cmp", first=r(n.operands[0]), rest=[[o, r(e)] for o, e in zip(n.operators, n.operands[1:])])
    if isinstance(n, M.UnaryExpr):
        if n.op not in UN_OPS:
            raise Unmodelled("unary")
        return N("unary", o=n.op, e=r(n.expr))
    if isinstance(n, M.LambdaExpr):
        body = None
        b = n.body.body
        if len(b) == 1 and isinstance(b[0], M.ReturnStmt) and isinstance(b[0].expr, M.Expression):
            body = r(b[0].expr)
        return N("lambda", params=[[nm, k.name] for nm, k in zip(n.arg_names, n.arg_kinds)], body=body)
    if isinstance(n, M.ConditionalExpr):
        return N("cond", t=r(n.if_expr), c=r(n.cond), e=r(n.else_expr))
    if isinstance(n, M.AwaitExpr):
        return N("await", e=r(n.expr))
    if isinstance(n, M.AssignmentExpr):
        return N("walrus", l=r(n.target), r=r(n.value))
    if isinstance(n, M.StarExpr):
        return N("star", e=r(n.expr))
    return N("other", i=0)


def mypy_stmt_to_node(s: Any) -> dict[str, Any]:
    import mypy.nodes as M

    if isinstance(s, M.AssignmentStmt):
        return N("assign", lvalues=[mypy_to_node(x) for x in s.lvalues], r=mypy_to_node(s.rvalue))
    if isinstance(s, M.IfStmt):
        return {"k": "if", "conds": [mypy_to_node(x) for x in s.expr], "bodies": [[mypy_stmt_to_node(y) for y in b.body] for b in s.body], "else": s.else_body is not None}
    if isinstance(s, M.ForStmt):
        return {"k": "for", "idx": mypy_to_node(s.index), "e": mypy_to_node(s.expr), "body": [mypy_stmt_to_node(y) for y in s.body.body], "else": s.else_body is not None, "async": bool(s.is_async)}
    if isinstance(s, M.DelStmt):
        return N("del", e=mypy_to_node(s.expr))
    if isinstance(s, M.ExpressionStmt):
        return N("expr", e=mypy_to_node(s.expr))
    return N("otherstmt")


def node_to_mypy(j: dict[str, Any]) -> Any:
    """build a mypy node by hand from a `Node` (for shapes the parser never produces)"""
    import mypy.nodes as M

    r = node_to_mypy
    k = j["k"]
    if k == "name":
        return M.NameExpr(uncps(j["s"]))
    if k == "member":
        return M.MemberExpr(r(j["e"]), uncps(j["a"]))
    if k == "int":
        return M.IntExpr(int(j["v"]))
    if k == "float":
        return M.FloatExpr(float(uncps(j["s"])))
    if k == "complex":
        return M.ComplexExpr(complex(uncps(j["s"])))
    if k == "str":
        return M.StrExpr(uncps(j["v"]))
    if k == "bytes":
        return M.BytesExpr(uncps(j["v"]))
    if k == "ellipsis":
        return M.EllipsisExpr()
    if k == "dict":
        return M.DictExpr([(None if a is None else r(a), r(b)) for a, b in j["items"]])
    if k == "tuple":
        return M.TupleExpr([r(x) for x in j["items"]])
    if k == "list":
        return M.ListExpr([r(x) for x in j["items"]])
    if k == "set":
        return M.SetExpr([r(x) for x in j["items"]])
    if k == "call":
        return M.CallExpr(r(j["f"]), [r(a) for _, _, a in j["args"]], [getattr(M.ArgKind, kk) for kk, _, _ in j["args"]], [None if nm == "None" else uncps(nm) for _, nm, _ in j["args"]])
    if k == "index":
        return M.IndexExpr(r(j["b"]), r(j["i"]))
    if k == "slice":
        o = lambda x: None if x is None else r(x)  # noqa: E731
        return M.SliceExpr(o(j["b"]), o(j["e"]), o(j["s"]))
    if k == "op":
        return M.OpExpr(j["o"], r(j["l"]), r(j["r"]))
    if k == "cmp":
        return M.ComparisonExpr([o for o, _ in j["rest"]], [r(j["first"])] + [r(e) for _, e in j["rest"]])
    if k == "unary":
        return M.UnaryExpr(j["o"], r(j["e"]))
    if k == "lambda":
        args = [M.Argument(M.Var(nm or "_p"), None, None, getattr(M.ArgKind, kk), pos_only=not nm) for nm, kk in j["params"]]
        body = M.Block([M.ReturnStmt(r(j["body"]))]) if j["body"] is not None else M.Block([M.PassStmt()])
        return M.LambdaExpr(args, body)
    if k == "cond":
        return M.ConditionalExpr(r(j["c"]), r(j["t"]), r(j["e"]))
    if k == "await":
        return M.AwaitExpr(r(j["e"]))
    if k == "walrus":
        return M.AssignmentExpr(r(j["l"]), r(j["r"]))
    if k == "star":
        return M.StarExpr(r(j["e"]))
    if k == "other":
        return M.GeneratorExpr(M.NameExpr("g"), [M.NameExpr("g")], [M.NameExpr("gs")], [[]], [False])
    raise Unmodelled(k)


def stmt_to_mypy(j: dict[str, Any]) -> Any:
    import mypy.nodes as M

    k = j["k"]
    if k == "assign":
        return M.AssignmentStmt([node_to_mypy(x) for x in j["lvalues"]], node_to_mypy(j["r"]))
    if k == "if":
        return M.IfStmt([node_to_mypy(x) for x in j["conds"]], [M.Block([stmt_to_mypy(y) for y in b]) for b in j["bodies"]], M.Block([M.PassStmt()]) if j["else"] else None)
    if k == "for":
        f = M.ForStmt(node_to_mypy(j["idx"]), node_to_mypy(j["e"]), M.Block([stmt_to_mypy(y) for y in j["body"]]), M.Block([M.PassStmt()]) if j["else"] else None)
        f.is_async = j["async"]
        return f
    if k == "del":
        return M.DelStmt(node_to_mypy(j["e"]))
    if k == "expr":
        return M.ExpressionStmt(node_to_mypy(j["e"]))
    return M.PassStmt()


def ast_to_node(e: ast.AST) -> dict[str, Any]:
    """CPython's tree as the model's `Node`, in the shape mypy's parser gives it (`and`/`or` chains right-nested,
    True/False/None as names), with f-strings kept as written (`fstr`)"""
    r = ast_to_node
    if isinstance(e, ast.Name):
        return name(e.id)
    if isinstance(e, ast.Attribute):
        return N("member", e=r(e.value), a=cps(e.attr))
    if isinstance(e, ast.Constant):
        v = e.value
        if v is True or v is False or v is None:
            return name(str(v))
        if v is Ellipsis:
            return N("ellipsis")
        if isinstance(v, int):
            return N("int", v=str(v))
        if isinstance(v, float):
            return N("float", s=cps(str(v)))
        if isinstance(v, complex):
            return N("complex", s=cps(str(v)))
        if isinstance(v, str):
            return N("str", v=cps(v))
        if isinstance(v, bytes):
            return N("bytes", v=cps(repr(v)[2:-1]))
        raise Unmodelled("constant")
    if isinstance(e, ast.Dict):
        return N("dict", items=[[None if k is None else r(k), r(v)] for k, v in zip(e.keys, e.values)])
    if isinstance(e, ast.Tuple):
        return N("tuple", items=[r(x) for x in e.elts])
    if isinstance(e, ast.List):
        return N("list", items=[r(x) for x in e.elts])
    if isinstance(e, ast.Set):
        return N("set", items=[r(x) for x in e.elts])
    if isinstance(e, ast.Call):
        args = [["ARG_STAR", "None", r(a.value)] if isinstance(a, ast.Starred) else ["ARG_POS", "None", r(a)] for a in e.args]
        args += [["ARG_STAR2", "None", r(kw.value)] if kw.arg is None else ["ARG_NAMED", cps(kw.arg), r(kw.value)] for kw in e.keywords]
        return N("call", f=r(e.func), args=args)
    if isinstance(e, ast.Subscript):
        return N("index", b=r(e.value), i=r(e.slice))
    if isinstance(e, ast.Slice):
        o = lambda x: None if x is None else r(x)  # noqa: E731
        return N("slice", b=o(e.lower), e=o(e.upper), s=o(e.step))
    if isinstance(e, ast.BinOp):
        return N("op", o=AST_BIN[type(e.op)], l=r(e.left), r=r(e.right))
    if isinstance(e, ast.BoolOp):
        op = "and" if isinstance(e.op, ast.And) else "or"
        vals = [r(v) for v in e.values]
        acc = vals[-1]
        for v in reversed(vals[:-1]):
            acc = N("op", o=op, l=v, r=acc)
        return acc
    if isinstance(e, ast.Compare):
        return N("cmp", first=r(e.left), rest=[[AST_CMP[type(o)], r(c)] for o, c in zip(e.ops, e.comparators)])
    if isinstance(e, ast.UnaryOp):
        return N("unary", o=AST_UN[type(e.op)], e=r(e.operand))
    if isinstance(e, ast.Lambda):
        a = e.args
        params = [[None, "ARG_POS"] for _ in a.posonlyargs]
        nd = len(a.defaults)
        plain = a.args
        for i, p in enumerate(plain):
            params.append([p.arg, "ARG_OPT" if i >= len(plain) - nd and nd else "ARG_POS"])
        # positional-only parameters share the defaults list; good enough for the shapes generated here
        if a.vararg:
            params.append([a.vararg.arg, "ARG_STAR"])
        for p, d in zip(a.kwonlyargs, a.kw_defaults):
            params.append([p.arg, "ARG_NAMED" if d is None else "ARG_NAMED_OPT"])
        if a.kwarg:
            params.append([a.kwarg.arg, "ARG_STAR2"])
        return N("lambda", params=params, body=r(e.body))
    if isinstance(e, ast.IfExp):
        return N("cond", t=r(e.body), c=r(e.test), e=r(e.orelse))
    if isinstance(e, ast.Await):
        return N("await", e=r(e.value))
    if isinstance(e, ast.NamedExpr):
        return N("walrus", l=r(e.target), r=r(e.value))
    if isinstance(e, ast.Starred):
        return N("star", e=r(e.value))
    if isinstance(e, ast.JoinedStr):
        parts = []
        for p in e.values:
            if isinstance(p, ast.Constant):
                parts.append(N("str", v=cps(p.value)))
            else:
                assert isinstance(p, ast.FormattedValue)
                spec = ""
                if isinstance(p.format_spec, ast.Constant):  # normalised by `_Norm`
                    spec = p.format_spec.value
                elif p.format_spec is not None:
                    vals = p.format_spec.values  # type: ignore[attr-defined]
                    if not all(isinstance(v, ast.Constant) for v in vals) or len(vals) != 1:
                        raise Unmodelled("nested format spec")
                    spec = vals[0].value
                parts.append(N("ffield", e=r(p.value), conv=None if p.conversion < 0 else chr(p.conversion), spec=cps(spec)))
        if not any(p["k"] == "ffield" for p in parts):
            return N("str", v=cps("".join(uncps(p["v"]) for p in parts)))
        return N("fstr", parts=parts)
    return N("other", i=0)


def _norm(j: Any) -> Any:
    """argument names only matter for keyword arguments"""
    if isinstance(j, list):
        return [_norm(x) for x in j]
    if isinstance(j, dict):
        d = {k: _norm(v) for k, v in j.items()}
        if d.get("k") == "call":
            d["args"] = [[k, nm if k == "ARG_NAMED" else None, a] for k, nm, a in d["args"]]
        return d
    return j


def canon(j: Any) -> str:
    return json.dumps(_norm(j), sort_keys=True)


def subnodes(j: Any):
    """every expression node of a tree (JSON), root first"""
    if isinstance(j, dict):
        if "k" in j:
            yield j
        for v in j.values():
            yield from subnodes(v)
    elif isinstance(j, list):
        for v in j:
            yield from subnodes(v)


def mypy_subexprs(n: Any):
    """every mypy expression below (and including) a node that `mypy_to_node` descends into"""
    import mypy.nodes as M

    if n is None:
        return
    yield n
    kids: list[Any] = []
    if isinstance(n, M.MemberExpr):
        kids = [n.expr]
    elif isinstance(n, M.DictExpr):
        kids = [x for kv in n.items for x in kv]
    elif isinstance(n, (M.TupleExpr, M.ListExpr, M.SetExpr)):
        kids = list(n.items)
    elif isinstance(n, M.CallExpr):
        kids = [n.callee, *n.args]
    elif isinstance(n, M.IndexExpr):
        kids = [n.base, n.index]
    elif isinstance(n, M.SliceExpr):
        kids = [n.begin_index, n.end_index, n.stride]
    elif isinstance(n, M.OpExpr):
        kids = [n.left, n.right]
    elif isinstance(n, M.ComparisonExpr):
        kids = list(n.operands)
    elif isinstance(n, (M.UnaryExpr, M.AwaitExpr, M.StarExpr)):
        kids = [n.expr]
    elif isinstance(n, M.LambdaExpr):
        b = n.body.body
        kids = [b[0].expr] if len(b) == 1 and isinstance(b[0], M.ReturnStmt) else []
    elif isinstance(n, M.ConditionalExpr):
        kids = [n.if_expr, n.cond, n.else_expr]
    elif isinstance(n, M.AssignmentExpr):
        kids = [n.target, n.value]
    for k in kids:
        yield from mypy_subexprs(k)


# --------------------------------------------------------------------------------------------
# generators

NAMES = ["a", "b", "c", "x", "y", "z", "foo", "_p", "Bar9", "ünï", "True", "None", "self"]
ATTRS = ["attr", "copy", "x", "real", "_m", "ключ"]
STRS = ["", "abc", "it's", 'say "hi"', "both ' and \"", "tab\there", "nl\n", "back\\slash", "{x}", "{{", "}", "ünï", "日本", "\x00\x7f", "\xa0\xad", "͸", "\U000e0001", "%d", "\\\"", "'", '"', " ",
        # a backslash next to a quote, with and without the other quote present (repr() picks its delimiters by content)
        "don\\'t", "\\'", "[\\'\\s]+", "a\\'b\\\\", "'\\", "\\\\'", "x\\\"y'", "\\n'"]
BYTES = ["", "abc", "\\x00\\xff", 'a"b', "it\\'s \"q\"", "it's", "\\\\", "\\n"]
INTS = ["0", "1", "7", "42", "255", "1000000", "100000000000000000000"]
FLOATS = [1.5, 0.0, 2.0, 1e16, 1e-05, 3.141592653589793, 1e300]
COMPLEXES = [1j, 2.5j, 0j, 1e16j]
SPECS = [">5", "b", ".2f", "x", "^10", "08.3f", "", ""]
BAD_SPECS = ["{", "a}b", "\\n", 'q"', "'", "é"]
BAD_FLOATS = [float("inf"), float("nan"), -1.5]


class Gen:
    """random trees over the model's node kinds.  `level="py"`: trees as the user writes them (well-formed unless
    `wild`); `level="mypy"` + `wild`: arbitrary shapes incl. those no parser builds"""

    def __init__(self, rng, wild: bool = False, fstr: bool = True, names: list[str] | None = None):
        self.rng = rng
        self.wild = wild
        self.fstr = fstr
        self.names = names or NAMES

    def atom(self) -> dict[str, Any]:
        r = self.rng
        c = r.random()
        if c < 0.45:
            return name(r.choice(self.names))
        if c < 0.6:
            return N("int", v=r.choice(INTS) if not (self.wild and r.random() < 0.2) else str(-r.randint(1, 99)))
        if c < 0.75:
            return N("str", v=cps(r.choice(STRS)))
        if c < 0.8:
            return N("bytes", v=cps(r.choice(BYTES)))
        if c < 0.87:
            f = r.choice(FLOATS if not (self.wild and r.random() < 0.3) else BAD_FLOATS)
            return N("float", s=cps(str(f)))
        if c < 0.9:
            return N("complex", s=cps(str(r.choice(COMPLEXES))))
        if c < 0.93:
            return N("ellipsis")
        if c < 0.96:
            return N("tuple", items=[])
        if self.wild:
            return r.choice([N("other", i=0), N("set", items=[]), name("x'"), name("y*'*"), name("")])
        return N("list", items=[])

    def expr(self, d: int) -> dict[str, Any]:
        r = self.rng
        if d <= 0 or r.random() < 0.12:
            return self.atom()
        e = lambda: self.expr(d - 1)  # noqa: E731
        kind = r.choice(
            ["member", "call", "call", "index", "index", "op", "op", "op", "cmp", "unary", "unary", "cond", "lambda", "walrus", "await", "tuple", "list", "set", "dict", "fstr", "slice_idx", "tuple_idx"]
            + (["star_item", "slice_bare", "other", "lambda_wild", "call_wild", "fake_f"] if self.wild else [])
        )
        if kind == "member":
            return N("member", e=e(), a=cps(r.choice(ATTRS)))
        if kind == "call":
            n = r.choice([0, 1, 1, 2, 3])
            args = []
            for _ in range(n):
                args.append(["ARG_POS", "None", e()] if r.random() < 0.8 else ["ARG_STAR", "None", e()])
            for _ in range(r.choice([0, 0, 1, 2])):
                args.append(["ARG_NAMED", cps(r.choice(["key", "sep", "k", "reverse"])), e()] if r.random() < 0.75 else ["ARG_STAR2", "None", e()])
            return N("call", f=e(), args=args)
        if kind == "call_wild":
            args = [[r.choice(["ARG_POS", "ARG_OPT", "ARG_STAR", "ARG_NAMED", "ARG_STAR2", "ARG_NAMED_OPT"]), r.choice(["None", cps("k")]), e()] for _ in range(r.randint(0, 3))]
            return N("call", f=e(), args=args)
        if kind == "index":
            return N("index", b=e(), i=e())
        if kind == "slice_idx":
            o = lambda: e() if r.random() < 0.6 else None  # noqa: E731
            return N("index", b=e(), i=N("slice", b=o(), e=o(), s=o()))
        if kind == "tuple_idx":
            o = lambda: e() if r.random() < 0.6 else None  # noqa: E731
            items = [N("slice", b=o(), e=o(), s=o()) if r.random() < 0.5 else e() for _ in range(r.randint(1, 3))]
            return N("index", b=e(), i=N("tuple", items=items))
        if kind == "slice_bare":
            return N("slice", b=e(), e=None, s=None)
        if kind == "op":
            return N("op", o=r.choice(BIN_OPS), l=e(), r=e())
        if kind == "cmp":
            return N("cmp", first=e(), rest=[[r.choice(CMP_OPS), e()] for _ in range(r.choice([1, 1, 1, 2, 3]))])
        if kind == "unary":
            return N("unary", o=r.choice(UN_OPS), e=e())
        if kind == "cond":
            return N("cond", t=e(), c=e(), e=e())
        if kind == "lambda":
            ps = r.sample(["u", "v", "k", "_"], r.choice([0, 1, 1, 2]))
            return N("lambda", params=[[p, "ARG_POS"] for p in ps], body=e())
        if kind == "lambda_wild":
            ps = [[r.choice(["x", "y", None, ""]), r.choice(["ARG_POS", "ARG_OPT", "ARG_STAR", "ARG_NAMED", "ARG_STAR2"])] for _ in range(r.randint(0, 2))]
            return N("lambda", params=ps, body=e() if r.random() < 0.8 else None)
        if kind == "walrus":
            return N("walrus", l=name(r.choice(["w", "n", "m"])) if not (self.wild and r.random() < 0.3) else e(), r=e())
        if kind == "await":
            return N("await", e=e())
        if kind in ("tuple", "list", "set"):
            n = r.choice([1, 1, 2, 3]) if kind != "tuple" else r.choice([0, 1, 1, 2, 3])
            items = [N("star", e=e()) if r.random() < 0.12 else e() for _ in range(n)]
            return N(kind, items=items)
        if kind == "star_item":
            return N("star", e=e())
        if kind == "dict":
            return N("dict", items=[[None, e()] if r.random() < 0.2 else [e(), e()] for _ in range(r.choice([0, 1, 2]))])
        if kind == "other":
            return N("other", i=0)
        if kind == "fake_f":
            # calls shaped like mypy's desugared f-strings, and near misses
            fmt = r.choice(["{:{}}", "{:{}}", "{!r:{}}", "{}", ""])
            part = lambda: N("call", f=N("member", e=N("str", v=cps(fmt)), a=cps(r.choice(["format", "format", "join"]))), args=[["ARG_POS", "None", e()], [r.choice(["ARG_POS", "ARG_POS", "ARG_NAMED"]), "None", r.choice([N("str", v=cps(r.choice(SPECS + BAD_SPECS))), e()])]])  # noqa: E731
            if r.random() < 0.4:
                return part()
            items = [r.choice([N("str", v=cps(r.choice(STRS))), part(), part(), e()]) for _ in range(r.randint(0, 3))]
            return N("call", f=N("member", e=N("str", v=cps(r.choice(["", "", " "]))), a=cps(r.choice(["join", "join", "format"]))), args=[["ARG_POS", "None", N("list", items=items) if r.random() < 0.85 else e()]])
        if kind == "fstr" and self.fstr:
            parts: list[dict[str, Any]] = []
            for _ in range(r.choice([1, 2, 3, 4])):
                if r.random() < 0.45 and not (parts and parts[-1]["k"] == "str"):
                    s = r.choice([s for s in STRS if s])
                    parts.append(N("str", v=cps(s)))
                else:
                    spec = r.choice(SPECS) if r.random() < 0.9 else r.choice(BAD_SPECS)
                    parts.append(N("ffield", e=e(), conv=r.choice([None, None, None, "r", "s", "a"]), spec=cps(spec)))
            if not any(p["k"] == "ffield" for p in parts):
                parts.append(N("ffield", e=e(), conv=None, spec=[]))
            return N("fstr", parts=parts)
        return self.atom()


def desugar_py(j: Any) -> Any:
    """reference implementation of mypy's f-string desugaring on JSON trees (used only to feed hand-built trees to
    the real `_stringify`; the model's own `desugar` is compared with mypy's parser separately)"""
    if isinstance(j, list):
        return [desugar_py(x) for x in j]
    if not isinstance(j, dict) or "k" not in j:
        return j
    if j["k"] == "fstr":
        parts = [desugar_py(p) for p in j["parts"]]
        if not parts:
            return N("str", v=[])
        if len(parts) == 1:
            return parts[0]
        return N("call", f=N("member", e=N("str", v=[]), a=cps("join")), args=[["ARG_POS", "None", N("list", items=parts)]])
    if j["k"] == "ffield":
        fmt = "{" + ("!" + j["conv"] if j["conv"] else "") + ":{}}"
        return N("call", f=N("member", e=N("str", v=cps(fmt)), a=cps("format")), args=[["ARG_POS", "None", desugar_py(j["e"])], ["ARG_POS", "None", N("str", v=j["spec"])]])
    return {k: desugar_py(v) for k, v in j.items()}


def real_sfy(m: Any) -> tuple[str | None, str]:
    from refurb.checks import common

    try:
        raw: str | None = common._stringify(m)
    except ValueError:
        raw = None
    return raw, common.stringify(m)


def parse_expr_mypy(src: str) -> Any:
    from ..astjson import parse_only

    defs = parse_only(src)
    return defs


# --------------------------------------------------------------------------------------------
# correspondence


def correspondence(ctx) -> None:
    res = ctx.res
    rng = ctx.rng("corr")
    import mypy.nodes as M
    from refurb.checks import common

    if not ctx.driver.available():
        res.disagreements.append({"where": "driver", "reason": "driver executable not built"})
        return

    # ---- (a1) hand-constructed mypy nodes, arbitrary shapes --------------------------------------------------
    n_wild = 1500 if ctx.quick else 12000
    g = Gen(rng, wild=True)
    reqs, exp, meta = [], [], []
    n_nodes = 0
    for _ in range(n_wild):
        tree = desugar_py(g.expr(rng.choice([1, 2, 3, 4])))
        try:
            m = node_to_mypy(tree)
        except (Unmodelled, ValueError, OverflowError):
            continue
        for sub_j, sub_m in zip(_json_subexprs(tree), mypy_subexprs(m)):
            raw, x = real_sfy(sub_m)
            reqs.append({"verb": "sfy", "n": sub_j})
            exp.append({"r": None if raw is None else cps(raw), "x": cps(x)})
            meta.append(("hand", sub_j))
            n_nodes += 1
            if sub_j["k"] == "slice":
                reqs.append({"verb": "slice_call", "n": sub_j})
                exp.append({"r": cps(common.slice_expr_to_slice_call(sub_m))})
                meta.append(("slice_call", sub_j))
    # statements
    for _ in range(200 if ctx.quick else 2000):
        st = gen_stmt(g, rng, 2)
        try:
            m = stmt_to_mypy(st)
        except (Unmodelled, ValueError, OverflowError):
            continue
        try:
            raw = common._stringify(m)
        except ValueError:
            raw = None
        reqs.append({"verb": "sfy_stmt", "n": st})
        exp.append({"r": None if raw is None else cps(raw)})
        meta.append(("stmt", st))
    res.bump("hand_built_nodes", n_nodes)

    # ---- (a2) parsed trees: text of well-formed trees (reference printer) through mypy's parser ---------------
    n_py = 700 if ctx.quick else 7000
    gp = Gen(rng, wild=False)
    trees = [gp.expr(rng.choice([2, 3, 3, 4, 5])) for _ in range(n_py)]
    trees += witness_trees()
    pp = ctx.driver.batch([{"verb": "ppref", "n": t} for t in trees])
    srcs: list[tuple[dict[str, Any], dict[str, Any], str]] = []
    for t, a in zip(trees, pp):
        if a.get("unmodelled"):
            res.disagree("ppref", t, a, "tree not accepted by the wire")
            continue
        srcs.append((t, a, uncps(a["ppref"]) or ""))
    n_parsed = 0
    for t, a, text in srcs:
        res.bump("py_trees")
        if not a["wf"]:
            res.bump("py_trees_not_wf")
            continue
        # (c) Der vs CPython: the reference text must parse to the tree the model names
        res.case(("der", text), nontrivial="(" in text or len(text) > 12)
        try:
            back = ast_to_node(ast.parse(text, mode="eval").body)
        except (SyntaxError, Unmodelled, ValueError) as e:
            res.disagree("Der vs CPython: ppRef text does not parse", {"tree": t, "text": text}, "derivable", repr(e))
            continue
        if canon(back) != canon(t):
            res.disagree("Der vs CPython: ppRef text parses to another tree", {"tree": t, "text": text}, canon(t)[:600], canon(back)[:600])
            continue
        if a["safe"]:
            res.bump("guard_holds")
            if a["x"] != a["ppref"]:
                res.disagree("guard: stringify differs from ppRef", {"tree": t}, uncps(a["x"]), text)
        else:
            res.bump("guard_fails")
            # not required to differ; count how often the printed text is wrong, as a sanity figure
            xs = uncps(a["x"]) or ""
            try:
                wrong = canon(ast_to_node(ast.parse(xs, mode="eval").body)) != canon(t)
            except (SyntaxError, Unmodelled, ValueError):
                wrong = True
            res.bump("guard_fails_and_text_wrong" if wrong else "guard_fails_but_text_right")
        # (b) desugar vs mypy's parser, and (a2) _stringify on every parsed sub-expression
        try:
            defs = parse_expr_mypy("(" + text + ")\n")
        except SyntaxError as e:
            res.disagree("mypy cannot parse ppRef text", {"text": text}, "parses", repr(e))
            continue
        m = defs[0].expr
        # the printer twin (used to attribute violations to recorded defects) must explain what refurb prints
        d_ = explain(ast.parse(text, mode="eval").body, common.stringify(m))
        if d_ is None:
            res.disagree("printer twin vs refurb: no set of recorded defects explains the text", {"text": text}, Twin(frozenset()).top(ast.parse(text, mode="eval").body), common.stringify(m))
        else:
            res.bump("twin_explains")
        try:
            mj = mypy_to_node(m)
        except Unmodelled:
            continue
        if canon(mj) != canon(a["desugar"]):
            res.disagree("desugar vs mypy parser", {"text": text}, canon(a["desugar"])[:600], canon(mj)[:600])
            continue
        for sub_m in mypy_subexprs(m):
            try:
                sub_j = mypy_to_node(sub_m)
            except Unmodelled:
                continue
            raw, x = real_sfy(sub_m)
            reqs.append({"verb": "sfy", "n": sub_j})
            exp.append({"r": None if raw is None else cps(raw), "x": cps(x)})
            meta.append(("parsed", sub_j))
            n_parsed += 1
    res.bump("parsed_nodes", n_parsed)

    answers = ctx.driver.batch(reqs)
    for a, e, (kind, j) in zip(answers, exp, meta):
        key = canon(j)
        res.case((kind, key), nontrivial=j["k"] not in ("name", "int", "str", "float", "bytes", "complex"))
        res.bump("sfy_" + kind)
        if a.get("unmodelled"):
            res.bump("unmodelled")
            continue
        if a != e:
            dec = lambda d: {k: uncps(v) if isinstance(v, list) else v for k, v in d.items()}  # noqa: E731
            res.disagree("stringify model vs refurb (" + kind + ")", j, dec(a), dec(e))
    if meta:
        i = next((i for i, m_ in enumerate(meta) if m_[0] == "parsed" and m_[1]["k"] == "op"), 0)
        res.sample({"node": meta[i][1], "refurb": uncps(exp[i].get("x") or exp[i].get("r")), "model": uncps(answers[i].get("x") or answers[i].get("r"))})

    # ---- refutation witnesses: one text, another tree ----------------------------------------------------------
    for t in witness_trees():
        a = ctx.driver.batch([{"verb": "ppref", "n": t}])[0]
        xs = uncps(a["x"]) or ""
        res.case(("witness", xs))
        if not a["wf"] or a["safe"]:
            res.disagree("witness", t, {"wf": a["wf"], "safe": a["safe"]}, "a well-formed tree outside the guard")
            continue
        try:
            back = canon(ast_to_node(ast.parse(xs, mode="eval").body))
        except (SyntaxError, Unmodelled, ValueError):
            back = "<does not parse>"
        if back == canon(t):
            res.disagree("witness: CPython reads the printed text as the original tree", {"tree": t, "text": xs}, "a different tree / no parse", back[:300])


def _json_subexprs(j: dict[str, Any]):
    """sub-expressions of a JSON tree in the same order as `mypy_subexprs`"""
    yield j
    k = j["k"]
    kids: list[Any] = []
    if k == "member":
        kids = [j["e"]]
    elif k == "dict":
        kids = [x for kv in j["items"] for x in kv]
    elif k in ("tuple", "list", "set"):
        kids = j["items"]
    elif k == "call":
        kids = [j["f"], *[a for _, _, a in j["args"]]]
    elif k == "index":
        kids = [j["b"], j["i"]]
    elif k == "slice":
        kids = [j["b"], j["e"], j["s"]]
    elif k == "op":
        kids = [j["l"], j["r"]]
    elif k == "cmp":
        kids = [j["first"], *[e for _, e in j["rest"]]]
    elif k in ("unary", "await", "star"):
        kids = [j["e"]]
    elif k == "lambda":
        kids = [j["body"]] if j["body"] is not None else []
    elif k == "cond":
        kids = [j["t"], j["c"], j["e"]]
    elif k == "walrus":
        kids = [j["l"], j["r"]]
    for c in kids:
        if c is not None:
            yield from _json_subexprs(c)


def gen_stmt(g: Gen, rng, d: int) -> dict[str, Any]:
    c = rng.random()
    e = lambda: g.expr(rng.choice([0, 1, 2]))  # noqa: E731
    if c < 0.25:
        return N("assign", lvalues=[e() for _ in range(rng.choice([1, 1, 1, 2, 0]))], r=e())
    if c < 0.45 and d > 0:
        nb = rng.choice([1, 1, 1, 2])
        return {"k": "if", "conds": [e() for _ in range(nb)], "bodies": [[gen_stmt(g, rng, d - 1) for _ in range(rng.choice([1, 1, 1, 2, 0]))] for _ in range(nb)], "else": rng.random() < 0.2}
    if c < 0.65 and d > 0:
        return {"k": "for", "idx": e(), "e": e(), "body": [gen_stmt(g, rng, d - 1) for _ in range(rng.choice([1, 1, 1, 2]))], "else": rng.random() < 0.15, "async": rng.random() < 0.15}
    if c < 0.8:
        return N("del", e=e())
    if c < 0.95:
        return N("expr", e=e())
    return N("otherstmt")


def witness_trees() -> list[dict[str, Any]]:
    """the refutation witnesses of Props/C02.lean (well-formed trees on which `_stringify` prints another tree's text)"""
    a, b, c, w = name("a"), name("b"), name("c"), name("w")
    add = N("op", o="+", l=a, r=b)
    return [
        N("op", o="*", l=add, r=c),  # (a + b) * c
        N("unary", o="-", e=add),  # -(a + b)
        N("cond", t=a, c=b, e=N("walrus", l=w, r=c)),
        N("call", f=N("lambda", params=[], body=a), args=[]),  # (lambda: a)()
        N("fstr", parts=[N("str", v=cps("{x}")), N("ffield", e=a, conv=None, spec=[])]),  # f"{{x}}{a}"
        N("fstr", parts=[N("ffield", e=a, conv="r", spec=[])]),  # f"{a!r}"
        N("index", b=a, i=N("tuple", items=[N("slice", b=N("int", v="1"), e=N("int", v="2"), s=None), N("int", v="3")])),  # a[1:2, 3]
        N("member", e=N("int", v="1"), a=cps("real")),  # (1).real
        N("index", b=add, i=N("slice", b=None, e=None, s=None)),  # (a + b)[:]
    ]


# --------------------------------------------------------------------------------------------
# a twin of refurb's printer over CPython's trees, with every recorded defect as a switch
#
# `Twin(on).top(node)` prints a source tree by refurb's formatting rules; each element of `on` repairs one recorded
# defect.  With all switches on the text parses back to the tree; the set D of switches that have to be OFF for the
# twin to reproduce refurb's text names exactly the defects that text suffers from.  Attribution of a violation =
# finding D (evidence), never guessing from the look of the message.

SWITCH_CAUSE = {
    "parens": "lost-parens",
    "callee": "lost-parens:callee",
    "braces": "fstring-braces",
    "field": "fstring-field",
    "conv": "fstring-desugared",
    "slicetuple": "slice-in-tuple",
    "intattr": "int-attribute",
    "nonfinite": "nonfinite-literal",
    "fake": "call-quoted-as-fstring",
    "spec": "fstring-spec-unescaped",
}
ALL_SWITCHES = frozenset(SWITCH_CAUSE)
REPAIRED_SWITCHES = frozenset({"spec"})  # fix 4c3fc98: the format spec is escaped like the literal text around it
BIN_PREC = {"or": 3, "and": 4, "|": 7, "^": 8, "&": 9, "<<": 10, ">>": 10, "+": 11, "-": 11, "*": 12, "/": 12, "//": 12, "%": 12, "@": 12, "**": 14}


class Unprintable(Exception):
    """refurb's ValueError"""


def _strlit(v: str) -> str:
    return '"' + repr(v)[1:-1].replace('"', '\\"') + '"'


def _is_fake_format(n: Any) -> bool:
    return (
        isinstance(n, ast.Call)
        and isinstance(n.func, ast.Attribute)
        and n.func.attr == "format"
        and isinstance(n.func.value, ast.Constant)
        and n.func.value.value == "{:{}}"
        and len(n.args) == 2
        and not n.keywords
        and not isinstance(n.args[0], ast.Starred)
        and isinstance(n.args[1], ast.Constant)
        and isinstance(n.args[1].value, str)
    )


def _simple_spec(spec: Any) -> str | None:
    """the format spec as one constant string, if it is one (then mypy stores a StrExpr)"""
    if spec is None:
        return ""
    if isinstance(spec, ast.Constant) and isinstance(spec.value, str):  # normalised by `_Norm`
        return spec.value
    if isinstance(spec, ast.JoinedStr) and all(isinstance(v, ast.Constant) for v in spec.values) and len(spec.values) <= 1:
        return "".join(v.value for v in spec.values)  # type: ignore[attr-defined]
    return None


class Twin:
    def __init__(self, on: frozenset[str] = ALL_SWITCHES):
        self.on = on

    # -- entry points -------------------------------------------------------------------------
    def top(self, n: Any, level: int = 0) -> str:
        """`stringify`: the placeholder instead of a failure"""
        try:
            return self.p(n, level)
        except Unprintable:
            return "x"

    def p(self, n: Any, level: int = 0, sw: str = "parens") -> str:
        """`_stringify` of a child in a position of the given level"""
        text = self.inner(n)
        return f"({text})" if sw in self.on and self.prec(n) < level else text

    # -- precedence ---------------------------------------------------------------------------
    def prec(self, n: Any) -> int:
        if isinstance(n, ast.NamedExpr):
            return 0
        if isinstance(n, ast.Lambda):
            return 1
        if isinstance(n, ast.IfExp):
            return 2
        if isinstance(n, ast.BoolOp):
            return 3 if isinstance(n.op, ast.Or) else 4
        if isinstance(n, ast.UnaryOp):
            return 5 if isinstance(n.op, ast.Not) else 13
        if isinstance(n, ast.Compare):
            return 6
        if isinstance(n, ast.BinOp):
            return BIN_PREC[AST_BIN[type(n.op)]]
        if isinstance(n, ast.Await):
            return 15
        if isinstance(n, ast.Call):
            return 17 if self.fake_parts(n) is not None and "fake" not in self.on else 16
        if isinstance(n, (ast.Attribute, ast.Subscript)):
            return 16
        if isinstance(n, ast.JoinedStr):
            return self.fstring2(n)[1]
        return 17

    # -- f-strings ----------------------------------------------------------------------------
    def lit(self, v: str) -> str:
        body = _strlit(v)[1:-1]
        return body.replace("{", "{{").replace("}", "}}") if "braces" in self.on else body

    def field(self, value: Any, fmt: str) -> str:
        t = self.p(value, 3, "field")
        if "field" in self.on and t.startswith("{"):
            t = " " + t
        return "{" + t + (":" + self.spec(fmt) if fmt else "") + "}"

    def spec(self, fmt: str) -> str:
        """refurb copies the value of a constant format spec into the text as it is (quotes, backslashes and all)"""
        return _strlit(fmt)[1:-1] if "spec" in self.on else fmt

    def proper(self, n: ast.JoinedStr) -> str:
        """the f-string as an f-string, conversions and nested specs included (middle part, no quotes)"""
        out = ""
        for v in n.values:
            if isinstance(v, ast.Constant):
                out += self.lit(v.value)
            else:
                t = self.p(v.value, 3, "field")
                if "field" in self.on and t.startswith("{"):
                    t = " " + t
                conv = "" if v.conversion < 0 else "!" + chr(v.conversion)
                spec = ""
                if v.format_spec is not None:
                    s_ = _simple_spec(v.format_spec)
                    spec = ":" + (self.spec(s_) if s_ is not None else self.proper(v.format_spec))  # type: ignore[arg-type]
                out += "{" + t + conv + spec + "}"
        return out

    def fstring(self, n: ast.JoinedStr) -> str:
        return self.fstring2(n)[0]

    def fstring2(self, n: ast.JoinedStr) -> tuple[str, int]:
        """text and precedence (an f-string is an atom; mypy's desugared form is a call)"""
        parts = n.values
        if not parts:
            return '""', 17
        recognised = [isinstance(v, ast.Constant) or (v.conversion < 0 and _simple_spec(v.format_spec) is not None) for v in parts]  # type: ignore[attr-defined]
        if all(isinstance(v, ast.Constant) for v in parts):
            return _strlit("".join(v.value for v in parts)), 17  # type: ignore[attr-defined]
        if all(recognised):
            return 'f"' + "".join(self.lit(v.value) if isinstance(v, ast.Constant) else self.field(v.value, _simple_spec(v.format_spec) or "") for v in parts) + '"', 17  # type: ignore[attr-defined]
        if "conv" in self.on:
            return 'f"' + self.proper(n) + '"', 17
        # mypy's desugared form, as `_stringify` prints a call it does not recognise as an f-string
        if len(parts) == 1:
            return self.part_expr(parts[0]), 16
        items = []
        for v in parts:  # the items of the joined list go through `stringify`: a placeholder each
            try:
                items.append(self.part_expr(v))
            except Unprintable:
                items.append("x")
        return (items[0] if len(items) == 1 else '"".join([' + ", ".join(items) + "])"), 16

    def part_expr(self, v: Any) -> str:
        if isinstance(v, ast.Constant):
            return _strlit(v.value)
        simple = _simple_spec(v.format_spec)
        if v.conversion < 0 and simple is not None:
            return 'f"' + self.field(v.value, simple) + '"'
        conv = "" if v.conversion < 0 else "!" + chr(v.conversion)
        if simple is not None:
            spec = _strlit(simple)
        else:
            spec = self.fstring(v.format_spec)
        return '"{' + conv + ':{}}".format(' + self.p(v.value, 0) + ", " + spec + ")"

    def fake_parts(self, n: ast.Call) -> list[tuple[Any, str]] | None:
        """a call the user wrote that has the shape of mypy's desugared f-string: [(literal | value, fmt)]"""
        if _is_fake_format(n):
            return [(n.args[0], n.args[1].value)]  # type: ignore[attr-defined]
        f = n.func
        if isinstance(f, ast.Attribute) and f.attr == "join" and isinstance(f.value, ast.Constant) and f.value.value == "" and len(n.args) == 1 and not n.keywords and isinstance(n.args[0], ast.List):
            out: list[tuple[Any, str]] = []
            had = False
            for it in n.args[0].elts:
                if isinstance(it, ast.Constant) and isinstance(it.value, str):
                    out.append((it.value, ""))
                elif isinstance(it, ast.Call) and (sub := self.fake_parts(it)) is not None:
                    had = True
                    out += sub
                else:
                    return None
            return out if had else None
        return None

    # -- expressions --------------------------------------------------------------------------
    def inner(self, n: Any) -> str:
        if isinstance(n, ast.Expr):
            return self.p(n.value, 1)
        if isinstance(n, ast.Name):
            return n.id
        if isinstance(n, ast.Constant):
            v = n.value
            if v is True or v is False or v is None:
                return str(v)
            if isinstance(v, str):
                return _strlit(v)
            if isinstance(v, bytes):
                return 'b"' + repr(v)[2:-1].replace('"', '\\"') + '"'
            if isinstance(v, (float, complex)) and not isinstance(v, bool):
                s = str(v)
                return s.replace("inf", "1e999") if "nonfinite" in self.on else s
            if isinstance(v, int):
                return str(v)
            raise Unprintable
        if isinstance(n, ast.Attribute):
            if isinstance(n.value, ast.Constant) and type(n.value.value) is int and "intattr" in self.on:
                return f"({self.inner(n.value)}).{n.attr}"
            return f"{self.p(n.value, 16)}.{n.attr}"
        if isinstance(n, ast.Dict):
            parts = [("**" + self.top(v, 7)) if k is None else f"{self.top(k, 1)}: {self.top(v, 1)}" for k, v in zip(n.keys, n.values)]
            return "{" + ", ".join(parts) + "}"
        if isinstance(n, ast.Tuple):
            inner = ", ".join(self.top(x) for x in n.elts)
            return "(" + inner + ("," if len(n.elts) == 1 else "") + ")"
        if isinstance(n, ast.List):
            return "[" + ", ".join(self.top(x) for x in n.elts) + "]"
        if isinstance(n, ast.Set):
            return "{" + ", ".join(self.top(x) for x in n.elts) + "}"
        if isinstance(n, ast.Call):
            fp = self.fake_parts(n)
            if fp is not None and "fake" not in self.on:
                return 'f"' + "".join(self.lit(a) if isinstance(a, str) else self.field(a, fmt) for a, fmt in fp) + '"'
            args = [("*" + self.p(a.value, 1)) if isinstance(a, ast.Starred) else self.p(a, 0) for a in n.args]
            args += [("**" + self.p(k.value, 1)) if k.arg is None else f"{k.arg}={self.p(k.value, 1)}" for k in n.keywords]
            return f"{self.p(n.func, 16, 'callee')}({', '.join(args)})"
        if isinstance(n, ast.Subscript):
            idx = self.top(n.slice)
            if "slicetuple" in self.on and idx != "x" and isinstance(n.slice, ast.Tuple) and any(isinstance(x, ast.Slice) for x in n.slice.elts):
                idx = idx[1:-1]
            return f"{self.top(n.value, 16)}[{idx}]"
        if isinstance(n, ast.Slice):
            b = self.top(n.lower, 1) if n.lower is not None else ""
            e = self.top(n.upper, 1) if n.upper is not None else ""
            s = ":" + self.top(n.step, 1) if n.step is not None else ""
            return f"{b}:{e}{s}"
        if isinstance(n, ast.BinOp):
            op = AST_BIN[type(n.op)]
            pr = BIN_PREC[op]
            lhs, rhs = (15, 13) if op == "**" else (pr, pr + 1)
            return f"{self.p(n.left, lhs)} {op} {self.p(n.right, rhs)}"
        if isinstance(n, ast.BoolOp):
            op = "or" if isinstance(n.op, ast.Or) else "and"
            pr = BIN_PREC[op]
            vals = [self.p(v, pr + 1) for v in n.values[:-1]] + [self.p(n.values[-1], pr)]
            return f" {op} ".join(vals)
        if isinstance(n, ast.Compare):
            out = self.p(n.left, 7)
            for o, c in zip(n.ops, n.comparators):
                out += f" {AST_CMP[type(o)]} {self.p(c, 7)}"
            return out
        if isinstance(n, ast.UnaryOp):
            if isinstance(n.op, ast.Not):
                return "not " + self.p(n.operand, 5)
            return AST_UN[type(n.op)] + self.p(n.operand, 13)
        if isinstance(n, ast.Lambda):
            a = n.args
            if a.posonlyargs or a.defaults or a.vararg or a.kwonlyargs or a.kwarg:
                raise Unprintable
            names = ", ".join(x.arg for x in a.args)
            return "lambda" + (" " + names if names else "") + ": " + self.p(n.body, 1)
        if isinstance(n, ast.IfExp):
            return f"{self.p(n.body, 3)} if {self.p(n.test, 3)} else {self.p(n.orelse, 1)}"
        if isinstance(n, ast.Await):
            return "await " + self.p(n.value, 16)
        if isinstance(n, ast.NamedExpr):
            return f"{self.p(n.target)} := {self.p(n.value, 1)}"
        if isinstance(n, ast.JoinedStr):
            return self.fstring(n)
        # statements
        if isinstance(n, ast.Assign) and len(n.targets) == 1:
            return f"{self.top(n.targets[0])} = {self.top(n.value, 1)}"
        if isinstance(n, ast.If) and len(n.body) == 1 and not n.orelse:
            return f"if {self.p(n.test)}: {self.inner(n.body[0])}"
        if isinstance(n, ast.For) and len(n.body) == 1 and not n.orelse:
            return f"for {self.p(n.target)} in {self.p(n.iter, 1)}: {self.inner(n.body[0])}"
        if isinstance(n, ast.Delete):
            t = n.targets[0] if len(n.targets) == 1 else ast.Tuple(elts=n.targets)
            return "del " + self.p(t)
        raise Unprintable


def applicable(n: Any) -> list[str]:
    """the switches that make a difference for this tree"""
    full, none = Twin(ALL_SWITCHES).top(n), Twin(frozenset()).top(n)
    out = []
    for s in sorted(ALL_SWITCHES):
        if Twin(ALL_SWITCHES - {s}).top(n) != full or Twin(frozenset({s})).top(n) != none:
            out.append(s)
    return out


def defect_sets(n: Any, limit: int = 6):
    """(D, text refurb prints when exactly the defects D are present), fewest defects first"""
    from itertools import combinations

    # a defect that was repaired in /repo is no longer a candidate explanation: its switch stays on
    app = [a for a in applicable(n) if a not in REPAIRED_SWITCHES]
    if len(app) > limit:
        yield frozenset(), Twin(ALL_SWITCHES).top(n)
        yield frozenset(app), Twin(ALL_SWITCHES - frozenset(app)).top(n)
        return
    for k in range(len(app) + 1):
        for d in combinations(app, k):
            yield frozenset(d), Twin(ALL_SWITCHES - frozenset(d)).top(n)


def explain(n: Any, text: str) -> frozenset[str] | None:
    """the defects whose presence makes the twin print `text` for the tree, or None"""
    for d, t in defect_sets(n):
        if t == text:
            return d
    return None


# --------------------------------------------------------------------------------------------
# the oracle: quoted fragments of real diagnostics vs the source at the reported span

WORKER = r"""
import json, sys
from concurrent.futures import ProcessPoolExecutor
def lint(files):
    from refurb.main import run_refurb
    from refurb.settings import load_settings
    from refurb.error import Error
    errs = run_refurb(load_settings([*files, "--enable-all", "--quiet"]))
    out = []
    for e in errs:
        if isinstance(e, Error):
            out.append({"file": e.filename, "line": e.line, "col": e.column, "line_end": e.line_end, "col_end": e.column_end,
                        "code": f"{e.prefix}{e.code}", "msg": e.msg})
        else:
            out.append({"file": None, "text": str(e)})
    return out
def one(batch):
    try:
        res = lint(batch)
        if not any(r["file"] is None for r in res):
            return res
    except BaseException as e:
        pass
    out = []
    for f in batch:
        try:
            out += [dict(r, file=r["file"] or f) for r in lint([f])]
        except BaseException as e:
            out.append({"file": f, "crash": repr(e)})
    return out
if __name__ == "__main__":
    batches = json.load(open("_jobs.json"))
    with ProcessPoolExecutor(max_workers=16) as ex:
        res = list(ex.map(one, batches))
    json.dump([r for rs in res for r in rs], open("_out.json", "w"))
"""

PRELUDE = """from typing import Generic as _G, TypeVar as _TV
_T = _TV("_T")
def ident(_v: _T) -> _T: return _v
async def aident(_v: _T) -> _T: return _v
class Box(_G[_T]):
    def __init__(self, v: _T) -> None: self.v = v
cc: bool = True
"""


def run_refurb_on(d: Path, files: list[str], per_batch: int = 1) -> dict[str, list[dict[str, Any]]]:
    (d / "_worker.py").write_text(WORKER)
    batches = [files[i : i + per_batch] for i in range(0, len(files), per_batch)]
    (d / "_jobs.json").write_text(json.dumps(batches))
    p = subprocess.run([core.PY, "_worker.py"], cwd=d, capture_output=True, text=True, timeout=3000, env=core.py_env())
    if p.returncode != 0:
        raise RuntimeError("refurb worker failed: " + p.stderr[-2000:])
    out: dict[str, list[dict[str, Any]]] = {f: [] for f in files}
    for r in json.loads((d / "_out.json").read_text()):
        out.setdefault(r["file"], []).append(r)
    return out


# ---- messages


def split_message(msg: str) -> tuple[str | None, list[str]]:
    """-> (OLD fragment or None, NEW fragments)"""
    m = re.match(r"^Replace `(.*?)` with `(.*)`$", msg, re.S)
    if m and "` with `" not in m.group(2):
        return m.group(1), [m.group(2)]
    frags = re.findall(r"`([^`]*)`", msg)
    return None, frags


WILD = {"x", "y", "z"}


def _wrap_try(frag: str) -> str:
    return re.sub(r" (except\b|finally:|else:)", r"\n\1", frag)


def parse_fragment(frag: str, code: str) -> tuple[str, Any] | None:
    """parse a quoted fragment: ('expr', node) | ('stmts', [nodes]) | ('clause:<kind>', node)"""
    attempts: list[tuple[str, str, str]] = []
    if code == "FURB119" and frag.startswith("{") and frag.endswith("}"):
        attempts.append(("clause:ffield", "f'''" + frag + "'''", "eval"))
    attempts += [("expr", frag, "eval"), ("stmts", frag, "exec")]
    if frag.startswith("for ") and not frag.rstrip().endswith(":") and ": " not in frag:
        attempts.append(("clause:for", frag + ": pass", "exec"))
    if " for ... in " in frag or frag.startswith("for ... in "):
        f2 = frag.replace("for ... in ", "for _w_ in ")
        attempts += [("expr", f2, "eval"), ("expr", "(" + f2 + ")", "eval")]
    if frag.startswith(("in ", "not in ")):
        attempts.append(("clause:cmp", "_ " + frag, "eval"))
    if frag.startswith("@"):
        attempts.append(("clause:decorator", frag[1:], "eval"))
    if frag.startswith("class ") and frag.endswith(":"):
        attempts.append(("clause:class", frag + " pass", "exec"))
    if frag.startswith("try:"):
        attempts.append(("stmts", _wrap_try(frag), "exec"))
    if frag.startswith("with ") and " try:" in frag:
        attempts.append(("stmts", _wrap_try(frag), "exec"))
    if frag.startswith("case "):
        attempts.append(("clause:case", "match _:\n " + frag, "exec"))
    if frag.startswith("else:"):
        attempts.append(("clause:else", "if _:\n pass\n" + frag, "exec"))
    if re.match(r"^[A-Za-z_][\w.]*\(.*\) as \w+$", frag):
        attempts.append(("clause:pattern", "match _:\n case " + frag + ": pass", "exec"))
    if re.match(r"^\w+=", frag):
        attempts.append(("clause:keyword", "_(" + frag + ")", "eval"))
    import warnings

    for kind, text, mode in attempts:
        try:
            with warnings.catch_warnings():
                warnings.simplefilter("ignore")
                t = ast.parse(text, mode=mode)
        except (SyntaxError, ValueError, RecursionError):
            continue
        return kind, t.body  # type: ignore[attr-defined]
    return None


# ---- syntax trees: normal form and unification


class _Norm(ast.NodeTransformer):
    def visit_BoolOp(self, n: ast.BoolOp) -> Any:
        self.generic_visit(n)
        last = n.values[-1]
        if isinstance(last, ast.BoolOp) and type(last.op) is type(n.op):
            n.values = n.values[:-1] + last.values
        return n

    def visit_JoinedStr(self, n: ast.JoinedStr) -> Any:
        self.generic_visit(n)
        if all(isinstance(v, ast.Constant) for v in n.values):
            return ast.Constant("".join(v.value for v in n.values))  # type: ignore[attr-defined]
        return n


SKIP_FIELDS = {"ctx", "kind", "type_comment", "lineno", "col_offset", "end_lineno", "end_col_offset", "type_ignores"}


def is_wild(p: Any, lenient: bool) -> str | None:
    if isinstance(p, ast.Name) and (p.id in WILD or p.id == "_w_" or (lenient and len(p.id) == 1)):
        return p.id
    if isinstance(p, ast.Constant) and p.value is Ellipsis:
        return "..."
    if isinstance(p, ast.Expr):
        return is_wild(p.value, lenient)
    if isinstance(p, ast.Starred):
        return "..." if is_wild(p.value, lenient) == "..." else None
    if isinstance(p, ast.arg) and (p.arg in WILD or (lenient and len(p.arg) == 1)):
        return p.arg
    return None


def unify(p: Any, t: Any, binds: dict[str, str], lenient: bool) -> bool:
    if isinstance(p, list):
        if not isinstance(t, list):
            return False
        return unify_list(p, t, binds, lenient)
    w = is_wild(p, lenient) if isinstance(p, ast.AST) else None
    if w is not None and isinstance(t, ast.AST):
        if w == "...":
            return True
        d = ast.dump(t.value if isinstance(t, ast.Expr) else t)
        if w in binds and binds[w] != d:
            # the same letter may be reused for a binding occurrence (`for x in ...`) and a use
            return lenient
        binds[w] = d
        return True
    if isinstance(p, (ast.Name, ast.Attribute)) and isinstance(t, (ast.Name, ast.Attribute)) and type(p) is not type(t):
        # messages spell library functions by their canonical dotted name (`os.getcwd()` for `getcwd()`,
        # `utcnow()` for `datetime.utcnow()`): tolerated when one dotted name is a suffix of the other
        dp, dt = dotted(p), dotted(t)
        if dp and dt and len(dp) != len(dt) and (dp[-len(dt) :] == dt or dt[-len(dp) :] == dp):
            binds["<qualified>"] = "1"
            return True
    if isinstance(p, ast.BoolOp) and isinstance(t, ast.BoolOp) and type(p.op) is type(t.op) and len(p.values) < len(t.values):
        # mypy nests `a or b or c` as `a or (b or c)`; a check that reports on the inner node quotes a sub-chain
        n = len(p.values)
        return any(unify_list(p.values, t.values[k : k + n], dict(binds), lenient) for k in range(len(t.values) - n + 1))
    if lenient and isinstance(p, ast.ExceptHandler) and isinstance(t, ast.ExceptHandler):
        return unify(p.type, t.type, binds, lenient) and unify(p.body, t.body, binds, lenient)
    if lenient and isinstance(p, ast.Constant) and isinstance(p.value, str) and "..." in p.value:
        return isinstance(t, (ast.Constant, ast.JoinedStr))
    if lenient and isinstance(p, (ast.List, ast.Set, ast.Tuple)) and len(p.elts) == 1 and is_wild(p.elts[0], lenient) == "...":
        comp = {ast.List: ast.ListComp, ast.Set: ast.SetComp, ast.Tuple: ast.GeneratorExp}[type(p)]
        return isinstance(t, (type(p), comp))
    if isinstance(p, ast.Call) and isinstance(t, ast.Call) and p.args and is_wild(p.args[-1], lenient) == "...":
        # `f(x, ...)`: the dots stand for the remaining arguments of either kind
        if not unify(p.func, t.func, binds, lenient) or not unify_list(p.args, t.args, binds, lenient):
            return False
        return unify_list(p.keywords, [k for k in t.keywords if k.arg in {q.arg for q in p.keywords}], binds, lenient)
    if isinstance(p, ast.AST):
        if type(p) is not type(t):
            return False
        for f in p._fields:
            if f in SKIP_FIELDS:
                continue
            if not unify(getattr(p, f, None), getattr(t, f, None), binds, lenient):
                return False
        return True
    if isinstance(p, str) and isinstance(t, str) and (p in WILD or (lenient and len(p) == 1)):
        return True  # a bound name (`as f`, `global x`) standing for the user's
    if isinstance(p, float) and isinstance(t, float):
        return p == t or (p != p and t != t)
    return type(p) is type(t) and p == t


def dotted(n: Any) -> list[str] | None:
    out: list[str] = []
    while isinstance(n, ast.Attribute):
        out.append(n.attr)
        n = n.value
    if isinstance(n, ast.Name):
        out.append(n.id)
        return out[::-1]
    return None


def unify_list(ps: list[Any], ts: list[Any], binds: dict[str, str], lenient: bool) -> bool:
    if not ps:
        return not ts
    head, rest = ps[0], ps[1:]
    if isinstance(head, ast.AST) and is_wild(head, lenient) == "...":
        for k in range(len(ts) + 1):  # `...` stands for any run of items
            b2 = dict(binds)
            if unify_list(rest, ts[k:], b2, lenient):
                binds.update(b2)
                return True
        return False
    if isinstance(head, ast.keyword) and head.arg is None and is_wild(head.value, lenient) == "...":
        return any(unify_list(rest, ts[k:], dict(binds), lenient) for k in range(len(ts) + 1))
    if not ts:
        return False
    return unify(head, ts[0], binds, lenient) and unify_list(rest, ts[1:], binds, lenient)


def looks_schematic(frag: str) -> bool:
    """does the fragment contain a placeholder: `...`, or a bare name x/y/z (not inside a string literal)?"""
    if "..." in frag:
        return True
    import io
    import tokenize

    try:
        prev = ""
        for t in tokenize.generate_tokens(io.StringIO(frag).readline):
            if t.type == tokenize.NAME and t.string in WILD and prev != ".":
                return True
            prev = t.string
        return False
    except (tokenize.TokenError, SyntaxError, IndentationError):
        bare = re.sub(r"\"(?:\\.|[^\"\\])*\"|'(?:\\.|[^'\\])*'", '""', frag)
        return bool(re.search(r"(?<![\w.])[xyz](?![\w])", bare))


class FileIndex:
    """the `ast` of one source file, with nodes looked up by mypy's span"""

    def __init__(self, src: str):
        self.src = src
        self.lines = src.split("\n")
        self.tree = _Norm().visit(ast.parse(src))
        self.by_span: dict[tuple[int, int, int, int], list[ast.AST]] = {}
        self.parent: dict[ast.AST, tuple[ast.AST, str, int | None]] = {}
        for n in ast.walk(self.tree):
            for f, v in ast.iter_fields(n):
                if isinstance(v, list):
                    for i, c in enumerate(v):
                        if isinstance(c, ast.AST):
                            self.parent[c] = (n, f, i)
                elif isinstance(v, ast.AST):
                    self.parent[v] = (n, f, None)
            if hasattr(n, "lineno") and getattr(n, "end_lineno", None) is not None:
                self.by_span.setdefault((n.lineno, n.col_offset, n.end_lineno, n.end_col_offset), []).append(n)  # type: ignore[attr-defined]

    def at(self, e: dict[str, Any]) -> list[ast.AST]:
        return self.by_span.get((e["line"], e["col"], e["line_end"], e["col_end"]), [])

    def starting_at(self, e: dict[str, Any]) -> list[ast.AST]:
        return [n for (l, c, _, _), ns in self.by_span.items() if (l, c) == (e["line"], e["col"]) for n in ns]

    def containing(self, e: dict[str, Any]) -> list[ast.AST]:
        """innermost nodes around a bare (line, column) position"""
        pos = (e["line"], e["col"])
        inside = [(k, ns) for k, ns in self.by_span.items() if (k[0], k[1]) <= pos < (k[2], k[3])]
        inside.sort(key=lambda kn: (kn[0][2] - kn[0][0], kn[0][3] - kn[0][1] if kn[0][2] == kn[0][0] else 10**6))
        return [n for _, ns in inside[:1] for n in ns]

    def top_stmt(self, n: ast.AST) -> ast.AST:
        while n in self.parent and not isinstance(self.parent[n][0], ast.Module):
            n = self.parent[n][0]
        return n

    def siblings_from(self, n: ast.AST) -> list[ast.AST]:
        if n not in self.parent:
            return [n]
        par, f, i = self.parent[n]
        return getattr(par, f)[i:] if i is not None else [n]


def span_candidates(fi: FileIndex, e: dict[str, Any]) -> list[ast.AST]:
    """the syntax nodes a diagnostic may be quoting: the node at the reported span, the expressions/statements that
    enclose it (many checks report the position of a sub-expression of what they quote: the callee, an argument,
    the right operand), and f-strings inside it (mypy gives the parts of an f-string the position of the whole)"""
    cands = list(fi.at(e)) or fi.starting_at(e) or fi.containing(e)
    seen = set(map(id, cands))
    for c in list(cands):
        while c in fi.parent:
            c = fi.parent[c][0]
            if isinstance(c, ast.Module):
                break
            if id(c) not in seen:
                seen.add(id(c))
                cands.append(c)
    for c in list(cands[:2]):
        inner = [d_ for d_ in list(ast.walk(c))[1:40] if isinstance(d_, ast.JoinedStr)]
        cands += inner
        for j_ in ([c] if isinstance(c, ast.JoinedStr) else []) + inner[:3]:
            cands += [d_ for d_ in list(ast.walk(j_))[1:60] if isinstance(d_, ast.expr) and not isinstance(d_, (ast.JoinedStr, ast.FormattedValue)) and id(d_) not in seen]
    return cands


def check_old(kind: str, pat: Any, fi: FileIndex, e: dict[str, Any], lenient: bool) -> tuple[bool, str]:
    """does the OLD pattern unify with the source at the span? -> (ok, description of the target used)"""
    cands = span_candidates(fi, e)
    if not cands:
        return False, "no syntax node at the reported span"
    tried = []
    for t in cands:
        targets: list[tuple[Any, Any]] = []
        if kind == "expr":
            targets.append((pat, t.value if isinstance(t, ast.Expr) else t))
            if isinstance(t, ast.keyword):
                targets.append((pat, t.value))
        elif kind == "stmts" and isinstance(t, ast.keyword) and len(pat) == 1 and isinstance(pat[0], ast.Assign) and isinstance(pat[0].targets[0], ast.Name):
            # `metaclass=ABCMeta`: a keyword argument quoted on its own reads as an assignment
            if pat[0].targets[0].id == t.arg:
                targets.append((pat[0].value, t.value))
        elif kind == "stmts" and isinstance(t, ast.arg) and len(pat) == 1 and isinstance(pat[0], (ast.AnnAssign, ast.Assign)):
            # `a: T = Query()`: a parameter with its default, quoted as an annotated assignment (T: the annotation)
            args = fi.parent[t][0]
            default = None
            if isinstance(args, ast.arguments):
                pos = args.posonlyargs + args.args
                if t in pos and len(pos) - pos.index(t) <= len(args.defaults):
                    default = args.defaults[len(args.defaults) - (len(pos) - pos.index(t))]
                elif t in args.kwonlyargs:
                    default = args.kw_defaults[args.kwonlyargs.index(t)]
            ptarget = pat[0].target if isinstance(pat[0], ast.AnnAssign) else pat[0].targets[0]
            if isinstance(ptarget, ast.Name) and ptarget.id == t.arg and default is not None and pat[0].value is not None:
                targets.append((pat[0].value, default))
        elif kind == "stmts":
            st = t
            while not isinstance(st, ast.stmt) and st in fi.parent:
                st = fi.parent[st][0]
            sib = fi.siblings_from(st)
            targets.append((pat, sib[: len(pat)]))
            if len(pat) == 1 and isinstance(pat[0], ast.Expr) and isinstance(t, ast.expr):
                targets.append((pat[0].value, t))
        elif kind == "clause:cmp":
            if isinstance(t, ast.Compare):
                targets.append(([pat.ops[-1], pat.comparators[-1]], [t.ops[-1], t.comparators[-1]]))
            par = fi.parent.get(t)
            if par and par[1] == "iter" and isinstance(pat.ops[-1], ast.In):
                targets.append((pat.comparators[-1], t))  # `for x in [...]`
        elif kind == "clause:decorator":
            targets.append((pat, t))
        elif kind == "clause:class":
            if isinstance(t, ast.ClassDef):
                targets.append(([pat[0].name, pat[0].bases], [t.name, t.bases]))
        elif kind == "clause:keyword":
            kws = [k for k in getattr(t, "keywords", []) if k.arg == pat.keywords[0].arg]
            if isinstance(t, ast.keyword):
                kws = [t]
            targets += [(pat.keywords[0], k) for k in kws]
            par = fi.parent.get(t)
            if par and isinstance(par[0], ast.keyword):
                targets.append((pat.keywords[0], par[0]))
        elif kind == "clause:ffield":
            fv = pat.values[0] if isinstance(pat, ast.JoinedStr) and len(pat.values) == 1 else None
            par = fi.parent.get(t)
            if fv is not None and par and isinstance(par[0], ast.FormattedValue):
                targets.append((fv, par[0]))
            if fv is not None and isinstance(t, ast.JoinedStr):
                targets += [(fv, v) for v in t.values if isinstance(v, ast.FormattedValue)]
            if fv is not None and isinstance(t, ast.Expr) and isinstance(t.value, ast.JoinedStr):
                targets += [(fv, v) for v in t.value.values if isinstance(v, ast.FormattedValue)]
        elif kind in ("clause:case", "clause:else", "clause:pattern", "clause:for"):
            return True, "clause (not compared)"
        for pp_, tt in targets:
            if unify(pp_, tt, {}, lenient):
                return True, type(t).__name__
        tried.append(type(t).__name__)
    return False, "/".join(tried)


# ---- operand classes

# source text of an operand of each precedence class built around the original leaf `n` (type-preserving where the
# class allows it); always parenthesised in the SOURCE, so the printer has to decide about parentheses itself
NAME_CLASSES: list[tuple[str, str]] = [
    ("call", "ident({n})"),
    ("subscript", "[{n}][0]"),
    ("attribute", "Box({n}).v"),
    ("or", "({n} or {n})"),
    ("and", "({n} and {n})"),
    ("conditional", "({n} if cc else {n})"),
    ("walrus", "(ww := {n})"),
    ("lambda_call", "(lambda: {n})()"),
    ("lambda", "(lambda: {n})"),
    ("add", "({n} + {n})"),
    ("mul", "({n} * 1)"),
    ("bitor", "({n} | {n})"),
    ("pow", "({n} ** 1)"),
    ("neg", "(-{n})"),
    ("not", "(not {n})"),
    ("compare", "({n} == {n})"),
    ("await", "(await aident({n}))"),
    ("nested_arith", "(({n} + {n}) * 1)"),
    ("nested_cond", "(({n} if cc else {n}) if cc else {n})"),
]
CONST_CLASSES: dict[type, list[tuple[str, str]]] = {
    str: [("str_quotes", "'it\\'s \"q\"'"), ("str_escapes", '"tab\\t\\\\ \\x00"'), ("str_unicode", '"ünï 日本 \\xa0"'), ("str_braces", '"{{x}}"'), ("fstring", 'f"a{cc}b"'), ("fstring_braces", 'f"{{{{lit}}}}{cc}"'), ("fstring_conv", 'f"{cc!r:>5}"')],
    bytes: [("bytes_quotes", "b'a\"b\\'c'"), ("bytes_escapes", 'b"\\x00\\xff\\\\"')],
    int: [("int_negative", "(-5)"), ("int_large", "100000000000000000000"), ("int_hex", "0x1F"), ("float", "2.5"), ("float_exp", "1e16"), ("float_inf", "1e999"), ("complex", "2j")],
    float: [("float_exp", "1e16"), ("float_small", "1e-07"), ("float_inf", "1e999"), ("int_negative", "(-5)")],
}


def leaves(fi: FileIndex, node: ast.AST, msg: str) -> list[tuple[str, str, list[ast.AST]]]:
    """operand positions below the flagged node: (path of the first occurrence, description, all occurrences)"""
    out: dict[str, tuple[str, list[ast.AST]]] = {}

    def walk(n: ast.AST, path: str) -> None:
        for f, v in ast.iter_fields(n):
            kids = v if isinstance(v, list) else [v]
            for i, c in enumerate(kids):
                if not isinstance(c, ast.AST):
                    continue
                pth = f"{path}.{f}" + (f"[{i}]" if isinstance(v, list) else "")
                if isinstance(c, ast.Name) and isinstance(c.ctx, ast.Load):
                    if re.search(r"(?<![\w.])" + re.escape(c.id) + r"(?![\w])", msg):
                        out.setdefault("name:" + c.id, (pth, []))[1].append(c)
                elif isinstance(c, ast.Constant) and type(c.value) in CONST_CLASSES and not isinstance(n, ast.JoinedStr):
                    key = "const:%s:%d:%d" % (type(c.value).__name__, c.lineno, c.col_offset)
                    out.setdefault(key, (pth, []))[1].append(c)
                else:
                    walk(c, pth)

    walk(node, type(node).__name__)
    return [(p, k, ns) for k, (p, ns) in out.items()]


def substitute(fi: FileIndex, top: ast.AST, occurrences: list[ast.AST], text: str) -> str | None:
    """source of the top-level statement `top` with every occurrence replaced by `text` (single-line nodes only)"""
    seg_lines = fi.lines[top.lineno - 1 : top.end_lineno]  # type: ignore[attr-defined]
    edits: dict[int, list[tuple[int, int]]] = {}
    for o in occurrences:
        if o.lineno != o.end_lineno:  # type: ignore[attr-defined]
            return None
        edits.setdefault(o.lineno - top.lineno, []).append((o.col_offset, o.end_col_offset))  # type: ignore[attr-defined]
    out = []
    for i, line in enumerate(seg_lines):
        b = line.encode("utf8")
        for a, z in sorted(edits.get(i, []), reverse=True):
            b = b[:a] + text.encode("utf8") + b[z:]
        out.append(b.decode("utf8"))
    return "\n".join(out)


# expressions whose printed form is at stake inside `_stringify` itself, placed in carrier idioms
CARRIER_EXPRS = [
    "(aa + bb) * cc", "-(aa + bb)", "(aa if bb else cc) if dd else ee", "(ww := aa) + 1", "(lambda: aa)()", "(lambda: aa) or bb",
    "(aa, bb)[0]", "aa[1:2, 3]", "aa[::2, ...]", "(1).real", "(aa and bb) and cc", "aa ** (bb ** cc)", "(aa ** bb) ** cc", "(-aa) ** bb",
    "(not aa) == bb", "not (aa == bb)", "(aa == bb) == cc", "(aa + 1)[0]", "(aa or bb)(cc)", "(aa + bb).attr", "(aa + bb)[0]",
    "[*aa, bb]", "{**aa, 'k': bb}", "f'{{x}}{aa}'", "f'{aa!r:>{bb}}'", "f'{aa!r}'", "f'{aa:>{bb}}'", "f'{aa}{bb:x}'", "f\"{aa['k']}\"",
    "f'{(lambda: aa)}'", "f'{(aa if bb else cc)}'", "f'{ {1: 2}[1]}'", "'{:{}}'.format(aa, '')", "''.join(['a', '{:{}}'.format(aa, '')])",
    "1e999", "-1e999", "1e999j", "aa[...]", "aa[bb:cc]", "aa[(bb, cc)]", "aa[bb, cc]", "[aa for aa in bb][0]",
    "aa if (bb if cc else dd) else ee", "aa if bb else (cc if dd else ee)", "(aa, *bb)", "aa[(ww := 1)]", "aa(ww := 1)", "aa(bb=(ww := 1))",
    "lambda vv: vv + 1", "lambda vv=1: vv", "lambda *vv: vv", "(lambda: aa) if bb else cc", "aa if bb else lambda: cc",
    "aa < bb < cc", "(aa < bb) < cc", "aa < (bb < cc)", "aa | bb ^ cc & dd", "(aa | bb) ^ cc", "aa << bb + cc", "(aa << bb) + cc", "aa @ bb", "~aa ** 2", "(~aa) ** 2",
    "-aa ** -bb", "not not aa", "- -aa", "+-aa", "aa.bb(cc, *dd, ee=1, **ff)", "aa.bb.cc[dd].ee()", "'it\\'s' + \"q\\\"\"", "b'a\"b'", "'tab\\t\\x00é日本'", "'{x}'",
    "\"don\\\\'t\"", "r\"[\\'\\s]+\"", "f\"{aa}\\\\'\"", "'a\\\\\\'b'", "b\"it\\\\'s\"", "'\\\\' + \"'\"", "lambda vv, ww=2: vv * ww", "lambda vv=(1, 2), *ww, xx=3, **yy: vv",
    "100000000000000000000", "0x1F", "1_000", "2.5", "1e16", "1e-07", "2j", "None", "True", "()", "[]", "{}", "{aa}", "(aa,)", "((aa,),)",
]
# expressions that only exist inside a method / generator / coroutine, or whose node class the module-level carriers never show
# (every mypy expression class that can reach _stringify should occur at least once: a new printer arm must be faithful)
METHOD_EXPRS = [
    "super().attr", "super(_K, self).attr", "super(_Base, self).attr", "super().meth(aa)", "super(_K, self).meth()[0]", "super().meth().real",
    "self.attr", "type(self).attr", "__class__.attr", "self.meth(*aa, **bb)", "(yield aa)", "(yield)", "(yield from aa)", "(await aa)", "(await aa).attr",
    "{vv for vv in aa}", "{vv: 1 for vv in aa}", "(vv for vv in aa)", "[vv for vv in aa if vv for ww in vv]", "[vv async for vv in aa]",
    "cast(int, aa)", "cast('list[int]', aa)", "list[int]", "list[int]()", "dict[str, int]()", "f'{aa=}'", "f'{aa = !r:>4}'", "aa[bb:cc:dd]", "aa[::-1]", "...",
    "f'{aa:>8}{bb}'", "f'{aa:x}{bb}{cc:>4}{dd}'", "f'{aa}{bb:x}{cc}'", "f'x{aa:.2f}y{bb}z'", "f'{aa:>8}' f'{bb}'",
    "print(*aa, sep='')", "aa(*bb)(**cc)", "not aa is bb", "aa is not bb", "aa not in bb", "(aa, bb) == (cc,)", "[aa, *bb, cc]", "{aa, *bb}", "{'k': aa, **bb, 1: 2}",
    "b'x' b'y'", "'x' 'y'", "1_0.0_1", "0o17", "0b11", "1.", ".5", "5j.imag", "aa.real.imag", "(aa)(bb)", "aa()()", "aa[bb][cc]", "lambda: (yield)",
]
METHOD_WRAP = (
    "from typing import Any, cast\n"
    "class _Base:\n    attr: Any = 1\n    def meth(self, *a: Any) -> Any: return [0]\n"
    "class _K(_Base):\n"
)


CARRIERS = [
    ("FURB110", "zz = ({e}) if ({e}) else qq\n"),
    ("FURB114", "zz = not not ({e})\n"),
    ("FURB183", "zz = f\"{{({e})}}\"\n"),
    ("FURB169", "zz = type({e}) is type(None)\n"),
    ("FURB171", "zz = ({e}) in (qq,)\n"),
]


def oracle(ctx) -> None:
    res = ctx.res
    rng = ctx.rng("oracle")
    from .. import extract

    docs = [ex for ex in extract.documented_examples() if ex["kind"] == "Bad"]
    data = sorted((core.REPO / "test" / "data").glob("err_*.py"))
    frac = 0.08 if ctx.quick else 1.0
    n_random = 160 if ctx.quick else 2500
    with core.scratch("rv-c02-") as d:
        (d / "pyproject.toml").write_text("")
        base: dict[str, str] = {}
        for pth in data:
            base["t_" + pth.name] = pth.read_text()
        for ex in docs:
            base[f"d_{ex['code']}_{ex['index']}.py"] = extract.auto_prelude(ex["src"]) + ex["src"]
        for f, src in base.items():
            (d / f).write_text(src)
        errs = run_refurb_on(d, sorted(base), per_batch=6)
        # ---- baseline: every diagnostic of the unmodified idioms
        variants: dict[str, list[dict[str, Any]]] = {}
        n_base = 0
        for f, src in sorted(base.items()):
            try:
                fi = FileIndex(src)
            except SyntaxError:
                continue
            body: list[str] = [PRELUDE + src.rstrip("\n")]
            plan: list[dict[str, Any]] = []
            line_no = body[0].count("\n") + 1
            for e in errs.get(f, []):
                if "msg" not in e:
                    continue
                n_base += 1
                bv = judge(res, fi, e, hole="-", opclass="-", origin=f)
                cands = [n for n in (fi.at(e) or []) if isinstance(n, (ast.expr, ast.stmt))]
                if not cands:
                    continue
                node = cands[0]
                top = fi.top_stmt(node)
                if getattr(top, "end_lineno", None) is None:
                    continue
                for path, key, occ in leaves(fi, node, e["msg"]):
                    if key.startswith("name:"):
                        nm = key[5:]
                        classes = [(c, t.format(n=nm)) for c, t in NAME_CLASSES]
                    else:
                        classes = CONST_CLASSES[type(occ[0].value)]  # type: ignore[attr-defined]
                    for cname, text in classes:
                        if rng.random() > frac:
                            continue
                        new = substitute(fi, top, occ, text)
                        if new is None:
                            continue
                        if cname == "await":
                            new = "async def _av%d():\n" % line_no + "\n".join("    " + l for l in new.split("\n"))
                        nl = new.count("\n") + 1
                        plan.append({"from": line_no + 1, "to": line_no + nl, "code": e["code"], "hole": path, "class": cname, "origin": f, "base": bv, "text": text})
                        body.append(new)
                        line_no += nl
            if plan:
                vf = "v_" + f
                (d / vf).write_text("\n".join(body) + "\n")
                variants[vf] = plan
        # ---- carriers: fixed expressions + random well-formed expressions (reference text of generated trees)
        g = Gen(rng, wild=False, names=["aa", "bb", "cc", "dd", "foo", "_p", "Bar9", "ünï", "True", "None", "self"])
        rnd = ctx.driver.batch([{"verb": "ppref", "n": g.expr(rng.choice([1, 2, 2, 3]))} for _ in range(n_random)]) if ctx.driver.available() else []
        wfile = core.VERIF / "corpus" / "C02" / "witnesses.json"
        corpus = [w["expr"] for w in json.loads(wfile.read_text())["witnesses"]] if wfile.exists() else []
        exprs = corpus + [e_ for e_ in CARRIER_EXPRS if e_ not in corpus] + [uncps(a["ppref"]) for a in rnd if a.get("wf") and "await" not in (uncps(a["ppref"]) or "")]
        per_file = 120
        carrier_line: dict[tuple[str, int], str] = {}
        for k in range(0, len(exprs), per_file):
            lines = ["aa = bb = cc = dd = ee = ff = qq = foo = _p = Bar9 = ünï = self = object()\n"]
            for e_ in exprs[k : k + per_file]:
                for _code, tmpl in CARRIERS:
                    carrier_line[(f"c_{k // per_file:03d}.py", len(lines) + 1)] = e_
                    lines.append(tmpl.format(e=e_))
            (d / f"c_{k // per_file:03d}.py").write_text("".join(lines))
        # the same carriers inside methods (plain, generator, coroutine) of a subclass: one method per expression
        mexprs = METHOD_EXPRS + (rng.sample(CARRIER_EXPRS, 12) if ctx.quick else CARRIER_EXPRS)
        for k in range(0, len(mexprs), 60):
            lines = [l + "\n" for l in METHOD_WRAP.rstrip("\n").split("\n")]
            for j, e_ in enumerate(mexprs[k : k + 60]):
                kind_ = "async def" if "await" in e_ or "async for" in e_ else "def"
                if kind_ == "async def" and "yield from" in e_:
                    continue
                lines.append(f"    {kind_} m{j}(self, aa: Any, bb: Any, cc: Any, dd: Any, qq: Any) -> Any:\n")
                for _code, tmpl in CARRIERS:
                    carrier_line[(f"c_m{k // 60:02d}.py", len(lines) + 1)] = e_
                    lines.append("        " + tmpl.format(e=e_))
            (d / f"c_m{k // 60:02d}.py").write_text("".join(lines))
        cfiles = sorted(p_.name for p_ in d.glob("c_*.py"))
        errs2 = run_refurb_on(d, sorted(variants) + cfiles, per_batch=1)
        res.bump("baseline_diagnostics", n_base)
        # ---- variants
        for vf, plan in sorted(variants.items()):
            src = (d / vf).read_text()
            try:
                fi = FileIndex(src)
            except SyntaxError as ex_:
                res.notes.append(f"variant file {vf} does not parse: {ex_}")
                continue
            hit = 0
            for e in errs2.get(vf, []):
                if "msg" not in e:
                    if "crash" in e:
                        res.notes.append(f"refurb crashed on {vf}: {e['crash'][:200]}")
                    continue
                pl = next((p_ for p_ in plan if p_["from"] <= e["line"] <= p_["to"] and p_["code"] == e["code"]), None)
                if pl is None:
                    continue
                hit += 1
                res.bump("class_" + pl["class"])
                judge(res, fi, e, hole=pl["hole"], opclass=pl["class"], origin=pl["origin"], base=pl["base"], operand=pl["text"])
            res.bump("variants_planned", len(plan))
            res.bump("variants_flagged", hit)
        for cf in cfiles:
            src = (d / cf).read_text()
            fi = FileIndex(src)
            for e in errs2.get(cf, []):
                if "msg" in e:
                    res.bump("carrier_diagnostics")
                    judge(res, fi, e, hole="carrier", opclass="expr", origin=cf, operand=carrier_line.get((cf, e["line"])))
                elif "crash" in e:
                    res.notes.append(f"refurb crashed on carrier file {cf}: {e['crash'][:200]}")


def old_fragment_ok(frag: str, code: str, fi: FileIndex, e: dict[str, Any]) -> bool:
    parsed = parse_fragment(frag, code)
    if parsed is None:
        return False
    kind, pat = parsed
    pat = _Norm().visit(pat) if isinstance(pat, ast.AST) else [_Norm().visit(p_) for p_ in pat]
    return check_old(kind, pat, fi, e, lenient=False)[0] or (looks_schematic(frag) and check_old(kind, pat, fi, e, lenient=True)[0])


def causes_of(code: str, msg: str, kind: str, frag: str, fi: FileIndex, e: dict[str, Any], operand: str | None) -> list[str]:
    """Which recorded defects explain a wrong fragment — by evidence only.

    (1) The fragment is the text the printer twin gives for a source node at the span when exactly the defects D are
        present (and no other set of switches gives it): the causes are D.
    (2) Otherwise, for a fragment built around a substituted operand: the operand appears in the fragment as the
        twin prints it under defects D, and putting the faithful text of the operand there (bare, or in parentheses
        if the hole of the check's template needs them) makes the fragment right: the causes are D (+ lost parentheses).
    Anything else is `other` — a real alarm."""
    if "StrExpr(" in msg and "StrExpr(" not in stmt_source(fi, e):
        return ["mypy-repr-in-message"]
    cands = span_candidates(fi, e)
    shown = lambda v: repr(v)[1:-1].replace("\\x0b", "\\v").replace("\\x0c", "\\f")  # noqa: E731  (what FURB156 prints)
    if code == "FURB156" and any(isinstance(c, ast.Constant) and isinstance(c.value, str) and frag in (c.value, shown(c.value)) for c_ in cands for c in ast.walk(c_)):
        return ["string-contents-quoted"]
    if kind.startswith("old"):
        for t in cands:
            if isinstance(t, (ast.expr, ast.stmt)):
                d = explain(t, frag)
                if d:
                    return sorted(SWITCH_CAUSE[s_] for s_ in d)
    if operand:
        try:
            op = _Norm().visit(ast.parse(operand.strip(), mode="eval").body)
        except SyntaxError:
            return ["other"]
        subs = [op] + [n_ for n_ in list(ast.walk(op))[1:] if isinstance(n_, ast.expr) and not isinstance(n_, (ast.Name, ast.Constant, ast.Slice, ast.Starred))][:25]
        for op_ in subs:
            got = _explain_operand(op_, code, kind, frag, fi, e)
            if got:
                return got
    return ["other"]


def _explain_operand(op: Any, code: str, kind: str, frag: str, fi: FileIndex, e: dict[str, Any]) -> list[str] | None:
    if True:
        good = Twin(ALL_SWITCHES).top(op)
        for d, r in defect_sets(op):
            if not r or r == "x" or r not in frag or (d and r == good):
                continue
            at = frag.find(r)
            reps = [(good, None)]
            if good.startswith("{") and frag[at - 1 : at] == "{":
                reps.append((" " + good, "fstring-field"))
            callee = any(frag[m_.end() : m_.end() + 1] == "(" for m_ in re.finditer(re.escape(r), frag))
            reps.append(("(" + good + ")", "lost-parens:callee" if callee else "lost-parens"))
            for rep, extra in reps:
                fixed = frag.replace(r, rep)
                ok = old_fragment_ok(fixed, code, fi, e) if kind.startswith("old") else parse_fragment(fixed, code) is not None
                if ok:
                    out = {SWITCH_CAUSE[s_] for s_ in d} | ({extra} if extra else set())
                    if out:
                        return sorted(out)
    return None


def stmt_source(fi: FileIndex, e: dict[str, Any]) -> str:
    lo = e["line"]
    hi = e.get("line_end") or lo
    return "\n".join(fi.lines[lo - 1 : hi])


def verdict(fi: FileIndex, e: dict[str, Any]) -> dict[str, Any]:
    """the property applied to one diagnostic: which fragments parse / unify"""
    code, msg = e["code"], e["msg"]
    old, news = split_message(msg)
    v: dict[str, Any] = {"old": old, "old_schematic": bool(old) and looks_schematic(old or ""), "old_parsed": None, "old_ok": None, "target": None, "news": []}
    if old is not None:
        parsed = parse_fragment(old, code)
        v["old_parsed"] = parsed is not None
        if parsed is not None:
            kind, pat = parsed
            pat = _Norm().visit(pat) if isinstance(pat, ast.AST) else [_Norm().visit(p_) for p_ in pat]
            ok, tgt = check_old(kind, pat, fi, e, lenient=False)
            if not ok and v["old_schematic"]:
                ok, tgt = check_old(kind, pat, fi, e, lenient=True)
            v["old_ok"], v["target"] = ok, tgt
    for nw in news:
        v["news"].append({"frag": nw, "schematic": looks_schematic(nw), "parsed": parse_fragment(nw, code) is not None})
    return v


def judge(res, fi: FileIndex, e: dict[str, Any], hole: str, opclass: str, origin: str, base: dict[str, Any] | None = None, operand: str | None = None) -> dict[str, Any]:
    """report what the property demands of one diagnostic.  Concrete fragments (no placeholder) are judged
    absolutely; schematic ones (`x`, `y`, `z`, `...`) only relative to the unmodified idiom they were derived
    from (`base`): a pattern that matched the plain idiom must still match after an operand was substituted"""
    code, msg = e["code"], e["msg"]
    v = verdict(fi, e)
    res.case((code, hole, opclass, msg), nontrivial=v["old"] is not None)
    res.bump("diagnostics_judged")
    where = stmt_source(fi, e)

    def report(kind: str, what: str, frag: str, extra: dict[str, Any] | None = None) -> None:
        for cause in causes_of(code, msg, kind, frag, fi, e, operand):
            sig = {"kind": kind, "check": code, "hole": hole, "operand_class": opclass, "cause": cause}
            res.bump("cause_" + cause)
            if cause != "other":
                # one root cause shows in hundreds of (check, hole, operand) combinations: a few replays each are enough
                seen_ = REPORTED.setdefault(cause, set())
                if (code, kind) in seen_ or len({c_ for c_, _ in seen_}) >= 4 and code not in {c_ for c_, _ in seen_}:
                    res.bump("violations_same_cause_not_repeated")
                    continue
                seen_.add((code, kind))
            res.violate(
                f"{code} {what} [{cause}]: `{frag}` for the source `{where.strip()[:160]}`",
                sig,
                {
                    "source_line": where,
                    "built_from": origin,
                    "argv": ["FILE", "--enable-all", "--quiet"],
                    "observed": msg,
                    "required": what,
                    "span": [e["line"], e["col"], e["line_end"], e["col_end"]],
                    **(extra or {}),
                },
            )

    if v["old"] is not None:
        judged = (not v["old_schematic"]) or (base is not None and base.get("old_ok"))
        if not v["old_parsed"]:
            if judged:
                report("old-unparsable", "the quoted code is not valid Python", v["old"])
            else:
                res.bump("schematic_not_parsed")
        elif not v["old_ok"]:
            if judged:
                report("old-differs", "the quoted code is not the code at the reported location (different syntax tree)", v["old"], {"target": v["target"]})
            else:
                res.bump("schematic_not_unified")
                res.distribution.setdefault("schematic_not_unified_checks", [])
                if code not in res.distribution["schematic_not_unified_checks"]:
                    res.distribution["schematic_not_unified_checks"].append(code)
        else:
            res.bump("old_unified_schematic" if v["old_schematic"] else "old_unified")
    for i, nw in enumerate(v["news"]):
        bnew = (base or {}).get("news", [])
        judged = (not nw["schematic"]) or (i < len(bnew) and bnew[i]["parsed"])
        if nw["parsed"]:
            res.bump("new_parsed")
        elif judged:
            report("new-unparsable", "the proposed replacement is not valid Python", nw["frag"])
        else:
            res.bump("new_schematic_not_parsed")
    SEEN.append({"fi": fi, "e": e, "v": v, "hole": hole, "class": opclass})
    return v


SEEN: list[dict[str, Any]] = []
REPORTED: dict[str, set[tuple[str, str]]] = {}


# ---- message templates (Model `templates`) vs the messages refurb really builds


def match_shape(t: Any, n: Any, binds: dict[int, Any]) -> bool:
    """match a template tree (holes: `other i`) against a tree; every hole binds one sub-tree, consistently"""
    if isinstance(t, dict) and t.get("k") == "other":
        i = t["i"]
        if i in binds:
            return canon(binds[i]) == canon(n)
        if not isinstance(n, dict) or n.get("k") in ("slice", "star", "ffield"):
            return False
        binds[i] = n
        return True
    if isinstance(t, dict):
        if not isinstance(n, dict) or t.keys() != n.keys():
            return False
        if t.get("k") == "call" and n.get("k") == "call":
            if len(t["args"]) != len(n["args"]) or any(a[0] != b[0] or (a[0] == "ARG_NAMED" and a[1] != b[1]) for a, b in zip(t["args"], n["args"])):
                return False
            return match_shape(t["f"], n["f"], binds) and all(match_shape(a[2], b[2], binds) for a, b in zip(t["args"], n["args"]))
        return all(match_shape(t[k], n[k], binds) for k in t)
    if isinstance(t, list):
        return isinstance(n, list) and len(t) == len(n) and all(match_shape(a, b, binds) for a, b in zip(t, n))
    return t == n


def templates_correspondence(ctx) -> None:
    """For every judged diagnostic of a check that has an `old` template: bind the holes by matching the template
    against the source tree at the span, let the model fill the check's templates with `stringify` of the operands,
    and compare with the text refurb printed (byte for byte).  Where the model says every operand meets its hole
    (`template_faithful` applies) the oracle must have found nothing wrong."""
    res = ctx.res
    if not ctx.driver.available():
        return
    table = ctx.driver.batch([{"verb": "templates"}])[0]
    by_check: dict[str, dict[str, list[tuple[int, Any]]]] = {}
    for idx, t in enumerate(table):
        by_check.setdefault(t["check"], {}).setdefault(t["role"], []).append((idx, t))
    res.distribution["templates_in_table"] = len(table)
    res.distribution["checks_with_templates"] = sorted(by_check)
    reqs: list[dict[str, Any]] = []
    meta: list[tuple[dict[str, Any], int, str, int]] = []  # (seen entry, template idx, role, group)
    bound_nodes: dict[int, list[Any]] = {}
    group = 0
    for sn in SEEN:
        code = sn["e"]["code"]
        olds = by_check.get(code, {}).get("old")
        if not olds or sn["v"]["old"] is None:
            continue
        fi, e = sn["fi"], sn["e"]
        if "{:{}}" in stmt_source(fi, e):
            res.bump("template_skipped_call_shaped_like_fstring")  # refurb takes such a call for an f-string
            continue
        cands = list(fi.at(e)) or fi.starting_at(e)
        seen_ids = set(map(id, cands))
        for c in list(cands):
            while c in fi.parent and not isinstance(fi.parent[c][0], ast.Module):
                c = fi.parent[c][0]
                if id(c) not in seen_ids:
                    seen_ids.add(id(c))
                    cands.append(c)
        # a check may also fire on a sub-expression of the flagged operand (mypy gives the parts of an f-string the
        # position of the whole literal; carriers hold whole expressions): any binding that reproduces the text counts
        for c in list(cands[:2]):
            cands += [d_ for d_ in list(ast.walk(c))[1:80] if isinstance(d_, ast.expr) and id(d_) not in seen_ids]
        found = False
        for c in cands:
            if isinstance(c, ast.Expr):
                c = c.value
            if not isinstance(c, ast.expr):
                continue
            try:
                node = ast_to_node(c)
            except (Unmodelled, KeyError, AttributeError):
                continue
            for idx, t in olds:
                binds: dict[int, Any] = {}
                if match_shape(t["shape"], node, binds):
                    sigma = [binds.get(i, name("h")) for i in range(max(binds, default=-1) + 1)]
                    reqs.append({"verb": "template_fill", "id": idx, "sigma": sigma})
                    meta.append((sn, idx, "old", group))
                    bound_nodes.setdefault(group, []).append(c)
                    for idx2, _t2 in by_check[code].get("new", []):
                        reqs.append({"verb": "template_fill", "id": idx2, "sigma": sigma})
                        meta.append((sn, idx2, "new", group))
                    found = True
        if found:
            group += 1
        res.bump("template_bound" if found else "template_not_bound")
    answers = ctx.driver.batch(reqs) if reqs else []
    groups: dict[int, list[tuple[dict[str, Any], int, str, dict[str, Any]]]] = {}
    for (sn, idx, role, g), a in zip(meta, answers):
        groups.setdefault(g, []).append((sn, idx, role, a))
    for g, items in groups.items():
        sn = items[0][0]
        v, e = sn["v"], sn["e"]
        actual_old = v["old"]
        actual_news = [n["frag"] for n in v["news"]]
        if any(not a.get("unmodelled") and not a["printable"] for _, _, _, a in items):
            res.bump("template_operand_unprintable")  # the check prints the placeholder for the whole node
            continue
        olds_ = [(idx, a) for _, idx, role, a in items if role == "old" and not a.get("unmodelled")]
        news_ = [(idx, a) for _, idx, role, a in items if role == "new" and not a.get("unmodelled")]
        mo = next(((idx, a) for idx, a in olds_ if uncps(a["text"]) == actual_old), None)
        mn = next(((idx, a) for idx, a in news_ if actual_news and uncps(a["text"]) == actual_news[0]), None)
        res.case(("template", e["code"], actual_old, tuple(actual_news)))
        if mo is None and not any(explain(c_, actual_old) is not None for c_ in bound_nodes.get(g, [])):
            # the message is about a node none of the table's shapes matches (e.g. `not in [..]` for FURB171)
            res.bump("template_shape_not_in_table")
            continue
        if mo is None:
            res.disagree("message template (old) vs refurb", {"check": e["code"], "source": stmt_source(sn["fi"], e)}, [uncps(a["text"]) for _, a in olds_], actual_old)
            continue
        if mn is None:
            if news_:
                res.disagree("message template (new) vs refurb", {"check": e["code"], "source": stmt_source(sn["fi"], e)}, [uncps(a["text"]) for _, a in news_], actual_news)
            continue
        res.bump("template_messages_equal")
        if mo[1]["meets"]:
            res.bump("template_old_meets")
            if v["old_parsed"] is False or v["old_ok"] is False:
                res.disagree("template_faithful vs oracle (old)", {"check": e["code"], "msg": e["msg"], "source": stmt_source(sn["fi"], e)}, "faithful", "the oracle found the quoted code wrong")
        else:
            res.bump("template_old_unmet")
        if mn[1]["meets"]:
            res.bump("template_new_meets")
            if v["news"] and not v["news"][0]["parsed"]:
                res.disagree("template_faithful vs oracle (new)", {"check": e["code"], "msg": e["msg"]}, "parses", "the oracle could not parse the replacement")
        else:
            res.bump("template_new_unmet")


# --------------------------------------------------------------------------------------------


def run(ctx) -> None:
    res = ctx.res
    SEEN.clear()
    REPORTED.clear()
    res.rule = (
        "correspondence: (a1) random trees over all 25 node kinds of the model incl. shapes no parser builds (negative literals, "
        "inf/nan, empty sets, bare slices/stars, odd argument kinds, lambdas with defaults, mangled names, calls shaped like desugared "
        "f-strings and near misses), depth 1-4, built by hand as mypy nodes: every sub-expression through refurb's _stringify, "
        "stringify and slice_expr_to_slice_call vs the model, byte for byte; statements (assign/if/for/del/expr) likewise; "
        "(a2) reference text of well-formed random trees (depth 2-5, f-strings with conversions/specs, slices, stars, walrus, lambda, "
        "await) parsed by mypy: every sub-expression likewise; (b) the model's desugaring of f-strings vs mypy's parser on the same "
        "texts; (c) Der vs CPython: ast.parse of the reference text must give back the tree (and under the guard stringify's text is "
        "that text); the 9 refutation witnesses must parse to another tree or not at all; message templates: for 13 checks with an "
        "`old` template the text the model builds from the template and the operands found in the source vs the text refurb printed. "
        "oracle: refurb (--enable-all, fresh processes) on test/data/err_*.py and every documented Bad example (+ auto prelude), then on "
        "copies of every flagged statement with each operand (names that occur in the message, literals) replaced by an expression of each "
        "of 19 precedence classes / 20 literal classes (quick: an 8% sample), and on 5 carrier idioms (FURB110/114/183/169/171) around 111 "
        "hand-picked and 160/2500 random expressions; every back-quoted fragment judged as described in the module docstring. "
        "non-trivial = not a bare literal/name (correspondence), has an OLD fragment (oracle); distinct = distinct (tree | message, hole, class)"
    )
    correspondence(ctx)
    oracle(ctx)
    templates_correspondence(ctx)
    template_table_section(ctx)
    if SEEN:
        for sn in SEEN[:: max(1, len(SEEN) // 4)][:4]:
            res.sample({"diagnostic": sn["e"]["msg"], "source": stmt_source(sn["fi"], sn["e"]), "hole": sn["hole"], "operand_class": sn["class"], "old_unifies": sn["v"]["old_ok"]})
    res.assumptions += [
        "CPython 3.12's parser is the referent of `Der` (PEP 701 f-strings: quotes may be reused inside replacement fields); the grammar's unambiguity is not proved, it rests on that parser being a function",
        "string values with lone surrogates and float/complex values are inputs of the model (`str(float)` is computed by Python); `repr`'s printable table is regenerated from the running interpreter (Generated/Printable.lean)",
        "a message fragment is 'schematic' iff it contains `...` or a bare name x/y/z outside string literals; schematic fragments are compared with single-letter names as wildcards and only relative to the unmodified idiom; canonical dotted names (`os.getcwd()` for `getcwd()`) are accepted as the same callee",
        "the quoted code may be the node at the reported span or an expression/statement enclosing it (several checks report the position of a sub-expression); positions themselves are C07's subject",
    ]
    res.not_proved += [
        "unambiguity of `Der` (hence `faithful_refuted` and `ppRef_injective` are conditional on `Unambiguous`; the two-trees-one-text witnesses are unconditional and validated against CPython)",
        "the statement forms of `_stringify` (assignment, one-line if/for, del, expression statement) are modelled and compared with refurb but have no grammar/theorem",
        "lexical level: that `render` of a literal token lexes back to the same value (escapes via repr) is validated against CPython on every generated text, not proved",
        "whole-tree placeholder theorem: `placeholder_sites` is the one-step statement per `stringify` site",
        "fragments the extractor classifies `unmodelled` (statement lists, decorators, generator expressions of FURB122/142, holes inside names or literals) and raw (non-stringify) holes are covered by the oracle only",
        "the printer twin (harness, Python) that attributes violations to recorded causes is validated against refurb on every generated expression, not proved; a wrong attribution can only turn a known finding into an alarm or the reverse for texts the twin reproduces exactly",
    ]
    res.trusted_extra += [
        "harness/props/c02.py: ast_to_node / mypy_to_node (tree converters), the unifier of quoted fragments with source trees, the operand substitution",
        "harness/astjson.parse_only (mypy parser entry point)",
    ]


def replay(path) -> int:
    """re-run one recorded violation against the current /repo: rebuild the file, run refurb, judge the diagnostics again"""
    rec = json.loads(Path(path).read_text())
    rp = rec.get("replay", {})
    print(json.dumps({k: rp.get(k) for k in ("built_from", "source_line", "observed", "required", "span")}, indent=1, ensure_ascii=False))
    src = rp.get("source_line")
    if not src:
        return 0
    with core.scratch("rv-c02r-") as d:
        (d / "pyproject.toml").write_text("")
        pre = PRELUDE + "aa = bb = cc = dd = ee = ff = qq = foo = _p = Bar9 = self = object()\n"
        (d / "r.py").write_text(pre + src + "\n")
        rc, out, err = core.refurb_cli(["r.py", "--enable-all", "--quiet"], cwd=d)
        print(out + err[-500:])
        want = rec.get("signature", {}).get("check", "")
        still = [l for l in out.split("\n") if want and f"[{want}]" in l]
        print("still reported:" if still else "no longer reported (the statement needs the declarations of the file it was taken from: see built_from)", *still, sep="\n  ")
    return 0


# --------------------------------------------------------------------------------------------
# The messages of the checks, regenerated from their source (harness/extract_c02.py -> Generated/Templates.lean)
#
# (1) the regenerated table vs the committed classifications (Props/C02.lean `classified`, Model `templates` +
#     Lemmas `templatesMore`): the Lean theorems `gen_classified` / `gen_agrees_committed` say yes or no, this section
#     says WHICH message is new, gone or moved (evaluated by Lean itself on the regenerated table, no Python twin of `reqs`);
# (2) every message of the real run (SEEN: ~3k diagnostics) must be an instance of exactly one (most specific)
#     extracted template of its check: literal chunks equal, holes filled, the same hole filled the same way.

GENERATED.append("Templates")

_SUMMARY_SCRIPT = r"""import RefurbVerif.Generated.Templates
open RefurbVerif.Generated RefurbVerif.Sfy RefurbVerif.C02
def showB (b : Bool) : String := if b then "true" else "false"
def showRole : Role → String | .old => ".old" | .new => ".new" | .other => ".other"
def showForm : Form → String
  | .expr => ".expr" | .assign => ".assign" | .forIn => ".forIn" | .inTail => ".inTail" | .notInTail => ".notInTail"
  | .unmodelled => ".unmodelled" | .unparsed => ".unparsed"
def showCls (c : FragClass) : String :=
  "(" ++ showRole c.1 ++ ", " ++ showForm c.2.1 ++ ", [" ++ ", ".intercalate (c.2.2.map (fun h => s!"({showB h.1}, {h.2.1}, {showB h.2.2.1}, {showB h.2.2.2})")) ++ "])"
def showReqs (rs : List Req) : String := ", ".intercalate (rs.map (fun r => s!"hole {r.hole}: level {r.level}{if r.notInt then ", not a bare int" else ""}{if r.noBrace then ", no leading brace" else ""}"))
#eval do
  for (c, n, cs) in genSummary do
    IO.println s!"S\t({c}, {n}, [{", ".intercalate (cs.map showCls)}]),"
  for c in genTable do
    let cs := committedOf c.code
    for g in c.frags do
      if cs.any (fun t => t.1 == g.role) then
        match comparableShape g with
        | some s =>
          if !(cs.any (fun t => t.1 == g.role && decide (t.2 = canonForm2 s))) then
            IO.println s!"U\t{c.name}\t{g.msg}\t{showRole g.role}\t{String.ofList g.text}\t{showReqs (reqs2 1 false false s)}"
        | none => pure ()
    for t in committed.filter (fun (t : Template) => codeOf t.check == c.code) do
      let cf := canonForm2 t.shape
      if !(c.frags.any (fun g => g.role == roleOf t.role &&
          match comparableShape g with
          | some s => decide (cf = canonForm2 s) || !closed g
          | none => true)) then
        IO.println s!"G\t{t.check}\t{t.role}\t{String.ofList (render (pr2 t.shape))}"
  for t in committed do
    if !(genTable.any (fun c => c.code == codeOf t.check)) then
      IO.println s!"X\t{t.check}\t{t.role}"
"""


def _lean_literal(line: str) -> Any:
    """a line of the `classified` block / of the regenerated summary as a Python value"""
    line = line.strip().rstrip(",")
    line = re.sub(r"\.(old|new|other|expr|assign|forIn|inTail|notInTail|unmodelled|unparsed)\b", r'"\1"', line)
    line = re.sub(r"\btrue\b", "True", line)
    line = re.sub(r"\bfalse\b", "False", line)
    return ast.literal_eval(line)


def _committed_classified() -> dict[int, Any]:
    text = (core.LEAN / "RefurbVerif" / "Props" / "C02.lean").read_text()
    m = re.search(r"-- BEGIN classified[^\n]*\n(.*?)-- END classified", text, re.S)
    out: dict[int, Any] = {}
    for line in (m.group(1) if m else "").split("\n"):
        if line.strip().startswith("("):
            v = _lean_literal(line)
            out[v[0]] = v
    return out


def _template_regex(parts: list[Any]) -> Any:
    pat, seen = "", set()
    for p_ in parts:
        if isinstance(p_, int):
            if p_ in seen:
                pat += "(?P=h%d)" % p_
            else:
                seen.add(p_)
                pat += "(?P<h%d>.*?)" % p_
        else:
            pat += re.escape(p_)
    return re.compile("^" + pat + "$", re.S)


def _squash(t: str) -> str:
    """text without blanks, parentheses and quote style (what survives `stringify`)"""
    return re.sub(r"[\s()]", "", t).replace("'", '"')


def _describe_class(c: Any) -> str:
    role, form, holes = c
    return f"{role} {form} [" + ", ".join(("stringify" if s else "raw") + (f"@level {lv}" if lv != 99 else "@unmodelled") + (" not-int" if ni else "") + (" no-brace" if nb else "") for s, lv, ni, nb in holes) + "]"


def template_table_section(ctx) -> None:
    import subprocess

    from .. import extract_c02

    res = ctx.res
    checks = extract_c02.all_checks()
    by_code = {c["code"]: c for c in checks}
    n_msgs = sum(len(c["messages"]) for c in checks)
    n_frags = sum(len(m["fragments"]) for c in checks for m in c["messages"])
    res.distribution["extracted_checks"] = len(checks)
    res.distribution["extracted_messages"] = n_msgs
    res.distribution["extracted_fragments"] = n_frags
    forms: dict[str, int] = {}
    closed_new = closed_new_tree = 0
    for c in checks:
        for m in c["messages"]:
            for fr in m["fragments"]:
                forms[fr["form"].split(":")[0]] = forms.get(fr["form"].split(":")[0], 0) + 1
                if fr["role"] == "new" and fr["holes"] and all(m["holes"][i][0] == "sfy" for i in fr["holes"]):
                    closed_new += 1
                    closed_new_tree += fr["tree"] is not None and fr["exact"]
    res.distribution["extracted_fragment_forms"] = forms
    res.distribution["replacements_built_only_from_quoted_fragments"] = closed_new
    res.distribution["…of which covered by replacement_parses (tree + exact text)"] = closed_new_tree
    ex = by_code.get("FURB145")
    if ex and ex["messages"]:
        m0 = ex["messages"][0]
        # first in the list: the samples of the earlier sections fill the quota
        res.samples[:0] = [{"extracted template": m0["text"], "check": "FURB145", "holes": m0["holes"], "fragments": [{"role": f["role"], "text": f["text"], "form": f["form"], "positions": f["positions"]} for f in m0["fragments"]]}]

    # ---- (1) what Lean computes on the regenerated table vs the committed classification
    script = core.LEAN / ".audit" / "C02_templates.lean"
    script.parent.mkdir(exist_ok=True)
    script.write_text(_SUMMARY_SCRIPT)
    p = subprocess.run(["lake", "env", "lean", str(script)], cwd=core.LEAN, capture_output=True, text=True, env=core._clean_env())
    lines = [l for l in p.stdout.split("\n") if l[:2] in ("S\t", "U\t", "G\t", "X\t")]
    if p.returncode != 0 or not lines:
        res.disagree("regenerated template table", "lake env lean .audit/C02_templates.lean", "a summary of Generated/Templates.lean", (p.stdout + p.stderr)[-600:])
    else:
        committed = _committed_classified()
        regenerated: dict[int, Any] = {}
        for l in lines:
            if l.startswith("S\t"):
                v = _lean_literal(l[2:])
                regenerated[v[0]] = v
        names = {int(re.sub(r"\D", "", c["code"]) or 0): c["code"] for c in checks}
        for code in sorted(set(committed) | set(regenerated)):
            a, b = committed.get(code), regenerated.get(code)
            nm = names.get(code, f"check {code}")
            if a == b:
                res.bump("checks_classified_as_committed")
                continue
            if a is None:
                res.disagree("template classification", {"check": nm, "file": by_code.get(nm, {}).get("file")}, "not in `classified` (Props/C02.lean): a check nobody classified", {"messages": b[1], "classes": [_describe_class(c) for c in b[2]], "line for `classified`": "(%d, %d, …)" % (b[0], b[1])})
            elif b is None:
                res.disagree("template classification", {"check": nm}, {"messages": a[1]}, "the check is gone from the source (or builds no message the extractor finds)")
            else:
                gone = [_describe_class(c) for c in a[2] if c not in b[2]]
                new = [_describe_class(c) for c in b[2] if c not in a[2]]
                res.disagree("template classification", {"check": nm, "file": by_code.get(nm, {}).get("file"), "texts": [m["text"] for m in by_code.get(nm, {}).get("messages", [])][:12]}, {"messages": a[1], "classes only in `classified`": gone}, {"messages": b[1], "classes only in the source": new})
        for l in lines:
            f = l.split("\t")
            if f[0] == "U":
                res.disagree("hand-written template table vs source", {"check": f[1], "message": int(f[2]), "role": f[3], "fragment": f[4]}, "no entry of `templates`/`templatesMore` with this text and these hole levels (a message variant nobody classified)", f[5])
            elif f[0] == "G":
                res.disagree("hand-written template table vs source", {"check": f[1], "role": f[2], "template": f[3]}, "committed in `templates`/`templatesMore`", "the check no longer builds this fragment")
            elif f[0] == "X":
                res.disagree("hand-written template table vs source", {"check": f[1], "role": f[2]}, "committed", "no such check in the source")

    # ---- (2) every real message is an instance of exactly one extracted template of its check
    compiled: dict[str, list[tuple[int, Any, int, int]]] = {}
    for c in checks:
        compiled[c["code"]] = [(i, _template_regex(m["parts"]), sum(len(p_) for p_ in m["parts"] if isinstance(p_, str)), len({p_ for p_ in m["parts"] if isinstance(p_, int)})) for i, m in enumerate(c["messages"])]
    used: dict[str, int] = {}
    seen_msgs: set[tuple[str, str]] = set()
    for sn in SEEN:
        code, msg = sn["e"]["code"], sn["e"]["msg"]
        if (code, msg) in seen_msgs:
            res.bump("real_messages_repeated")
            continue
        seen_msgs.add((code, msg))
        cands = compiled.get(code)
        if cands is None:
            res.bump("real_messages_of_checks_outside_refurb/checks")
            continue
        hits = [(lit, -nh, i) for i, rx, lit, nh in cands if rx.match(msg)]
        res.case(("template-instance", code, msg))
        if not hits:
            res.disagree("template", {"check": code, "message": msg, "source": stmt_source(sn["fi"], sn["e"])}, [m["text"] for m in by_code[code]["messages"]][:20], "the real message is an instance of none of the templates extracted from the check's source")
            continue
        hits.sort(reverse=True)
        best = [h for h in hits if h[:2] == hits[0][:2]]
        if len(best) > 1:
            # equally specific templates (FURB171 `{1} == {2}` / `{1} != {2}` when an operand contains the other operator):
            # the right one fills its stringify-holes with text of the flagged statement
            src_n = _squash(stmt_source(sn["fi"], sn["e"]))
            ok = []
            for h in best:
                m_ = by_code[code]["messages"][h[2]]
                mt = cands[[c_[0] for c_ in cands].index(h[2])][1].match(msg)
                if all(_squash(mt.group("h%d" % i)) in src_n for i, hk in enumerate(m_["holes"]) if hk[0] == "sfy" and ("h%d" % i) in mt.groupdict()):
                    ok.append(h)
            if len(ok) == 1:
                res.bump("real_messages_disambiguated_by_source_text")
                hits = ok + [h for h in hits if h not in ok]
                best = ok
        if len(best) > 1 and len({by_code[code]["messages"][h[2]]["text"] for h in best}) > 1:
            # an operand whose own text contains the literal chunk that tells two templates apart (`aa != bb == qq`:
            # `{1} == {2}` or `{1} != {2}`?) and whose spelling differs from the source beyond blanks, parentheses and
            # quotes: the text alone cannot say which template built it.  It IS an instance; it is counted, not attributed.
            res.bump("real_messages_instance_of_several_equally_specific_templates")
            if len(res.notes) < 40:
                res.notes.append("instance of several equally specific templates of %s (not attributed): %s" % (code, msg[:160]))
            continue
        res.bump("real_messages_matched")
        if len(hits) > 1:
            res.bump("real_messages_matched_most_specific_of_several")
        key = "%s#%d" % (code, hits[0][2])
        used[key] = used.get(key, 0) + 1
    res.distribution["template_instances"] = dict(sorted(used.items()))
    never = ["%s#%d %s" % (c["code"], i, m["text"]) for c in checks for i, m in enumerate(c["messages"]) if "%s#%d" % (c["code"], i) not in used]
    res.distribution["templates_exercised"] = len(used)
    res.distribution["templates_never_exercised"] = len(never)
    if never:
        res.notes.append("templates never exercised by this run (%d of %d): %s" % (len(never), n_msgs, "; ".join(never[:40]) + (" …" if len(never) > 40 else "")))
    if used:
        k0 = max(used, key=lambda k: used[k])
        c0, i0 = k0.split("#")
        res.sample({"template": by_code[c0]["messages"][int(i0)]["text"], "check": c0, "real messages that instantiate it": used[k0]})

    # ---- the witness of `replacement_other_tree`, against CPython: `a + b.copy()` is `a + (b.copy())`
    t_ = ast.parse("a + b.copy()", mode="eval").body
    if not (isinstance(t_, ast.BinOp) and isinstance(t_.right, ast.Call)):
        res.disagree("replacement_other_tree vs CPython", "a + b.copy()", "BinOp(a, Call(b.copy))", ast.dump(t_))
    # … and the witness of `replacement_unparsable`: `qq or ww := b` is not Python at all
    try:
        ast.parse("qq or ww := b", mode="eval")
        res.disagree("replacement_unparsable vs CPython", "qq or ww := b", "SyntaxError", "parses")
    except SyntaxError:
        res.bump("refutation_witnesses_validated_against_cpython", 2)
    res.assumptions += [
        "the extractor (harness/extract_c02.py) follows string-valued locals, f-strings, `+`, conditional expressions, literal tables, `for` over literal tuples, `\"a\" | \"b\" as name` patterns and local helper functions; anything else interpolated into a message becomes a raw hole; that it finds every message is tied by the real run: every real message must instantiate an extracted template",
    ]
    res.not_proved += [
        "fragments the model has no tree for (`unmodelled`: statement lists, decorators, generator expressions such as FURB122/142 `… for {0} in {1}`, holes inside names or string literals) are classified and pinned but covered by the oracle only",
        "that a `for`/assignment target is target-shaped is a hypothesis of `replacement_parses` (it is the user's own loop target / lvalue)",
    ]


def regenerated_classified() -> str:
    """the block for `classified` in Props/C02.lean, computed by Lean from the regenerated table (after a review of the
    differences `bin/check C02` reports): `/venv/bin/python -m harness.props.c02`"""
    script = core.LEAN / ".audit" / "C02_templates.lean"
    script.parent.mkdir(exist_ok=True)
    script.write_text(_SUMMARY_SCRIPT)
    p = subprocess.run(["lake", "env", "lean", str(script)], cwd=core.LEAN, capture_output=True, text=True, env=core._clean_env())
    lines = [l[2:] for l in p.stdout.split("\n") if l.startswith("S\t")]
    return "\n".join("  " + l for l in lines).rstrip(",")


if __name__ == "__main__":
    print(regenerated_classified())
