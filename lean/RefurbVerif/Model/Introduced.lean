/-
Reference table for C15: Python feature ↦ first Python version that has it.

COMMITTED BY HAND (not generated).  One entry per line, each with its source.  `tokens` are the
scanner tokens (harness/extract_c15.py: `fragment_tokens`) that denote the feature when they occur
in a replacement refurb proposes and not in the code being replaced:

  ".name"        attribute / method access on a value      "mod.name"   attribute of a stdlib module
  "name()"       call (or decorator use) of a bare name     "name"       bare reference to a stdlib name
  "kw="          keyword argument                           "syntax:…"   a construct found by `ast`
  "FURBnnn/tok"  the token, but only in messages of that check (ambiguous spellings)
  "FURBnnn/*"    every message of that check (the feature is not visible in the replacement text)

The harness parses THIS file (one `⟨"name", ⟨major, minor⟩, [tokens]⟩` per line), so the scanner and the
theorems read the same table; a token that no entry lists becomes the feature `unlisted:<token>`,
which `introducedIn` does not know, and `every_feature_listed` stops checking until somebody adds it.
`⟨3, 0⟩` stands for "every Python 3".  Entries marked (not proposed today) are features a future
check is likely to propose; they cost nothing and bind such a check to the right version.
The ≥ 3.9 API rows and the syntax rows are re-validated on every run against mypy's bundled
typeshed / mypy's parser (harness/props/c15.py: `validate_reference`).
-/
namespace RefurbVerif

/-- A target version as refurb holds it: the tuple `(major, minor)`; ordered like Python tuples. -/
structure Ver where
  major : Nat
  minor : Nat
  deriving DecidableEq, Repr

/-- Python's `a <= b` on 2-tuples of ints (lexicographic). -/
def Ver.ble (a b : Ver) : Bool := a.major < b.major || (a.major == b.major && a.minor ≤ b.minor)
/-- Python's `a < b` on 2-tuples of ints. -/
def Ver.blt (a b : Ver) : Bool := a.major < b.major || (a.major == b.major && a.minor < b.minor)

instance : LE Ver := ⟨fun a b => a.ble b = true⟩
instance : LT Ver := ⟨fun a b => a.blt b = true⟩
instance (a b : Ver) : Decidable (a ≤ b) := inferInstanceAs (Decidable (a.ble b = true))
instance (a b : Ver) : Decidable (a < b) := inferInstanceAs (Decidable (a.blt b = true))

structure Feature where
  name : String
  since : Ver
  tokens : List String
  deriving Repr

def introduced : List Feature := [
  -- ── post-3.6 features that some check proposes today ────────────────────────────────────────
  ⟨"shlex.join", ⟨3, 8⟩, ["shlex.join", "FURB178/join()"]⟩,  -- docs library/shlex.html#shlex.join "New in version 3.8"
  ⟨"str.removeprefix", ⟨3, 9⟩, [".removeprefix"]⟩,  -- docs library/stdtypes.html#str.removeprefix "New in version 3.9" (PEP 616)
  ⟨"str.removesuffix", ⟨3, 9⟩, [".removesuffix"]⟩,  -- docs library/stdtypes.html#str.removesuffix "New in version 3.9" (PEP 616)
  ⟨"dict | dict", ⟨3, 9⟩, ["FURB173/syntax:bitor", "FURB173/syntax:bitor-assign"]⟩,  -- PEP 584; docs library/stdtypes.html#dict "d | other … New in version 3.9"
  ⟨"functools.cache", ⟨3, 9⟩, ["functools.cache", "cache()", "cache"]⟩,  -- docs library/functools.html#functools.cache "New in version 3.9"
  ⟨"int.bit_count", ⟨3, 10⟩, [".bit_count"]⟩,  -- docs library/stdtypes.html#int.bit_count "New in version 3.10"
  ⟨"isinstance(x, A | B)", ⟨3, 10⟩, ["syntax:isinstance-union"]⟩,  -- PEP 604; docs library/functions.html#isinstance "Changed in version 3.10: classinfo can be a Union Type"
  ⟨"datetime.fromisoformat accepts a trailing Z", ⟨3, 11⟩, ["FURB162/*"]⟩,  -- docs library/datetime.html#datetime.datetime.fromisoformat "Changed in version 3.11: Previously, this method only supported formats that could be emitted by … isoformat()"
  -- ── 3.6 and older features that some check proposes today ───────────────────────────────────
  ⟨"math.tau", ⟨3, 6⟩, ["math.tau"]⟩,  -- docs library/math.html#math.tau "New in version 3.6"
  ⟨"secrets", ⟨3, 6⟩, ["secrets.token_hex", "secrets.token_bytes", "secrets.token_urlsafe", "token_hex()", "token_bytes()", "token_urlsafe()"]⟩,  -- docs library/secrets.html "New in version 3.6"
  ⟨"f-string", ⟨3, 6⟩, ["syntax:f-string", "syntax:f-string-conversion"]⟩,  -- PEP 498; docs whatsnew/3.6.html
  ⟨"variable annotation", ⟨3, 6⟩, ["syntax:variable-annotation"]⟩,  -- PEP 526; docs whatsnew/3.6.html
  ⟨"Path.read_text/write_text/read_bytes/write_bytes", ⟨3, 5⟩, [".read_text", ".write_text", ".read_bytes", ".write_bytes"]⟩,  -- docs library/pathlib.html#pathlib.Path.read_text "New in version 3.5"
  ⟨"Path.mkdir(exist_ok=)", ⟨3, 5⟩, ["exist_ok="]⟩,  -- docs library/pathlib.html#pathlib.Path.mkdir "Changed in version 3.5: The exist_ok parameter was added"
  ⟨"operator.matmul", ⟨3, 5⟩, ["operator.matmul"]⟩,  -- docs library/operator.html#operator.matmul "New in version 3.5"
  ⟨"{**mapping} / f(*a, *b) unpacking", ⟨3, 5⟩, ["syntax:dict-unpack", "syntax:call-unpack"]⟩,  -- PEP 448; docs whatsnew/3.5.html
  ⟨"pathlib.Path", ⟨3, 4⟩, ["Path()", "Path", "pathlib.Path", ".cwd", ".is_absolute", ".is_dir", ".is_file", ".is_symlink", ".exists", ".mkdir", "parents=", ".open", ".parent", ".stat", ".suffix", ".touch", ".unlink", ".rmdir", ".rename", ".replace", ".resolve", ".with_suffix"]⟩,  -- docs library/pathlib.html "New in version 3.4"
  ⟨"contextlib.suppress", ⟨3, 4⟩, ["suppress()", "contextlib.suppress"]⟩,  -- docs library/contextlib.html#contextlib.suppress "New in version 3.4"
  ⟨"abc.ABC", ⟨3, 4⟩, ["ABC", "abc.ABC"]⟩,  -- docs library/abc.html#abc.ABC "New in version 3.4"
  ⟨"re.Pattern.fullmatch", ⟨3, 4⟩, [".fullmatch"]⟩,  -- docs library/re.html#re.Pattern.fullmatch "New in version 3.4"
  ⟨"list.copy / list.clear", ⟨3, 3⟩, [".copy", ".clear"]⟩,  -- docs library/stdtypes.html#mutable-sequence-types "New in version 3.3: clear() and copy() methods" (dict/set/bytearray have them since 3.0–3.3)
  ⟨"math.log2", ⟨3, 3⟩, ["math.log2"]⟩,  -- docs library/math.html#math.log2 "New in version 3.3"
  ⟨"datetime.timezone", ⟨3, 2⟩, ["timezone", ".utc", "datetime.timezone"]⟩,  -- docs library/datetime.html#timezone-objects "New in version 3.2"
  ⟨"Decimal(float) / Fraction(float|Decimal)", ⟨3, 2⟩, ["Decimal()", "Fraction()", "decimal.Decimal", "fractions.Fraction"]⟩,  -- docs library/decimal.html#decimal.Decimal "Changed in version 3.2: The argument to the constructor is now permitted to be a float instance"; library/fractions.html "Changed in version 3.2"
  ⟨"builtins", ⟨3, 0⟩, ["bool()", "isinstance()", "list()", "set()", "max()", "min()", "slice()", "str()", "int()", "len()", "range()", "print()", "dict()", "tuple()", "frozenset()", "sorted()", "reversed()", "key=", "reverse=", "base="]⟩,  -- docs library/functions.html (present in Python 3.0)
  ⟨"str/list/set/dict/file methods", ⟨3, 0⟩, [".expandtabs", ".extend", ".discard", ".update", ".difference_update", ".reverse", ".sort", ".strip", ".lstrip", ".rstrip", ".writelines", ".values", ".keys", ".items", ".startswith", ".endswith"]⟩,  -- docs library/stdtypes.html (present in Python 3.0)
  ⟨"datetime.now(tz=) / fromtimestamp(tz=)", ⟨3, 0⟩, ["now()", "fromtimestamp()", "tz=", ".now", ".fromtimestamp"]⟩,  -- docs library/datetime.html#datetime.datetime.now (tz parameter since 2.3)
  ⟨"re.Pattern methods / re flags", ⟨3, 0⟩, [".findall", ".finditer", ".match", ".search", ".split", ".sub", ".subn", "re.ASCII", "re.DOTALL", "re.IGNORECASE", "re.LOCALE", "re.MULTILINE", "re.TEMPLATE", "re.UNICODE", "re.VERBOSE"]⟩,  -- docs library/re.html (present in Python 3.0; re.TEMPLATE was removed in 3.13 — removals are outside C15)
  ⟨"operator functions", ⟨3, 0⟩, ["operator.add", "operator.and_", "operator.contains", "operator.eq", "operator.floordiv", "operator.ge", "operator.gt", "operator.invert", "operator.is_", "operator.is_not", "operator.itemgetter", "operator.le", "operator.lshift", "operator.lt", "operator.mod", "operator.mul", "operator.ne", "operator.neg", "operator.not_", "operator.or_", "operator.pos", "operator.pow", "operator.rshift", "operator.sub", "operator.truediv", "operator.xor", "operator.attrgetter", "operator.methodcaller", "operator.getitem", "operator.index", "operator.truth", "operator.inv"]⟩,  -- docs library/operator.html (present in Python 3.0)
  ⟨"math constants / log10", ⟨3, 0⟩, ["math.e", "math.pi", "math.log10", "math.log"]⟩,  -- docs library/math.html (present in Python 3.0)
  ⟨"string constants", ⟨3, 0⟩, ["string.ascii_letters", "string.ascii_lowercase", "string.ascii_uppercase", "string.digits", "string.hexdigits", "string.octdigits", "string.punctuation", "string.whitespace", "string.printable"]⟩,  -- docs library/string.html#string-constants (present in Python 3.0)
  ⟨"itertools.chain.from_iterable / starmap", ⟨3, 0⟩, ["chain", ".from_iterable", "starmap()", "itertools.chain", "itertools.starmap"]⟩,  -- docs library/itertools.html (chain.from_iterable since 2.6)
  ⟨"collections.UserDict/UserList/UserString", ⟨3, 0⟩, ["UserDict", "UserList", "UserString", "collections.UserDict", "collections.UserList", "collections.UserString"]⟩,  -- docs library/collections.html#userdict-objects (moved into collections in 3.0)
  ⟨"hashlib hexdigest", ⟨3, 0⟩, [".hexdigest"]⟩,  -- docs library/hashlib.html#hashlib.hash.hexdigest (present in Python 3.0)
  ⟨"os.stat_result fields", ⟨3, 0⟩, [".st_size", ".st_atime", ".st_ctime", ".st_mtime"]⟩,  -- docs library/os.html#os.stat_result (present in Python 3.0)
  ⟨"core syntax", ⟨3, 0⟩, ["syntax:with", "syntax:comprehension", "syntax:comparison-chain"]⟩,  -- docs reference/compound_stmts.html, reference/expressions.html (present in Python 3.0)
  -- ── (not proposed today) ────────────────────────────────────────────────────────────────────
  ⟨"walrus :=", ⟨3, 8⟩, ["syntax:walrus"]⟩,  -- PEP 572; docs whatsnew/3.8.html
  ⟨"positional-only parameters", ⟨3, 8⟩, ["syntax:positional-only"]⟩,  -- PEP 570; docs whatsnew/3.8.html
  ⟨"match statement", ⟨3, 10⟩, ["syntax:match"]⟩,  -- PEP 634; docs whatsnew/3.10.html
  ⟨"math.isqrt/prod/dist/comb/perm", ⟨3, 8⟩, ["math.isqrt", "math.prod", "math.dist", "math.comb", "math.perm"]⟩,  -- docs library/math.html "New in version 3.8"
  ⟨"math.lcm", ⟨3, 9⟩, ["math.lcm"]⟩,  -- docs library/math.html#math.lcm "New in version 3.9"
  ⟨"statistics.fmean", ⟨3, 8⟩, ["statistics.fmean", "fmean()"]⟩,  -- docs library/statistics.html#statistics.fmean "New in version 3.8"
  ⟨"functools.cached_property", ⟨3, 8⟩, ["functools.cached_property", "cached_property()", "cached_property"]⟩,  -- docs library/functools.html#functools.cached_property "New in version 3.8"
  ⟨"Path.unlink(missing_ok=)", ⟨3, 8⟩, ["missing_ok="]⟩,  -- docs library/pathlib.html#pathlib.Path.unlink "Changed in version 3.8: The missing_ok parameter was added"
  ⟨"Path.is_relative_to/readlink/with_stem", ⟨3, 9⟩, [".is_relative_to", ".readlink", ".with_stem"]⟩,  -- docs library/pathlib.html "New in version 3.9"
  ⟨"Path.hardlink_to", ⟨3, 10⟩, [".hardlink_to"]⟩,  -- docs library/pathlib.html#pathlib.Path.hardlink_to "New in version 3.10"
  ⟨"Path.write_text(newline=)", ⟨3, 10⟩, ["newline="]⟩,  -- docs library/pathlib.html#pathlib.Path.write_text "Changed in version 3.10: The newline parameter was added"
  ⟨"itertools.pairwise", ⟨3, 10⟩, ["itertools.pairwise", "pairwise()"]⟩,  -- docs library/itertools.html#itertools.pairwise "New in version 3.10"
  ⟨"zip(strict=)", ⟨3, 10⟩, ["strict="]⟩,  -- PEP 618; docs library/functions.html#zip "Changed in version 3.10: Added the strict argument"
  ⟨"tomllib", ⟨3, 11⟩, ["tomllib.load", "tomllib.loads"]⟩,  -- docs library/tomllib.html "New in version 3.11"
  ⟨"contextlib.chdir", ⟨3, 11⟩, ["contextlib.chdir", "chdir()"]⟩,  -- docs library/contextlib.html#contextlib.chdir "New in version 3.11"
  ⟨"hashlib.file_digest", ⟨3, 11⟩, ["hashlib.file_digest", "file_digest()"]⟩,  -- docs library/hashlib.html#hashlib.file_digest "New in version 3.11"
  ⟨"datetime.UTC", ⟨3, 11⟩, ["datetime.UTC", "UTC", ".UTC"]⟩,  -- docs library/datetime.html#datetime.UTC "New in version 3.11"
  ⟨"operator.call", ⟨3, 11⟩, ["operator.call"]⟩,  -- docs library/operator.html#operator.call "New in version 3.11"
  ⟨"itertools.batched", ⟨3, 12⟩, ["itertools.batched", "batched()"]⟩  -- docs library/itertools.html#itertools.batched "New in version 3.12"
]

/-- `introduced` as a partial map on feature names (first entry wins). -/
def introducedIn (f : String) : Option Ver :=
  (introduced.find? (fun e => e.name == f)).map (·.since)

end RefurbVerif
