import RefurbVerif.Wire.Basic
import RefurbVerif.Model.Tree
import RefurbVerif.Generated.Edges
open Lean

namespace RefurbVerif.Wire

mutual
partial def toTree (j : Json) : Tree :=
  .node (str j "kind") (nat j "id") (toForest (arr j "kids"))
partial def toForest : List Json → Forest
  | [] => .nil
  | kv :: rest =>
    match kv with
    | .arr #[.str f, c] =>
      -- `{"dup": id}` marks a child that was already serialised elsewhere (shared object): skipped
      match c.getObjVal? "dup" with
      | .ok _ => toForest rest
      | .error _ => .cons f (toTree c) (toForest rest)
    | _ => toForest rest
end

def pairsJ (l : List (String × Nat)) : Json := Json.arr (l.map (fun p => Json.arr #[Json.str p.1, p.2])).toArray

def dispatchOf (k : String) : List String :=
  ((Generated.dispatch.find? (fun e => e.1 == k)).map (·.2)).getD [k]

/-- verbs: walk (tree -> visit sequence under the generated refurb edge table, and the node list) -/
def handleTree (verb : String) (j : Json) : Option Json :=
  match verb with
  | "walk" =>
    let t := toTree (obj j "tree")
    some (Json.mkObj [
      ("walk", pairsJ (walk (edgesOf Generated.refurbEdges) t)),
      ("nodes", pairsJ (nodes t)),
      ("calls", pairsJ (calls (edgesOf Generated.refurbEdges) dispatchOf (fun _ => true) t))])
  | _ => none

end RefurbVerif.Wire
