"""Regenerates /verif/MANIFEST.json from the table below and validates it (python3-vt has jsonschema).

    python3-vt -m harness.manifest        (cwd=/verif)
"""
import json
import sys
from pathlib import Path

VERIF = Path(__file__).resolve().parent.parent
ALL = ["C%02d" % i for i in range(1, 20)]

BASELINE = "cd /repo && /venv/bin/python -m pytest -ra -q -p no:cacheprovider --timeout=900 --continue-on-collection-errors"

COMMON_NOTE = (
    "Trusted: Lean 4.33 kernel; axioms ⊆ {propext, Classical.choice, Quot.sound} (audited by `#print axioms` on every run, "
    "no sorry/native_decide/bv_decide/axiom — grepped on every run); harness/extract.py (translator that regenerates "
    "lean/RefurbVerif/Generated/*.lean from /repo on every run); the correspondence harness and its generators. "
)

# pid -> (text, note, technique, design_ref)
CLAIMED = {
    "C17": (
        "Finite quantifier (the catalogue, its examples, its codes) decided exhaustively: the catalogue, docs/checks.md, "
        "default.toml and the per-example lint verdicts are regenerated into Lean tables on every run and 15 theorems are "
        "kernel-checked over them (codes/names unique, every code explained by its own entry, docs agree, default config agrees, "
        "Bad flagged / Good clean), plus general lemmas about `explain` for any catalogue with plugins (first match is own entry "
        "when codes are unique; unknown code is 'not found'; plugins cannot shadow a built-in).",
        COMMON_NOTE
        + "Modelled, not verified: the text rendering of `--explain` (compared through the CLI for every code on every run); "
        "example verdicts are produced by running refurb on each documented block with an auto-prelude importing its free names.",
        "Lean 4 proof over tables regenerated from source (decide +kernel) + general lemmas by induction; CLI/in-process correspondence",
        "DESIGN.md §4 C17",
    ),
}

CLAIMED["C09"] = (
    "Theorems over option lists and settings of any size: complete characterisation of the command-line fold (a classifier is "
    "enabled/disabled iff its last mention says so and no later all-switch cleared it), enable/disable disjointness, the ladder "
    "(ignore silences code and category; explicit code beats category; category beats all-switch; defaults otherwise), config "
    "'disable beats enable', merge (command-line all-switch resets the config's lists, otherwise lists combine), ignore silences "
    "after any merge, path-scoped ignores never unload, --verbose listing = loaded set; a code may be spelled NNN or FURBNNN (code_spelling_irrelevant, any three digits) and on the settings the whole parse_config_file model returns no disabled classifier is left enabled (config_file_disable_beats_enable). Model tied to settings.py/loader.py by "
    "running both on ~20k (config, argv) pairs (exhaustive to length 3/4 over 20 options incl. two spellings of one check and TOML integers, every config/CLI split) and by CLI runs.",
    COMMON_NOTE
    + "Model (hand-written): lean/RefurbVerif/Model/Settings.lean mirrors parse_command_line_args, parse_config_file, Settings.merge, "
    "should_load_check. The README's rules are transcribed independently in harness/props/c09.py:selected as the oracle; where the "
    "README is silent (CLI --enable vs config disable without an all-switch) the implementation's rule is taken as given.",
    "Lean 4 proof (induction over option lists) + model/implementation correspondence (line protocol) + README oracle",
    "DESIGN.md §4 C09",
)

CLAIMED["C14"] = (
    "Theorems for argument vectors and TOML documents of any size: merge laws (lists combined, booleans or-ed, scalars take the "
    "command-line value, config value as fallback; merge fails only when both all-switches are set), file arguments commute with "
    "options (any interleaving = options first, files in order), per-option config/CLI equivalence (quiet, load, ignore, enable, "
    "disable, python_version, format, sort_by, mypy_args, each under the stated 'only mention' guard), and totality: lex, "
    "parse_command_line_args, parse_config_file on every TOML table and load_settings end only in a value or a refurb:-style "
    "ValueError (`Clean`), proved through every bind of the parser; the same command line behaves the same with no config file and with an empty one (no_config_eq_empty_config) and contradictory all-switches are refused whatever the config situation (contradictory_switches_refused). Model tied to settings.py by ~3k (argv, config bytes) pairs per "
    "run incl. an ill-typed stream (every key x 14 TOML kinds) and confirmed through the CLI.",
    COMMON_NOTE
    + "Modelled, not verified: tomllib and the file system (the model receives the outcome of reading+parsing the file); Unicode digit "
    "tables are regenerated from the running interpreter (Generated/Unicode.lean); int()'s 4300-digit limit is not modelled; that "
    "refurb: messages are single lines is checked on the implementation (CLI), not proved.",
    "Lean 4 proof (induction over argv / bind-by-bind totality) + model/implementation correspondence + CLI failure oracle",
    "DESIGN.md §4 C14",
)

CLAIMED["C13"] = (
    "Theorems over messages, file names and report lists of any length (text as List Char): colour only adds SGR escape sequences "
    "(stripAnsi (formatColor d) = formatPlain d, incl. the four-back-tick diff colouring); every rendered diagnostic is one line; "
    "the lines of the report are exactly the rendered items in order (split . join = id), for all three formats; plain rendering "
    "parses back to its fields (round trip); the GitHub annotation parses back to its fields too (github_roundtrip: message verbatim) and both formats carry the same line, column, code and message (formats_agree); hint iff a diagnostic and not quiet; exit "
    "status: exit_iff_partial (no --debug dumps) + exit_iff_refuted (with --debug the full statement is false: known finding). "
    "Model tied to main.py by ~1600 in-process format/sort comparisons per run, an in-process oracle on format_errors itself (colour = plain + SGR; each GitHub annotation carries its diagnostic's fields verbatim; hint rule) and by CLI runs (plain, github, colour via pty).",
    COMMON_NOTE
    + "Modelled, not verified: Path.resolve()/relative_to for the GitHub format (the model takes the relative path as input); "
    "terminal behaviour (only SGR sequences are considered); sort order is shared with C11 (Model/Report.lean:leItem).",
    "Lean 4 proof over List Char (induction, span/split lemmas, core Nat.toDigits lemmas) + in-process correspondence + CLI/pty oracle",
    "DESIGN.md §4 C13",
)

CLAIMED["C05"] = (
    "Lean model of refurb's type resolver (get_mypy_type, _is_same_type/_is_same_class, is_subclass, FURB123) over a model of "
    "mypy's Type / symbol ADTs. Proved for types, alias chains, expressions, expectation lists and MROs of any size: Any, None, unions, "
    "type variables, callables, literal types, other classes, class objects, NamedTuples, unresolved operands, modules and alias nodes "
    "never qualify for a concrete class (never_qualify*, namedTuple_rejected, classObject_rejected); whatever qualifies is exactly "
    "the expected class (isSameType_exact); on plain expressions of any depth the resolver's answer is what a reference inference "
    "relation infers (resolver_sound), FURB123 end to end (furb123_*); the unrestricted statement is refuted by machine-checked "
    "witnesses (flow-narrowed names: known finding). SIMPLE_TYPES / FUNC_NAME_MAPPING facts by decide +kernel over tables read from "
    "the running code. Tied to the code by comparing the model with get_mypy_type on every expression node and with the diagnostics "
    "on ~4k (operand, check) cases per quick run (115k thorough), and refurb's answer with mypy's own result.types for 16 checks.",
    COMMON_NOTE
    + "Modelled, not verified: that mypy computes the reference relation (compared with result.types on generated programs only); "
    "type-variable instantiation is opaque; the syntactic side conditions (is_equivalent, argument shapes) of checks other than "
    "FURB123 are not modelled, only their type condition; literal types count as their fallback class; dict(os.environ) accepted by "
    "convention; FURB190 deliberately accepts None/Any (documented heuristic) and is not probed here (see C01). The worker's "
    "serialisation of mypy nodes, types and symbol tables is trusted.",
    "Lean 4 refinement proof + refuted/partial pairs + model-vs-implementation and implementation-vs-mypy differential on generated typed programs",
    "DESIGN.md §4 C05",
)

CLAIMED["C06"] = (
    "is_equivalent modelled case by case (13 structural classes, the str() fallback with mypy's StrConv.str_repr for literals modelled "
    "character by character, unmangle_name, get_common_expr_positions) and proved, for expressions of any size by mutual structural "
    "recursion, to be exactly the kernel of a normal form (isEquiv_iff_norm; hence an equivalence relation, immune to zip truncation). "
    "Between operands of a well-resolved program it coincides with syntactic identity (equiv_sound_partial / equiv_complete_partial / "
    "isEquiv_iff_synEq); every single-field edit (attribute, operator, argument kind, keyword, arity, class, literal, resolved name) at "
    "any depth breaks equivalence (mutant_differs over one-hole contexts). The unrestricted statement is refuted in both directions by "
    "machine-checked witnesses (known findings). The model's one parameter (does the NameExpr case compare `name`) is read off /repo by "
    "execution on every run. Tied to the code by ~2x10^4 (1.8x10^5 thorough) comparisons with the real function on real mypy nodes, and "
    "FURB110/108/124/136/121/102/132/188 judged end to end against ast.dump equality (identical pairs, layouts, 16 kinds of single-edit mutants).",
    COMMON_NOTE
    + "Modelled, not verified: mypy's StrConv text of non-structural nodes (lambda, comprehensions, conditional, walrus, await, yield) "
    "enters as an input; that mypy resolves equal names to equal fullnames is assumed (World); the serialisation of nodes in "
    "harness/props/c06.py; the str()-head assumption and mypy's parallel-list invariants are checked per node each run; `a and b and c` "
    "counts as `a and (b and c)` (one mypy tree); pairs differing only by an import alias of one object are counted, not judged.",
    "Lean 4 proof (mutual structural induction, normal-form kernel characterisation, one-hole context congruence, refutation by decided witnesses) + in-process differential on real nodes + CLI oracle",
    "DESIGN.md §4 C06",
)

CLAIMED["C02"] = (
    "PARTIAL (the full statement is false of today's printer: 11 recorded findings, one root cause for most). Every expression refurb "
    "can be handed is compared with Python's grammar, given in Lean as an inductive derivation relation (one constructor per PEG "
    "production, precedence levels 0-17, slices, star items, argument kinds, chained comparisons, f-strings with conversion and spec): "
    "a precedence-aware reference printer is proved to print text that derives the user's tree, at any depth (pp_faithful); refurb's "
    "_stringify (modelled case by case over 25 node kinds incl. get_fstring_parts, escaping, slice_expr_to_slice_call) is proved to "
    "print that same text whenever every operand binds at least as tightly as its position requires (stringify_faithful_partial) and "
    "is refuted otherwise by two-trees-one-text witnesses (stringify_refuted and five more). Filling a message template with fragments "
    "that derive at each hole's level gives a parsable, faithful whole (fragment_in_hole, template_faithful); the hole levels of 52 "
    "templates of 29 checks are tabulated and checked. Each run compares the model byte for byte with _stringify/stringify on ~30k "
    "(300k thorough) hand-built and parsed nodes and with the messages of 13 checks, the grammar with CPython's parser, and unifies "
    "every quoted fragment of thousands of real diagnostics with the source at the reported span.",
    COMMON_NOTE
    + "Modelled, not verified: unambiguity of the grammar is not proved (rests on CPython's parser being a function; ppRef_injective and "
    "faithful_refuted are conditional on it); statement forms, the lexical round trip of escapes and whole-tree placeholders are "
    "modelled and compared, not proved; the tree converters and the unifier in harness/props/c02.py are trusted; schematic messages "
    "are judged relative to the unmodified idiom; canonical dotted names are tolerated; templates of checks outside the table are "
    "covered by the oracle only.",
    "Lean 4 proof (inductive grammar, printer soundness by mutual structural induction, guarded refinement, template substitution theorem) + byte-level correspondence + CPython-parser differential + span-unification oracle",
    "DESIGN.md §4 C02",
)

CLAIMED["C04"] = (
    "Theorems for syntax trees of any depth and width: if every child edge that occurs is followed with multiplicity 1 the visit "
    "sequence equals the node list (walk_eq_nodes; also necessary: once_requires_one; a dropped field hides its subtree, a doubled "
    "field doubles it), every subscribed check is called once per node of its kinds (calls_once) and an unsubscribed type never; a construct put into ANY "
    "nesting context built from the reference schema is handed to the checks exactly as at module level, between the context's own "
    "nodes (plug: nested_occurrence_seen_once, nested_visit_count, conforms_plug). "
    "The edge table of refurb's traverser is regenerated on every run by EXECUTING every visit method on a corpus with recording "
    "visitors, and kernel-checked to be all-ones on the reference schema (mypy's own traverser fields) minus the committed alias "
    "fields, with no extra edges (every_node_once). Tied to the code further by an identity probe (all 83 node types subscribed; "
    "each node object handed over exactly once) and a metamorphic oracle with real checks: 17 idioms x 80 contexts + random "
    "compositions to depth 5, each diagnosed exactly once at the shifted position.",
    COMMON_NOTE
    + "Modelled, not verified: the traversal is abstracted to per-(class, field) multiplicities (field order inside one node is not "
    "modelled); the reference notion of 'nodes of a file' = fields read off mypy/traverser.py (source scan, mypy's compiled traverser "
    "cannot be subclassed) minus aliasFields (Model/Tree.lean, trusted, validated by the probe); checks' private visitors (FURB145 "
    "etc.) are covered by the metamorphic oracle only. Node classes mypy never builds from source are not exercised.",
    "Lean 4 proof (mutual structural induction over trees) over an edge table regenerated by execution (decide +kernel) + identity probe + metamorphic context oracle",
    "DESIGN.md §4 C04",
)

CLAIMED["C10"] = (
    "Theorem (selection_is_filter): for ANY catalogue of checks modelled as state machines with private state, any selection by "
    "code, any number of visited nodes and any noqa/amend filter, the report with a subset enabled equals the full report filtered "
    "to that subset — same diagnostics, same order (induction over the visit sequence + filtering commutes with stable insertion "
    "sort, whose key order is proved total and transitive); ignoring afterwards = never enabling. Its premise — each check only "
    "appends its own error class and shares no mutable state — is discharged for today's 93 check modules by `decide` over locality "
    "facts regenerated from the source (3 allow-listed exceptions, justified). Tied to the code by CLI subset runs over refurb's own "
    "idiom corpus (partition of the catalogue, singletons, complements, --ignore) and by the model's composition law evaluated on the "
    "real reports.",
    COMMON_NOTE
    + "Modelled, not verified: locality is a syntactic (ast) scan, not a semantic proof about 5k lines of Python; the exceptions "
    "(FURB120 writing Argument.initializer on typeshed defs and reading len(errors) as a delta; two shared constant tables) are "
    "committed allow-lists in Model/Visitor.lean.",
    "Lean 4 proof (induction; stable-sort/filter commutation; linear-order lemmas) + locality table by ast scan (decide +kernel) + CLI subset oracle",
    "DESIGN.md §4 C10",
)

CLAIMED["C11"] = (
    "Theorems for any number of files/diagnostics: the report is always in the documented sort order (sorted_ssort over the proved "
    "total+transitive key order); sorted permutations are unique, hence permuting the file arguments (perm_files_same), collecting "
    "the same diagnostics in any order, or checking groups separately and merging (regroup_same) gives the identical report when "
    "(file, line, column, code) identifies a diagnostic; keys tie iff those five fields coincide (so never across files). History: "
    "a model of the process-global line cache — independent when a run starts from fresh lines (what today's code does, observed by "
    "execution and kernel-checked), refuted otherwise (the defect that was repaired). Tied to the code by CLI runs: permutations, "
    "partitions, warm cache, concurrent runs, and several runs inside one process compared with fresh processes.",
    COMMON_NOTE
    + "PARTIAL: mypy's cache (cold/warm) and concurrent processes are exercised, not modelled; reuse of CPython object ids remembered in "
    "five checks' module-level sets across runs in one process is searched (repeated in-process runs), not proved; same-key diagnostics "
    "with different messages (one file, same position and code) keep traversal order by stability — not covered by the KeyInjective guard.",
    "Lean 4 proof (sorted-permutation uniqueness, linear key order) + history probe by execution + CLI/in-process history oracle",
    "DESIGN.md §4 C11",
)

CLAIMED["C08"] = (
    "For every file content, comment placement and code list (List Char of any length), the model of refurb's comment suppression is "
    "proved to remove exactly the diagnostics an appended `# noqa` / `# noqa: LIST` names and to leave every other diagnostic, line and "
    "the report order unchanged (noqa_bare, noqa_codes, noqa_absent, other_codes/lines_unaffected, filter_exact via filter/stable-sort "
    "commutation), wherever get_source_lines cuts the file as Python's tokenizer does. How the tree cuts lines is probed on every run "
    "(Generated/NoqaLines.lean): for str.splitlines the unguarded law is refuted by a form-feed witness and proved for files without the "
    "eight exotic separators; for newline-only splitting (today's repaired code) it is proved for all contents. Model compared with the "
    "real functions in-process (~8k cases) and the law tested end to end through the CLI with every separator, CRLF/CR, BOM, tabs, "
    "non-ASCII and custom prefixes.",
    COMMON_NOTE
    + "Modelled, not verified: that checks and mypy are insensitive to appended comments (oracle only); is_ignored_via_amend is a "
    "parameter; reported lines lie within the file (C07); the isspace/splitlines character sets are transcribed.",
    "Lean 4 induction proofs over List Char + behaviour-probed generated table + in-process correspondence + metamorphic CLI oracle",
    "DESIGN.md §4 C08",
)

CLAIMED["C03"] = (
    "PARTIAL. Proved: (a) dispatch totality — every node class the installed mypy can hand to a visitor has an overload in refurb's "
    "accept (tables regenerated at run time; this is the theorem that failed on TypeAliasStmt before the repair); (b) the exception-"
    "handler automaton of main()/run_refurb() for ANY handler table and any fault pattern: a run ends in a clean verdict iff no stage "
    "raises an exception the table leaves uncaught (clean_verdict_partial, clean_verdict_iff_total), with today's table regenerated by "
    "fault injection (96 stage x exception cells, each observed by making the stage function raise) and the documented handlers checked "
    "on it; the full statement is refuted for today's table (clean_verdict_refuted_today). NOT proved: that no check body raises on any "
    "tree — that part is a crash SEARCH (labelled as such): refurb's sources, stdlib sample, all-node-kinds corpus, AST mutants of the "
    "idiom files, typing states, encodings/layouts, deep nesting, degenerate command lines, with the clean-verdict oracle.",
    COMMON_NOTE
    + "The node classes mypy can produce are read off mypy/visitor.py (source scan). The stage functions patched by the injection are "
    "taken to be the stages of a run. Absence of exceptions inside ~5k lines of check code over mypy's object model is searched, not "
    "proved; mypy's own crashes (one recorded finding) are outside refurb's handlers.",
    "Lean 4 proof (decide over regenerated dispatch tables; induction over the stage automaton; handler table by fault injection) + crash search",
    "DESIGN.md §4 C03",
)
CLAIMED["C18"] = (
    "Machine-checked, for fault sequences of any length, exactly when run_refurb leaves mypy's timing temp file behind (leak_iff): "
    "never without --timing-stats, never once the unlink sits in a finally (today's repaired code, shape read from main.py on every "
    "run); for the 2.0.0 shape it leaks iff a step between mkstemp() and unlink() fails (refuted with the CompileError witness, proved "
    "under the success guard). The --timing-stats file has the three keys in order, str->int sections with one entry per checked "
    "module and per mypy line, no duplicate keys, values non-increasing with ties in insertion order, one line of printable ASCII "
    "(stats_shape and friends, unbounded inputs). The CLI oracle snapshots (names, modes, sizes, mtime_ns, SHA-256, symlink targets) "
    "the working directory, the checked tree and a private TMPDIR around 56 (quick) / 136 (thorough) runs and allows only "
    ".mypy_cache/** and FILE to differ.",
    COMMON_NOTE
    + "Trusted: extract_c18.py (ast reading of where the unlink sits), the instrumentation seams of the lifecycle worker, the "
    "os.walk/sha256 snapshots. Modelled, not verified: mypy's writes below .mypy_cache are only observed; that mypy-written lines "
    "always parse and that the text round-trips through json.loads are checked by correspondence; no_source_write is a statement "
    "about the model's event alphabet and gets its force from the snapshots.",
    "Lean 4 proof (event automaton with closed-form final state; insertion-sort and dict-insert lemmas) + in-process/instrumented correspondence + file-system snapshot oracle",
    "DESIGN.md §4 C18",
)

CLAIMED["C12"] = (
    "Per-path (amend) ignores are proved, over a component-list model of pathlib/realpath with the file system (a finite symlink map, "
    "or any resolver R) as a parameter, to silence a diagnostic iff some path-scoped entry lists its code or category and the entry "
    "path, joined onto the directory of the config file in use and resolved, is a component-wise prefix of the resolved file "
    "(amend_iff_under_path). String-prefix siblings never match (src vs src2); files elsewhere, other codes, pathless entries and "
    "unresolvable entries are unaffected; a verdict is always delivered when the file itself resolves; the verdict does not depend on "
    "the working directory once paths are absolute; `resolve` results are canonical (..-free, idempotent, fuel-monotone). 62 theorems, "
    "all unbounded. Checked against is_ignored_via_amend in-process (~11k cases quick) and the CLI on real directory trees with "
    "symlinks in both directions, loops, config files elsewhere and different working directories, with a kernel-canonical-name oracle "
    "(/proc/self/fd).",
    COMMON_NOTE
    + "Trusted: that the model's walk equals os.path.realpath(strict=False) + Path.resolve's loop check and that parsePath equals Path() "
    "(correspondence on real and adversarial symlink trees, not a theorem); the kernel oracle via /proc/self/fd. The model "
    "over-approximates `loop/../x` as unresolvable where CPython recovers lexically. A symlinked config FILE anchors at the link's "
    "directory. mypy's naming of files for directory arguments is taken from the output.",
    "Lean 4 induction over component lists and a fuelled symlink walk; resolver-parametric theorems; real-tree correspondence with a kernel oracle",
    "DESIGN.md §4 C12",
)

CLAIMED["C15"] = (
    "For every built-in check and every target 3.6…3.13 refurb is RUN on the check's documented and test idioms (translator by "
    "execution, cached by source hash) and a kernel-checked table shows: every API/syntax a proposed replacement introduces is listed "
    "in a committed feature->version table (no silent unknowns) and is not newer than the target (gate_ge_feature — a theorem since the "
    "FURB178 repair); each check's reporting pattern over the targets is a threshold step, so raising the target never removes a "
    "diagnostic (step_function, monotone); a changed message is the newer spelling (variant_switch, FURB121). General lemmas about "
    "threshold gates (gate_sound, gate_too_low_is_unsound, gate_monotone) lift this to every target version. The oracle re-checks every "
    "diagnostic of every idiom file through the CLI flag, pyproject and a Settings object for too-new features, lost diagnostics and "
    "disagreement between the three spellings of the target.",
    COMMON_NOTE
    + "Trusted: Model/Introduced.lean (hand-committed from the docs; >=3.9 API and syntax rows re-validated against mypy's typeshed and "
    "parser each run) and the message scanner (tokens new in the proposed fragment; FURB162's feature attached by check code). Behaviour "
    "outside 3.6…3.13 is the clamped table. typeshed's effect on ungated checks between targets is exercised, not modelled.",
    "generated sweep table by execution + decide +kernel against a committed reference table + threshold-gate lemmas + version-sweep CLI oracle",
    "DESIGN.md §4 C15",
)
CLAIMED["C19"] = (
    "For every non-empty duplicate-free selection of the 83 node types `refurb gen` offers, any prefix and any catalogue of codes in "
    "use, Lean proves about the file gen.main() writes (byte-exact model of FILE_TEMPLATE/build_imports/get_next_error_id): it imports "
    "each selected class exactly once from its defining module; its check signature passes the loader's validation and is registered "
    "under exactly the selection; its case arm lists exactly those classes; the loader finds ErrorInfo with the chosen prefix and a code "
    "that is unused, greater than all others of that prefix and 100 for a new prefix; it fires on a node iff the node is an instance of "
    "a selected type; render is injective. 'Fires exactly once' is refuted by FuncItem selected with FuncDef/LambdaExpr (known finding) "
    "and proved otherwise. Each run compares with the implementation: byte equality of every written file, ast, refurb.loader, CLI "
    "--load/--explain runs (all singletons, sampled/all pairs), and a probe plugin on a corpus with every node kind.",
    COMMON_NOTE
    + "Trusted: the extractor for Generated/NodeTypes.lean. Not proved: the token-level reading is not Python's grammar (ast.parse runs on "
    "every file written); fzf is stubbed; which nodes the visitor reaches is taken from the probe (ten offered types are never reached: "
    "known finding); get_next_error_id sees only built-ins and entry-point plugins.",
    "Lean 4 model + string-level proofs over List Char; decide +kernel over the generated table; byte-for-byte and CLI correspondence",
    "DESIGN.md §4 C19",
)

CLAIMED["C01"] = (
    "PARTIAL. Proved: a Python value semantics in Lean (None/bool/int/abstract float incl. NaN and -0.0/str/flat lists and tuples; ==, "
    "<, in, and/or/not, conditional, len, min/max, sorted, casts, slicing, isinstance) and, for 32 value-level rewrite rules of 14 "
    "checks (FURB108, 109, 110, 114, 115, 123, 124, 136, 143, 145, 149, 168, 169, 171), a theorem that the old and the new expression "
    "have the same observable outcome (value with type, or both raise; truth value in condition position) for EVERY assignment of "
    "values of the declared types (`Sound`), plus 4 refutations by witness where the same rewrite is unsound on another part of the "
    "domain the check accepts (136 bool/int tie, 143 -0.0, 145 tuple.copy(), 123 int(True)); decision tables inside the checks "
    "(FUNC_TABLE, is_truthy, IS_INT_COMPARISON_TRUTHY, FUNC_NAME_MAPPING) are regenerated and kernel-checked against the rules. Ties: the "
    "model evaluator is compared with CPython's eval on ~1.1k sweeps per run and refurb is checked to really propose each rule's `new`. "
    "Statement level: a block language (assignments, append, if/else, for, return/continue, list comprehensions) with big-step "
    "semantics; FURB113/125/126/128/133/138/148 proved on it, the control-flow and loop rules for ARBITRARY blocks and lists of any "
    "length (sound_125_any_block, sound_126_any_branch, sound_133_any_body, sound_138_any via a loop invariant, sound_148_any), five "
    "unsound variants refuted by witness (the append reads the list, the temporary/loop name is observed later). "
    "NOT proved: the other checks (standard library / OS / user classes) — covered by the execution oracle: ~175 expression idioms "
    "+ ~170 statement/file-system cases (87 of 93 checks have an executed rewrite) are linted, each suggested rewrite is spliced in at "
    "the reported span (or, for schematic messages, a hand-written rewrite tied to refurb's exact message) and both versions executed "
    "over typed value sweeps (value+type, raised-or-not, argument state, stdout, resulting file tree); ~500 single-edit near-miss "
    "neighbours of the idioms are linted too, so a check that starts to fire next to its pattern is judged as well.",
    COMMON_NOTE
    + "Modelled, not verified: no aliasing/object identity (so `in` is equality-based: theorems carry a NaN-free guard, the NaN identity "
    "difference is a recorded finding), floats are a three-kind abstraction, no user-defined classes, str()/int() of other classes not "
    "modelled; lists are values in the block language (no aliasing, no dicts). Recorded behaviour findings: see known_findings.json "
    "(NaN identity, ties, -0.0, tuple.copy, log rounding, in-place rewrites vs aliases, bool/int, FURB121 tuple operand, pathlib "
    "result types and empty/bytes paths, names read after a loop, ...). The hand-written rewrites of schematic messages are trusted. Documented caveats (116 negative numbers, 179 iterator) are excluded as the property says, with "
    "the docstring sentence checked on every run.",
    "Lean 4 proof (per-rule semantic equivalence over a Python value model; witness refutations; decide over regenerated tables) + evaluator/CPython and rule/refurb correspondence + rewrite-and-execute oracle",
    "DESIGN.md §4 C01",
)
CLAIMED["C16"] = (
    "For every module forest and every list of --load targets (any length, duplicates, a package plus its own submodule in either "
    "order, the built-in package or anything inside it) get_modules is proved to be first-occurrence dedup of the walks: each reachable "
    "check module exactly once, nothing else, same list when a covered target is added (getModules_eq, each_leaf_at_most_once, "
    "reachable_exactly_once, spelling_irrelevant). Proved: a module whose error class is not selected is in no call the visitor makes "
    "and is not even validated; the first selected module with an invalid signature ends load_checks with its own located error "
    "(file:line: reason, one line, exit 1); a selected valid check is registered exactly once per node type it names; the parameter-count "
    "arity rule (today's repaired code) is right for every accepted check (arity_right), the old __annotations__ rule is refuted; a "
    "non-importable target is a one-line error. 77 theorems. Model tied to refurb on ~2.4k (quick) / ~14k (thorough) generated plugin "
    "trees x target lists x selections in fresh processes, all 93 built-in signatures, and 100-540 real CLI runs with call logs.",
    COMMON_NOTE
    + "Trusted: pkgutil listing order as transcribed; module identity = dotted name; inspect.signature/__annotations__ of plain defs; "
    "selection = C09's shouldLoad; the visited node sequence is a parameter (C04). Not modelled: classes/partials as `check`, edited "
    "__annotations__, sub-packages failing with ImportError, Error classes without `code`, relative --load names. Two recorded findings "
    "(keyword-only settings, --load \"\").",
    "fold-invariant refinement to a `loaded`-free spec; induction over a sibling-encoded forest; Except-bind case analysis; real-package generation with a subprocess worker and a CLI call-log oracle",
    "DESIGN.md §4 C16",
)

CLAIMED["C07"] = (
    "Every diagnostic made by Error.from_node is a real token position — an existing line, a byte column inside it, a token starting "
    "there — proved for all files under the explicit assumption that mypy positions a node at its first token (from_node_valid); all "
    "three output formats print that column + 1 (never_zero_based). FURB113's 'previous statement' is proved to be a statement of the "
    "same block. Exactly three checks compute a position by hand, pinned by `decide` against a table regenerated from the source. For "
    "FURB180 and FURB106 the hand arithmetic is characterised exactly: refuted in general (witnesses: column -9; line/column from "
    "different lines), proved when keyword, `=` and value are adjacent resp. when the attribute shares the receiver's first line; the "
    "FURB106 repair (today's code, field probed by execution) is proved for all layouts (tabs_fixed/tabs_current). The assumption is "
    "enforced by a tokenizer oracle over every diagnostic of all 93 checks under 12 ast-preserving layout transforms (continuations, "
    "parenthesised multi-line forms, tabs, non-ASCII, CRLF/CR/BOM/latin-1) and by correspondence on exhaustively enumerated layouts.",
    COMMON_NOTE
    + "Trusted/assumed: mypy's position invariant (oracle-validated only); Python 3.12 tokenize as the meaning of 'token'; columns "
    "judged as UTF-8 byte offsets; the ast scan behind Generated/Positions.lean; the layout transforms are validated per variant by "
    "ast.dump, not proved. Two recorded findings (FURB180 keyword position; FURB106 with an NFKC-spelled attribute).",
    "layout arithmetic and invariant proofs in Lean 4; decide +kernel over a generated table; tokenizer + metamorphic oracle; exhaustive layout correspondence",
    "DESIGN.md §4 C07",
)

NOT_YET = "check not built yet in this round (work in progress; see DESIGN.md §8 order of work)"


def build() -> dict:
    checks = []
    for pid in ALL:
        if pid not in CLAIMED:
            continue
        text, note, technique, ref = CLAIMED[pid]
        checks.append(
            {
                "property_id": pid,
                "quick_cmd": f"bin/check {pid} --tier quick",
                "thorough_cmd": f"bin/check {pid} --tier thorough",
                "evidence_file": f"evidence/{pid}.json",
                "replay_cmd_template": f"bin/check {pid} --replay {{path}}",
                "engine": "lean4-refurbverif",
                "level_claimed": {"category": "proof", "text": text, "design_ref": ref},
                "level_note": note,
                "technique": technique,
            }
        )
    return {
        "version": 1,
        "setup_cmd": "bin/setup",
        "hooks": {
            "guard": "REFURB_VERIF",
            "enable": "no hooks are needed: the harness imports refurb in-process, wraps functions at run time and drives the CLI; REFURB_VERIF is reserved and currently unused",
            "baseline_off_cmd": BASELINE,
            "source_commits": [],
            "add_only": True,
        },
        "engines": [
            {
                "name": "lean4-refurbverif",
                "path": "lean/",
                "serves_properties": sorted(CLAIMED),
                "kind_free_text": "Lean 4 library RefurbVerif (Model/, Generated/ regenerated from /repo by harness/extract.py, Props/Cxx.lean theorems) + native model driver (line protocol) compared with the implementation by harness/props/cXX.py",
            }
        ],
        "checks": checks,
        "not_applicable": [{"property_id": p, "reason": NOT_YET} for p in ALL if p not in CLAIMED],
        "notes": "bin/check Cxx: extract -> lake build -> axiom audit -> model/implementation correspondence -> property oracle on the implementation -> classify (known_findings.json) -> evidence/Cxx.json. Exit 2 = infrastructure failure.",
    }



# ---- texts brought up to date after the extension rounds (builder reports); the tuples above keep the history
def _upd(pid, text=None, note_add=None, tech=None):
    t, n, k, r = CLAIMED[pid]
    CLAIMED[pid] = (text or t, n + (" " + note_add if note_add else ""), tech or k, r)


_upd(
    "C01",
    "PARTIAL. Per rewrite rule, a Lean theorem says the old and the new code observe the same value (with type) or raise-or-not — the truth "
    "value in condition position — for ALL operand values of the declared classes (strings, ints and lists of any length, by induction): "
    "77 value-level rows of 27 checks (FURB102, 108-110, 112, 114, 115, 119, 121, 123, 124, 136, 143, 145, 149, 161, 168, 169, 171, 183, "
    "188, 192; e.g. bin(x).count('1') = x.bit_count() for every int via popcount = number of '1' digits, sorted(x)[0]/[-1] = min/max for "
    "int lists of any length) and 18 statement-level rows of 12 checks on a block language with big-step semantics (FURB109, 113, 125, "
    "126, 128, 131, 133, 138, 148, 160, 186-188; control-flow and loop rules for ARBITRARY blocks via loop invariants). Seven further rows "
    "(FURB116 bin/oct/hex(x)[2:], FURB188 removesuffix in both forms, FURB192 sorted(x)[-1] / reverse) are false on part of the domain "
    "refurb accepts: each is refuted by a witness AND proved under the guard that makes it true (non-negative ints, non-empty suffix, int "
    "lists); nine refuted variants remain (NaN, -0.0, tuple.copy(), bool/int ties, a later read of a removed name, ...). Nine tables "
    "inside the checks are regenerated from the source and tied to the rows by decide. On every run each row is linted (refurb must "
    "propose exactly that rewrite), the model's eval/execBlock is compared with CPython (4.6k + 1.3k cases quick, 30k + 6k thorough) and "
    "CPython itself must not separate old from new on a proved row. NOT proved (executed only, by a rewrite-and-execute oracle over ~185 "
    "expression idioms, ~170 statement / file-system cases, look-alike user classes, ~500 single-edit and hand-written near misses): the "
    "checks whose behaviour lives in the standard library, the OS or user classes.",
    "Lists are values in the model (no aliasing): FURB186/187 are proved for the rebound name only; that the in-place forms are visible "
    "through an alias is the recorded finding C01-inplace-rewrites-alias. str() of whole floats >= 1e16 and of containers is marked NOT "
    "MODELLED.",
)
_upd(
    "C03",
    "PARTIAL. Proved: (a) dispatch totality — every node class the installed mypy can hand to a visitor has an overload in refurb's accept "
    "(tables regenerated at run time); (b) the control flow of main() + run_refurb() modelled per file (early exits; one visitor per file; "
    "suppress per accept; finally; noqa re-read of diagnosed files; sort/format/print; exit rule), for any number of files and any fault "
    "pattern: main() returns 0/1 or lets an exception escape; it always returns iff the handler table has no uncaught cell; a "
    "RecursionError in one file leaves exactly every other file's diagnostics and that file's own pre-cut ones, each attributed to its own "
    "file; a TypeError/ImportError after the build leaves one bare line, exit 1, no diagnostic; stdout holds only diagnostics, error lines, "
    "the hint (and --debug dumps); exit 0 iff nothing printed; no temp file left. The 143-cell handler table (11 steps x 13 exception "
    "kinds) is regenerated by fault injection from real runs and proved equal to the hand-written try/except nesting (cells_eq_nesting); "
    "the full clean-verdict statement is refuted for today's table (an OSError on the noqa re-read escapes). The model is compared with "
    "134 (680 thorough) real main() runs with single and multi faults, natural failures and files cut short by the recursion limit. NOT "
    "proved: that no check body raises on any tree — that part is a crash SEARCH (labelled as such): refurb's sources, stdlib sample, "
    "all-node-kinds corpus, AST mutants and single-site call/string variants of every idiom file (lost / extra / starred / keyword "
    "arguments, lone surrogates, empty, one-character and newline strings), the exploded layout of generated files (a line break after "
    "every opening and before every closing bracket), ~80 ill-typed operands under every operand template, programs handed to mypy with "
    "-c/-m/-p, typing states, encodings/layouts, deep nesting, degenerate command lines, every seen message re-rendered in the "
    "colour and GitHub formats, with the clean-verdict oracle.",
    "The patch points of the fault injection are taken to be the steps of main(); `# noqa` filtering itself is C08's subject; the "
    "exit-1-under---debug case is recorded under C13.",
    "Lean 4 proof (decide over regenerated dispatch tables; control-flow model + shape invariant by induction over the file list; decide over a by-injection handler table) + model-vs-real multi-fault runs + crash search",
)
_upd(
    "C10",
    "Theorem (selection_is_filter): for ANY catalogue of checks modelled as state machines with private state, any selection by code, any "
    "number of visited nodes and any noqa/amend filter, the report with a subset enabled equals the full report filtered to that subset — "
    "same diagnostics, same order; ignoring afterwards = never enabling. Its premise is discharged for today's 93 check modules by decide "
    "over locality facts regenerated from the source (allow-lists per (module, use), justified). WHOLE RUN: refurb.main.main() from argv "
    "and config file to stdout and exit status is modelled as ONE function composed only from the component models (settings, selection "
    "ladder, # noqa / amend filter with the real path algebra, stable sort, formatters, exit status), and proved for any number of files, "
    "diagnostics and checks: a run with fewer checks prints exactly the larger run's items of its loaded checks in the same order, down "
    "to stdout lines (run_selection_is_filter/_output/_lines); --ignore CODE is indistinguishable from the check not existing; exit status "
    "1 exactly when a diagnostic or error line is printed; a bare # noqa removes exactly the diagnostics of its line; permuting the file "
    "arguments changes nothing. The model's stdout and exit status are compared BYTE FOR BYTE with 162 (2010 thorough) real CLI runs "
    "(options split between argv and pyproject.toml, file orders, --sort/--format/--quiet/--verbose/--debug, 12 shapes of # noqa, amend "
    "tables, six failure kinds), all predicted from ONE instrumented all-checks run; plus CLI subset runs over refurb's own idiom corpus "
    "(partition, singletons incl. directed ones for checks whose module looks outside itself, complements, --ignore).",
    "mypy's part (files built, failure lines, tree dumps) and the raw diagnostics of every check are inputs of the whole-run model; a "
    "diagnostic's class is identified by prefix+code; not modelled there: Path.resolve() failing for the checked file itself, the "
    "help/version/explain/gen texts, --timing-stats.",
    "Lean 4 proof (induction; stable-sort/filter commutation; refinement by composition of component models) + locality table by ast scan (decide +kernel) + byte-level model-vs-CLI correspondence + CLI subset oracle",
)
_upd("C05", None, "FURB190 (which by design also accepts Any/unknown) is instantiated through a generic helper so that the lambda's parameter takes the operand's type; its Any/unknown verdicts are a recorded finding.")
_upd("C15", None, "Code guarded by sys.version_info is part of the sweep: diagnostics that need resolved names/types are lost in a branch the higher target makes dead (mypy does not analyse it) — recorded finding; anything else lost is reported.")

_upd(
    "C11",
    None,
    None,
    None,
)
CLAIMED["C11"] = (
    CLAIMED["C11"][0]
    + " WHOLE RUN: on the run model (Model/Run.lean) checking independent files together is the sorted merge of checking them group by "
    "group (two groups, k groups, any partition of any argument order; down to the printed plain lines), and what a joint run says about "
    "one file is what a run on that file alone says — any number of files, diagnostics and checks, both sort orders, with # noqa and "
    "amend filtering in force (run_grouping_*, run_one_by_one; grouping_needs_paths shows the separation hypothesis cannot be dropped). "
    "HISTORY: a machine model of refurb's process-global state (Model/History.lean) proves that no sequence of earlier runs in the same "
    "process — finished, or ended early anywhere — changes what the next run reads, provided no component leaks (history_independent, by "
    "induction + a two-execution simulation); every component the regenerated scan finds today (12: the line cache, the builtins handle, "
    "five identity-keyed sets, interpreter settings, ...) is reset, overwritten, constant or identity-keyed (today_no_component_leaks, "
    "decide over Generated/Globals.lean); never-cleared caches, position-keyed tables and unrestored limits are refuted by witnesses. "
    "Generated in-process histories (edits, failing runs, raising plugins in between) are compared run by run with fresh processes.",
    CLAIMED["C11"][1]
    + " Globals table: ast scan (name-based call graph) + by-execution probe; assumptions FreshIds (ids of dead nodes are not reused), "
    "CwdFixed, CodeFixed; a save/restore of an interpreter setting would be classified `leaks` (conservative).",
    CLAIMED["C11"][2] + " + script-machine history model (induction, simulation) + decide over a regenerated globals table + generated in-process histories vs fresh processes",
    CLAIMED["C11"][3],
)

CLAIMED["C01"] = (
    CLAIMED["C01"][0]
    + " CHECKS: 19 expression-level checks (FURB108/109/110/114/115/121/123/124/136/143/145/149/161/168/169/171/183/188/192) are "
    "transcribed as matchers over mypy trees annotated with refurb's own type and equivalence verdicts (Model/CheckAst.lean: arity, "
    "argument kinds, fullnames, tables, every type and is_equivalent demand, the version gates, the exact messages). Proved: a firing "
    "whose verdict names a row reads as that row's `old` over the hit's operands with the declared classes (matchNNN_instance), hence — "
    "substitution lemma (eval_instantiate, one induction over the expression language) plus the row's Sound — the flagged expression and "
    "the replacement have the same outcome wherever the operands evaluate (checkNNN_preserves_behaviour); firings outside the proved rows "
    "are stated by witness on concrete nodes (FURB123 subclass values, FURB136 bool/int, FURB143 float, FURB145 tuple, FURB188 empty "
    "suffix, FURB192 ties) or classified as outside the table. On every run the multiset of (code, line, column, message) the matchers "
    "predict is compared with real refurb's diagnostics, both directions, on refurb's test files, the idiom module with its near misses "
    "and generated expressions (548 diagnostics over 2922 expression roots quick; 1527 over 7150 thorough).",
    CLAIMED["C01"][1]
    + " `den` (reading a node as a value-semantics expression) is trusted and checked against the source text on every named row; "
    "is_equivalent (EqvSound, C06's subject) and the type verdicts (C05) enter the matcher theorems as hypothesis and annotations; "
    "statement traversal is not modelled (the harness enumerates expression roots).",
    CLAIMED["C01"][2] + " + check matchers over annotated mypy trees (substitution lemma) + matcher-vs-refurb diagnostics correspondence",
    CLAIMED["C01"][3],
)

CLAIMED["C17"] = (
    CLAIMED["C17"][0].replace("15 theorems", "the table theorems")
    + " docs/gen_checks.py is modelled too (an insertion-ordered dict keyed by the PRINTED code, written in sorted key order) and, for ANY "
    "catalogue, proved to write exactly one section per check in the order of the printed codes when those are pairwise different "
    "(genDocs_perm, genDocs_sorted) and to LOSE a check's section when two checks print the same code (genDocs_collision — FURB1+23 and "
    "FURB+123 are different keys that print alike, hence printed_codes_unique on top of codes_unique); docs/checks.md as shipped equals "
    "the generator's output for today's catalogue, section for section and in order (docs_are_generated). The first line `--explain` "
    "prints is modelled (header_shape) and identifies the check (headers_identify_checks).",
    CLAIMED["C17"][1], CLAIMED["C17"][2], CLAIMED["C17"][3],
)

_upd(
    "C02",
    CLAIMED["C02"][0]
    + " TEMPLATE TABLE: every message every check can build is regenerated from the check's source by a path-sensitive symbolic "
    "evaluation (378 messages, 714 back-quoted fragments; stringify-holes vs raw holes; each fragment parsed by CPython with names in the "
    "holes) and pinned per check: a check that gains a message, a stringify(x) that becomes str(x), an operand that moves next to "
    ".attr/not, or a fragment that stops parsing breaks gen_classified / gen_agrees_committed / closed_new_covered (decide +kernel over "
    "the regenerated table through structural twins of the printer, proved equal for every tree). replacement_parses: ANY expression, "
    "assignment, for-head or in-tail fragment of the table parses as its form over the operands when each hole's text derives at its "
    "position's level; replacement_parses_refurb instantiates it with refurb's printer under the guard; replacement_other_tree / "
    "replacement_unparsable show unconditionally that the guard cannot be dropped (`a + b.copy()`, `qq or ww := b` — the formal face of "
    "the recorded lost-parentheses finding). Every real message of the run must instantiate an extracted template of its check.",
    "Trusted additionally: the extractor's symbolic evaluation (tied by the real run: ~1.9k distinct messages over 267 of 378 templates in the "
    "quick tier; the templates never exercised are listed in the evidence) and CPython as parser of fragments; target-shapedness of "
    "for/assignment holes is a hypothesis; messages that match two equally specific templates are counted, not attributed.",
    CLAIMED["C02"][2] + "; ast symbolic extraction of message templates + kernel decide over the regenerated table",
)

_upd("C19", CLAIMED["C19"][0] + " The code written into the file is `str(id)` and that is a Python integer literal for EVERY id, also below 100 "
     "(code_literal_valid: digits only, no leading zero; a zero-padded rendering such as 008 is refuted as a literal, padded_code_invalid).")

_upd("C15", CLAIMED["C15"][0] + " Which version a run targets is proved on the settings model too: a --python-version on the command line decides "
     "whatever the config file says, also when it equals the running interpreter's version (target_cli_wins), the config's python_version is "
     "the fallback and the interpreter the default (target_config_fallback, target_default), so monotonicity holds under any config "
     "(monotone_under_any_config).")

def main() -> int:
    m = build()
    (VERIF / "MANIFEST.json").write_text(json.dumps(m, indent=1, ensure_ascii=False) + "\n")
    try:
        import jsonschema

        jsonschema.validate(m, json.loads(Path("/root/.vp/MANIFEST.schema.json").read_text()))
        ev_schema = json.loads(Path("/root/.vp/EVIDENCE.schema.json").read_text())
        for c in m["checks"]:
            f = VERIF / c["evidence_file"]
            if f.exists():
                jsonschema.validate(json.loads(f.read_text()), ev_schema)
        print("MANIFEST.json valid;", len(m["checks"]), "checks claimed")
    except ImportError:
        print("jsonschema not available; wrote MANIFEST.json unvalidated")
    return 0


if __name__ == "__main__":
    sys.exit(main())
