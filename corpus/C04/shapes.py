"""Optional-field shapes: every statement/expression form once with and once without its optional parts
(bare except, except-as, try without else/finally, for/while with and without else, with-items with and without
target, slices with omitted parts, calls with every argument kind, ...).  A traversal that skips a child only
when a sibling field is None (or only when it is not) shows up here as a (class, field) multiplicity of 0."""
import contextlib
from typing import Any


def opt_try(a: int) -> int:
    try:
        a = int(a)
    except:  # noqa: E722
        a = list([a])[0]
        print(str(a))
    try:
        a = int(a)
    except ValueError:
        print(repr(a))
    try:
        a += 1
    except ValueError as e1:
        print(e1, a)
    except (TypeError, KeyError):
        print(a + 1)
    except:  # noqa: E722
        print(a + 2)
        raise
    try:
        a += 2
    finally:
        print(a * 2)
    try:
        a += 3
    except Exception:
        pass
    else:
        print(a * 3)
    try:
        try:
            a += 4
        except:  # noqa: E722
            a = [a][0]
        finally:
            a -= 1
    except OSError as e2:
        print(e2)
    return a


def opt_loops(xs: list[int]) -> None:
    for x in xs:
        print(x)
    for x in xs:
        print(x + 1)
    else:
        print(len(xs))
    while xs:
        xs.pop()
    while xs:
        xs.pop()
    else:
        print(xs == [])
    for i, (p, q) in enumerate(zip(xs, xs)):
        print(i, p, q)
    for xs[0] in xs:
        pass


def opt_with(cm: Any) -> None:
    with cm:
        print(1)
    with cm as v1:
        print(v1)
    with cm as (v2, v3), cm, cm as v4:
        print(v2, v3, v4)
    with contextlib.suppress(KeyError), cm as v5:
        print(v5)


async def opt_async(cm: Any, it: Any) -> None:
    async with cm:
        print(1)
    async with cm as w1, cm:
        print(w1)
    async for y in it:
        print(y)
    async for y in it:
        print(y)
    else:
        print(0)
    r = [z async for z in it if z]
    print(r, await cm)


def opt_slices(s: list[int], d: dict[Any, Any]) -> None:
    print(s[:], s[1:], s[:2], s[::3], s[1:2], s[1::3], s[:2:3], s[1:2:3])
    print(d[1, 2], d[1:2, ::3], d[()], d[...])
    print(s[-1], s[s[0]], s[0:len(s)][0])


def opt_calls(f: Any, a: Any, k: Any) -> None:
    f()
    f(a)
    f(a, a)
    f(*a)
    f(**k)
    f(a, *a, x=a, **k)
    f(x=a)
    f(*a, *a, **k, **k)
    f(a)(a)(x=a)
    f.g.h(a).i[0](a)


def opt_defs() -> None:
    def d0():
        pass

    def d1(a, /, b, *, c):
        return a, b, c

    def d2(a=1, *args, b: int = 2, **kw) -> int:
        return a + b + len(args) + len(kw)

    def d3(*, k=int(0)):
        return k

    l0 = lambda: 0  # noqa: E731
    l1 = lambda a, b=str(1), *c, d=2, **e: (a, b, c, d, e)  # noqa: E731
    print(d0, d1, d2, d3, l0, l1)


def opt_stmts(a: Any, b: Any) -> Any:
    assert a
    assert a, str(b)
    del a.x
    del b[0], b[1:2]
    if a:
        raise ValueError
    if b:
        raise ValueError(a) from b
    if a is b:
        return
    x: int
    y: int = int(1)
    p = q = r = a
    (m, n), *rest = b
    a.attr, b[0] = b, a
    a += 1
    b[0] += a
    print(x, y, p, q, r, m, n, rest)
    return a


def opt_exprs(a: Any, b: Any, c: Any) -> None:
    print(a if b else c, (a if b else c) if c else (b if a else c))
    print(a < b, a < b <= c, a is not b, a not in b, not a, -a, +a, ~a)
    print(a and b, a and b and c, a or b or c, (a or b) and c)
    print([*a, b], (*a,), {*a, b}, {**a, "k": b, **c}, {a: b})
    print([x for x in a], [x for x in a if x], [x for x in a if x if b], [x for x in a for y in x if y])
    print({x: y for x, y in a}, {x for x in a}, (x for x in a), [(x, y) for x in a if x for y in b if y])
    print((w := a), [w2 := b, w2], f"{a}", f"{a!r:>{b}}", f"{a}{b:{c}}x", "%s" % a, b"x" + a)
    print(lambda: (yield), (yield a) if False else None)


def opt_match(v: Any) -> None:
    match v:
        case 1:
            print(1)
        case 2 | 3 if v:
            print(2)
        case [a, *rest]:
            print(a, rest)
        case [_, *_]:
            print(0)
        case {"k": kv, **kw}:
            print(kv, kw)
        case {"j": 1}:
            print(3)
        case int(real=r) | float(real=r):
            print(r)
        case int(pos1):
            print(pos1)
        case complex(pos2, imag=kw2) as both:
            print(pos2, kw2, both)
        case OptC():
            print(6)
        case str() as s:
            print(s)
        case (x, y) as pair if x:
            print(x, y, pair)
        case None | True | False:
            print(4)
        case _:
            print(5)


class OptC:
    pass


class OptD(OptC, metaclass=type):
    a = 1
    b: int
    c: int = int(2)

    @property
    def p(self):
        return self.a

    @staticmethod
    def s():
        return bool(True)

    @classmethod
    def k(cls, x=list()):  # noqa: B006
        return cls, x


@contextlib.contextmanager
def opt_gen(n):
    yield
    yield n
    x = yield from opt_gen(n)
    return x


global_a = 1


def opt_scope():
    global global_a
    global_a = 2

    def inner():
        nonlocal_v = 1

        def innermost():
            nonlocal nonlocal_v
            nonlocal_v = 2

        return innermost

    return inner
