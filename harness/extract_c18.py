"""Translator for C18: the one structural fact of run_refurb the lifecycle model depends on.

`ast` is used because the fact has no runtime face: is `mypy_timing_stats.unlink()` in a `finally`
that covers everything from `build(...)` to `output_timing_stats(...)`, or is it a plain statement
after `output_timing_stats(...)` (refurb 2.0.0)?  Any other shape is an extraction error.
"""

from __future__ import annotations

import ast

from . import core, extract


def _calls(node: ast.AST) -> set[str]:
    out = set()
    for n in ast.walk(node):
        if isinstance(n, ast.Call):
            f = n.func
            out.add(f.id if isinstance(f, ast.Name) else f.attr if isinstance(f, ast.Attribute) else "?")
    return out


@extract.register("LifecycleShape")
def gen_lifecycle_shape() -> str:
    src = (core.REPO / "refurb" / "main.py").read_text()
    fn = next(n for n in ast.parse(src).body if isinstance(n, ast.FunctionDef) and n.name == "run_refurb")
    body = fn.body
    mk = next((i for i, st in enumerate(body) if "mkstemp" in _calls(st)), None)
    if mk is None:
        raise RuntimeError("run_refurb no longer calls mkstemp() in a top-level statement")
    if isinstance(body[mk], ast.Try):
        raise RuntimeError("mkstemp() is now inside a try statement: lifecycle model needs a new reading")
    rest = body[mk + 1 :]
    in_finally = None
    for i, st in enumerate(rest):
        if isinstance(st, ast.Try) and st.finalbody and "unlink" in _calls(ast.Module(body=st.finalbody, type_ignores=[])):
            covered = _calls(ast.Module(body=st.body, type_ignores=[]))
            before = set().union(*[_calls(x) for x in rest[:i]]) if i else set()
            if {"build", "load_checks", "output_timing_stats"} <= covered and not ({"build", "load_checks", "output_timing_stats"} & before):
                in_finally = True
            else:
                raise RuntimeError("a finally clause unlinks the timing file but does not cover build..output_timing_stats")
            break
    if in_finally is None:
        ots = next((i for i, st in enumerate(rest) if isinstance(st, ast.Expr) and "output_timing_stats" in _calls(st)), None)
        ul = next((i for i, st in enumerate(rest) if isinstance(st, ast.If) and "unlink" in _calls(st)), None)
        if ots is None or ul is None or ul < ots:
            raise RuntimeError("cannot find `mypy_timing_stats.unlink()` after `output_timing_stats(...)` nor in a finally clause")
        in_finally = False
    return (
        extract.HEADER
        + "namespace RefurbVerif.Generated\n\n"
        + "/-- is `mypy_timing_stats.unlink()` in a `finally` clause that covers `build(...)` … `output_timing_stats(...)`\n"
        + "    (true), or a plain statement after `output_timing_stats(...)` (false: refurb 2.0.0)? -/\n"
        + f"def unlinkInFinally : Bool := {extract.lbool(in_finally)}\n\n"
        + "end RefurbVerif.Generated\n"
    )
