import RefurbVerif.Model.Sort
/-! Lemmas about stable insertion sort: membership, sortedness, commutation with `filter`,
    permutation. Core Lean only. -/
namespace RefurbVerif

variable {α : Type} (le : α → α → Bool)

theorem mem_ins (a x : α) (l : List α) : x ∈ ins le a l ↔ x = a ∨ x ∈ l := by
  induction l with
  | nil => simp [ins]
  | cons b l ih =>
    by_cases h : le a b
    · simp [ins, h]
    · simp only [ins, h, Bool.false_eq_true, ↓reduceIte, List.mem_cons, ih]
      constructor <;> (intro h'; rcases h' with h' | h' | h' <;> simp [h'])

theorem mem_ssort (x : α) (l : List α) : x ∈ ssort le l ↔ x ∈ l := by
  induction l with
  | nil => simp [ssort]
  | cons a l ih =>
    show x ∈ ins le a (ssort le l) ↔ _
    rw [mem_ins, ih]; simp

theorem ins_perm (a : α) (l : List α) : (ins le a l).Perm (a :: l) := by
  induction l with
  | nil => exact List.Perm.refl _
  | cons b l ih =>
    by_cases h : le a b
    · simp [ins, h]
    · simp only [ins, h, Bool.false_eq_true, ↓reduceIte]
      exact (List.Perm.cons b ih).trans (List.Perm.swap a b l)

theorem ssort_perm (l : List α) : (ssort le l).Perm l := by
  induction l with
  | nil => exact List.Perm.refl _
  | cons a l ih => exact (ins_perm le a _).trans (List.Perm.cons a ih)

theorem length_ssort (l : List α) : (ssort le l).length = l.length := (ssort_perm le l).length_eq

section
variable (total : ∀ a b, le a b = true ∨ le b a = true)
variable (trans : ∀ a b c, le a b = true → le b c = true → le a c = true)

include total trans in
theorem sorted_ins (a : α) (l : List α) (h : Sorted le l) : Sorted le (ins le a l) := by
  induction l with
  | nil => simp [ins, Sorted]
  | cons b l ih =>
    by_cases hab : le a b
    · simp only [ins, hab, ↓reduceIte, Sorted]
      refine ⟨?_, h⟩
      intro x hx
      rcases List.mem_cons.mp hx with rfl | hx
      · exact hab
      · exact trans _ _ _ hab (h.1 x hx)
    · simp only [ins, hab, Bool.false_eq_true, ↓reduceIte, Sorted]
      refine ⟨?_, ih h.2⟩
      intro x hx
      rcases (mem_ins le a x l).mp hx with rfl | hx
      · rcases total x b with h1 | h1
        · simp [h1] at hab
        · exact h1
      · exact h.1 x hx

include total trans in
theorem sorted_ssort (l : List α) : Sorted le (ssort le l) := by
  induction l with
  | nil => trivial
  | cons b l ih => exact sorted_ins le total trans b _ ih

include trans in
theorem filter_ins (p : α → Bool) (a : α) (l : List α) (h : Sorted le l) :
    (ins le a l).filter p = if p a then ins le a (l.filter p) else l.filter p := by
  induction l with
  | nil => by_cases hp : p a <;> simp [ins, hp]
  | cons b l ih =>
    by_cases hab : le a b
    · have front : ∀ l', (∀ x ∈ l', le a x = true) → ins le a l' = a :: l' := by
        intro l' hl'
        cases l' with
        | nil => rfl
        | cons c l'' => simp [ins, hl' c (List.mem_cons_self)]
      have hall : ∀ x ∈ (b :: l).filter p, le a x = true := by
        intro x hx
        have hx' := (List.mem_filter.mp hx).1
        rcases List.mem_cons.mp hx' with rfl | hx'
        · exact hab
        · exact trans _ _ _ hab (h.1 x hx')
      by_cases hp : p a
      · simp only [ins, hab, ↓reduceIte, hp]
        rw [front _ hall]
        simp [List.filter, hp]
      · simp [ins, hab, hp, List.filter]
    · by_cases hb : p b
      · by_cases hp : p a <;> simp [ins, hab, hb, hp, ih h.2]
      · by_cases hp : p a <;> simp [ins, hab, hb, hp, ih h.2]

include total trans in
/-- **filtering commutes with stable sorting** (C08 noqa filter, C10 selection, C13 formats) -/
theorem filter_ssort (p : α → Bool) (l : List α) :
    (ssort le l).filter p = ssort le (l.filter p) := by
  induction l with
  | nil => rfl
  | cons a l ih =>
    have hs : Sorted le (ssort le l) := sorted_ssort le total trans l
    show (ins le a (ssort le l)).filter p = _
    rw [filter_ins le trans p a _ hs, ih]
    by_cases hp : p a <;> simp [ssort, hp]

end

end RefurbVerif
