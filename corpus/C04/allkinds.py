# A file that makes mypy build (almost) every node class refurb's visitor knows about.
from __future__ import annotations

import asyncio
import enum
import os.path as osp
from collections import namedtuple
from typing import (
    Any, Generic, NamedTuple, NewType, ParamSpec, TypedDict, TypeVar, TypeVarTuple, cast, overload,
)
from typing import *  # noqa: F403
from typing_extensions import assert_type, reveal_type

T = TypeVar("T")
P = ParamSpec("P")
Ts = TypeVarTuple("Ts")
UserId = NewType("UserId", int)
Point = namedtuple("Point", ["x", "y"])
Color = enum.Enum("Color", "RED GREEN")
Movie = TypedDict("Movie", {"name": str, "year": int})
Alias = list[int]


class NT(NamedTuple):
    a: int
    b: str = "b"


class Base(Generic[T]):
    attr: int = 0

    def __init__(self, v: T) -> None:
        self.v = v

    @property
    def prop(self) -> T:
        return self.v

    @overload
    def over(self, x: int) -> int: ...
    @overload
    def over(self, x: str) -> str: ...
    def over(self, x: Any) -> Any:
        return x


def deco(f: Any) -> Any:
    return f


class Child(Base[int], metaclass=type, flag=True):
    def method(self, a: int = 1 + 2, *args: int, k: str = "k" + "j", **kw: Any) -> int:
        super().__init__(a)
        global G
        x = y = a
        x += 1
        (p, q), *r = (1, 2), 3, 4
        del x
        assert a > 0, "positive" + str(a)
        if a:
            pass
        elif a + 1:
            return 1
        else:
            raise ValueError("x") from None
        while a:
            a -= 1
            if a == 3:
                break
            continue
        else:
            a = int(0)
        for i, j in enumerate([1, 2]):
            print(i, j)
        else:
            print("done")
        with open("f") as fh, open("g"):
            data = fh.read()
        try:
            a = 1 // a
        except (ZeroDivisionError, ValueError) as exc:
            print(exc)
        except Exception:
            raise
        else:
            a = 2
        finally:
            a = 3

        def inner() -> None:
            nonlocal a
            a = 4

        return a


G = 0
lam = lambda u, w=2: u + w  # noqa: E731
nums = [1, 2.0, 3j, "s", b"b", ..., None, True]
tup = (1, *nums)
st = {1, 2}
dct = {"a": 1, **{"b": 2}}
lc = [e * 2 for e in nums if e if not e]
sc = {e for e in nums}
dc = {k: v for k, v in dct.items() if v}
ge = (e for row in [[1]] for e in row)
sl = nums[1:2:3]
sl2 = nums[::]
idx = dct["a"]
cond = 1 if nums else 2
cmp_ = 1 < 2 <= 3 != 4
neg = -1
inv = not nums
boolop = nums and st or dct
walrus = (w := 5) + w
star_call = print(*nums, sep="", **{})
member = osp.join("a", "b")
casted = cast(int, nums[0])
casted2 = cast("list[int]", nums[:])
applied = Base[int](1)
fs = f"{neg!r:>{w}} and {walrus:.2f} {{x}}"
rv = reveal_type(neg)
at = assert_type(neg, int)
uid = UserId(5)
pt = Point(1, 2)
mv: Movie = {"name": "n", "year": 1}
chained = Child(1).method(2).bit_length()


async def coro(n: int) -> int:
    await asyncio.sleep(n)
    async with asyncio.Lock() as lk:
        pass
    async for item in agen():
        print(item)
    res = [x async for x in agen()]
    return await coro(n - 1)


async def agen():
    yield 1
    yield


def gen():
    got = yield 1
    yield from range(3)
    return got


@deco
@deco
def decorated(x: int, /, y: int, *, z: int) -> None:
    match x:
        case 1 | 2:
            pass
        case [a, b, *rest]:
            pass
        case {"k": v, **others}:
            pass
        case Child(v=0, attr=at2) as whole:
            pass
        case str() | None:
            pass
        case osp.sep:
            pass
        case (3, _) if y > 0:
            pass
        case _:
            pass


type_alias_call = Alias([1])
if False:
    unreachable = undefined_name + 1


@deco
@deco
class Decorated(Base[int], *[object], **{}):
    pass


def more(seq: list[int]) -> None:
    print(*seq, *seq)
    a, (b, c) = 1, (2, 3)
    seq[0], seq[1] = seq[1], seq[0]
    x: int
    y: int = 0
    with open("f"):
        pass
    try:
        pass
    except* ValueError as eg:
        print(eg)
    for (i, j), k in [((1, 2), 3)]:
        pass
    lambda *a, **k: (a, k)
    assert seq
    raise


# blocks mypy decides statically: they are still part of the file and must be traversed
import sys
from typing import TYPE_CHECKING

if sys.version_info >= (3, 8):
    reach_a = int(0)
else:
    unreach_a = int(0)
    print("", unreach_a)

if TYPE_CHECKING:
    from collections.abc import Iterable
else:
    unreach_b = [n for n in (1, 2) if n == 1 or n == 2]

if sys.platform == "no-such-os":
    unreach_c = not not sys.argv

    def unreach_f(p: int) -> int:
        return p if p else 0


def conditional_overloads() -> None:
    IMPL = "CPython"

    @overload
    def h(v: int) -> int: ...

    if IMPL.startswith("Py"):

        @overload
        def h(v: str) -> str: ...

    def h(v: Any) -> Any:
        return v
