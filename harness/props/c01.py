"""C01 — suggested rewrites preserve the behaviour of the code they replace.

Lean: Props/C01.lean — a Python value semantics (Model/PyVal.lean) and, per value-level rewrite rule,
a theorem that the old and the new expression evaluate alike for ALL operand values of the declared
types (or a refutation by witness + a partial theorem under the guard that makes it true).
Tables inside checks are regenerated (Generated/C01Tables.lean) so that editing them breaks a proof.
Correspondence: (i) the model's evaluator vs CPython's `eval` on the rules' expressions over value
sweeps; (ii) the model's rule table vs what refurb really suggests for the rule's idiom.
Oracle (implementation, every check with an executable idiom): each idiom is wrapped in a function,
linted by refurb, the suggested replacement is spliced in at the reported span (harness/rewrite.py),
both versions are executed over a value sweep for the declared operand types, and value (with type),
exception-or-not, final argument state and printed output must agree.
Checks whose advice is schematic or rewrites statements are handled by harness/props/c01_stmt.py (hand-written rewrites
tied to the message, file idioms in a scratch directory, the Lean statement rules), called at the end of run().
"""

from __future__ import annotations

import itertools
import json
import re
import ast
import math
from pathlib import Path
from typing import Any

from .. import core, extract, rewrite
from . import c01_stmt

GENERATED: list[str] = ["Catalogue", "C01Tables"]

PREAMBLE = """\
from __future__ import annotations
import math, operator, os, re, shlex, string, hashlib, itertools, functools, contextlib
from decimal import Decimal
from fractions import Fraction
from functools import reduce, cache, lru_cache
from itertools import chain, starmap
from pathlib import Path
from typing import Any, Optional

Varied = object


class Label:
    # a user class that merely LOOKS like a str (same method names): type-conditioned checks must not treat it as one

    def __init__(self, t: str = "ab") -> None:
        self.t = t

    def __repr__(self) -> str:
        return f"Label({self.t!r})"

    def upper(self) -> "Label":
        return Label(self.t.upper())

    def lower(self) -> "Label":
        return Label(self.t.lower())

    def strip(self, chars: Optional[str] = None) -> "Label":
        return Label(self.t.strip(chars))

    def lstrip(self, chars: Optional[str] = None) -> "Label":
        return Label(self.t.lstrip(chars))

    def rstrip(self, chars: Optional[str] = None) -> "Label":
        return Label(self.t.rstrip(chars))

    def isdigit(self) -> bool:
        return self.t.isdigit()

    def startswith(self, p: Any) -> bool:
        return self.t.startswith(p)

    def __len__(self) -> int:
        return 7  # never empty by len, but falsy by __bool__

    def __bool__(self) -> bool:
        return False

    def copy(self) -> "Label":
        return Label(self.t + "!")

    def __getitem__(self, i: Any) -> "Label":
        return Label(self.t[i])


class MyInt(int):
    def __repr__(self) -> str:
        return f"MyInt({int(self)})"


class MyStr(str):
    def __repr__(self) -> str:
        return f"MyStr({str.__repr__(self)})"


class MyList(list):  # type: ignore[type-arg]
    def __repr__(self) -> str:
        return f"MyList({list.__repr__(self)})"
"""

NAN = float("nan")
POOLS: dict[str, list[Any]] = {
    "int": [-3, -1, 0, 1, 2, 7, 255],
    "bool": [True, False],
    "str": ["", "a", "b", "ab", "abc", " a ", "pre_x", "x.txt", "0123", "ABC"],
    "float": [0.0, -0.0, 1.0, 1.5, -2.5, NAN, math.inf, 100.0, 1000.0, 0.001],
    "list[int]": [[], [1], [1, 2], [2, 1], [1, 1], [3, 1, 2], [0, -1]],
    "list[str]": [[], ["a"], ["ab", "cd"], ["b", "a"], ["bb", "a", "cc"]],
    "list[bool]": [[], [True], [False, True]],
    "tuple[int, ...]": [(), (1,), (1, 2), (2, 1)],
    "dict[str, int]": [{}, {"a": 1}, {"a": 1, "b": 2}, {"b": 0}],
    "set[int]": [set(), {1}, {1, 2}],
    "bytes": [b"", b"a", b"ab"],
    "bytearray": [bytearray(b""), bytearray(b"ab")],
    "object": [None, 0, 1, True, False, 1.0, "a", [], (1,), NAN],
    # the values the hand-written near misses mention (`Varied` is an alias of object in the preamble)
    "Varied": [(1, 2), [1, 2], {1, 2}, (0, 0), 1, 1.0, 2, "k", b"k", "A", "a", "a:1", "a:2", None],
    "Any": [None, 0, 1, True, False, 1.0, "a", [], (1,)],
    "list[list[int]]": [[], [[1]], [[1, 2], [3]], [[], [1]]],
    "Optional[int]": [None, 0, 1],
    "list[float]": [[], [1.0], [1.5, NAN], [0.0, -0.0]],
    # filled in lazily (the classes live in the generated module): see foreign_pools()
}
FOREIGN = {
    "Label": ['Label("ab")', 'Label("")', 'Label(" 12 ")'],
    "list[Label]": ['[Label("ab"), Label("3")]', "[]"],
    "MyInt": ["MyInt(3)", "MyInt(0)"],
    "MyStr": ['MyStr("ab")', 'MyStr("")'],
    "MyList": ["MyList([2, 1])", "MyList([])"],
}

# (code, params, body[, options]) — params: [(name, annotation)]; body: function body lines; the names x y z f w v k are
# avoided (they are placeholders in refurb's schematic messages).  options: alias=[(i, j)] passes the same object twice.
IDIOMS: list[tuple[int, list[tuple[str, str]], str, dict[str, Any]]] = [
    (102, [("s", "str")], 'return s.startswith("a") or s.startswith("b")', {}),
    (102, [("s", "str")], 'return not s.endswith("a") and not s.endswith("b")', {}),
    (105, [], 'print("")', {}),
    (108, [("p", "int"), ("q", "int"), ("r", "int")], "return p == q or p == r", {}),
    (108, [("p", "str"), ("q", "str"), ("r", "str")], "return p == q or p == r", {}),
    (108, [("p", "float"), ("q", "float"), ("r", "float")], "return p == q or p == r", {}),
    (108, [("p", "object"), ("q", "object"), ("r", "object")], "return p == q or p == r", {}),
    (109, [("p", "int"), ("q", "int"), ("r", "int")], "return p in [q, r]", {}),
    (109, [("p", "int"), ("q", "int")], "acc = []\nfor e in [p, q]:\n    acc.append(e)\nreturn acc", {}),
    (110, [("p", "int"), ("q", "int")], "return p if p else q", {}),
    (110, [("p", "str"), ("q", "str")], "return p if p else q", {}),
    (110, [("p", "list[int]"), ("q", "list[int]")], "return p if p else q", {}),
    (110, [("p", "float"), ("q", "int")], "return p if p else q", {}),
    (111, [("nums", "list[int]")], "return list(map(lambda e: bool(e), nums))", {}),
    (111, [], "g = lambda: []\nreturn g()", {}),
    (111, [], "g = lambda: {}\nreturn g()", {}),
    (112, [], "return list()", {}),
    (112, [], "return dict()", {}),
    (112, [], "return tuple()", {}),
    (112, [], "return str()", {}),
    (112, [], "return int()", {}),
    (112, [], "return float()", {}),
    (112, [], "return bool()", {}),
    (112, [], "return bytes()", {}),
    (114, [("p", "int")], "return not not p", {}),
    (114, [("p", "str")], "return not not p", {}),
    (114, [("p", "list[int]")], "return not not p", {}),
    (114, [("p", "float")], "return not not p", {}),
    (115, [("s", "str")], "if len(s) == 0:\n    return 1\nreturn 2", {}),
    (115, [("nums", "list[int]")], "if len(nums) >= 1:\n    return 1\nreturn 2", {}),
    (115, [("nums", "list[int]")], "if len(nums) > 0:\n    return 1\nreturn 2", {}),
    (115, [("nums", "list[int]")], "if len(nums) != 0:\n    return 1\nreturn 2", {}),
    (115, [("d", "dict[str, int]")], "if not len(d):\n    return 1\nreturn 2", {}),
    (115, [("t", "tuple[int, ...]")], "if len(t):\n    return 1\nreturn 2", {}),
    (115, [("nums", "list[int]")], "if nums == []:\n    return 1\nreturn 2", {}),
    (115, [("nums", "list[int]")], "return [1 for _ in range(2) if len(nums) == 0]", {}),
    (116, [("n", "int")], "return bin(n)[2:]", {}),
    (116, [("n", "int")], "return hex(n)[2:]", {}),
    (116, [("n", "int")], "return oct(n)[2:]", {}),
    (118, [("nums", "list[int]")], "return reduce(lambda a1, b1: a1 + b1, nums, 0)", {}),
    (118, [("nums", "list[int]")], "return reduce(lambda a1, b1: a1 * b1, nums, 1)", {}),
    (118, [("nums", "list[int]")], "return list(map(lambda a1: -a1, nums))", {}),
    (118, [("nums", "list[int]")], "return list(map(lambda a1: not a1, nums))", {}),
    (118, [("rows", "list[list[int]]")], "return sorted([r1 for r1 in rows if r1], key=lambda a1: a1[0])", {}),
    (118, [("p", "int"), ("q", "int")], "g = lambda a1, b1: a1 < b1\nreturn g(p, q)", {}),
    (118, [("p", "int"), ("q", "int")], "g = lambda a1, b1: a1 in b1\nreturn g(p, [q])", {}),
    (119, [("n", "int")], 'return f"{bin(n)}"', {}),
    (119, [("n", "int")], 'return f"{hex(n)}"', {}),
    (119, [("n", "int")], 'return f"{oct(n)}"', {}),
    (119, [("n", "int")], 'return f"{str(n)}"', {}),
    (119, [("s", "str")], 'return f"{repr(s)}"', {}),
    (119, [("s", "str")], 'return f"{ascii(s)}"', {}),
    (119, [("n", "int")], 'return f"{chr(n + 300)}"', {}),
    (121, [("p", "object")], "return isinstance(p, int) or isinstance(p, str)", {}),
    (121, [("p", "object")], "return isinstance(p, float) or isinstance(p, (int, str))", {}),
    (123, [("n", "int")], "return int(n)", {}),
    (123, [("s", "str")], "return str(s)", {}),
    (123, [("b0", "bool")], "return bool(b0)", {}),
    (123, [("fl", "float")], "return float(fl)", {}),
    (123, [("bs", "bytes")], "return bytes(bs)", {}),
    (123, [("nums", "list[int]")], "return list(nums)", {}),
    (123, [("d", "dict[str, int]")], "return dict(d)", {}),
    (123, [("t", "tuple[int, ...]")], "return tuple(t)", {}),
    (123, [("st", "set[int]")], "return set(st)", {}),
    (123, [("nums", "list[int]")], "other = list(nums)\nother.append(9)\nreturn nums, other", {}),
    (124, [("p", "int"), ("q", "int"), ("r", "int")], "return p == q and p == r", {}),
    (124, [("p", "float"), ("q", "float"), ("r", "float")], "return p == q and q == r", {}),
    (124, [("p", "Optional[int]"), ("q", "Optional[int]")], "return p is None and q is None", {}),
    (124, [("p", "object"), ("q", "object"), ("r", "object")], "return p == q and p == r", {}),
    (130, [("s", "str"), ("d", "dict[str, int]")], "return s in d.keys()", {}),
    (130, [("s", "str"), ("d", "dict[str, int]")], "return s not in d.keys()", {}),
    (131, [("nums", "list[int]")], "del nums[:]\nreturn nums", {}),
    (131, [("nums", "list[int]"), ("other", "list[int]")], "del nums[:]\nreturn nums, other", {"alias": [(0, 1)]}),
    (131, [("nums", "list[int]")], "nums[:] = []\nreturn nums", {}),
    (132, [("n", "int"), ("st", "set[int]")], "if n in st:\n    st.remove(n)\nreturn st", {}),
    (136, [("p", "int"), ("q", "int")], "return p if p > q else q", {}),
    (136, [("p", "int"), ("q", "int")], "return p if p < q else q", {}),
    (136, [("p", "int"), ("q", "int")], "return p if p >= q else q", {}),
    (136, [("p", "int"), ("q", "int")], "return q if p <= q else p", {}),
    (136, [("p", "float"), ("q", "float")], "return p if p > q else q", {}),
    (136, [("p", "float"), ("q", "int")], "return p if p < q else q", {}),
    (136, [("p", "bool"), ("q", "int")], "return p if p >= q else q", {}),
    (136, [("p", "str"), ("q", "str")], "return p if p <= q else q", {}),
    (140, [("nums", "list[int]")], "def g(a1: int, b1: int) -> int:\n    return a1 - b1\nreturn [g(a1, b1) for a1, b1 in zip(nums, nums[1:])]", {}),
    (142, [("nums", "list[int]"), ("st", "set[int]")], "for e in nums:\n    st.add(e)\nreturn st", {}),
    (142, [("nums", "list[int]"), ("st", "set[int]")], "for e in nums:\n    st.discard(e)\nreturn st", {}),
    (143, [("s", "str")], 'return s or ""', {}),
    (143, [("nums", "list[int]")], "return nums or []", {}),
    (143, [("n", "int")], "return n or 0", {}),
    (143, [("fl", "float")], "return fl or 0.0", {}),
    (143, [("b0", "bool")], "return b0 or False", {}),
    (143, [("t", "tuple[int, ...]")], "return t or ()", {}),
    (145, [("nums", "list[int]")], "return nums[:]", {}),
    (145, [("t", "tuple[int, ...]")], "return t[:]", {}),
    (145, [("ba", "bytearray")], "return ba[:]", {}),
    (149, [("b0", "bool")], "return b0 == True", {}),
    (149, [("b0", "bool")], "return b0 is True", {}),
    (149, [("b0", "bool")], "return b0 != False", {}),
    (149, [("b0", "bool")], "return b0 is not True", {}),
    (149, [("b0", "bool")], "return b0 == False", {}),
    (149, [("b0", "bool")], "return True == b0", {}),
    (156, [("s", "str")], 'return s in "0123456789"', {}),
    (156, [("s", "str")], 'return s in "abcdefghijklmnopqrstuvwxyz"', {}),
    (157, [], 'return Decimal("0")', {}),
    (157, [], 'return Decimal("-12")', {}),
    (157, [], 'return Decimal(float("inf"))', {}),
    (157, [], 'return repr(Decimal(float("nan")))', {}),
    (159, [("s", "str")], "return s.lstrip().rstrip()", {}),
    (159, [("s", "str")], 'return s.strip().lstrip("a")', {}),
    (159, [("s", "str")], 'return s.lstrip("a").lstrip("b")', {}),
    (160, [("p", "int")], "q0 = p\nq0 = q0\nreturn q0", {}),
    (161, [("n", "int")], 'return bin(n).count("1")', {}),
    (163, [("fl", "float")], "return math.log(fl, 10)", {}),
    (163, [("fl", "float")], "return math.log(fl, 2)", {}),
    (163, [("fl", "float")], "return math.log(fl, math.e)", {}),
    (164, [("fl", "float")], "return Fraction.from_float(fl)", {}),
    (164, [("fl", "float")], "return Decimal.from_float(fl)", {}),
    (168, [("p", "object")], "return isinstance(p, type(None))", {}),
    (168, [("p", "object")], "return isinstance(p, (type(None), int))", {}),
    (169, [("p", "object")], "return type(p) is type(None)", {}),
    (169, [("p", "object")], "return type(p) != type(None)", {}),
    (171, [("p", "int"), ("q", "int")], "return p in (q,)", {}),
    (171, [("p", "float"), ("q", "float")], "return p in (q,)", {}),
    (171, [("p", "object"), ("q", "object")], "return p not in [q]", {}),
    (171, [("s", "str")], 'return s in "a"', {}),
    (173, [("d", "dict[str, int]")], 'return {"k": 1, **d}', {}),
    (173, [("d", "dict[str, int]"), ("d2", "dict[str, int]")], "return {**d, **d2}", {}),
    (173, [("d", "dict[str, int]")], "return dict(**d, k=1)", {}),
    (173, [("d", "dict[str, int]"), ("d2", "dict[str, int]")], "return dict(d, **d2)", {}),
    (179, [("rows", "list[list[int]]")], "return [c0 for r0 in rows for c0 in r0]", {}),
    (179, [("rows", "list[list[int]]")], "return list(chain(*rows))", {}),
    (179, [("rows", "list[list[int]]")], "return sum(rows, [])", {}),
    (179, [("rows", "list[list[int]]")], "return reduce(operator.add, rows, [])", {}),
    (181, [("bs", "bytes")], "return hashlib.sha256(bs).digest().hex()", {}),
    (183, [("n", "int")], 'return f"{n}"', {}),
    (183, [("s", "str")], 'return f"{s}"', {}),
    (183, [("fl", "float")], 'return f"{fl}"', {}),
    (185, [("d", "dict[str, int]")], 'return d.copy() | {"b": 2}', {}),
    (185, [("nums", "set[int]")], "return nums.copy() | {9}", {}),
    (186, [("nums", "list[int]")], "nums = sorted(nums)\nreturn nums", {}),
    (186, [("nums", "list[int]"), ("other", "list[int]")], "nums = sorted(nums)\nreturn nums, other", {"alias": [(0, 1)]}),
    (186, [("nums", "list[int]")], "nums = sorted(nums, reverse=True)\nreturn nums", {}),
    (187, [("nums", "list[int]")], "nums = list(reversed(nums))\nreturn nums", {}),
    (187, [("nums", "list[int]")], "nums = nums[::-1]\nreturn nums", {}),
    (187, [("nums", "list[int]"), ("other", "list[int]")], "nums = nums[::-1]\nreturn nums, other", {"alias": [(0, 1)]}),
    (187, [("nums", "list[int]")], "nums = reversed(nums)\nreturn list(nums)", {}),
    (188, [("s", "str")], 'return s[4:] if s.startswith("pre_") else s', {}),
    (188, [("s", "str")], 'return s[:-4] if s.endswith(".txt") else s', {}),
    (188, [("s", "str")], 'if s.startswith("pre_"):\n    s = s[4:]\nreturn s', {}),
    (188, [("s", "str")], 'if s.endswith(".txt"):\n    s = s[:-4]\nreturn s', {}),
    # the affix is a variable: it may be empty (`s[:-0]` is "", `s[len(""):]` is s)
    (188, [("s", "str"), ("t", "str")], "return s[len(t):] if s.startswith(t) else s", {}),
    (188, [("s", "str"), ("t", "str")], "return s[:-len(t)] if s.endswith(t) else s", {}),
    (188, [("s", "str"), ("t", "str")], "if s.endswith(t):\n    s = s[:-len(t)]\nreturn s", {}),
    (190, [("s", "str")], "return list(filter(lambda c0: c0.isdigit(), s))", {}),
    (190, [("words", "list[str]")], "return list(map(lambda c0: c0.upper(), words))", {}),
    (191, [("p", "object")], "return p in {True, False}", {}),
    (191, [("p", "object")], "return p in (True, False)", {}),
    (191, [("p", "object")], "return p is True or p is False", {}),
    (192, [("nums", "list[int]")], "return sorted(nums)[0]", {}),
    (192, [("nums", "list[int]")], "return sorted(nums)[-1]", {}),
    (192, [("nums", "list[int]")], "return sorted(nums, reverse=True)[0]", {}),
    (192, [("nums", "list[int]")], "return sorted(nums, reverse=True)[-1]", {}),
    (192, [("words", "list[str]")], "return sorted(words, key=len)[0]", {}),
    (192, [("words", "list[str]")], "return sorted(words, key=len)[-1]", {}),
    (192, [("nums", "list[float]")], "return sorted(nums)[0]", {}),
    (192, [("nums", "list[bool]")], "return sorted(nums + [0, 1])[-1]", {}),
    # operands of classes that only resemble the expected builtin: whatever refurb proposes here is executed too
    (190, [("labels", "list[Label]")], "return list(map(lambda c0: c0.upper(), labels))", {}),
    (190, [("labels", "list[Label]")], "return sorted(labels, key=lambda c0: c0.lower().t)", {}),
    (190, [("labels", "list[Label]")], "return list(filter(lambda c0: c0.isdigit(), labels))", {}),
    (123, [("n", "MyInt")], "return int(n)", {}),
    (123, [("s", "MyStr")], "return str(s)", {}),
    (123, [("nums", "MyList")], "return list(nums)", {}),
    (145, [("nums", "MyList")], "return nums[:]", {}),
    (145, [("lab", "Label")], "return lab[:]", {}),
    (143, [("lab", "Label")], 'return lab or ""', {}),
    (143, [("s", "MyStr")], 'return s or ""', {}),
    (115, [("lab", "Label")], "if len(lab) == 0:\n    return 1\nreturn 2", {}),
    (115, [("lab", "Label")], "if len(lab):\n    return 1\nreturn 2", {}),
    (159, [("lab", "Label")], "return lab.lstrip().rstrip()", {}),
    (102, [("lab", "Label")], 'return lab.startswith("a") or lab.startswith("b")', {}),
    (149, [("n", "MyInt")], "return n == True", {}),
    (186, [("nums", "MyList")], "nums = sorted(nums)\nreturn nums", {}),
    (183, [("lab", "Label")], 'return f"{lab}"', {}),
    (136, [("n", "MyInt"), ("m", "MyInt")], "return n if n > m else m", {}),
    (110, [("lab", "Label"), ("s", "str")], "return lab if lab else s", {}),
    (114, [("lab", "Label")], "return not not lab", {}),
]

# Diagnostics whose own documentation says they change behaviour / are heuristics: (code, docstring sentence that must still be there,
# predicate on the argument tuple that selects the EXCLUDED inputs, or None = the whole check)
CAVEATS: dict[int, tuple[str, Any]] = {
    116: ("let you work with negative", lambda args, body: any(isinstance(a, int) and not isinstance(a, bool) and a < 0 for a in args)),
    179: ("returns an iterator, which means you might", None),
    106: ("this only works if the tabs are at the start of the string", c01_stmt.tab_after_text),
    147: ("it is not a drop-in replacement", None),
    151: ("meaning it is not a drop-in replacement", None),
    166: ("there is no way for Refurb to detect whether the prefixes that are being stripped are valid Python int prefixes", None),
    176: ("it is preferred to use aware datetimes to represent times in UTC", None),
    189: ("checks for `dict`, `list`, and `str` types will fail when using the corresponding User class", None),
}


def witness_class(args: tuple[Any, ...], aliased: bool, ra: Any, rb: Any) -> str:
    """what kind of input separates the two versions (used to identify known findings narrowly)"""
    flat: list[Any] = []

    def walk(v: Any) -> None:
        if isinstance(v, (list, tuple, set, frozenset)):
            for x in v:
                walk(x)
        elif isinstance(v, dict):
            for k, x in v.items():
                walk(k)
                walk(x)
        else:
            flat.append(v)

    for a in args:
        walk(a)
    if ra[0][0] != rb[0][0]:
        if any(isinstance(a, tuple) for a in args):
            return "raises:tuple-operand"
        return "raises"
    if ra[0] == rb[0] and ra[1] != rb[1]:
        return "caller-visible-mutation"
    if aliased:
        return "aliased-argument"
    if any(isinstance(x, float) and math.isnan(x) for x in flat):
        return "nan"
    if any(isinstance(x, float) and x == 0 and math.copysign(1, x) < 0 for x in flat):
        return "negative-zero"
    nums = [x for x in flat if isinstance(x, (bool, int, float))]
    if any(a == b and type(a) is not type(b) for a in nums for b in nums):
        return "equal-values-of-different-types"
    if any(isinstance(x, float) for x in flat):
        return "float-rounding"
    if str(ra[0]).startswith("['ok', ['iterator") or str(rb[0]).startswith("['ok', ['iterator"):
        return "iterator-result"
    # two different results that an ordering cannot tell apart (equal, or equal under the usual keys len / abs) are a TIE;
    # anything else is a plain wrong value
    def scalar(enc: Any) -> Any:
        try:
            kind, val = enc[1][0], enc[1][1]
            if kind in ("int", "float", "bool", "str", "bytes") and isinstance(val, str) and val != "nan":
                return ast.literal_eval(val)
        except Exception:  # noqa: BLE001
            pass
        return None

    va, vb = scalar(ra[0]), scalar(rb[0])
    if va is not None and vb is not None:
        if isinstance(va, (str, bytes)) and isinstance(vb, (str, bytes)):
            return "ties" if len(va) == len(vb) else "other"
        if not isinstance(va, (str, bytes)) and not isinstance(vb, (str, bytes)):
            return "ties" if va == vb or abs(va) == abs(vb) else "other"
    return "ties-or-other"


def product_sample(rng, pools: list[list[Any]], cap: int) -> list[tuple[Any, ...]]:
    total = 1
    for p in pools:
        total *= len(p)
    if total <= cap:
        return list(itertools.product(*pools))
    seen = set()
    out = []
    while len(out) < cap:
        t = tuple(rng.randrange(len(p)) for p in pools)
        if t not in seen:
            seen.add(t)
            out.append(tuple(p[i] for p, i in zip(pools, t)))
    return out


# a method / builtin and the one most easily mistaken for it (the other end, the other direction, the other extremum)
SIBLING_NAMES = {
    "startswith": "endswith", "endswith": "startswith", "lstrip": "rstrip", "rstrip": "lstrip", "removeprefix": "removesuffix",
    "removesuffix": "removeprefix", "keys": "values", "values": "keys", "items": "keys", "lower": "upper", "upper": "lower",
    "min": "max", "max": "min", "any": "all", "all": "any", "sorted": "reversed", "reversed": "sorted", "find": "rfind", "index": "rindex",
    "add": "discard", "update": "intersection_update", "union": "intersection", "append": "extend", "read_text": "read_bytes", "write_text": "write_bytes",
    "floor": "ceil", "ceil": "floor", "log2": "log10", "log10": "log2", "isdigit": "isdecimal", "isdecimal": "isdigit",
}


def near_misses(params: list[tuple[str, str]], body: str, rng, k: int) -> list[str]:
    """single-edit neighbours of an idiom (another comparison operator, and<->or, swapped operands, a dropped `not`, another
    constant, another parameter of the same type, a dropped/doubled argument).  Today most of them are NOT diagnosed; a check
    that starts to fire on one of them is judged like any other diagnostic: its rewrite must preserve behaviour."""
    import ast
    import copy

    try:
        tree = ast.parse(body)
    except SyntaxError:
        return []
    sites: list[tuple[int, str]] = []
    nodes = list(ast.walk(tree))
    same_type: dict[str, list[str]] = {}
    for n, a in params:
        same_type.setdefault(a, []).append(n)
    cmps = [ast.Eq, ast.NotEq, ast.Is, ast.IsNot, ast.Lt, ast.LtE, ast.Gt, ast.GtE, ast.In, ast.NotIn]
    for idx, n in enumerate(nodes):
        if isinstance(n, ast.Compare):
            sites += [(idx, f"cmp{j}:{c.__name__}") for j in range(len(n.ops)) for c in cmps if not isinstance(n.ops[j], c)]
            sites.append((idx, "swap"))
        elif isinstance(n, ast.BoolOp):
            sites += [(idx, "boolop"), (idx, "swap")]
        elif isinstance(n, ast.BinOp):
            sites.append((idx, "swap"))
        elif isinstance(n, ast.UnaryOp) and isinstance(n.op, ast.Not):
            sites.append((idx, "dropnot"))
        elif isinstance(n, ast.Constant) and not isinstance(n.value, (bytes, type(...))):
            sites.append((idx, "const"))
        elif isinstance(n, ast.Name) and isinstance(n.ctx, ast.Load):
            for a, ns in same_type.items():
                if n.id in ns and len(ns) > 1:
                    sites.append((idx, "name"))
        elif isinstance(n, ast.Call) and (n.args or n.keywords):
            sites += [(idx, "droparg"), (idx, "duparg")]
        elif isinstance(n, ast.IfExp):
            sites.append((idx, "swap"))
        if isinstance(n, ast.Subscript) and isinstance(n.slice, ast.Slice) and n.slice.step is None and (n.slice.lower is None) != (n.slice.upper is None):
            sites.append((idx, "sliceflip"))
        if isinstance(n, ast.Attribute) and n.attr in SIBLING_NAMES:
            sites.append((idx, "attrswap"))
        if isinstance(n, ast.Name) and isinstance(n.ctx, ast.Load) and n.id in SIBLING_NAMES and n.id not in {a for a, _ in params}:
            sites.append((idx, "nameswap"))
    rng.shuffle(sites)
    out: list[str] = []
    for idx, kind in sites:
        if len(out) >= k:
            break
        t = copy.deepcopy(tree)
        n = list(ast.walk(t))[idx]
        if kind.startswith("cmp"):
            j, cname = kind[3:].split(":")
            n.ops[int(j)] = getattr(ast, cname)()
        elif kind == "swap":
            if isinstance(n, ast.Compare):
                if len(n.comparators) != 1:
                    continue
                n.left, n.comparators[0] = n.comparators[0], n.left
            elif isinstance(n, ast.BoolOp):
                n.values = n.values[::-1]
            elif isinstance(n, ast.BinOp):
                n.left, n.right = n.right, n.left
            else:
                n.body, n.orelse = n.orelse, n.body
        elif kind == "boolop":
            n.op = ast.Or() if isinstance(n.op, ast.And) else ast.And()
        elif kind == "dropnot":
            n.op = ast.UAdd() if False else n.op
            parent = next(pn for pn in ast.walk(t) if any(c is n for c in ast.iter_child_nodes(pn)))
            for f, v in ast.iter_fields(parent):
                if v is n:
                    setattr(parent, f, n.operand)
                elif isinstance(v, list) and n in v:
                    v[v.index(n)] = n.operand
        elif kind == "const":
            v = n.value
            n.value = (not v) if isinstance(v, bool) else (0 if v is None else ((1 if v == 0 else (v + 1 if rng.random() < 0.5 else 0)) if isinstance(v, (int, float)) else (("" if v else "a") if isinstance(v, str) else v)))
        elif kind == "name":
            others = [x for a, ns in same_type.items() if n.id in ns for x in ns if x != n.id]
            n.id = rng.choice(others)
        elif kind == "sliceflip":
            sl = n.slice
            neg = lambda e: e.operand if isinstance(e, ast.UnaryOp) and isinstance(e.op, ast.USub) else ast.UnaryOp(op=ast.USub(), operand=e)  # noqa: E731
            if sl.lower is not None:
                sl.lower, sl.upper = None, neg(sl.lower)  # x[a:] -> x[:-a]
            else:
                sl.lower, sl.upper = neg(sl.upper), None  # x[:a] -> x[-a:]
        elif kind == "attrswap":
            n.attr = SIBLING_NAMES[n.attr]
        elif kind == "nameswap":
            n.id = SIBLING_NAMES[n.id]
        elif kind == "droparg":
            (n.keywords if n.keywords and (not n.args or rng.random() < 0.5) else n.args).pop()
        elif kind == "duparg":
            if n.args and not isinstance(n.args[-1], ast.Starred):
                n.args.append(copy.deepcopy(n.args[-1]))
            else:
                continue
        try:
            text = ast.unparse(ast.fix_missing_locations(t))
            compile("def _f():\n" + "\n".join("    " + l for l in text.split("\n")), "<nm>", "exec")
        except Exception:  # noqa: BLE001
            continue
        if text != ast.unparse(tree) and text not in out:
            out.append(text)
    return out


# hand-written near misses of the "same operand" idioms: the two would-be-common operands differ in a way a lax comparison may
# swallow (bracket kind of a display, literal kind, letter case, a `:digits` run, an argument).  None is diagnosed today; a check
# that starts to fire is judged like any other diagnostic (its rewrite is applied and executed).
HAND_NEAR_MISSES: list[tuple[int, list[tuple[str, str]], str, dict[str, Any]]] = [
    (108, [("p", "Varied"), ("q", "Varied")], "return p == (1, 2) or q == [1, 2]", {}),
    (108, [("p", "Varied"), ("q", "Varied")], "return p == [1, 2] or q == {1, 2}", {}),
    (124, [("p", "Varied"), ("q", "Varied")], "return p == [1, 2] and q == (1, 2)", {}),
    (110, [("q", "Varied")], "return (1, 2) if [1, 2] else q", {}),
    (108, [("p", "Varied"), ("q", "Varied")], "return p == 1 or q == 1.0", {}),
    (108, [("p", "Varied"), ("q", "Varied")], 'return p == "k" or q == b"k"', {}),
    (124, [("p", "Varied"), ("q", "Varied")], 'return p == "A" and q == "a"', {}),
    (108, [("p", "Varied"), ("q", "Varied")], 'return p == "a:1" or q == "a:2"', {}),
    (108, [("s", "str"), ("t", "str")], "return len(s) == 1 or len(t) == 2", {}),
    (124, [("p", "int"), ("q", "int")], "return -p == 1 and +p == q", {}),
    (110, [("p", "int"), ("q", "int")], "return p + 1 if p + 2 else q", {}),
    (136, [("p", "int"), ("q", "int")], "return p if p + 0 > q else q", {}),
]


def build_module(rng=None, per_idiom: int = 0) -> tuple[str, list[dict[str, Any]]]:
    lines = PREAMBLE.split("\n")
    cases = []
    idioms = [(c, p, b, o, False) for c, p, b, o in IDIOMS]
    if rng is not None:
        idioms += [(c, p, b, o, True) for c, p, b, o in HAND_NEAR_MISSES]
    if rng is not None and per_idiom:
        seen = {b for _, _, b, _ in IDIOMS}
        for c, p, b, o in IDIOMS:
            for nb in near_misses(p, b, rng, per_idiom):
                if nb not in seen:
                    seen.add(nb)
                    idioms.append((c, p, nb, o, True))
    for i, (code, params, body, opts, nm) in enumerate(idioms):
        sig = ", ".join(f"{n}: {a}" for n, a in params)
        start = len(lines) + 1
        lines.append(f"def case_{i}({sig}):")
        for bl in body.split("\n"):
            lines.append("    " + bl)
        lines.append("")
        cases.append({"i": i, "code": code, "params": params, "body": body, "opts": opts, "first": start, "last": len(lines) - 1, "nm": nm})
    return "\n".join(lines) + "\n", cases


def run(ctx) -> None:
    res = ctx.res
    rng = ctx.rng("c01")
    cap = 120 if ctx.quick else 1500
    res.rule = (
        f"cases are (idiom function, diagnostic, argument tuple): {len(IDIOMS)} idiom functions for {len({c for c, *_ in IDIOMS})} checks, each linted "
        f"once by refurb (--enable-all), each suggested rewrite spliced in and both versions executed on up to {cap} argument tuples drawn from typed "
        "value pools (boundary ints, empty/singleton/duplicate containers, ties, NaN/-0.0/inf floats, mixed-type objects, aliased arguments); "
        "non-trivial = the rewrite could be applied and executed; distinct = distinct (idiom, diagnostic, arguments)"
    )
    rows = {r["code"]: r for r in extract.catalogue_rows()}
    for code, (sentence, _) in CAVEATS.items():
        if sentence and code in rows and sentence not in " ".join(rows[code]["doc"].split()):
            res.disagreements.append({"where": "caveat-table", "reason": f"FURB{code}'s docstring no longer contains the caveat {sentence!r}: it re-enters the claim"})
    import warnings

    warnings.simplefilter("ignore", SyntaxWarning)  # near-miss idioms such as `x is 0`
    src, cases = build_module(ctx.rng("c01-near-miss"), 10 if ctx.quick else 40)
    res.bump("near_miss_functions", sum(1 for c in cases if c["nm"]))
    ns: dict[str, Any] = {"__name__": "case_module"}
    exec(compile(src, "<cases>", "exec"), ns)  # noqa: S102  (only to build the pools of user-class values)
    foreign = {k: [eval(e, ns) for e in v] for k, v in FOREIGN.items()}  # noqa: S307
    with core.scratch("rv-c01-") as d:
        (d / "cases.py").write_text(src)
        (d / "pyproject.toml").write_text("")
        diags = rewrite.lint_with_spans(d, ["cases.py", "--enable-all", "--quiet"])
        # a near-miss that mypy itself rejects (`dict(d, d)`: too many arguments) is not "code with the static types it
        # declares": such functions are left out (the hand-written idioms are all kept)
        import subprocess

        mp = subprocess.run([core.PY, "-m", "mypy", "cases.py", "--no-error-summary", "--hide-error-context", "--no-color-output", "--cache-dir", str(d / ".mc")],
                            cwd=d, capture_output=True, text=True, env=core.py_env())
        ill_lines = {int(m.group(1)) for m in re.finditer(r"^cases\.py:(\d+): error:", mp.stdout, re.M)}
    texts = [x["text"] for x in diags if "text" in x]
    if texts:
        res.violate("refurb could not lint the idiom module", {"kind": "lint-error"}, {"errors": texts[:5]})
        return
    covered_codes: set[int] = set()
    unapplied: dict[str, int] = {}
    src_lines = src.split("\n")
    for case in cases:
        mine = [x for x in diags if case["first"] <= x["line"] <= case["last"]]
        own = [x for x in mine if x["code"] == case["code"]]
        if case["nm"] and any(case["first"] <= l <= case["last"] for l in ill_lines):
            res.bump("near_miss_ill_typed_skipped")
            continue
        if case["nm"]:
            res.bump("near_miss_diagnosed" if mine else "near_miss_silent")
        if not own and not case["nm"]:
            res.notes.append(f"idiom {case['i']} (FURB{case['code']}: {case['body'].splitlines()[0]}) is not diagnosed by its check")
            res.bump("idiom_not_diagnosed")
        pools = [POOLS[a] if a in POOLS else foreign[a] for _, a in case["params"]]
        args_list = product_sample(rng, pools, cap) if pools else [()]
        for dg in mine:
            code = dg["code"]
            new_src, info = rewrite.apply_rewrite(src, dg)
            label = f"FURB{code}"
            if new_src is None:
                unapplied[f"{label}: {info}"] = unapplied.get(f"{label}: {info}", 0) + 1
                res.bump("unapplied")
                continue
            how = "harness/props/c01.py builds the idiom module (PREAMBLE + def case_N); lint it with --enable-all, splice the suggestion at the reported span (harness/rewrite.py), exec both"
            func_src = "\n".join(src_lines[case["first"] - 1 : case["last"]])
            new_func = "\n".join(new_src.split("\n")[case["first"] - 1 : case["last"] + (new_src.count("\n") - src.count("\n"))])
            try:
                compile(new_src, "<rewritten>", "exec")
            except SyntaxError as e:
                res.violate(
                    f"applying {label}'s suggestion gives invalid Python: {dg['msg']}",
                    {"kind": "invalid-python", "code": code, "idiom": case["body"].splitlines()[0]},
                    {"function": func_src, "rewritten": new_func, "message": dg["msg"], "error": str(e), "how": how},
                )
                continue
            covered_codes.add(code)
            fn = f"case_{case['i']}"
            a = rewrite.run_case(src, fn, args_list, case["opts"].get("alias"))
            b = rewrite.run_case(new_src, fn, args_list, case["opts"].get("alias"))
            caveat = CAVEATS.get(code)
            first_diff = None
            ndiff = 0
            for args, ra, rb in zip(args_list, a, b):
                res.case((case["i"], dg["line"], dg["col"], repr(args)))
                if caveat and (caveat[1] is None or caveat[1](args, case["body"])):
                    res.bump("excluded_by_documented_caveat")
                    continue
                if ra != rb:
                    ndiff += 1
                    if first_diff is None:
                        first_diff = (args, ra, rb)
            res.bump("executed_pairs", len(args_list))
            if first_diff:
                args, ra, rb = first_diff
                what = "exception" if ra[0][0] != rb[0][0] else ("value" if ra[0] != rb[0] else ("argument state" if ra[1] != rb[1] else "output"))
                res.violate(
                    f"{label} changes behaviour ({what}) on {ndiff}/{len(args_list)} inputs: `{case['body'].splitlines()[0]}` -> {dg['msg'][:90]}",
                    {"kind": "behaviour", "code": code, "idiom": case["body"], "differs": what, "witness": witness_class(args, bool(case["opts"].get("alias")), ra, rb)},
                    {"function": func_src, "rewritten": new_func, "message": dg["msg"], "arguments": [rewrite.canon(x) for x in args], "original": ra, "rewritten_result": rb, "how": how},
                )
    c01_stmt.run(ctx, covered_codes)  # statement-level / schematic advice: hand-written rewrites tied to the message
    rule_correspondence(ctx)
    matcher_correspondence(ctx)
    for k, n in sorted(unapplied.items()):
        res.notes.append(f"not applied x{n}: {k}")
    res.bump("checks_with_executed_rewrite", len(covered_codes))
    res.sample({"function": "def case_3(p: int, q: int, r: int):\n    return p == q or p == r", "pools": "int x int x int", "compared": "value+type, raised-or-not, argument state, stdout"})
    all_codes = sorted(rows)
    res.not_proved += [f"FURB{c}: " + c01_stmt.NOT_EXECUTED.get(c, "no executable idiom in the sweep") for c in all_codes if c not in covered_codes]
    res.assumptions += [
        "operands are function parameters bound to plain values: side-effect free and never raising, as the property presupposes",
        "exceptions are compared as raised-or-not (the property's wording), values with their type",
        "documented caveats (116 negative numbers, 179 iterator result, 106 tabs after text, 147/151/166/189 'not a drop-in replacement' notes, 176 naive -> aware datetimes on purpose) are excluded as the property says; the table checks the sentence is still in the docstring",
    ]


# ------------------------------------------------------------------------------------------
# the Lean rule table: semantic correspondence (model eval vs CPython) and check correspondence (refurb proposes `new`)

ANN = {None: "int", "int": "int", "bool": "bool", "float": "float", "str": "str", "list": "list[int]", "tuple": "tuple[int, ...]", "type(None)": "None"}


def model_pools(rng: Any = None, extra: int = 0) -> dict[Any, list[Any]]:
    """value pools per declared operand class of the Lean rules; with `rng`, `extra` random ints (up to 70 bits, both signs), strings over
    a small alphabet (so that prefixes / suffixes / repeated occurrences are frequent) and int lists are added to the fixed boundary values"""
    pools = _fixed_model_pools()
    if rng is not None:
        for _ in range(extra):
            pools["int"].append(rng.choice([-1, 1]) * rng.getrandbits(rng.choice([4, 9, 17, 33, 70])))
            pools["str"].append("".join(rng.choice("ab1") for _ in range(rng.randrange(0, 7))))
            pools["list"].append([rng.randrange(-3, 4) for _ in range(rng.randrange(0, 6))])
    return pools


def _fixed_model_pools() -> dict[Any, list[Any]]:
    scal = [None, True, False, -1, 0, 1, 2, "", "a", "b", "ab", 0.0, -0.0, 1.0, 2.0, "NAN"]
    return {
        None: scal,
        # negative / zero / powers of two and their neighbours / multi-digit in every radix (bin, oct, hex, bit_count)
        "int": [-2, -1, 0, 1, 2, 5, 7, 8, 10, 255, 256, -255, 1023, -4096, 3735928559],
        "bool": [True, False],
        "float": [0.0, -0.0, 1.0, -2.0, "NAN", 1e15, -123456.0],
        # prefixes / suffixes / repetitions of each other, the empty string, text containing the digit 1
        "str": ["", "a", "b", "ab", "ba", "aba", "abab", "aab", "1", "0b11"],
        # int lists, and lists with ties between equal but distinguishable items (1 / True / 1.0, 0 / False)
        "list": [[], [1], [1, 2], [2, 1], [2, 2, 1], [0], [-1, 3, 3], [1, True], [True, 1], [0, False, -1], [1.0, 1, 2], [2, True, 1, 2.0]],
        "tuple": [(), (1,), (2, 1), (0,), (1, True)],
    }


def to_val_json(v: Any) -> Any:
    if v is None:
        return {"t": "none"}
    if isinstance(v, bool):
        return {"t": "bool", "v": v}
    if isinstance(v, int):
        return {"t": "int", "v": v}
    if isinstance(v, float):
        if math.isnan(v):
            return {"t": "float", "k": "nan"}
        if v == 0 and math.copysign(1, v) < 0:
            return {"t": "float", "k": "negzero"}
        if v == int(v):
            return {"t": "float", "k": "whole", "z": int(v)}
        return None
    if isinstance(v, str):
        return {"t": "str", "v": v}
    if isinstance(v, (list, tuple)):
        items = [to_val_json(x) for x in v]
        if any(i is None or i["t"] in ("list", "tuple") for i in items):
            return None
        return {"t": "list" if isinstance(v, list) else "tuple", "items": items}
    return None


def rule_correspondence(ctx) -> None:
    res = ctx.res
    if not ctx.driver.available():
        res.disagreements.append({"where": "driver", "reason": "driver executable not built"})
        return
    import ast

    rules = ctx.driver.batch([{"verb": "py_rules"}])[0]
    rng = ctx.rng("rules")
    pools = model_pools(ctx.rng("rule-pools"), 6 if ctx.quick else 40)
    cap = 60 if ctx.quick else 600
    reqs, metas = [], []
    for ri, r in enumerate(rules):
        var_pools = [pools[t] for _, t in r["vars"]]
        for combo in product_sample(rng, var_pools, cap):
            env = {}
            for (n, _), v in zip(r["vars"], combo):
                env[n] = float("nan") if v == "NAN" else v  # a fresh NaN object per variable: no identity between operands
            for which in ("old", "new"):
                try:
                    got = eval(r[which], {"__builtins__": __builtins__}, dict(env))  # noqa: S307
                    vj = to_val_json(got)
                    impl = {"r": "ok", "v": vj, "truthy": bool(got)} if vj is not None else {"r": "ok", "v": "unrepresentable", "truthy": bool(got)}
                except Exception:  # noqa: BLE001
                    impl = {"r": "raised"}
                reqs.append({"verb": "py_eval", "rule": ri, "which": which, "env": {k: to_val_json(v) for k, v in env.items()}})
                metas.append((r, which, combo, impl))
    separated: dict[str, int] = {}
    sampled = False
    for a, (r, which, combo, impl) in zip(ctx.driver.batch(reqs), metas):
        res.case(("py_eval", r["code"], r["label"], which, repr(combo)))
        res.bump("model_eval_cases")
        res.bump("model_eval_raised" if impl["r"] == "raised" else "model_eval_value")
        if impl.get("v") == "unrepresentable":
            continue
        if a != impl:
            res.disagree("py_eval", {"rule": f"FURB{r['code']}:{r['label']}", "expr": r[which], "env": repr(combo)}, a, impl)
        if r["code"] == 161 and which == "old" and not sampled and combo and combo[0] < -1:
            sampled = True
            res.sample({"lean rule": f"FURB{r['code']}:{r['label']}", "old": r["old"], "new": r["new"], "env": repr(combo), "model eval(old)": a, "CPython eval(old)": impl})
    # ---- CPython itself on old vs new: a PROVED rule must not be separated by any NaN-free environment of the sweep (that would mean
    # the model misrepresents Python in a way the per-expression comparison above did not see); guarded / refuted rows must be
    for i in range(0, len(metas), 2):
        (r, _, combo, io), (_, _, _, inew) = metas[i], metas[i + 1]
        label = f"FURB{r['code']}:{r['label']}"
        if "NAN" in combo:
            continue
        obs = [(x["r"], x.get("truthy") if r["cond_pos"] else x.get("v")) for x in (io, inew)]
        if obs[0] != obs[1]:
            separated[label] = separated.get(label, 0) + 1
            if not r["refuted"] and not r.get("guarded") and separated[label] == 1:
                res.disagree("rule-sound-vs-cpython", {"rule": label, "old": r["old"], "new": r["new"], "env": repr(combo)}, "old and new agree (Sound)", obs)
    for r in rules:
        label = f"FURB{r['code']}:{r['label']}"
        if (r["refuted"] or r.get("guarded")) and not separated.get(label):
            res.notes.append(f"{'guarded' if r.get('guarded') else 'refuted'} rule {label}: no sampled environment separates old and new under CPython")
    res.bump("rules_separated_by_cpython_as_their_refutation_says", sum(1 for r in rules if (r["refuted"] or r.get("guarded")) and separated.get(f"FURB{r['code']}:{r['label']}")))
    # ---- does refurb really propose `new` for `old`?
    lines = PREAMBLE.split("\n")
    spans = []
    for ri, r in enumerate(rules):
        sig = ", ".join(f"{n}: {ANN[t]}" for n, t in r["vars"])
        start = len(lines) + 1
        lines.append(f"def rule_{ri}({sig}):")
        if r["cond_pos"]:
            lines += [f"    if {r['old']}:", "        return 1", "    return 2"]
        else:
            lines.append(f"    return {r['old']}")
        lines.append("")
        spans.append((start, len(lines) - 1))
    src = "\n".join(lines) + "\n"
    with core.scratch("rv-c01r-") as d:
        (d / "rules.py").write_text(src)
        (d / "pyproject.toml").write_text("")
        diags = [x for x in rewrite.lint_with_spans(d, ["rules.py", "--enable-all", "--quiet"]) if "code" in x]
    for ri, (r, (a, b)) in enumerate(zip(rules, spans)):
        res.case(("rule-proposed", r["code"], r["label"]))
        mine = [x for x in diags if a <= x["line"] <= b and x["code"] == r["code"]]
        label = f"FURB{r['code']}:{r['label']}"
        res.bump("lean_rules_guarded" if r.get("guarded") else ("lean_rules_refuted" if r["refuted"] else "lean_rules_proved"))
        if not mine:
            if r["refuted"]:
                res.notes.append(f"refuted variant {label} is no longer proposed by refurb: its refutation theorem is about behaviour that is gone")
            else:
                res.disagree("rule-not-proposed", {"rule": label, "old": r["old"]}, f"refurb proposes {r['new']}", "no diagnostic")
            continue
        new_src, info = rewrite.apply_rewrite(src, mine[0])
        if new_src is None:
            res.disagree("rule-unappliable", {"rule": label}, r["new"], info)
            continue
        try:
            fn = next(n for n in ast.parse(new_src).body if isinstance(n, ast.FunctionDef) and n.name == f"rule_{ri}")
            got_expr = fn.body[0].test if r["cond_pos"] else fn.body[0].value
            same = ast.dump(got_expr) == ast.dump(ast.parse(r["new"], mode="eval").body)
        except Exception as e:  # noqa: BLE001
            res.disagree("rule-unparsable", {"rule": label}, r["new"], repr(e))
            continue
        if not same:
            res.disagree("rule-differs", {"rule": label, "old": r["old"]}, r["new"], ast.unparse(got_expr))
    res.bump("lean_rules", len(rules))


def replay(path) -> int:
    print(Path(path).read_text())
    return 0


# ------------------------------------------------------------------------------------------
# the check MATCHERS of Model/CheckAst.lean vs refurb's checks: same trees in, same diagnostics out

MATCHER_CODES = [108, 109, 110, 114, 115, 121, 123, 124, 136, 143, 145, 149, 161, 168, 169, 171, 183, 188, 192]
# messages that name placeholders instead of quoting the operands (their replacement text is compared with the row's own `new`)
SCHEMATIC_CODES = {108, 114, 124, 136, 161, 168}
# messages whose replacement text is not an expression over the row's variables (`in (x, y, z)`, class placeholders `y | z`)
UNCOMPARED_MESSAGE_CODES = {109, 121}

MC_PARAMS = [
    ("i1", "int"), ("i2", "int"), ("b1", "bool"), ("b2", "bool"), ("s1", "str"), ("s2", "str"), ("f1", "float"), ("f2", "float"),
    ("l1", "list[int]"), ("l2", "list[int]"), ("t1", "tuple[int, ...]"), ("t2", "tuple[int, str]"), ("d1", "dict[str, int]"),
    ("st1", "set[int]"), ("fs1", "frozenset[int]"), ("ba1", "bytearray"), ("by1", "bytes"), ("c1", "complex"), ("o1", "object"),
    ("o2", "object"), ("a1", "Any"), ("n1", "Optional[int]"), ("m1", "MyInt"), ("ms1", "MyStr"), ("ml1", "MyList"), ("lab1", "Label"), ("lab2", "Label"),
]


def _mc_atoms() -> dict[str, list[str]]:
    by: dict[str, list[str]] = {}
    for n, a in MC_PARAMS:
        by.setdefault(a, []).append(n)
    # pairs that differ in ONE place only (receiver, argument, index, base) sit next to each other: what a lax comparison would confuse
    by["int"] += ["(i1 + 1)", "l1[0]", "l2[0]", "l1[1]", "len(s1)", "len(s2)", "7", "abs(i2)", "abs(i1)", "d1['k']", "d1['j']", "(i1)"]
    by["bool"] += ["(not i1)", "s1.isdigit()", "True", "False"]
    by["str"] += ["s1.strip()", "s2.strip()", "s1.lstrip()", "'ab'", "str(i1)", "s2[1:]", "lab1.t", "lab2.t"]
    by["list[int]"] += ["[1, 2]", "sorted(l1)", "(l1 + l2)", "[]"]
    by["tuple[int, ...]"] += ["(1, 2)", "()"]
    by["float"] += ["0.5", "(f1 * 2)"]
    return by


def _mc_generate(rng: Any, n: int) -> str:
    """`n` expressions around the shapes the modelled checks look for (hits, near misses, look-alike operand classes), each in a
    random position (assignment, condition of if/while/assert/comprehension/conditional expression, lambda body, call argument,
    assignment target, del)"""
    by = _mc_atoms()
    every = [x for v in by.values() for x in v]
    pick = lambda *ts: rng.choice([x for t in ts for x in by[t]]) if ts else rng.choice(every)  # noqa: E731
    cmp_ops = ["==", "!=", "<", "<=", ">", ">=", "is", "is not", "in", "not in"]
    ctors = ["bool", "bytes", "complex", "dict", "float", "int", "list", "set", "str", "tuple", "frozenset", "bytearray"]
    classes = ["int", "str", "bool", "float", "list", "tuple", "dict", "type(None)", "MyInt"]
    defaults = ['""', "0", "0.0", "[]", "()", "{}", "False", "set()", "frozenset()", 'b""', "None", "1", '"a"', "True", "0j", "[0]"]

    # an operand and the one most easily mistaken for it (one receiver / argument / index / base / bracket / sign away)
    siblings = {"lab1.t": "lab2.t", "s1.strip()": "s2.strip()", "s2.strip()": "s1.lstrip()", "l1[0]": "l2[0]", "l2[0]": "l1[1]", "abs(i1)": "abs(i2)", "len(s1)": "len(s2)",
                "d1['k']": "d1['j']", "i1": "i2", "s1": "s2", "l1": "l2", "b1": "b2", "f1": "f2", "o1": "o2", "[1, 2]": "(1, 2)", "(i1 + 1)": "(i1 - 1)", "str(i1)": "str(i2)"}

    def sib(a: str) -> str:
        return siblings.get(a) or pick()

    def shared() -> str:
        """the operand a check wants to see twice: half of the time one that has a sibling"""
        return rng.choice(sorted(siblings)) if rng.random() < 0.5 else pick()

    def same_or(a: str, alt: str, p: float = 0.7) -> str:
        return a if rng.random() < p else alt

    def g108() -> str:
        a, b, c = shared(), pick(), pick()
        op, bo = rng.choice(["==", "==", "==", "!=", "is"]), rng.choice(["or", "or", "and"])
        forms = [f"{a} {op} {b} {bo} {a} {op} {c}", f"{a} {op} {b} {bo} {c} {op} {a}", f"{b} {op} {a} {bo} {a} {op} {c}", f"{b} {op} {a} {bo} {c} {op} {a}",
                 f"{a} {op} {b} {bo} {b} {op} {c} {bo} {c}", f"{a} {op} {b} {bo} {c} {op} {pick()}", f"{a} {op} {b} {bo} {a} != {c}", f"{a} {op} {b} {bo} {sib(a)} {op} {c}", f"{b} {op} {a} {bo} {c} {op} {sib(a)}", f"({a} {op} {b} {bo} {a} {op} {c}) {bo} {a} {op} {pick()}"]
        return rng.choice(forms)

    def g109() -> str:
        items = ", ".join(pick() for _ in range(rng.randrange(0, 5)))
        return rng.choice([f"{pick()} in [{items}]", f"{pick()} not in [{items}]", f"{pick()} in ({items},)" if items else f"{pick()} in ()", f"[q for q in [{items}]]",
                           f"{{q: 1 for q in [{items}]}}", f"{pick()} in {{{items or '1'}}}", f"list(q for q in [{items}] for r in [{items}])"])

    def g110() -> str:
        a = shared()
        return rng.choice([f"{a} if {same_or(a, sib(a))} else {pick()}", f"{pick()} if {a} else {a}", f"{a} if not {a} else {pick()}"])

    def g114() -> str:
        a = pick()
        return rng.choice([f"not not {a}", f"not (not {a})", f"not -{pick('int')}", f"not not not {a}", f"not ~{pick('int')}"])

    def g115() -> str:
        x = pick("list[int]", "str", "tuple[int, ...]", "dict[str, int]", "set[int]", "frozenset[int]", "Label", "MyList", "MyStr", "bytes", "bytearray", "tuple[int, str]", "Any", "int")
        op, k = rng.choice(["==", "!=", ">", ">=", "<=", "<", "is"]), rng.choice(["0", "0", "1", "2", "-1"])
        forms = [f"len({x}) {op} {k}", f"len({x})", f"not len({x})", f"len({x}) {op} {k} and {pick('bool')}", f"{pick('bool')} or len({x})", f"-len({x})",
                 f"len(list({x})) {op} {k}", f"len(d1.keys()) {op} {k}", f"len(list(d1.values())) {op} {k}", f"len(*{x}) {op} {k}", f"{k} {op} len({x})",
                 f"{x} == []", f"{x} != []", f"{x} == ()", f"{x} == {{}}", f"{x} != set()", f"{x} == frozenset()", f"{x} == [0]", f"len({x}) + 1", f"print(len({x}) {op} {k})",
                 f"len({x}) {op} {k} or {x} == []", f"len({x}, {x}) {op} {k}"]
        return rng.choice(forms)

    def g121() -> str:
        a, f = shared(), rng.choice(["isinstance", "isinstance", "issubclass"])
        t, u = rng.choice(classes), rng.choice(classes)
        return rng.choice([f"{f}({a}, {t}) or {f}({same_or(a, sib(a))}, {u})", f"{f}({a}, {t}) or {f}({a}, {u}) or {f}({a}, float)", f"isinstance({a}, {t}) or issubclass({a}, {u})",
                           f"{f}({a}, {t}) and {f}({a}, {u})", f"{f}({a}, ({t}, {u})) or {f}({a}, {u})"])

    def g123() -> str:
        c = rng.choice(ctors)
        return rng.choice([f"{c}({pick()})", f"{c}({pick()})", f"{c}(*{pick()})", f"{c}()", f"{c}({pick()}, {pick()})"])

    def g136() -> str:
        a, b = pick("int", "str", "float", "bool", "MyInt", "object"), pick("int", "str", "float", "bool", "MyInt", "object")
        if rng.random() < 0.4:
            a, b = shared(), shared()
        op = rng.choice(["<", "<=", ">", ">=", "==", "!="])
        return rng.choice([f"{a} if {a} {op} {b} else {b}", f"{b} if {a} {op} {b} else {a}", f"{a} if {b} {op} {a} else {b}", f"{a} if {a} {op} {b} else {sib(b)}", f"{a} if {sib(a)} {op} {b} else {b}", f"{b} if {a} {op} {b} else {sib(a)}",
                           f"{a} if {a} {op} {a} else {a}", f"{a} if {a} {op} {b} {op} {b} else {b}"])

    def g143() -> str:
        a, dflt = pick(), rng.choice(defaults)
        return rng.choice([f"{a} or {dflt}", f"{a} or {dflt}", f"{a} or {dflt} or {pick()}", f"{dflt} or {a}", f"{a} and {dflt}", f"{pick()} or {a} or {dflt}"])

    def g145() -> str:
        x = pick("list[int]", "tuple[int, ...]", "bytearray", "str", "MyList", "Label", "bytes", "tuple[int, str]", "Any")
        return rng.choice([f"{x}[:]", f"{x}[:]", f"{x}[::]", f"{x}[0:]", f"{x}[:][:]", f"{x}[::1]", f"[{x}[:]]", f"({x}[:])[0]"])

    def g149() -> str:
        a, lit, op = pick("bool", "bool", "int", "object", "MyInt", "Optional[int]"), rng.choice(["True", "False"]), rng.choice(["==", "!=", "is", "is not", "<", "in"])
        return rng.choice([f"{a} {op} {lit}", f"{lit} {op} {a}", f"{a} {op} {lit}", f"{lit} {op} {lit}", f"{a} {op} {lit} {op} {lit}", f"{a} {op} None"])

    def g161() -> str:
        a = pick("int", "bool", "MyInt", "object")
        return rng.choice([f'bin({a}).count("1")', f'bin({a})[2:].count("1")', f'bin({a})[3:].count("1")', f'bin({a}).count("0")', f'hex({a}).count("1")', f'bin({a})[2:5].count("1")',
                           f'bin({a}).count("1", 2)', f'bin(-{a}).count("1")', f'bin({a} + 1)[2:].count("1")'])

    def g168() -> str:
        a = pick()
        return rng.choice([f"isinstance({a}, type(None))", f"isinstance({a}, (type(None), int))", f"isinstance({a}, (int, type(None)))", f"isinstance({a}, int | type(None))",
                           f"isinstance({a}, type(None) | int | str)", f"isinstance({a}, (int, str))", f"isinstance({a}, type({a}))", f"issubclass({a}, type(None))", f"isinstance({a}, int | str)"])

    def g169() -> str:
        a, op = pick(), rng.choice(["is", "is not", "==", "!=", "<", "in"])
        return rng.choice([f"type({a}) {op} type(None)", f"type(None) {op} type({a})", f"type({a}) {op} type({pick()})", f"type({a}) {op} None", f"type({a}) {op} type(None) {op} type(None)"])

    def g171() -> str:
        a, b = pick(), pick()
        return rng.choice([f"{a} in ({b},)", f"{a} in [{b}]", f"{a} in {{{b}}}", f"{a} not in ({b},)", f"{a} not in [{b}]", f"{a} in ({b}, {a})", f"{a} in ()", f'{a} in "a"', f"{a} < ({b},)"])

    def g183() -> str:
        a, b = pick(), pick()
        return rng.choice([f'f"{{{a}}}"', f'f"{{{a}}}"', f'f"{{{a}}}{{{b}}}"', f'f"a{{{a}}}"', f'f"{{{a}!r}}"', f'f"{{{a}:>4}}"', f'f"{{{a}:{{{b}}}}}"', f'f"{{str({a})}}"', f'f"{{bin({pick("int")})}}"',
                           "f\"{f'{" + a + "}'}\"", "f\"{f'{" + a + "}'} b\"", f'"{{:{{}}}}".format({a}, "")', f'f"{{len({pick("str")})}}"', f'f"{{{a}}}".strip()'])

    def g188() -> str:
        s, t = pick("str", "str", "str", "MyStr", "Label", "object"), pick("str", "str", "str", "bytes", "object")
        if rng.random() < 0.4:
            s, t = rng.choice(["lab1.t", "s1.strip()", "s1", "str(i1)"]), rng.choice(["lab2.t", "s2.strip()", "s2", "str(i2)"])
        lit = rng.choice(["ab", "", "pre_", "x"])
        k = rng.choice([len(lit), len(lit), len(lit) + 1, 0])
        fn = rng.choice(["startswith", "endswith"])
        forms = [f"{s}[len({t}):] if {s}.{fn}({t}) else {s}", f"{s}[:-len({t})] if {s}.{fn}({t}) else {s}", f'{s}[{k}:] if {s}.{fn}("{lit}") else {s}', f'{s}[:-{k}] if {s}.{fn}("{lit}") else {s}',
                 f"{s}[len({t}):] if {s}.{fn}({t}) else {sib(s)}", f"{s}[len({sib(t)}):] if {s}.{fn}({t}) else {s}", f"{s}[len({t}):] if {sib(s)}.{fn}({t}) else {s}",
                 f"{sib(s)}[:-len({t})] if {s}.{fn}({t}) else {s}", f"{s}[len({t})::1] if {s}.{fn}({t}) else {s}",
                 f"{s} if {s}.{fn}({t}) else {s}[len({t}):]", f"{s}[len({t}):] if not {s}.{fn}({t}) else {s}", f'{s}[len("{lit}"):] if {s}.{fn}("{lit}") else {s}']
        return rng.choice(forms)

    def g192() -> str:
        x = pick("list[int]", "tuple[int, ...]", "str", "set[int]", "MyList", "dict[str, int]")
        kw = rng.choice(["", "", ", reverse=True", ", reverse=False", ", key=abs", ", key=abs, reverse=True", ", reverse=b1", ", reverse=True, key=abs"])
        idx = rng.choice(["0", "-1", "0", "-1", "1", "-2", "-i1", "0:1"])
        return rng.choice([f"sorted({x}{kw})[{idx}]", f"sorted({x}{kw})[{idx}]", f"list({x})[{idx}]", f"sorted({x}, {x})[{idx}]", f"sorted(*{x})[{idx}]"])

    gens = [g108, g108, g109, g110, g114, g115, g115, g115, g121, g123, g123, g136, g136, g143, g143, g145, g149, g149, g161, g168, g169, g171, g183, g183, g188, g188, g192, g192]
    lines = PREAMBLE.split("\n")
    sig = ", ".join(f"{n}: {a}" for n, a in MC_PARAMS)
    for k in range(n):
        e = rng.choice(gens)()
        ctx_kind = rng.choice(["assign", "assign", "assign", "if", "while", "assert", "comp", "cond", "lambda", "arg", "default", "elif", "ret", "lvalue", "del", "fstr", "walrus", "dictcomp", "not"])
        p = f"({e})"
        body = {
            "assign": [f"_v = {e}"],
            "if": [f"if {e}:", "    pass"],
            "while": [f"while {p}:", "    break"],
            "assert": [f"assert {p}, {e!r}"],
            "comp": [f"_v = [0 for _q in () if {p}]"],
            "cond": [f"_v = 1 if {p} else 2"],
            "lambda": [f"_v = lambda: {p}"],
            "arg": [f"print({p}, end=str({p}))"],
            "default": [f"def _inner(_p={p}):", "    pass"],
            "elif": ["if i1:", "    pass", f"elif {e}:", "    pass"],
            "ret": [f"return {e}"],
            "lvalue": [f"{p}[0] = 1"],
            "del": [f"del {p}[0]"],
            "fstr": [f"_v = f\"{{{p}}} and {{i1}}\""] if '"' not in e and "'" not in e and "{" not in e else [f"_v = {e}"],
            "walrus": [f"if (_w := {p}):", "    pass"],
            "dictcomp": [f"_v = {{_q: 1 for _q in () if {p}}}"],
            "not": [f"if not {p}:", "    pass"],
        }[ctx_kind]
        func = [f"def gen_{k}({sig}):"] + ["    " + b for b in body] + [""]
        try:
            compile("\n".join(func), "<gen>", "exec")
        except SyntaxError:
            func = [f"def gen_{k}({sig}):", f"    _v = {p}", ""]
            try:
                compile("\n".join(func), "<gen>", "exec")
            except SyntaxError:
                continue
        lines += func
    # positions only the slice-copy check cares about
    lines += [f"def gen_slices({sig}):", "    l1[:] = l2[:]", "    del l1[:]", "    del l2[:], l1", "    l2[:][0] = 1", "    _v = lambda: l1[:]", "    l1[:] += l2[:]",
              "    for l1[:] in [l2[:]]:", "        pass", "    for _q in [i1, i2]:", "        pass", "    with open(s1) as l1[:]:", "        pass", ""]
    return "\n".join(lines) + "\n"


def _mc_roots(stmts: list[Any]) -> tuple[list[dict[str, Any]], list[tuple[int, int, str]], set[tuple[int, int]]]:
    """the expressions hanging off the statements of a file serialised by harness/astjson.py, each with the role its statement gives it;
    the line spans of the statements astjson does not serialise (match, raise, …); the positions of the `if` statements"""
    roots: list[dict[str, Any]] = []
    opaque: list[tuple[int, int, str]] = []
    ifpos: set[tuple[int, int]] = set()

    def add(role: str, e: Any) -> None:
        if e is not None:
            roots.append({"role": role, "expr": e})

    def blk(b: Any) -> None:
        for s in b or []:
            st(s)

    def st(s: Any) -> None:
        k = s["kind"]
        if s.get("opaque"):
            opaque.append((s["line"], s.get("end_line") or s["line"], k))
        elif k == "AssignmentStmt":
            for l in s["lvalues"]:
                add("lvalue", l)
            add("other", s["rvalue"])
        elif k == "OperatorAssignmentStmt":
            add("other", s["lvalue"])
            add("other", s["rvalue"])
        elif k in ("ExpressionStmt", "ReturnStmt"):
            add("other", s["expr"])
        elif k == "DelStmt":
            add("del", s["expr"])
        elif k == "AssertStmt":
            add("cond", s["expr"])
            add("other", s["msg"])
        elif k == "IfStmt":
            ifpos.add((s["line"], s["col"]))
            for e in s["expr"]:
                add("cond", e)
            for b in s["body"]:
                blk(b)
            blk(s["else_body"])
        elif k == "WhileStmt":
            add("cond", s["expr"])
            blk(s["body"])
            blk(s["else_body"])
        elif k == "ForStmt":
            add("other", s["index"])
            add("for-iter", s["expr"])
            blk(s["body"])
            blk(s["else_body"])
        elif k == "WithStmt":
            for e in [*s["expr"], *s["target"]]:
                add("other", e)
            blk(s["body"])
        elif k == "FuncDef":
            for e in s["defaults"]:
                add("other", e)
            blk(s["body"])
        elif k == "Decorator":
            for e in s["decorators"]:
                add("other", e)
            st(s["func"])
        elif k == "ClassDef":
            for e in s["bases"]:
                add("other", e)
            blk(s["body"])
        elif k == "TryStmt":
            blk(s["body"])
            for h in s["handlers"]:
                blk(h)
            blk(s["else_body"])
            blk(s["finally_body"])
        elif k == "Block":
            blk(s["body"])

    blk(stmts)
    return roots, opaque, ifpos


def _mc_same_ast(a: str, b: str) -> bool | None:
    import ast

    try:
        return ast.dump(ast.parse("(" + a + ")", mode="eval")) == ast.dump(ast.parse("(" + b + ")", mode="eval"))
    except (SyntaxError, ValueError):
        return None


def _mc_same_reading(reading: str, source: str) -> bool | None:
    """is the model's reading of the flagged node the expression Python parses at the node's span?  mypy nests `a or b or c` as
    `a or (b or c)` and gives every nested node the span of the whole chain: a nested node is the LAST two operands of the chain"""
    import ast

    try:
        r, s = ast.parse("(" + reading + ")", mode="eval").body, ast.parse("(" + source + ")", mode="eval").body
    except (SyntaxError, ValueError):
        return None
    if isinstance(s, ast.BoolOp) and len(s.values) > 2 and isinstance(r, ast.BoolOp) and len(r.values) == 2:
        s = ast.BoolOp(op=s.op, values=s.values[-2:])
    return ast.dump(r) == ast.dump(s)


def matcher_correspondence(ctx) -> None:
    """Model/CheckAst.lean vs refurb/checks/**: every expression of (a) refurb's own test files for the modelled checks, (b) the idiom
    module of this property (idioms, near misses, look-alike classes), (c) generated expressions is serialised with refurb's own
    pipeline (harness/astjson.py, one run) and given to the model's matchers (driver verb `match_checks`); the multiset of
    (code, line, column, message) they predict must be the multiset real refurb prints for those codes on the same files."""
    import collections
    import shutil
    import subprocess
    from concurrent.futures import ThreadPoolExecutor

    res = ctx.res
    if not ctx.driver.available():
        res.disagreements.append({"where": "driver", "reason": "driver executable not built"})
        return
    noqa = re.compile(r"\s*# noqa.*$", re.M)
    with core.scratch("rv-c01m-") as d:
        (d / "pyproject.toml").write_text("")
        files: dict[str, str] = {}
        for c in MATCHER_CODES:
            for sub in ("data", "data_3.10"):
                p = core.REPO / "test" / sub / f"err_{c}.py"
                if p.exists():
                    # the `# noqa` comments of the test files are dropped (comment filtering is another property); positions are unchanged
                    files[f"t_{sub.replace('.', '_')}_{c}.py"] = noqa.sub("", p.read_text())
        src, _cases = build_module(ctx.rng("c01-near-miss"), 10 if ctx.quick else 40)
        files["idioms.py"] = src
        files["generated.py"] = _mc_generate(ctx.rng("c01-matchers"), 450 if ctx.quick else 3000)
        gate = core.REPO / "test" / "data_3.9" / "err_121.py"
        files["gate.py"] = (
            (noqa.sub("", gate.read_text()) if gate.exists() else "")
            + '\n\ndef gate(n: int, s: str, t: str, o: object):\n    _a = bin(n).count("1")\n    _b = bin(n)[2:].count("1")\n    _c = s[len(t):] if s.startswith(t) else s\n'
            + '    _d = s[:-len(t)] if s.endswith(t) else s\n    _e = isinstance(o, int) or isinstance(o, str)\n    _f = issubclass(type(o), int) or issubclass(type(o), (str, bytes))\n    return n if n > 1 else 1\n'
        )
        for name, text in files.items():
            (d / name).write_text(text)
        names = sorted(files)

        def trees() -> Any:
            env = core.py_env()
            env["PYTHONPATH"] = str(core.VERIF) + (":" + env["PYTHONPATH"] if env.get("PYTHONPATH") else "")
            p = subprocess.run([core.PY, "-m", "harness.astjson", "_trees.json", *names], cwd=d, capture_output=True, text=True, timeout=600, env=env)
            if p.returncode != 0:
                raise RuntimeError("astjson failed: " + p.stderr[-1500:])
            return json.loads((d / "_trees.json").read_text())

        def lint(fs: list[str], ver: str | None) -> tuple[list[dict[str, Any]], list[str]]:
            rc, out, err = core.refurb_cli([*fs, "--enable-all", "--quiet", *(["--python-version", ver] if ver else [])], d)
            return core.parse_plain(out)

        with ThreadPoolExecutor(4) as ex:
            ft = ex.submit(trees)
            runs = {None: ex.submit(lint, names, None), "3.9": ex.submit(lint, ["gate.py"], "3.9"), "3.8": ex.submit(lint, ["gate.py"], "3.8")}
            data = ft.result()
            lints = {k: f.result() for k, f in runs.items()}
    if data["errors"] or any(o for _, o in lints.values()):
        res.disagreements.append({"where": "matcher-correspondence", "reason": "refurb did not lint the files", "errors": (data["errors"] + [x for _, o in lints.values() for x in o])[:5]})
        return
    jobs = [(f, None, (3, 12)) for f in names] + [("gate.py", "3.9", (3, 9)), ("gate.py", "3.8", (3, 8))]
    per_file = {f: _mc_roots(data["files"][f]) for f in names}
    answers = ctx.driver.batch([{"verb": "match_checks", "py": list(py), "roots": per_file[f][0]} for f, _, py in jobs])
    sampled = False
    for (f, ver, py), hits in zip(jobs, answers):
        roots, opaque, ifpos = per_file[f]
        res.bump("matcher_expression_roots", len(roots))
        lines = files[f].split("\n")
        skip = lambda line: any(a <= line <= b for a, b, _ in opaque)  # noqa: E731
        model = collections.Counter((h["code"], h["line"], h["col"] + 1, h["msg"]) for h in hits if not skip(h["line"]))
        real = collections.Counter()
        for x in lints[ver][0]:
            if x["file"] != f or x["code"] not in MATCHER_CODES:
                continue
            if skip(x["line"]):
                res.bump("matcher_diagnostics_inside_unserialised_statements")  # match / raise statements: harness/astjson.py gives no tree for them
            elif x["code"] == 188 and (x["line"], x["col"] - 1) in ifpos:
                res.bump("matcher_furb188_statement_form")  # the `if` statement form is a statement rule (c01_stmt)
            else:
                real[(x["code"], x["line"], x["col"], x["msg"])] += 1
        for k, n in (model - real).items():
            res.disagree("matcher-fires-refurb-silent", {"file": f, "python": ver or "default", "line": lines[k[1] - 1].strip() if 0 < k[1] <= len(lines) else ""}, list(k), f"no such diagnostic (x{n})")
        for k, n in (real - model).items():
            res.disagree("refurb-fires-matcher-silent", {"file": f, "python": ver or "default", "line": lines[k[1] - 1].strip() if 0 < k[1] <= len(lines) else ""}, f"no hit (x{n})", list(k))
        for k, n in real.items():
            res.case(("matcher", f, ver, k))
            res.bump(f"matcher_diagnostics_FURB{k[0]}", n)
        for h in hits:
            if skip(h["line"]):
                continue
            res.bump("matcher_verdict_" + (h["kind"] if h["verdict"] == "row" else "outside"))
            if h["verdict"] != "row":
                continue
            res.bump(f"matcher_rows_FURB{h['code']}")
            # the reading of the flagged node (`den`, with the row's operands put in) must be the source text Python parses there
            def cut(l0: int, c0: int, l1: int, c1: int) -> str:
                seg = lines[l0 - 1 : l1]
                if seg:
                    seg[-1] = seg[-1][:c1]
                    seg[0] = seg[0][c0:]
                return "\n".join(seg)

            source = cut(*h["node"])
            reading = re.sub(r"__op_(\d+)_(\d+)_(\d+)_(\d+)__", lambda m: "(" + cut(*map(int, m.groups())) + ")", h["old_src"])
            same = _mc_same_reading(reading, source)
            if same is None or '"{:{}}".format(' in source:
                res.bump("matcher_reading_not_compared")  # unparsable rendering (escapes in a literal) / a literal "{:{}}".format(x, "") call read as the f-string it is
            elif not same:
                res.disagree("matcher-reading-vs-source", {"file": f, "rule": h["rule"], "source": source}, reading, "Python parses the flagged text differently")
            else:
                res.bump("matcher_reading_is_the_source_text")
            # the replacement the message prints must be the row's `new` over the same operands
            parts = rewrite.split_message(h["msg"])
            if h["code"] in UNCOMPARED_MESSAGE_CODES or parts is None or "_opaque_" in h["new_src"]:
                res.bump("matcher_message_not_compared")
                continue
            want = h["schematic_new"] if h["code"] in SCHEMATIC_CODES else h["new_src"]
            got = parts[1]
            if h["code"] == 136 and h["msg"].startswith("Replace `x if y "):
                got = re.sub(r"\b([xy])\b", lambda m: "y" if m.group(1) == "x" else "x", got)  # this message calls the operands (y, x)
            if h["code"] == 161:
                got = got.replace("(x)", "x")
            same = _mc_same_ast(want, got)
            if same:
                res.bump("matcher_message_proposes_the_rows_new")
            elif re.sub(r"[()\s]", "", want) == re.sub(r"[()\s]", "", got):
                # refurb prints operands without the parentheses they need (`not a == b`, `a + b.copy()`): C02's subject (lost parentheses)
                res.bump("matcher_message_is_the_rows_new_up_to_dropped_parentheses")
            else:
                res.disagree("matcher-message-vs-row", {"file": f, "rule": h["rule"], "message": h["msg"]}, want, got)
            if not sampled and h["code"] == 136 and h["kind"] == "proved":
                sampled = True
                res.sample({"matcher": "FURB136", "file": f, "line": lines[h["line"] - 1].strip(), "model hit": [h["code"], h["line"], h["col"] + 1, h["msg"]],
                            "row": h["rule"], "operand classes": h["classes"], "reading of the node": h["old_src"], "replacement": h["new_src"]})
    res.assumptions += [
        "matcher correspondence: `# noqa` comments of refurb's test files are removed before linting; diagnostics inside statements harness/astjson.py does not serialise (match, raise) are counted, not compared",
        "matcher correspondence: is_equivalent / is_same_type / is_sized / is_mapping enter the matchers as verdicts computed by Model/Equiv.lean and Model/Types.lean from the serialised tree (C06, C05 compare those models with refurb)",
    ]


# operands of the class NEXT to the one a type-conditioned check demands (int for bool, bool for int, str for list, ...): silent today; a check
# whose type guard is loosened starts to fire here, and its rewrite is then applied and executed like any other (hand-written near misses)
HAND_NEAR_MISSES += [
    (149, [("n", "int")], "return n == True", {}),
    (149, [("n", "int")], "return n is not False", {}),
    (149, [("p", "object")], "return p == False", {}),
    (123, [("b0", "bool")], "return int(b0)", {}),
    (123, [("n", "int")], "return float(n)", {}),
    (123, [("t", "tuple[int, ...]")], "return list(t)", {}),
    (145, [("s", "str")], "return s[:]", {}),
    (145, [("bs", "bytes")], "return bs[:]", {}),
    (143, [("n", "int")], "return n or False", {}),
    (143, [("fl", "float")], "return fl or 0", {}),
    (143, [("p", "object")], 'return p or ""', {}),
    (115, [("p", "object")], "if p == []:\n    return 1\nreturn 2", {}),
    (115, [("n", "int")], "if len(str(n)) < 1:\n    return 1\nreturn 2", {}),
    (161, [("n", "int")], 'return bin(n)[3:].count("1")', {}),
    (171, [("p", "int"), ("q", "int")], "return p in (q, q)", {}),
    (192, [("nums", "list[int]")], "return sorted(nums, reverse=False)[0]", {}),
    # a chain that mixes identity and equality: equal but distinct objects tell the two apart (q is the very object p is)
    (124, [("p", "Varied"), ("q", "Varied"), ("r", "Varied")], "return p is q and p == r", {"alias": [(0, 1)]}),
    (124, [("p", "Varied"), ("q", "Varied"), ("r", "Varied")], "return p == r and p is q", {"alias": [(0, 1)]}),
    (108, [("p", "Varied"), ("q", "Varied"), ("r", "Varied")], "return p is q or p == r", {"alias": [(0, 1)]}),
    # the would-be-common operands differ in the RECEIVER of an attribute / method call, the argument of a call, the base / index of a subscript
    (110, [("la", "Label"), ("lb", "Label")], 'return la.t if lb.t else "-"', {}),
    (108, [("la", "Label"), ("lb", "Label")], 'return la.t == "ab" or lb.t == ""', {}),
    (124, [("la", "Label"), ("lb", "Label")], 'return la.t == "ab" and lb.t == "ab"', {}),
    (136, [("s", "str"), ("t", "str")], 'return s.strip() if t.strip() > "a" else "a"', {}),
    (110, [("s", "str"), ("t", "str")], 'return s.upper() if t.upper() else "-"', {}),
    (110, [("nums", "list[int]"), ("other", "list[int]")], "return nums[0] if other[0] else -1", {}),
    (110, [("nums", "list[int]")], "return nums[0] if nums[-1] else -1", {}),
    (136, [("p", "int"), ("q", "int")], "return abs(p) if abs(q) > 2 else 2", {}),
    (188, [("s", "str"), ("t", "str")], 'return s.strip()[1:] if t.strip().startswith("a") else s.strip()', {}),
    (121, [("p", "object")], "return isinstance(p, int) or issubclass(p, int)", {}),
    (121, [("p", "object"), ("q", "object")], "return isinstance(p, int) or isinstance(q, str)", {}),
]
