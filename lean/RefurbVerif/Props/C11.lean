/-
C11 — output is deterministic: independent of file order, grouping and history.

`report` = stable sort (by the `sort_errors` key) of the kept diagnostics of all files
(Model/Report.lean).  The theorems are for any number of files and diagnostics.
-/
import RefurbVerif.Model.Report
import RefurbVerif.Lemmas.Sort
import RefurbVerif.Lemmas.Order
import RefurbVerif.Generated.History

namespace RefurbVerif.C11
open RefurbVerif

/-! ### The report is always in the documented order -/

/-- **Documented order**: whatever the input order, the report is sorted by the `sort_errors` key —
    (file, line, column, code) by default, (code, file, line, column) with `--sort error`; plain
    error lines first. -/
theorem documented_order (by_ : SortBy) (keep : Item → Bool) (items : List Item) :
    Sorted (leItem by_) (report by_ keep items) :=
  sorted_ssort _ (leItem_total by_) (leItem_trans by_) _

/-- nothing is lost or invented by sorting: the report is a permutation of the kept items -/
theorem report_perm (by_ : SortBy) (keep : Item → Bool) (items : List Item) :
    (report by_ keep items).Perm (items.filter keep) := ssort_perm _ _

/-! ### Two sorted lists with the same elements are equal (when keys identify items) -/

/-- no two *different* items of the list compare as equal under the key:
    (file, line, column, code) identifies a diagnostic -/
def KeyInjective (by_ : SortBy) (l : List Item) : Prop :=
  ∀ a ∈ l, ∀ b ∈ l, leItem by_ a b = true → leItem by_ b a = true → a = b

theorem sorted_perm_unique (le : Item → Item → Bool) :
    ∀ (l₁ l₂ : List Item), Sorted le l₁ → Sorted le l₂ → l₁.Perm l₂ →
      (∀ a ∈ l₁, ∀ b ∈ l₁, le a b = true → le b a = true → a = b) → l₁ = l₂ := by
  intro l₁
  induction l₁ with
  | nil => intro l₂ _ _ hp _; exact (List.Perm.nil_eq hp)
  | cons a r ih =>
    intro l₂ hs₁ hs₂ hp hinj
    cases l₂ with
    | nil => exact absurd hp.symm (by simp)
    | cons b r₂ =>
      have hab : a = b := by
        have hb_mem : b ∈ a :: r := hp.symm.subset (by simp)
        have ha_mem : a ∈ b :: r₂ := hp.subset (by simp)
        rcases List.mem_cons.mp hb_mem with h | h
        · exact h.symm
        · rcases List.mem_cons.mp ha_mem with h' | h'
          · exact h'
          · exact hinj a (by simp) b hb_mem (hs₁.1 b h) (hs₂.1 a h')
      subst hab
      congr 1
      exact ih r₂ hs₁.2 hs₂.2 (List.Perm.cons_inv hp)
        (fun x hx y hy => hinj x (List.mem_cons_of_mem _ hx) y (List.mem_cons_of_mem _ hy))

theorem keyInjective_perm (by_ : SortBy) {l₁ l₂ : List Item} (hp : l₁.Perm l₂) (h : KeyInjective by_ l₁) :
    KeyInjective by_ l₂ :=
  fun a ha b hb => h a (hp.symm.subset ha) b (hp.symm.subset hb)

/-- **Order independence.** If two runs collect the same diagnostics in any order (permuted file
    arguments, different traversal interleaving), the reports are identical. -/
theorem report_order_independent (by_ : SortBy) (keep : Item → Bool) (items₁ items₂ : List Item)
    (hp : items₁.Perm items₂) (hinj : KeyInjective by_ (items₁.filter keep)) :
    report by_ keep items₁ = report by_ keep items₂ := by
  unfold report
  have hf : (items₁.filter keep).Perm (items₂.filter keep) := hp.filter keep
  apply sorted_perm_unique (leItem by_)
  · exact sorted_ssort _ (leItem_total by_) (leItem_trans by_) _
  · exact sorted_ssort _ (leItem_total by_) (leItem_trans by_) _
  · exact (ssort_perm _ _).trans (hf.trans (ssort_perm _ _).symm)
  · exact keyInjective_perm by_ (ssort_perm _ _).symm hinj

theorem flatMap_perm {α β : Type} (f : α → List β) {l₁ l₂ : List α} (hp : l₁.Perm l₂) :
    (l₁.flatMap f).Perm (l₂.flatMap f) := by
  induction hp with
  | nil => exact List.Perm.refl _
  | cons x _ ih => simp only [List.flatMap_cons]; exact List.Perm.append_left _ ih
  | swap x y l =>
    simp only [List.flatMap_cons, ← List.append_assoc]
    exact List.Perm.append_right _ List.perm_append_comm
  | trans _ _ ih₁ ih₂ => exact ih₁.trans ih₂

/-- **Permuting the file arguments does not change the report** (each file contributes its own
    block of diagnostics, whatever its position on the command line). -/
theorem perm_files_same (by_ : SortBy) (keep : Item → Bool) (diagsOf : String → List Item)
    (files₁ files₂ : List String) (hp : files₁.Perm files₂)
    (hinj : KeyInjective by_ ((files₁.flatMap diagsOf).filter keep)) :
    report by_ keep (files₁.flatMap diagsOf) = report by_ keep (files₂.flatMap diagsOf) :=
  report_order_independent by_ keep _ _ (flatMap_perm diagsOf hp) hinj

/-- **Permuting the file arguments, without the key-injectivity guard.**  Diagnostics that tie on the
    sort key (same file, line, column and code but different messages) keep their traversal order by
    stability, and a tie never spans two files — so the report is the same for every order of the
    file arguments, for any number of files and diagnostics. -/
theorem perm_files_same_general (by_ : SortBy) (keep : Item → Bool) (diagsOf : String → List Item)
    (files₁ files₂ : List String) (hp : files₁.Perm files₂)
    (hsep : ∀ f ∈ files₁, ∀ g ∈ files₁, f ≠ g → ∀ a ∈ diagsOf f, ∀ b ∈ diagsOf g, eqv (leItem by_) a b = false) :
    report by_ keep (files₁.flatMap diagsOf) = report by_ keep (files₂.flatMap diagsOf) := by
  unfold report
  apply ssort_congr (leItem by_) (leItem_total by_) (leItem_trans by_)
  · exact (flatMap_perm diagsOf hp).filter keep
  · intro a
    simp only [List.filter_flatMap]
    apply flatMap_perm_sparse _ hp
    intro f hf g hg hfg
    by_cases h1 : ((diagsOf f).filter keep).filter (eqv (leItem by_) a) = []
    · exact Or.inl h1
    · by_cases h2 : ((diagsOf g).filter keep).filter (eqv (leItem by_) a) = []
      · exact Or.inr h2
      · exfalso
        obtain ⟨b, hb⟩ := List.exists_mem_of_ne_nil _ h1
        obtain ⟨c, hc⟩ := List.exists_mem_of_ne_nil _ h2
        have hb' := List.mem_filter.mp hb
        have hc' := List.mem_filter.mp hc
        have hbm : b ∈ diagsOf f := (List.mem_filter.mp hb'.1).1
        have hcm : c ∈ diagsOf g := (List.mem_filter.mp hc'.1).1
        have hab := hb'.2
        have hac := hc'.2
        simp only [eqv, Bool.and_eq_true] at hab hac
        have hbc : eqv (leItem by_) b c = true := by
          simp only [eqv, Bool.and_eq_true]
          exact ⟨leItem_trans by_ b a c hab.2 hac.1, leItem_trans by_ c a b hac.2 hab.1⟩
        rw [hsep f hf g hg hfg b hbm c hcm] at hbc
        cases hbc

/-- **Checking files together or one by one**: merging the separately produced (sorted) reports
    and sorting again gives the report of the joint run. -/
theorem regroup_same (by_ : SortBy) (keep : Item → Bool) (a b : List Item)
    (hinj : KeyInjective by_ ((a ++ b).filter keep)) :
    ssort (leItem by_) (report by_ keep a ++ report by_ keep b) = report by_ keep (a ++ b) := by
  unfold report
  apply sorted_perm_unique (leItem by_)
  · exact sorted_ssort _ (leItem_total by_) (leItem_trans by_) _
  · exact sorted_ssort _ (leItem_total by_) (leItem_trans by_) _
  · refine (ssort_perm _ _).trans ?_
    refine (List.Perm.append (ssort_perm _ _) (ssort_perm _ _)).trans ?_
    rw [← List.filter_append]
    exact (ssort_perm _ _).symm
  · apply keyInjective_perm by_ _ hinj
    refine List.Perm.symm ((ssort_perm _ _).trans ?_)
    refine (List.Perm.append (ssort_perm _ _) (ssort_perm _ _)).trans ?_
    rw [← List.filter_append]

/-- the file name is part of both sort keys: diagnostics of different files never tie -/
theorem key_separates_files (by_ : SortBy) (a b : Diag) (h : a.file ≠ b.file) :
    ¬ (leItem by_ (.diag a) (.diag b) = true ∧ leItem by_ (.diag b) (.diag a) = true) := by
  intro ⟨h1, h2⟩
  cases by_
  · have := leKeyFilename_linear.antisymm _ _ h1 h2
    simp [keyFilename] at this; exact h this.1
  · have := leKeyError_linear.antisymm _ _ h1 h2
    simp [keyError] at this; exact h this.2.2.1

/-- diagnostics tie only if file, line, column, prefix and code all coincide -/
theorem key_ties_iff (by_ : SortBy) (a b : Diag) :
    (leItem by_ (.diag a) (.diag b) = true ∧ leItem by_ (.diag b) (.diag a) = true) ↔
      (a.file = b.file ∧ a.line = b.line ∧ a.col = b.col ∧ a.pfx = b.pfx ∧ a.code = b.code) := by
  constructor
  · intro ⟨h1, h2⟩
    cases by_
    · have := leKeyFilename_linear.antisymm _ _ h1 h2
      simpa [keyFilename] using this
    · have := leKeyError_linear.antisymm _ _ h1 h2
      simp [keyError] at this
      exact ⟨this.2.2.1, this.2.2.2.1, this.2.2.2.2, this.1, this.2.1⟩
  · rintro ⟨h1, h2, h3, h4, h5⟩
    have hk1 : keyFilename a = keyFilename b := by simp [keyFilename, h1, h2, h3, h4, h5]
    have hk2 : keyError a = keyError b := by simp [keyError, h1, h2, h3, h4, h5]
    cases by_
    · simp only [leItem, hk1]
      exact ⟨(leKeyFilename_linear.total _ _).elim id id, (leKeyFilename_linear.total _ _).elim id id⟩
    · simp only [leItem, hk2]
      exact ⟨(leKeyError_linear.total _ _).elim id id, (leKeyError_linear.total _ _).elim id id⟩

/-! ### History: the process-global line cache -/

/-- the part of the process state that outlives a run: `get_source_lines` is `@cache`d by path -/
structure Globals where
  lineCache : List (String × List Str)

def Globals.lookup (g : Globals) (path : String) : Option (List Str) :=
  (g.lineCache.find? (·.1 == path)).map (·.2)

/-- one run: for each file the lines used for `# noqa` are the cached ones if the path was read
    before in this process, otherwise the file's current content (which is then cached) -/
def linesUsed (clearFirst : Bool) (g : Globals) (fs : String → List Str) (path : String) : List Str :=
  if clearFirst then fs path else (g.lookup path).getD (fs path)

/-- history independence of the source lines a run consults -/
def HistoryIndependent (clearFirst : Bool) : Prop :=
  ∀ (g : Globals) (fs : String → List Str) (path : String), linesUsed clearFirst g fs path = fs path

/-- with the cache cleared at the start of every run (the repaired code) a run only sees the files
    as they are now -/
theorem history_independent_when_cleared : HistoryIndependent true := by
  intro g fs path; rfl

/-- without that (the code before the repair) an earlier run in the same process leaks into the
    next one: edit the file after the first run and the stale lines are used -/
theorem history_refuted_without_clear : ¬ HistoryIndependent false := by
  intro h
  have := h ⟨[("f.py", [['x']])]⟩ (fun _ => [['x', ' ', '#']]) "f.py"
  simp [linesUsed, Globals.lookup] at this

/-- **Today's code**: the behaviour observed by executing it (Generated/History.lean) is the
    history-independent one. -/
theorem history_independent_today : HistoryIndependent Generated.runStartsWithFreshLines := by
  have : Generated.runStartsWithFreshLines = true := by decide
  rw [this]; exact history_independent_when_cleared

theorem history_partial_without_clear (g : Globals) (fs : String → List Str) (path : String)
    (hfresh : ∀ ls, g.lookup path = some ls → ls = fs path) : linesUsed false g fs path = fs path := by
  unfold linesUsed
  cases h : g.lookup path with
  | none => simp
  | some ls => simp [hfresh ls h]

/-! ### Non-vacuity -/

def d1 : Item := .diag { file := "a.py".toList, line := 2, col := 0, pfx := "FURB".toList, code := 123, msg := [] }
def d2 : Item := .diag { file := "b.py".toList, line := 1, col := 0, pfx := "FURB".toList, code := 105, msg := [] }

example : report .filename (fun _ => true) [d2, d1] = [d1, d2] := by decide +kernel
example : report .error (fun _ => true) [d1, d2] = [d2, d1] := by decide +kernel
example : KeyInjective .filename [d1, d2] := by
  intro a ha b hb h1 h2
  simp only [List.mem_cons, List.mem_nil_iff, or_false] at ha hb
  rcases ha with rfl | rfl <;> rcases hb with rfl | rfl <;> first | rfl | (revert h1 h2; decide +kernel)

end RefurbVerif.C11
