"""Translator for C10: syntactic locality facts about every check module (ast scan + runtime lookups)."""

from __future__ import annotations

import ast
import inspect
from collections import defaultdict
from typing import Any

from . import extract
from .extract import HEADER, lstr, lstrs

MUTABLE = (list, dict, set, defaultdict, bytearray)


def scan_module(row: dict[str, Any]) -> dict[str, Any]:
    from refurb.error import Error

    mod = row["mod"]
    src = inspect.getsource(mod)
    tree = ast.parse(src)
    own = row["error"]
    mutable_imports: list[str] = []
    for n in tree.body:
        if isinstance(n, ast.ImportFrom) and n.module and (n.module.startswith("refurb.") or n.level > 0):
            # any mutable container that lives in another refurb module — the shared helpers
            # (refurb.checks.common, refurb.types, ...) included — is state several checks could share
            if n.module == mod.__name__:
                continue
            for a in n.names:
                obj = getattr(mod, a.asname or a.name, None)
                if isinstance(obj, MUTABLE):
                    mutable_imports.append(f"{n.module}.{a.name}")
    module_state = []
    for n in tree.body:
        if isinstance(n, (ast.Assign, ast.AnnAssign)):
            targets = n.targets if isinstance(n, ast.Assign) else [n.target]
            for t in targets:
                if isinstance(t, ast.Name) and isinstance(getattr(mod, t.id, None), MUTABLE):
                    module_state.append(t.id)
    node_writes: list[str] = []
    errors_other: list[str] = []
    foreign: list[str] = []

    def root(e: ast.AST) -> str | None:
        while isinstance(e, (ast.Attribute, ast.Subscript)):
            e = e.value
        return e.id if isinstance(e, ast.Name) else None

    for fn in ast.walk(tree):
        if not isinstance(fn, (ast.FunctionDef, ast.AsyncFunctionDef)):
            continue
        # names bound in this function to freshly created objects (calls, displays, comprehensions)
        fresh: set[str] = set()
        for n in ast.walk(fn):
            if isinstance(n, (ast.Assign, ast.AnnAssign)) and isinstance(n.value, (ast.Call, ast.List, ast.Dict, ast.Set, ast.ListComp, ast.DictComp, ast.SetComp)):
                for t in n.targets if isinstance(n, ast.Assign) else [n.target]:
                    if isinstance(t, ast.Name):
                        fresh.add(t.id)
        parents: dict[int, ast.AST] = {}
        for n in ast.walk(fn):
            for c in ast.iter_child_nodes(n):
                parents[id(c)] = n
        has_errors = any(a.arg == "errors" for a in fn.args.args)
        for n in ast.walk(fn):
            if isinstance(n, (ast.Assign, ast.AugAssign, ast.AnnAssign)):
                targets = n.targets if isinstance(n, ast.Assign) else [n.target]
                for t in targets:
                    if isinstance(t, (ast.Attribute, ast.Subscript)):
                        r = root(t)
                        if r in ("self", "cls") or r in fresh or r in module_state:
                            continue
                        node_writes.append(ast.unparse(t))
            if has_errors and isinstance(n, ast.Name) and n.id == "errors" and isinstance(n.ctx, ast.Load):
                p = parents.get(id(n))
                ok = False
                if isinstance(p, ast.Attribute) and p.attr in ("append", "extend") and isinstance(parents.get(id(p)), ast.Call):
                    ok = True
                elif isinstance(p, ast.Call) and n in p.args:
                    # handing the list to a helper / visitor class that appends is fine; handing it to a builtin is a read
                    import builtins

                    fname = p.func.id if isinstance(p.func, ast.Name) else None
                    ok = not (fname is not None and hasattr(builtins, fname) and getattr(mod, fname, None) in (None, getattr(builtins, fname)))
                elif isinstance(p, ast.Assign) and any(isinstance(t, ast.Attribute) and isinstance(t.value, ast.Name) and t.value.id == "self" for t in p.targets):
                    ok = True  # a private visitor keeps a reference to append to
                elif isinstance(p, ast.keyword):
                    ok = True
                if not ok:
                    errors_other.append(ast.unparse(p) if p is not None else "errors")
            if isinstance(n, ast.Call):
                f = n.func
                name = None
                if isinstance(f, ast.Attribute) and f.attr == "from_node" and isinstance(f.value, ast.Name):
                    name = f.value.id
                elif isinstance(f, ast.Name):
                    name = f.id
                if name:
                    obj = getattr(mod, name, None)
                    if isinstance(obj, type) and issubclass(obj, Error) and obj is not Error and obj is not own:
                        foreign.append(name)
    return {
        "module": mod.__name__,
        "mutable_imports": sorted(set(mutable_imports)),
        "node_writes": sorted(set(node_writes)),
        "errors_other": sorted(set(errors_other)),
        "foreign": sorted(set(foreign)),
        "module_state": sorted(set(module_state)),
    }


def locality_rows() -> list[dict[str, Any]]:
    return [scan_module(r) for r in extract.catalogue_rows()]


@extract.register("Locality")
def gen_locality() -> str:
    rows = locality_rows()
    items = [
        "  { module := %s, mutableImports := %s, nodeWrites := %s, errorsOtherUses := %s, foreignErrorClasses := %s, moduleState := %s }"
        % (lstr(r["module"]), lstrs(r["mutable_imports"]), lstrs(r["node_writes"]), lstrs(r["errors_other"]), lstrs(r["foreign"]), lstrs(r["module_state"]))
        for r in rows
    ]
    return (
        HEADER
        + "import RefurbVerif.Model.Visitor\nnamespace RefurbVerif.Generated\n\n"
        + "/-- per check module: what it shares with, writes to, or reads from outside itself (ast scan of the source) -/\n"
        + "def locality : List ModLocality := [\n" + ",\n".join(items) + "\n]\n\nend RefurbVerif.Generated\n"
    )
