"""C11 — output is deterministic: independent of file order, grouping and history.

Lean: Props/C11.lean (documented order; sorted permutations are unique => order / grouping independence;
key ties iff same file, line, column, code; line-cache history model).
Correspondence: model `sort` of the shuffled real report = the real report; model merge of the
per-group reports = the joint report.
Oracle (implementation): byte-identical stdout + exit status across permutations of the file arguments,
partitions into groups, both sort modes, cold / warm / corrupted mypy cache, concurrent runs in one
directory, and several runs inside one process (repetition, an edit between runs, interleaved file sets)
compared with fresh processes. mypy's cache and the OS are exercised, not modelled (partial).
"""

from __future__ import annotations

import itertools
import json
import shutil
import subprocess
import textwrap
from concurrent.futures import ThreadPoolExecutor
from pathlib import Path
from typing import Any

from .. import core

GENERATED = ["History", "Globals"]

FILES = {
    "a.py": 'x = int(0)\ny = list()\nprint("")\nnames = ["a"]\nz = not not x\ndd = {"a": 1}\ng1 = dd.get("a", None)\ng2 = int("7", 10)\ng3 = dd.setdefault("k", None)\ng4 = round(1.5, 0)\n',
    "b.py": 'x = int(0)\nimport os\np = os.path.join("a", "b")\nq = [e for e in (1, 2)]\n',
    "c.py": (
        "from itertools import chain\n"
        "def f(a: int, b: int) -> int: return a\n"
        "pairs = [(1, 2)]\n"
        "r1 = [f(a, b) for a, b in pairs]\n"
        "rows = [[1], [2]]\n"
        "flat = [y for x in rows for y in x]\n"
        "s = f\"{str(1)}\"\n"
        "d1 = {'a': 1}\n"
        "d2 = {**d1, 'b': 2}\n"
        "name = 'abc'\n"
        "if name.startswith('a'):\n    name = name[1:]\n"
    ),
    # the same library call reached through differently shaped receivers in different files: whatever a check learns from one
    # call (tables it fills in, nodes it annotates) must not change what it says about the other
    "d.py": "v = 1\nh1 = dict(a=1).get(\"a\", None)\nh2 = int(\"7\", 10)\nh3 = {}.setdefault(\"k\", None)\n",
    "e.py": 'k = bool(True)  # noqa\nm = str("")  # noqa: FURB123\nn = int(1)\n',
    "sub/f.py": "def g(p):\n    with open(p) as fh:\n        return fh.read()\n",
}

WORKER = textwrap.dedent(
    """
    import gc, json, sys
    from refurb.main import run_refurb, format_errors
    from refurb.settings import load_settings
    plan = json.load(open(sys.argv[1]))
    out = []
    for step in plan:
        if step["op"] == "run":
            s = load_settings(step["argv"])
            if step.get("color"):
                s.color = True  # what a terminal gets
            errs = run_refurb(s)
            out.append(format_errors(errs, s))
            del errs
            gc.collect()
        elif step["op"] == "write":
            open(step["path"], "w").write(step["text"])
    json.dump(out, open(sys.argv[2], "w"))
    """
)


def write_files(d: Path, files: dict[str, str]) -> None:
    for rel, src in files.items():
        p = d / rel
        p.parent.mkdir(parents=True, exist_ok=True)
        p.write_text(src)
    (d / "pyproject.toml").write_text("")


def cli(d: Path, argv: list[str]) -> tuple[int, str, str]:
    return core.refurb_cli([*argv, "--enable-all", "--quiet"], cwd=d)


def joint_lines(out: str) -> list[str]:
    return [l for l in out.split("\n") if core.DIAG_RE.match(l)]


def in_process(d: Path, plan: list[dict[str, Any]], tag: str) -> list[str]:
    (d / f"_plan_{tag}.json").write_text(json.dumps(plan))
    (d / "_worker.py").write_text(WORKER)
    p = subprocess.run([core.PY, "_worker.py", f"_plan_{tag}.json", f"_out_{tag}.json"], cwd=d, capture_output=True, text=True, timeout=900, env=core.py_env())
    if p.returncode != 0:
        raise RuntimeError("in-process worker failed: " + p.stderr[-1500:])
    return json.loads((d / f"_out_{tag}.json").read_text())


def sort_key(x: dict[str, Any], by: str) -> tuple:
    if by == "error":
        return (x["prefix"], x["code"], x["file"], x["line"], x["col"])
    return (x["file"], x["line"], x["col"], x["prefix"], x["code"])


def run(ctx) -> None:
    res = ctx.res
    rng = ctx.rng("c11")
    names = list(FILES)
    res.rule = (
        "cases are run configurations over a 6-file probe set: permutations of the file arguments (quick 13 sampled + identity, thorough all 720) x "
        "{sort by filename, by error}; partitions into 2-3 groups; cold/warm/corrupted cache; 3 concurrent runs; in-process histories (10 repetitions, "
        "edit between runs, interleaved file sets); clone corpus: byte-identical copies of refurb's idiom files in one run, three orders. Non-trivial = the configuration differs from the reference run (identity order, one group, cold "
        "cache, fresh process); distinct = distinct configuration"
    )
    how = "write harness/props/c11.py:FILES into an empty directory with an empty pyproject.toml; run python -m refurb ARGV --enable-all --quiet"
    with core.scratch("rv-c11-") as root:
        d = root / "w"
        d.mkdir()
        write_files(d, FILES)
        ref: dict[str, tuple[int, str, str]] = {}
        for by in ("filename", "error"):
            ref[by] = cli(d, [*names, "--sort", by])
            rc, out, err = ref[by]
            if err.strip():
                res.violate("stderr output on the probe set", {"kind": "stderr"}, {"stderr": err[-500:], "how": how})
                return
            diags, other = core.parse_plain(out)
            res.bump("diagnostics", len(diags))
            keys = [sort_key(x, by) for x in diags]
            res.case(("documented-order", by))
            if keys != sorted(keys):
                i = next(i for i in range(len(keys) - 1) if keys[i] > keys[i + 1])
                res.violate(f"the report is not in the documented order (--sort {by})", {"kind": "documented-order", "by": by}, {"argv": [*names, "--sort", by], "out_of_order": [diags[i], diags[i + 1]], "how": how})
        # ---- permutations
        perms = list(itertools.permutations(names))
        if ctx.quick:
            perms = [perms[0]] + rng.sample(perms[1:], 13)
        jobs = [(p, by) for p in perms for by in ("filename", "error")]

        def one(job):
            p, by = job
            return job, cli(d, [*p, "--sort", by])

        with ThreadPoolExecutor(16) as ex:
            results = list(ex.map(one, jobs))
        for (p, by), (rc, out, err) in results:
            res.case(("perm", p, by), nontrivial=list(p) != names)
            res.bump("perm_runs")
            if (rc, out) != ref[by][:2] or err.strip():
                res.violate(
                    f"permuting the file arguments changes the report (--sort {by})",
                    {"kind": "perm", "by": by},
                    {"argv_reference": [*names, "--sort", by], "argv": [*p, "--sort", by], "reference": ref[by][1][:600], "observed": out[:600], "rc": [ref[by][0], rc], "stderr": err[-300:], "how": how},
                )
        # ---- partitions: groups checked separately, merged by the model, vs the joint run
        parts = [[names[:3], names[3:]], [names[:1], names[1:4], names[4:]], [[n] for n in names]]
        if not ctx.quick:
            for _ in range(10):
                sh = names[:]
                rng.shuffle(sh)
                k = rng.randint(1, 5)
                parts.append([sh[:k], sh[k:]])
        reqs, metas = [], []
        for part in parts:
            with ThreadPoolExecutor(8) as ex:
                outs = list(ex.map(lambda g: cli(d, [*g, "--sort", "filename"]), part))
            items = []
            bad = False
            for rc, out, err in outs:
                diags, other = core.parse_plain(out)
                if err.strip() or other:
                    bad = True
                items += [{"k": "diag", "file": x["file"], "line": x["line"], "col": x["col"] - 1, "prefix": x["prefix"], "code": x["code"], "msg": x["msg"]} for x in diags]
            res.case(("partition", json.dumps(part)))
            res.bump("partition_runs", len(part))
            joint, _ = core.parse_plain(ref["filename"][1])
            want = [(x["file"], x["line"], x["col"], x["prefix"], x["code"], x["msg"]) for x in joint]
            got_sorted = sorted([(x["file"], x["line"], x["col"] + 1, x["prefix"], x["code"], x["msg"]) for x in items], key=lambda t: t[:5])
            if bad or got_sorted != sorted(want, key=lambda t: t[:5]):
                res.violate("checking files group by group gives different diagnostics than checking them together", {"kind": "partition"}, {"groups": part, "together": len(want), "separately": len(items), "how": how})
            reqs.append({"verb": "sort", "items": items, "by": "filename"})
            metas.append((part, want))
        if ctx.driver.available():
            for a, (part, want) in zip(ctx.driver.batch(reqs), metas):
                model = [(x["file"], x["line"], x["col"] + 1, x["prefix"], x["code"], x["msg"]) for x in a]
                if model != want:
                    res.disagree("merge", {"groups": part}, model[:3], want[:3])
            # model sort of the shuffled real report = the real report
            joint, _ = core.parse_plain(ref["error"][1])
            items = [{"k": "diag", "file": x["file"], "line": x["line"], "col": x["col"] - 1, "prefix": x["prefix"], "code": x["code"], "msg": x["msg"]} for x in joint]
            sh = items[:]
            rng.shuffle(sh)
            a = ctx.driver.batch([{"verb": "sort", "items": sh, "by": "error"}])[0]
            # ties (same key) keep input order in both; compare keys + multiset
            if [sort_key({**x, "col": x["col"]}, "error") for x in a] != [sort_key(x, "error") for x in items]:
                res.disagree("sort-error-mode", {"n": len(items)}, a[:2], items[:2])
        else:
            res.disagreements.append({"where": "driver", "reason": "driver executable not built"})

        # ---- file names that differ only in case / only under a normalisation: still two files, the report must not depend on
        # the order they are given in, and must be in the documented order
        tw = d / "twins"
        tw.mkdir(parents=True, exist_ok=True)
        (tw / "pyproject.toml").write_text("")
        body = 'x = int(0)\ny = list()\nprint("")\n'
        twin_sets = [["Util.py", "util.py"], ["stra\u00dfe.py", "strasse.py"], ["B.py", "a1.py", "b.py", "A1.py"]]
        for ts in twin_sets:
            for n in ts:
                (tw / n).write_text(body)
        tjobs = []
        for ts in twin_sets:
            for by in ("filename", "error"):
                orders = [ts, ts[::-1]] + ([ts[1:] + ts[:1], ts[2:] + ts[:2]] if len(ts) > 2 else [])
                tjobs.append((ts, by, orders))
        with ThreadPoolExecutor(8) as ex:
            touts = list(ex.map(lambda j: [cli(tw, [*o, "--sort", j[1]]) for o in j[2]], tjobs))
        for (ts, by, orders), outs in zip(tjobs, touts):
            res.case(("twins", tuple(ts), by))
            res.bump("twin_runs", len(orders))
            first = outs[0]
            diags, _ = core.parse_plain(first[1])
            keys = [sort_key(x, by) for x in diags]
            if len({x["file"] for x in diags}) != len(ts):
                res.notes.append(f"twin files {ts}: not all diagnosed (file system not case-sensitive?): skipped")
                continue
            if keys != sorted(keys):
                res.violate(f"the report for files {ts} is not in the documented order (--sort {by})", {"kind": "documented-order", "by": by, "files": "twins"}, {"cwd_files": {n: body for n in ts}, "argv": [*orders[0], "--sort", by], "stdout": first[1][:800], "how": "write the files into an empty directory and run python -m refurb <argv>"})
            for o, out in zip(orders[1:], outs[1:]):
                if out[:2] != first[:2]:
                    res.violate(
                        f"permuting the file arguments changes the report for files whose names differ only in case/normalisation (--sort {by})",
                        {"kind": "perm", "by": by, "files": "twins"},
                        {"cwd_files": {n: body for n in ts}, "argv_reference": [*orders[0], "--sort", by], "argv": [*o, "--sort", by], "reference": first[1][:600], "observed": out[1][:600], "how": "write the files into an empty directory and run python -m refurb with both argument orders"},
                    )
                    break

        # ---- an awkward set: a file whose traversal is cut short (refurb suppresses the RecursionError of a very long expression,
        # issue #302) AFTER a diagnostic was found, and files with the same name in sibling directories (no __init__.py):
        # one by one, together, and together in other orders — each file's diagnostics are its own and the same every time
        aw = d / "awkward"
        deep = "u = int(0)\nw = " + " + ".join(["1"] * 700) + "\nv = list()\n"
        aw_files = {"first.py": 'x = int(0)\ny = list()\n', "deep.py": deep, "left/util.py": 'x = bool(True)\n', "right/util.py": 'y = str("")\nz = int(0)\n',
                    "last.py": 'print("")\n', "sp ace.py": "q = list()\n"}
        # expressions of a size where only PART of the file is traversed before the limit is hit (the window depends on the frames per term)
        for terms in (240, 265, 290, 315):
            aw_files[f"part{terms}.py"] = "u = int(0)\nw = " + " + ".join(["1"] * terms) + "\nv = list()\n"
        write_files(aw, aw_files)
        aw_names = list(aw_files)
        orders = [aw_names, aw_names[::-1], aw_names[2:] + aw_names[:2], [n for n in aw_names if n.startswith("part")] + [n for n in aw_names if not n.startswith("part")]] + ([] if ctx.quick else [rng.sample(aw_names, len(aw_names)) for _ in range(6)])
        with ThreadPoolExecutor(12) as ex:
            solo_f = [ex.submit(cli, aw, [n, "--sort", "filename"]) for n in aw_names]
            joint_f = [ex.submit(cli, aw, [*o, "--sort", "filename"]) for o in orders]
            solo = [f.result() for f in solo_f]
            joint = [f.result() for f in joint_f]
        how_aw = "write the files into an empty directory with an empty pyproject.toml; run python -m refurb <files> --enable-all --quiet --sort filename"
        want_lines: list[str] = []
        aw_ok = True
        for n, (rc, out, err) in zip(aw_names, solo):
            res.case(("awkward-solo", n))
            dg, other = core.parse_plain(out)
            if err.strip() or other or any(x["file"] != n for x in dg):
                aw_ok = False
                res.violate(f"checking {n} on its own does not give a clean report about that file", {"kind": "awkward-solo", "file": n},
                            {"files": aw_files if n != "deep.py" else {**aw_files, "deep.py": "u = int(0); w = 1 + 1 + ... (700 terms); v = list()"}, "argv": [n], "stdout": out[:600], "stderr": err[-400:], "how": how_aw})
            want_lines += [l for l in out.split("\n") if core.DIAG_RE.match(l)]
        for o, (rc, out, err) in zip(orders, joint):
            res.case(("awkward-joint", tuple(o)))
            res.bump("awkward_runs")
            got_lines = [l for l in out.split("\n") if core.DIAG_RE.match(l)]
            if aw_ok and (sorted(got_lines) != sorted(want_lines) or err.strip() or got_lines != joint_lines(joint[0][1])):
                extra = sorted(set(got_lines) - set(want_lines))[:4]
                missing = sorted(set(want_lines) - set(got_lines))[:4]
                res.violate(
                    "checking independent files together gives other diagnostics than checking them one by one (or the order of the arguments matters)",
                    {"kind": "partition", "files": "awkward"},
                    {"files": {**aw_files, "deep.py": "u = int(0)\\nw = 1 + 1 + ... (700 terms)\\nv = list()\\n"}, "argv": o, "only_together": extra, "only_one_by_one": missing,
                     "stdout_head": out[:500], "stderr": err[-300:], "how": how_aw},
                )
                break

        # ---- fresh processes with different string-hash seeds: nothing in a report (positions, order, message TEXT) may depend on
        # the iteration order of a set or dict keyed by strings; the file collects idioms where a check MERGES several operands
        hs = d / "hashseed"
        hs.mkdir()
        # several amend tables naming the SAME codes / categories for different paths: whatever collection refurb keeps them in,
        # its iteration order (a function of the string-hash seed) must not decide which of them applies
        (hs / "pyproject.toml").write_text(
            "[tool.refurb]\n"
            + "".join(f'\n[[tool.refurb.amend]]\npath = "{p_}"\nignore = {ig}\n' for p_, ig in [
                ("legacy", '["FURB109", "FURB123"]'), ("vendor", '["FURB109", "#readability"]'), ("third/party", '["FURB109", "FURB123", "FURB105"]'),
                ("legacy/sub", '["FURB105"]'), ("vendor", '["FURB123"]')])
        )
        amend_body = 'x = 1 in [1, 2]\ny = int(0)\nprint("")\nz = not not x\n'
        for rel_ in ("legacy/a.py", "legacy/sub/b.py", "vendor/c.py", "third/party/d.py", "third/e.py", "free.py"):
            (hs / rel_).parent.mkdir(parents=True, exist_ok=True)
            (hs / rel_).write_text(amend_body)
        (hs / "merge.py").write_text(
            "import os\n"
            "def m(line: str, s: str, x: object, n: int, d1: dict[str, int], d2: dict[str, int], names: list[str]) -> None:\n"
            "    a = line.rstrip(\"\\n\").rstrip(\" \\t\\r;,\")\n"
            "    b = s.lstrip(\"ab\").lstrip(\"cdefghij\")\n"
            "    c = s.strip(\"xyz\").strip(\"uvw012\")\n"
            "    e = isinstance(x, (int, str)) or isinstance(x, (float, bytes, bytearray))\n"
            "    f = s.startswith(\"alpha\") or s.startswith(\"beta\") or s.startswith(\"gamma\")\n"
            "    g = n == 1 or n == 2 or n == 3 or n == 4\n"
            "    h = {**d1, **d2, \"k\": 1, \"j\": 2}\n"
            "    i = s in (\"q\", \"r\") or s in {\"t\", \"u\", \"v\", \"w\"}\n"
            "    names.append(a); names.append(b); names.append(c)\n"
            "    print(e, f, g, h, i, os.path.join(\"p\", s), os.path.splitext(s)[1])\n"
        )
        (hs / "clone_159.py").write_bytes((core.REPO / "test" / "data" / "err_159.py").read_bytes())
        seeds = ["0", "1", "2", "3", "42"] if ctx.quick else [str(k) for k in range(12)]
        with ThreadPoolExecutor(8) as ex:
            houts = list(ex.map(lambda sd: core.refurb_cli(["merge.py", "clone_159.py", "legacy", "vendor", "third", "free.py", "--enable-all", "--quiet"], cwd=hs, env_extra={"PYTHONHASHSEED": sd}), seeds))
        for sd, o in zip(seeds[1:], houts[1:]):
            res.case(("hashseed", sd))
            res.bump("hashseed_runs")
            if o[:2] != houts[0][:2]:
                a_l, b_l = houts[0][1].split("\n"), o[1].split("\n")
                diff = [(x, y) for x, y in zip(a_l, b_l) if x != y][:3]
                res.violate(
                    f"the report depends on the interpreter's string-hash seed (PYTHONHASHSEED={seeds[0]} vs {sd}): {diff[:1]}",
                    {"kind": "hash-seed-dependent"},
                    {"files": {"merge.py": (hs / "merge.py").read_text(), "pyproject.toml": (hs / "pyproject.toml").read_text(), "legacy/a.py, legacy/sub/b.py, vendor/c.py, third/party/d.py, third/e.py, free.py": amend_body}, "argv": ["merge.py", "legacy", "vendor", "third", "free.py", "--enable-all", "--quiet"], "env": {"PYTHONHASHSEED": [seeds[0], sd]}, "differing_lines": diff,
                     "how": "write merge.py into an empty directory (plus an empty pyproject.toml) and run `PYTHONHASHSEED=<n> python -m refurb merge.py --enable-all --quiet` with both values"},
                )
                break

        # ---- cache states and concurrency
        warm = cli(d, [*names, "--sort", "filename"])
        res.case(("cache", "warm"))
        if warm[:2] != ref["filename"][:2]:
            res.violate("a second run (warm mypy cache) gives a different report", {"kind": "cache", "state": "warm"}, {"how": how, "first": ref["filename"][1][:400], "second": warm[1][:400]})
        cache = d / ".mypy_cache"
        n_corrupt = 0
        if cache.exists():
            for f in list(cache.rglob("*.json"))[:50]:
                f.write_text("{ this is not json")
                n_corrupt += 1
        corrupted = cli(d, [*names, "--sort", "filename"])
        res.case(("cache", "corrupted", n_corrupt))
        if corrupted[:2] != ref["filename"][:2] or corrupted[2].strip():
            # deliberately damaged cache files are outside the property's quantifier ("cold or warm"): recorded, not a violation
            res.notes.append("a run over a deliberately corrupted .mypy_cache differs: " + corrupted[1][:160].replace("\n", " | "))
            res.bump("corrupted_cache_differs")
        shutil.rmtree(cache, ignore_errors=True)
        with ThreadPoolExecutor(4) as ex:
            conc = list(ex.map(lambda _: cli(d, [*names, "--sort", "filename"]), range(3 if ctx.quick else 6)))
        for i, c in enumerate(conc):
            res.case(("concurrent", i))
            if c[:2] != ref["filename"][:2] or c[2].strip():
                res.violate("concurrent runs sharing one directory disagree with a solo run", {"kind": "concurrent"}, {"how": how + " (several at once)", "observed": c[1][:300], "stderr": c[2][-300:]})
        # the same with side outputs: every run asks for its OWN statistics file; whatever intermediate files a run uses must be its own too
        n_conc = 6 if ctx.quick else 12
        with ThreadPoolExecutor(n_conc) as ex:
            conc2 = list(ex.map(lambda k_: cli(d, [*names, "--sort", "filename", "--timing-stats", f"stats_{k_}.json"]), range(n_conc)))
        for i, c in enumerate(conc2):
            res.case(("concurrent-timing-stats", i))
            made = (d / f"stats_{i}.json").exists()
            if c[:2] != ref["filename"][:2] or c[2].strip() or not made:
                res.violate(
                    "concurrent runs in one directory, each with its own --timing-stats file, disagree with a solo run (or lose their statistics file)",
                    {"kind": "concurrent", "with": "timing-stats"},
                    {"how": how + f" --timing-stats stats_<k>.json, {n_conc} at once", "observed": c[1][:300], "stderr": c[2][-400:], "stats_file_written": made},
                )
                break
        for k_ in range(n_conc):
            (d / f"stats_{k_}.json").unlink(missing_ok=True)

        # ---- several runs in one process
        argv = [*names, "--enable-all", "--quiet"]
        fresh_out = ref["filename"][1].rstrip("\n")
        plan = [{"op": "run", "argv": argv} for _ in range(6 if ctx.quick else 40)]
        outs = in_process(d, plan, "rep")
        for i, o in enumerate(outs):
            res.case(("in-process-repeat", i), nontrivial=i > 0)
            if o != fresh_out:
                res.violate(f"run #{i + 1} inside one process differs from a fresh process", {"kind": "same-process-repeat"}, {"run": i + 1, "fresh": fresh_out[:500], "observed": o[:500], "how": "call refurb.main.run_refurb(load_settings(argv)) repeatedly in one interpreter (harness/props/c11.py:WORKER)"})
                break
        # edit between runs: suppress one diagnostic with a comment
        edited = FILES["a.py"].replace("x = int(0)\n", "x = int(0)  # noqa\n")
        d2 = root / "w2"
        d2.mkdir()
        write_files(d2, {**FILES, "a.py": edited})
        fresh_edited = cli(d2, names)[1].rstrip("\n")
        plan = [{"op": "run", "argv": argv}, {"op": "write", "path": "a.py", "text": edited}, {"op": "run", "argv": argv}]
        outs = in_process(d, plan, "edit")
        (d / "a.py").write_text(FILES["a.py"])
        res.case(("in-process-edit", "noqa"))
        if outs[1] != fresh_edited:
            res.violate(
                "after a file is edited between two runs in one process, the second run does not see the edit (stale source lines for `# noqa`)",
                {"kind": "same-process-edit"},
                {"plan": "run; append `# noqa` to line 1 of a.py; run", "second_run": outs[1][:400], "fresh_process_on_edited_file": fresh_edited[:400], "how": "harness/props/c11.py:WORKER with that plan"},
            )
        # interleaved file sets X, Y, X
        plan = [{"op": "run", "argv": ["a.py", "c.py", "--enable-all", "--quiet"]}, {"op": "run", "argv": ["b.py", "e.py", "--enable-all", "--quiet"]}, {"op": "run", "argv": ["a.py", "c.py", "--enable-all", "--quiet"]}]
        outs = in_process(d, plan, "xyx")
        res.case(("in-process-interleave", "XYX"))
        if outs[0] != outs[2]:
            res.violate("checking X, then Y, then X again in one process gives two different reports for X", {"kind": "same-process-interleave"}, {"first": outs[0][:400], "third": outs[2][:400]})
        # a run that FAILS in between (mypy refuses a half-typed file, a file is missing, a bad mypy flag): whatever the failing run
        # left behind in the process (interpreter settings, caches, half-built state) must not change the next good run — the
        # partially traversed files are the sensitive ones (how far a traversal gets depends on the recursion limit in force)
        aw_x = ["first.py", "part240.py", "part265.py", "part290.py", "part315.py", "deep.py", "last.py"]
        argv_x = [*aw_x, "--enable-all", "--quiet"]
        plan = [
            {"op": "run", "argv": argv_x},
            {"op": "write", "path": "halftyped.py", "text": "def broken(:\n"},
            {"op": "run", "argv": ["first.py", "halftyped.py", "--enable-all", "--quiet"]},
            {"op": "run", "argv": ["first.py", "no_such_file.py", "--enable-all", "--quiet"]},
            {"op": "run", "argv": ["first.py", "--enable-all", "--quiet", "--", "--no-such-mypy-flag"]},
            {"op": "run", "argv": argv_x},
        ]
        outs = in_process(aw, plan, "failbetween")
        (aw / "halftyped.py").unlink(missing_ok=True)
        res.case(("in-process-failing-run-between", len(plan)))
        if outs[0] != outs[-1]:
            a_l, b_l = set(outs[0].split("\n")), set(outs[-1].split("\n"))
            res.violate(
                "the same files give a different report after a FAILED run in the same process (syntax error / missing file / bad mypy flag in between)",
                {"kind": "same-process-after-failed-run"},
                {"plan": "run X; run with a half-typed file; run with a missing file; run with a bad mypy flag; run X again (X = the awkward set: part*.py are `u = int(0); w = 1 + 1 + ... (240-315 terms); v = list()`)",
                 "only_in_first": sorted(a_l - b_l)[:5], "only_in_last": sorted(b_l - a_l)[:5], "how": "harness/props/c11.py:WORKER with that plan, cwd = the awkward directory"},
            )
        # ---- clones: a byte-identical copy of a file, checked in the same run, must get the same report
        # (whatever state a check keeps between files — id-sets, position sets, caches — must not leak)
        d3 = root / "clones"
        d3.mkdir()
        (d3 / "pyproject.toml").write_text("")
        data = sorted((core.REPO / "test" / "data").glob("err_*.py"))
        picked = data if not ctx.quick else rng.sample(data, min(36, len(data)))
        if core.REPO.joinpath("test/data/err_140.py") not in picked:
            picked = [*picked, core.REPO / "test" / "data" / "err_140.py"]
        originals, clones = [], []
        for f in picked:
            (d3 / f"o_{f.name}").write_bytes(f.read_bytes())
            (d3 / f"c_{f.name}").write_bytes(f.read_bytes())
            originals.append(f"o_{f.name}")
            clones.append(f"c_{f.name}")

        def per_file(out: str) -> dict[str, list[tuple]]:
            diags, _ = core.parse_plain(out)
            m: dict[str, list[tuple]] = {}
            for x in diags:
                m.setdefault(x["file"][2:], []).append((x["file"][:2], x["line"], x["col"], x["prefix"], x["code"], x["msg"].replace(x["file"], "")))
            return m

        orders = [("originals-then-clones", originals + clones), ("interleaved", [n for pair in zip(originals, clones) for n in pair]), ("clones-reversed-first", clones[::-1] + originals)]
        with ThreadPoolExecutor(4) as ex:
            outs = list(ex.map(lambda o: cli(d3, o[1]), orders))
        solo = cli(d3, originals)
        solo_map = {k: [t[1:] for t in v] for k, v in per_file(solo[1]).items()}
        for (oname, order), (rc, out, err) in zip(orders, outs):
            res.case(("clones", oname, len(order)))
            res.bump("clone_files", len(order))
            if err.strip():
                res.violate("stderr output on the clone corpus", {"kind": "stderr", "where": "clones"}, {"stderr": err[-400:]})
                continue
            m = per_file(out)
            for name in sorted(set(m) | set(solo_map)):
                o = [t[1:] for t in m.get(name, []) if t[0] == "o_"]
                c = [t[1:] for t in m.get(name, []) if t[0] == "c_"]
                want = solo_map.get(name, [])
                if o != want or c != want:
                    who = "clone" if c != want else "original"
                    diff = [t for t in want if t not in (c if who == "clone" else o)][:3] + [t for t in (c if who == "clone" else o) if t not in want][:3]
                    res.violate(
                        f"a byte-identical copy of test/data/{name} checked in the same run ({oname}) gets a different report than the file alone ({who} differs)",
                        {"kind": "clone-differs", "codes": sorted({f'{t[2]}{t[3]}' for t in diff})[:3]},
                        {"how": f"copy test/data/{name} to o_{name} and c_{name} (and the other picked files likewise) into an empty directory; run python -m refurb FILES --enable-all --quiet in the order '{oname}'", "files_in_run": len(order), "file": name, "differing_diagnostics": diff, "alone": want[:6]},
                    )
                    break
        whole_run_extension(ctx, res, root, FILES, aw_files)
    res.sample({"files": names, "reference_report_head": ref["filename"][1][:300]})
    res.assumptions += [
        "mypy's cache handling (incremental flags set in main.py:161-163) and concurrent processes are exercised, not modelled: C11 is partial there",
        "FreshIds: CPython object ids remembered by the five module-level id-sets of checks do not collide with live nodes of a later run — searched by 10/40 repeated in-process runs, not proved",
    ]
    res.not_proved += ["cold/warm/corrupted mypy cache", "concurrent runs", "object-id reuse across runs in one process"]


def replay(path) -> int:
    print(Path(path).read_text())
    return 0


# =====================================================================================================================
# Whole-run extension: regrouping on the real reports of random partitions, and generated in-process histories
# (Props/C11 `run_grouping_*`, `run_one_by_one`, `history_independent`; Model/History.lean; Generated/Globals.lean)

WORKER_H = textwrap.dedent(
    """
    import gc, json, sys, zlib
    import refurb.main as m
    from refurb.main import format_errors
    from refurb.settings import load_settings

    real = m.get_source_lines
    log = []

    class Spy:
        # stands where `get_source_lines` stands: every lookup the `# noqa` filter makes is recorded with what it got
        def __call__(self, path):
            lines = real(path)
            log.append([path, zlib.crc32("\\n".join(lines).encode("utf8", "surrogatepass"))])
            return lines

        def __getattr__(self, name):
            return getattr(real, name)

    m.get_source_lines = Spy()

    def now(path):
        f = getattr(real, "__wrapped__", real)
        try:
            return zlib.crc32("\\n".join(f(path)).encode("utf8", "surrogatepass"))
        except Exception:
            return -1

    plan = json.load(open(sys.argv[1]))
    limit0 = sys.getrecursionlimit()
    out = []
    for step in plan:
        if step["op"] == "write":
            open(step["path"], "w").write(step["text"])
            continue
        if step["op"] == "unlink":
            import os
            os.unlink(step["path"])
            continue
        del log[:]
        rec = {}
        try:
            s = load_settings(step["argv"])
            errs = m.run_refurb(s)
            rec["out"] = format_errors(errs, s)
            rec["rc"] = 1 if errs else 0
            del errs
        except BaseException as e:
            rec["raised"] = type(e).__name__
        rec["lookups"] = [[p, c, now(p)] for p, c in log]
        rec["digits"] = sys.get_int_max_str_digits() if hasattr(sys, "get_int_max_str_digits") else 0
        rec["limit_moved"] = sys.getrecursionlimit() - limit0
        out.append(rec)
        gc.collect()
    json.dump(out, open(sys.argv[2], "w"))
    """
)

BOOM_PLUGIN = textwrap.dedent(
    """
    from dataclasses import dataclass
    from mypy.nodes import CallExpr
    from refurb.error import Error


    @dataclass
    class ErrorInfo(Error):
        prefix = "XYZ"
        code = 999
        msg: str = "boom"


    def check(node: CallExpr, errors: list[Error]) -> None:
        raise RuntimeError("a check that raises")
    """
)


def to_items(out: str) -> tuple[list[dict[str, Any]], list[str]]:
    diags, other = core.parse_plain(out)
    return [{"k": "diag", "file": x["file"], "line": x["line"], "col": x["col"] - 1, "prefix": x["prefix"], "code": x["code"], "msg": x["msg"]} for x in diags], other


def gen_history(rng, hid: int, base: dict[str, str], pool: list[str], n_steps: int) -> list[dict[str, Any]]:
    """a sequence of steps over the file set `base`: runs with varying file subsets and settings, edits, and runs that fail"""
    settings_variants = [[], ["--sort", "error"], ["--disable", "FURB123"], ["--ignore", "FURB105"], ["--python-version", "3.9"], ["--format", "github"]]
    files = dict(base)
    steps: list[dict[str, Any]] = []
    kinds = ["run", "run", "edit", "fail", "run", "settings", "edit", "fail"]
    rng.shuffle(kinds)
    kinds = ["run"] + kinds[: n_steps - 2] + ["run"]
    last_argv: list[str] | None = None
    for k in kinds:
        live = [n for n in pool if n in files]
        if k in ("run", "settings"):
            sub = sorted(rng.sample(live, rng.randint(2, min(5, len(live)))))
            if k == "run" and last_argv is not None and rng.random() < (0.8 if steps and steps[-1]["op"] == "write" else 0.4):
                argv = last_argv  # the same run again: the case a cache is written for
            else:
                argv = [*sub, *(rng.choice(settings_variants) if k == "settings" or rng.random() < 0.3 else []), "--enable-all", "--quiet"]
            last_argv = argv
            steps.append({"op": "run", "argv": argv, "expect": "good"})
        elif k == "edit":
            # a file the last run read, if there is one: what a stale cache, or a table keyed by position, would get wrong
            read = [a for a in (last_argv or []) if a in files and a in pool]
            n = rng.choice(read or live)
            src = files[n]
            lines = src.split("\n")
            how = rng.choice(["noqa", "noqa", "unnoqa", "fix", "prepend", "prepend"])
            triggers = [i for i, l in enumerate(lines) if any(t in l for t in ("int(0)", "list()", 'print("")', 'str("")', "bool(True)", "for a, b in")) and "# noqa" not in l and len(l) < 200]
            if how == "noqa" and triggers:
                i = rng.choice(triggers)
                lines[i] = lines[i] + "  # noqa"
            elif how == "unnoqa" and any("  # noqa" in l for l in lines):
                lines = [l.split("  # noqa")[0] for l in lines]
            elif how == "fix" and any("int(0)" in l for l in lines):
                lines = [l.replace("int(0)", "0", 1) for l in lines]
            else:
                lines = ["", *lines]  # every later diagnostic moves down one line: a position-keyed table would notice
            new = "\n".join(lines)
            files[n] = new
            steps.append({"op": "write", "path": n, "text": new})
        else:
            how = rng.choice(["syntax", "missing", "mypyflag", "plugin"])
            good = rng.choice(live)
            if how == "syntax":
                files["halftyped.py"] = "def broken(:\n"
                steps.append({"op": "write", "path": "halftyped.py", "text": files["halftyped.py"]})
                steps.append({"op": "run", "argv": [good, "halftyped.py", "--enable-all", "--quiet"], "expect": "mypy-error"})
            elif how == "missing":
                steps.append({"op": "run", "argv": [good, "no_such_file.py", "--enable-all", "--quiet"], "expect": "mypy-error"})
            elif how == "mypyflag":
                steps.append({"op": "run", "argv": [good, "--enable-all", "--quiet", "--", "--no-such-mypy-flag"], "expect": "mypy-error"})
            else:
                steps.append({"op": "run", "argv": [good, "--load", "boom_plugin", "--enable-all", "--quiet"], "expect": "raises"})
    return steps


def whole_run_extension(ctx, res, root: Path, files6: dict[str, str], aw_files: dict[str, str]) -> None:
    rng = ctx.rng("c11-whole-run")
    quick = ctx.quick
    # ---------------------------------------------------------------------------------------------------------------
    # the file universe: the probe set and the awkward set, side by side in one directory
    base: dict[str, str] = {n: s for n, s in files6.items()}
    for n, s in aw_files.items():
        if n in ("deep.py", "part265.py", "part290.py", "first.py", "left/util.py", "right/util.py", "last.py"):
            base["aw/" + n] = s
    base["boom_plugin.py"] = BOOM_PLUGIN
    pool = [n for n in base if n != "boom_plugin.py"]
    table = ctx.driver.batch([{"verb": "globals_table"}])[0] if ctx.driver.available() else None

    # ---- plans: histories, and partitions for the regrouping check
    n_hist = 4 if quick else 12
    plans = [gen_history(rng, h, base, pool, 6 if quick else 10) for h in range(n_hist)]
    part_files = [n for n in pool if not n.startswith("aw/part") and n != "aw/deep.py"]
    partitions: list[tuple[str, list[list[str]]]] = []
    for pi in range(2 if quick else 8):
        sh = part_files[:]
        rng.shuffle(sh)
        k = rng.randint(2, 4)
        cuts = sorted(rng.sample(range(1, len(sh)), k - 1))
        groups = [sh[a:b] for a, b in zip([0, *cuts], [*cuts, len(sh)])]
        partitions.append((["filename", "error"][pi % 2], groups))

    # ---- lay out the directories: one per history for the worker, one per file STATE for the fresh runs
    hdirs: list[Path] = []
    fresh_jobs: list[tuple[int, int, Path, list[str]]] = []  # (history, step index, directory holding that state, argv)
    for h, plan in enumerate(plans):
        hd = root / f"hist{h}"
        hd.mkdir()
        write_files(hd, base)
        (hd / "_plan.json").write_text(json.dumps(plan))
        (hd / "_worker_h.py").write_text(WORKER_H)
        hdirs.append(hd)
        state = dict(base)
        sd: Path | None = None
        version = 0
        for i, st in enumerate(plan):
            if st["op"] == "write":
                state[st["path"]] = st["text"]
                sd = None
            else:
                if sd is None:
                    sd = root / f"state{h}_{version}"
                    version += 1
                    sd.mkdir()
                    write_files(sd, state)
                fresh_jobs.append((h, i, sd, st["argv"]))
    pd = root / "parts"
    pd.mkdir()
    write_files(pd, {n: base[n] for n in part_files})
    group_jobs: dict[tuple[tuple[str, ...], str], Any] = {}
    for pi, (by, groups) in enumerate(partitions):
        # the one-by-one comparison (every file alone) is made for the first partition in the quick tier, for all in the thorough one
        singles = [[n] for g in groups for n in g] if (pi == 0 or not quick) else []
        if quick:
            singles = rng.sample(singles, min(4, len(singles)))
        for g in [*groups, [n for g in groups for n in g], *singles]:
            group_jobs.setdefault((tuple(g), by), None)

    def run_worker(hd: Path) -> Any:
        p = subprocess.run([core.PY, "_worker_h.py", "_plan.json", "_out.json"], cwd=hd, capture_output=True, text=True, timeout=900, env=core.py_env())
        if p.returncode != 0:
            return {"error": p.stderr[-1500:]}
        return json.loads((hd / "_out.json").read_text())

    with ThreadPoolExecutor(16) as ex:
        wf = [ex.submit(run_worker, hd) for hd in hdirs]
        fresh_once = {(str(sd), tuple(argv)): None for (_, _, sd, argv) in fresh_jobs}  # the same argv on the same file state: one fresh run
        for key in fresh_once:
            fresh_once[key] = ex.submit(core.refurb_cli, list(key[1]), Path(key[0]))
        gf = {k: ex.submit(core.refurb_cli, [*k[0], "--sort", k[1], "--enable-all", "--quiet"], pd) for k in group_jobs}
        worker_out = [f.result() for f in wf]
        fresh_out = [fresh_once[(str(sd), tuple(argv))].result() for (_, _, sd, argv) in fresh_jobs]
        group_out = {k: f.result() for k, f in gf.items()}

    # ---------------------------------------------------------------------------------------------------------------
    # (1) regrouping: sorted merge of the group reports = the joint report (model verb `regroup` on the REAL reports);
    #     what the joint report says about a file = the report of that file alone (model verb `about`)
    reqs: list[dict[str, Any]] = []
    metas: list[tuple[str, Any]] = []
    for by, groups in partitions:
        joint_files = tuple(n for g in groups for n in g)
        jrc, jout, jerr = group_out[(joint_files, by)]
        jitems, jother = to_items(jout)
        gitems = []
        clean = not jerr.strip() and not jother
        for g in groups:
            rc, out, err = group_out[(tuple(g), by)]
            it, other = to_items(out)
            clean = clean and not err.strip() and not other
            gitems.append(it)
        res.case(("regroup", by, json.dumps(groups)))
        res.bump(f"regroup_partitions_{len(groups)}_groups")
        res.bump("regroup_group_runs", len(groups))
        if not clean:
            res.violate("a run of the regrouping check wrote to stderr or printed a line that is not a diagnostic", {"kind": "stderr", "where": "regroup"}, {"groups": groups, "by": by, "stdout": jout[:400], "stderr": jerr[-400:]})
            continue
        reqs.append({"verb": "regroup", "groups": gitems, "by": by})
        metas.append(("regroup", (by, groups, jitems, gitems)))
        for g in groups:
            for n in g:
                if ((n,), by) not in group_out:
                    continue
                rc, out, err = group_out[((n,), by)]
                solo, _ = to_items(out)
                reqs.append({"verb": "about", "items": jitems, "path": n})
                metas.append(("about", (by, groups, n, solo)))
                res.bump("one_by_one_files")
    if ctx.driver.available():
        for a, (kind, meta) in zip(ctx.driver.batch(reqs), metas):
            if kind == "regroup":
                by, groups, jitems, gitems = meta
                how_r = "write harness/props/c11.py:FILES (+ the awkward files under aw/) into an empty directory with an empty pyproject.toml; run python -m refurb GROUP --sort BY --enable-all --quiet for every group and for all files together"
                if not all(a["each_sorted"]):
                    bad = [g for g, ok in zip(groups, a["each_sorted"]) if not ok]
                    res.violate(f"the report of a group of files is not in the documented order (--sort {by})", {"kind": "documented-order", "by": by, "where": "group"}, {"group": bad[0], "how": how_r})
                elif a["sorted"] != jitems:
                    extra = [x for x in jitems if x not in a["sorted"]][:3]
                    missing = [x for x in a["sorted"] if x not in jitems][:3]
                    res.violate(
                        "checking independent files together does not give the sorted merge of the reports of the groups checked one by one",
                        {"kind": "partition", "where": "regroup", "by": by},
                        {"groups": groups, "by": by, "only_together": extra, "only_in_groups": missing, "joint_head": jitems[:4], "merged_head": a["sorted"][:4], "how": how_r},
                    )
                if a["merged"] != a["sorted"]:
                    res.disagree("regroup-merge-vs-sort", {"groups": groups, "by": by}, a["merged"][:3], a["sorted"][:3])
            else:
                by, groups, n, solo = meta
                if a != solo:
                    res.violate(
                        f"what a joint run says about {n} is not what a run on {n} alone says",
                        {"kind": "partition", "where": "one-by-one", "file": n},
                        {"file": n, "joint_files": [x for g in groups for x in g], "by": by, "in_joint_run": a[:5], "alone": solo[:5],
                         "how": "write the files of harness/props/c11.py into an empty directory with an empty pyproject.toml; run python -m refurb FILES --sort BY --enable-all --quiet with all files and with this file only"},
                    )

    # ---------------------------------------------------------------------------------------------------------------
    # (2) histories: every run inside the worker process against the same argv in a fresh process on the same file state
    fresh_by = {(h, i): r for (h, i, _, _), r in zip(fresh_jobs, fresh_out)}
    hreqs: list[dict[str, Any]] = []
    hmetas: list[Any] = []
    for h, (plan, wout) in enumerate(zip(plans, worker_out)):
        if isinstance(wout, dict):
            res.disagreements.append({"where": "history-worker", "reason": wout["error"][-600:]})
            continue
        runs = [i for i, st in enumerate(plan) if st["op"] == "run"]
        res.bump("histories")
        res.bump("history_runs", len(runs))
        replay_plan = [{k: v for k, v in st.items() if k != "expect"} for st in plan]
        failed_before = False
        edited_before = False
        seen_argv: set[str] = set()
        model_hist = []
        for j, (i, rec) in enumerate(zip(runs, wout)):
            st = plan[i]
            edited_before = edited_before or any(s["op"] == "write" for s in plan[(runs[j - 1] if j else 0):i])
            res.case(("history-run", h, i, st["expect"], failed_before, edited_before, json.dumps(st["argv"]) in seen_argv), nontrivial=j > 0)
            res.bump("history_run_" + st["expect"])
            if failed_before and st["expect"] == "good":
                res.bump("history_good_run_after_a_failed_one")
            if edited_before and st["expect"] == "good":
                res.bump("history_good_run_after_an_edit")
            if json.dumps(st["argv"]) in seen_argv:
                res.bump("history_same_argv_again")
            seen_argv.add(json.dumps(st["argv"]))
            frc, fout, ferr = fresh_by[(h, i)]
            how_h = ("write the files of the replay into an empty directory; in ONE python process call refurb.main.run_refurb(load_settings(argv)) for every `run` step and apply the "
                     "`write` steps in between (harness/props/c11.py:WORKER_H does this); compare format_errors(...) of the step with `python -m refurb <argv>` in a fresh process on the files as they are at that step")
            if "raised" in rec:
                ok = frc != 0 and rec["raised"] in ferr
                observed = "raised " + rec["raised"]
            else:
                ok = rec["out"] == fout.rstrip("\n") and rec["rc"] == frc
                observed = rec["out"]
            if not ok:
                a_l, b_l = set(observed.split("\n")), set(fout.rstrip("\n").split("\n"))
                res.violate(
                    f"run #{j + 1} of a history inside one process differs from the same run in a fresh process"
                    + (" (after a failed run)" if failed_before else "") + (" (after an edit)" if edited_before else ""),
                    {"kind": "same-process-history", "after_failed_run": failed_before, "after_edit": edited_before},
                    {"files": {k: (v if len(v) < 600 else v[:200] + " ... (" + str(len(v)) + " chars)") for k, v in base.items()}, "history": replay_plan, "step": i, "argv": st["argv"],
                     "in_process": observed[:600], "fresh_process": fout[:600], "fresh_rc": frc, "fresh_stderr": ferr[-300:],
                     "only_in_process": sorted(a_l - b_l)[:5], "only_fresh": sorted(b_l - a_l)[:5], "how": how_h},
                )
                break
            if rec.get("limit_moved"):
                res.violate("a run leaves the interpreter's recursion limit changed", {"kind": "same-process-interpreter-setting", "setting": "recursionlimit"},
                            {"history": replay_plan, "step": i, "moved_by": rec["limit_moved"], "how": how_h})
                break
            failed_before = failed_before or st["expect"] != "good"
            # the same run for the model: the `# noqa` lookups it made (key = path, value = what the file holds NOW)
            paths = sorted({p for p, _, _ in rec["lookups"]})
            model_hist.append({"rec": rec, "paths": paths})
        if table is not None and len(model_hist) == len(runs):
            names = [d[0] for d in table["disciplines"]]
            lc = names.index("refurb.main.get_source_lines()") if "refurb.main.get_source_lines()" in names else None
            dg = names.index("sys.int_max_str_digits") if "sys.int_max_str_digits" in names else None
            rl = names.index("sys.recursionlimit") if "sys.recursionlimit" in names else None
            script = table["script"]
            def phase_of(c: int, op: str) -> int | None:
                return next((k for k, ins in enumerate(script) if ins["i"] == "free" and {"c": c, "op": op} in ins["allowed"]), None)
            if lc is not None and phase_of(lc, "memo:stable") is not None:
                at = phase_of(lc, "memo:stable")
                all_paths = sorted({p for mh in model_hist for p in mh["paths"]})
                hist_json = []
                for mh in model_hist:
                    rec = mh["rec"]
                    acts = [{"c": lc, "op": "memo:stable", "n": all_paths.index(p)} for p, _, _ in rec["lookups"]]
                    vals = [{"c": lc, "n": all_paths.index(p), "v": cur} for p, _, cur in rec["lookups"]]
                    hist_json.append({"vals": vals, "phases": [{"at": at, "acts": acts}]})
                hreqs.append({"verb": "run_history", "only": lc, "history": hist_json})
                hmetas.append((h, [[c for _, c, _ in mh["rec"]["lookups"]] for mh in model_hist], replay_plan))
    if hreqs:
        answers = ctx.driver.batch(hreqs)
        for a, (h, real_obs, replay_plan) in zip(answers, hmetas):
            for j, (run, real) in enumerate(zip(a["runs"], real_obs)):
                res.bump("history_model_lookups", len(real))
                if run["obs"] != real:
                    res.disagree("history-line-cache", {"history": replay_plan, "run": j}, run["obs"][:6], real[:6])
                    break
                if a["no_leaks"] and run["obs"] != run["fresh"]:
                    res.disagree("history-model-fresh", {"history": replay_plan, "run": j}, run["obs"][:6], run["fresh"][:6])
                    break
    if table is not None:
        for name, disc in table["disciplines"]:
            res.bump("globals_" + disc)
        if not table["no_leaks"]:
            res.notes.append("Generated/Globals.lean: a component is classified `leaks`: " + ", ".join(n for n, d in table["disciplines"] if d == "leaks"))
        res.sample({"globals": table["disciplines"]})
    if plans:
        res.sample({"history": [{k: (v if k != "text" else v[:60]) for k, v in st.items()} for st in plans[0]]})
    res.rule += (
        "; whole-run extension: random partitions of the probe + awkward files into 2-4 groups (quick 2, thorough 8) x a sort order: every group, every single file and all files "
        "together are run (fresh processes), the model's `regroup` (stable sort of the concatenated group reports = k-way merge) must give the joint report and `about` (filter by "
        "path) the solo report; generated in-process histories (quick 4 x 6 steps, thorough 12 x 10): runs over random file subsets with varying settings, edits (`# noqa` added / "
        "removed, a fix, a line inserted at the top), failing runs (syntax error, missing file, bad mypy flag, a loaded check that raises), every run compared with a fresh process on "
        "the same file state; the `# noqa` line lookups of every run are replayed through Model/History.lean `runIn` on the regenerated script. Non-trivial = a run that is not the first of its process"
    )
    res.assumptions += [
        "CwdFixed / CodeFixed: the working directory and the source of imported modules (refurb's own and `--load`ed ones) do not change while the process lives (sys.path, sys.modules are constants then)",
        "a run reads no process-global state of refurb other than the components the scan of /repo/refurb finds (Generated/Globals.lean); state inside mypy is not modelled (exercised by the histories)",
    ]
