"""Statements on which SEVERAL checks fire on the same or on nested nodes (the subset law of C10 is about exactly these:
a check must report the same whether or not its neighbours are enabled)."""
import os
from itertools import chain
from pathlib import Path


def area(w: int, h: int) -> int:
    return w * h


def overlaps(x: int, name: str, names: list[str], d: dict[str, int], p: str, rows: list[list[int]]) -> None:
    # comprehension that is a starmap candidate AND iterates a list literal / a dict view / a copy
    a1 = [area(w, h) for w, h in [(1, 2), (3, 4)]]
    a2 = {area(w, h) for w, h in [(1, 2)]}
    a3 = list(area(w, h) for w, h in list(zip([1], [2])))
    a4 = [area(k, v) for k, v in list(d.items())]
    # membership in a list literal inside a comparison chain / inside an `or` of comparisons
    b1 = x in [1, 2] or x == 3 or x == 4
    b2 = name == "a" or name == "b" or name in ["c"]
    b3 = [y for y in [1, 2, 3] if y in [1, 2]]
    # redundant casts inside f-strings, prints and other idioms
    c1 = f"{str(x)} {int(x)!r}"
    c2 = print(str(f"{x}"))
    c3 = str(name).startswith("a") or str(name).startswith("b")
    c4 = bool(x) if bool(x) else False
    c5 = int(x) if int(x) > 0 else 0
    # loops over views whose loop variables are unused, wrapping other idioms
    for k, _ in d.items():
        print(k in [name])
    for _, v in d.items():
        names.append(str(v))
        names.append(str(v + 1))
    for i, row in enumerate(rows):
        print(sorted(row)[0], list(reversed(row)))
    # pathlib idioms nested in each other
    e1 = open(os.path.join(p, "f")).read()
    with open(os.path.join(os.getcwd(), "g")) as fh:
        e2 = fh.read()
    e3 = os.path.exists(os.path.join(p, name)) and os.path.isfile(os.path.join(p, name))
    e4 = Path(os.getcwd()).resolve() / str(Path(p))
    # flattening / chaining idioms around comprehensions
    f1 = [y for row in rows for y in row]
    f2 = list(chain(*[list(r) for r in rows]))
    f3 = sum([[1], [2]], [])
    f4 = [*[z for z in names]] + list(names)
    # a diagnosable piece in EVERY position of a comprehension another check reports as a whole
    f5 = [cell for row in list(rows) for cell in row]
    f6 = {cell for row in rows for cell in list(row)}
    f7 = [int(cell) for row in rows for cell in row]
    f8 = [cell for row in rows for cell in row if bool(cell)]
    f9 = [area(w, h) for w, h in list(zip(names, names))]
    f10 = [area(int(w), h) for w, h in [(1, 2)] if str(w)]
    f11 = list(y for row in list(rows) for y in row)
    f12 = [k for k, _ in list(d.items())]
    # dict / set construction idioms inside each other
    g1 = {**d, **{"k": int(1)}}
    g2 = dict(list(d.items()))
    g3 = set([n for n in names])
    g4 = {k: v for k, v in d.items()} | dict(**d)
    # comparisons: identical operands inside the operands of another comparison idiom
    h1 = (x if x else 1) == 1 or (x if x else 1) == 2
    h2 = len(names) == 0 or len(names) >= 1 and not not names
    h3 = x == 1 and x == 1.0 or x is None and name is None
    h4 = max(x, 1) if max(x, 1) > 2 else 2
    print(f5, f6, f7, f8, f9, f10, f11, f12, a1, a2, a3, a4, b1, b2, b3, c1, c2, c3, c4, c5, e1, e2, e3, e4, f1, f2, f3, f4, g1, g2, g3, g4, h1, h2, h3, h4)


# FURB120 resolves a class call through BOTH `__new__` and `__init__`: what it reports for the one must not depend on what
# was reported before (by itself for the other method, or by any other check earlier in the file)
class Conn:
    def __new__(cls, *args: object, **kwargs: object) -> "Conn":
        return super().__new__(cls)

    def __init__(self, host: str = "localhost", retries: int = 3) -> None:
        self.host, self.retries = host, retries


class Both:
    def __new__(cls, size: int = 8) -> "Both":
        return super().__new__(cls)

    def __init__(self, size: int = 8) -> None:
        self.size = size


def connect(names: list[str]) -> None:
    c0 = Conn(retries=3)
    c1 = Conn(host=str("localhost"), retries=3)
    c2 = Both(size=8)
    c3 = Both(8), Conn("localhost", 3), list(names)
    print(c0, c1, c2, c3)
