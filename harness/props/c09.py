"""C09 — which checks run follows the documented enable/disable/ignore precedence.

Lean: Props/C09.lean (CLI fold characterisation, ladder lemmas) over Model/Settings.lean.
Correspondence: model `select` (loadSettings + shouldLoad) vs refurb's load_settings + should_load_check,
in-process, on option sequences that are exhaustive to length 3 (quick) / 4 (thorough) over a 20-option
alphabet, each split between config file and command line at every position, plus random long sequences.
Oracle: an independent transcription of the README's precedence rules (`selected`), applied to the
implementation's verdicts; every kind of disagreement is re-confirmed end to end through the CLI
(`--verbose` listing and actual diagnostics of a four-check probe plugin) before it is reported.
"""

from __future__ import annotations

import itertools
import json
import re
import textwrap
from concurrent.futures import ThreadPoolExecutor
from pathlib import Path
from typing import Any

from .. import core, settings_io

GENERATED = ["Unicode"]

# probe checks: (prefix, code, categories, enabled-by-default)
PROBES = [("FURB", 901, ("c1",), True), ("FURB", 902, ("c1", "c2"), True), ("FURB", 903, ("c2",), False), ("XYZ", 100, (), True)]
# "901" and "FURB901" are two spellings of ONE check; in a config file "901" is written as the TOML integer 901 (a third spelling)
NAMES = ["901", "FURB901", "FURB903", "#c1", "#c2", "XYZ100"]


def cfg_spelling(n: str) -> Any:
    return int(n) if n.isdigit() else n
ALPHABET = [(k, n) for k in ("enable", "disable", "ignore") for n in NAMES] + [("enable_all", None), ("disable_all", None)]


def probe_classes() -> list[Any]:
    from refurb.error import Error

    out = []
    for pfx, code, cats, enabled in PROBES:
        out.append(type(f"ErrorInfo{pfx}{code}", (Error,), {"prefix": pfx, "code": code, "categories": cats, "enabled": enabled, "name": f"probe-{code}"}))
    return out


def to_argv(opts: list[tuple[str, str | None]]) -> list[str]:
    argv: list[str] = []
    for k, n in opts:
        if n is None:
            argv.append("--" + k.replace("_", "-"))
        else:
            argv += ["--" + k, n]
    return argv


def to_config(opts: list[tuple[str, str | None]]) -> dict[str, Any]:
    cfg: dict[str, Any] = {}
    for k, n in opts:
        if n is None:
            cfg[k] = True
        else:
            cfg.setdefault(k, [])
            if cfg_spelling(n) not in cfg[k]:
                cfg[k].append(cfg_spelling(n))
    return cfg


def to_toml(cfg: dict[str, Any]) -> str:
    lines = ["[tool.refurb]"]
    for k, v in cfg.items():
        lines.append(f"{k} = {json.dumps(v)}" if not isinstance(v, bool) else f"{k} = {'true' if v else 'false'}")
    return "\n".join(lines) + "\n"


# ------------------------------------------------------------------------------------------
# the README, transcribed (independent of refurb's code and of the Lean model)


def norm(name: Any) -> tuple[str, Any]:
    name = str(name)
    if name.startswith("#"):
        return ("cat", name[1:])
    m = re.fullmatch(r"([A-Z]{3,4})?(\d{3})", name)
    assert m, name
    return ("code", (m.group(1) or "FURB", int(m.group(2))))


def cli_final_sets(opts: list[tuple[str, str | None]]) -> tuple[set, set, bool, bool, set]:
    """Last mention wins; an all-switch forgets the earlier mentions of the opposite kind."""
    enable, disable, ignore = set(), set(), set()
    ea = da = False
    for i, (k, n) in enumerate(opts):
        later = opts[i + 1 :]
        if k == "enable":
            c = norm(n)
            if not any((k2 == "disable" and norm(n2) == c) or k2 == "disable_all" for k2, n2 in later):
                enable.add(c)
        elif k == "disable":
            c = norm(n)
            if not any((k2 == "enable" and norm(n2) == c) or k2 == "enable_all" for k2, n2 in later):
                disable.add(c)
        elif k == "ignore":
            ignore.add(norm(n))
        elif k == "enable_all":
            ea = True
        elif k == "disable_all":
            da = True
    return enable, disable, ea, da, ignore


def selected(cfg_opts: list, cli_opts: list, probe: tuple) -> bool | str:
    """README: defaults, then all-switches, then categories, then explicit codes; ignore silences."""
    pfx, code, cats, enabled = probe
    me = ("code", (pfx, code))
    mycats = {("cat", c) for c in cats}
    cfg = to_config(cfg_opts)
    cfgD = {norm(n) for n in cfg.get("disable", [])}
    cfgE = {norm(n) for n in cfg.get("enable", [])} - cfgD  # disable always takes precedence in the config file
    cfgI = {norm(n) for n in cfg.get("ignore", [])}
    cfg_ea, cfg_da = bool(cfg.get("enable_all")), bool(cfg.get("disable_all"))
    cliE, cliD, cli_ea, cli_da, cliI = cli_final_sets(cli_opts)
    if (cfg_ea or cli_ea) and (cfg_da or cli_da):
        return "error"
    if (cli_da and not cfg_da) or (cli_ea and not cfg_ea):
        E, D = cliE, cliD  # a command-line all-switch resets the config's lists
    else:
        D = cfgD | cliD
        E = (cfgE | cliE) - D
    ea, da = cfg_ea or cli_ea, cfg_da or cli_da
    ignored = cfgI | cliI
    if me in ignored or mycats & ignored:
        return False  # ignoring a code or #category silences it everywhere
    if me in E:
        return True
    if me in D:
        return False
    if mycats & E:
        return True
    if mycats & D:
        return False
    if da:
        return False
    return enabled or ea


def diagnose(cfg_opts: list, cli_opts: list, probe: tuple, impl: bool, want: bool) -> str:
    pfx, code, cats, _ = probe
    me = ("code", (pfx, code))
    mycats = {("cat", c) for c in cats}
    ign = {norm(n) for k, n in cfg_opts + cli_opts if k == "ignore"}
    if impl and not want and mycats & ign and me not in ign:
        return "ignored-category-still-reports"
    if impl and not want and me in ign:
        return "ignored-code-still-reports-when-enabled"
    cli_all = any(k in ("enable_all", "disable_all") for k, _ in cli_opts)
    if cli_all:
        return "cli-all-switch-drops-cli-lists"
    return "other"


# ------------------------------------------------------------------------------------------


def plugin_sources() -> dict[str, str]:
    files = {"probe_c09/__init__.py": ""}
    for pfx, code, cats, enabled in PROBES:
        files[f"probe_c09/k{pfx.lower()}{code}.py"] = textwrap.dedent(
            f"""
            from dataclasses import dataclass
            from mypy.nodes import IntExpr
            from refurb.error import Error

            @dataclass
            class ErrorInfo(Error):
                \"\"\"probe\"\"\"
                prefix = {pfx!r}
                code = {code}
                name = "probe-{code}"
                categories = {cats!r}
                enabled = {enabled!r}
                msg: str = "probe"

            def check(node: IntExpr, errors: list[Error]) -> None:
                errors.append(ErrorInfo.from_node(node))
            """
        )
    return files


def cli_verdict(d: Path, idx: int, cfg_opts: list, cli_opts: list) -> dict[str, Any]:
    """End to end: which probe checks does `--verbose` list, and which actually report?"""
    sub = d / f"run{idx}"
    sub.mkdir()
    for rel, src in plugin_sources().items():
        p = sub / rel
        p.parent.mkdir(exist_ok=True)
        p.write_text(src)
    (sub / "f.py").write_text("x = 1\n")
    (sub / "pyproject.toml").write_text(to_toml(to_config(cfg_opts)) if cfg_opts else "")
    argv = ["f.py", "--load", "probe_c09", "--verbose", "--quiet", *to_argv(cli_opts)]
    rc, out, err = core.refurb_cli(argv, cwd=sub)
    listed = set()
    m = re.search(r"^Enabled checks: (.*)$", out, re.M)
    if m and m.group(1) != "No checks enabled":
        listed = set(m.group(1).split(", "))
    diags, other = core.parse_plain(out)
    reported = {f"{x['prefix']}{x['code']}" for x in diags}
    probes = {f"{p}{c}" for p, c, _, _ in PROBES}
    return {"argv": argv, "config": to_toml(to_config(cfg_opts)) if cfg_opts else "", "rc": rc, "stderr": err[-400:], "listed": sorted(listed & probes), "reported": sorted(reported & probes), "stdout_head": out[:300]}


def run(ctx) -> None:
    res = ctx.res
    from refurb.loader import should_load_check
    from refurb.settings import load_settings

    classes = probe_classes()
    rng = ctx.rng("opts")
    maxlen = 3 if ctx.quick else 4
    seqs: list[list] = []
    for n in range(0, maxlen + 1):
        seqs += [list(t) for t in itertools.product(ALPHABET, repeat=n)]
    n_exh = len(seqs)
    for _ in range(600 if ctx.quick else 6000):
        seqs.append([rng.choice(ALPHABET) for _ in range(rng.randint(maxlen + 1, 12))])
    res.rule = (
        f"option sequences over a 20-option alphabet ({{enable,disable,ignore}}x{{901 (integer 901 in a config file),FURB901,FURB903,#c1,#c2,XYZ100}} + the two all-switches): "
        f"exhaustive to length {maxlen} ({n_exh} sequences) + random to length 12; each split between config file and command line "
        "(all split points for length<=3, two random ones otherwise); a case is a (config, argv) pair; non-trivial = at least one option "
        "mentions a classifier of one of the four probe checks (always true for non-empty sequences); distinct = distinct (config, argv)"
    )
    cases: list[tuple[list, list]] = []
    for s in seqs:
        if len(s) <= 3:
            splits = range(0, len(s) + 1)
        else:
            splits = sorted({0, rng.randint(0, len(s)), rng.randint(0, len(s))})
        for k in splits:
            cases.append((s[:k], s[k:]))

    # ---- implementation, in-process
    impl: list[Any] = []
    with core.scratch("rv-c09-") as d:
        with settings_io.Cwd(d):
            last_cfg = None
            for cfg_opts, cli_opts in cases:
                cfg_text = to_toml(to_config(cfg_opts)) if cfg_opts else ""
                if cfg_text != last_cfg:
                    (d / "pyproject.toml").write_text(cfg_text)
                    last_cfg = cfg_text
                try:
                    s = load_settings(["f.py", *to_argv(cli_opts)])
                    impl.append([should_load_check(s, c) for c in classes])
                except ValueError as e:
                    impl.append("error" if str(e).startswith("refurb: ") else "foreign")

        # ---- per-path (amend) ignores never change WHICH CHECKS ARE LOADED (README: they silence diagnostics under that path only):
        # the same options with amend tables added to the config file give the same verdicts
        amend_txt = (
            '\n[[tool.refurb.amend]]\npath = "sub/dir"\nignore = ["#c1", "FURB903", "XYZ100"]\n'
            '\n[[tool.refurb.amend]]\npath = "."\nignore = ["#c2", 901]\n'
        )
        with settings_io.Cwd(d):
            idxs = rng.sample(range(len(cases)), min(len(cases), 500 if ctx.quick else 5000))
            amend_viol = 0
            for i in idxs:
                cfg_opts, cli_opts = cases[i]
                if isinstance(impl[i], str):
                    continue
                (d / "pyproject.toml").write_text((to_toml(to_config(cfg_opts)) if cfg_opts else "[tool.refurb]\n") + amend_txt)
                try:
                    s2 = load_settings(["f.py", *to_argv(cli_opts)])
                    got2: Any = [should_load_check(s2, c) for c in classes]
                except ValueError as e:
                    got2 = "error: " + str(e)[:80]
                res.bump("amend_tables_added")
                if got2 != impl[i] and amend_viol < 2:
                    amend_viol += 1
                    res.violate(
                        f"adding per-path (amend) ignore tables to the config file changes which checks are loaded: {impl[i]} -> {got2} for the probes {[f'{p}{c}' for p, c, _, _ in PROBES]}",
                        {"kind": "amend-changes-loading"},
                        {"config": (to_toml(to_config(cfg_opts)) if cfg_opts else "[tool.refurb]\n") + amend_txt, "argv": ["f.py", "--load", "probe_c09", *to_argv(cli_opts), "--verbose"], "without_amend": impl[i], "with_amend": got2,
                         "how": "write the probe_c09 plugin (harness/props/c09.py:plugin_sources), f.py (`x = 1`) and the config as pyproject.toml into an empty directory; python -m refurb <argv> lists the loaded checks"},
                    )
            (d / "pyproject.toml").write_text("")

        # ---- the loader itself (load_checks, what a run really uses) on a structured subset: every sequence of length <= 2 given on
        # the command line, plus a random sample of the other cases; which probe modules end up registered?
        import sys as _sys
        from refurb.loader import load_checks

        for rel, src in plugin_sources().items():
            pth = d / rel
            pth.parent.mkdir(exist_ok=True)
            pth.write_text(src)
        sub_idx = [i for i, (c, a) in enumerate(cases) if not c and len(a) <= 2]
        rest = [i for i in range(len(cases)) if i not in set(sub_idx) and not isinstance(impl[i], str)]
        sub_idx += rng.sample(rest, min(len(rest), 250 if ctx.quick else 3000))
        loader_sets: dict[int, Any] = {}
        _sys.path.insert(0, str(d))
        try:
            with settings_io.Cwd(d):
                last_cfg = None
                for i in sub_idx:
                    cfg_opts, cli_opts = cases[i]
                    cfg_text = to_toml(to_config(cfg_opts)) if cfg_opts else ""
                    if cfg_text != last_cfg:
                        (d / "pyproject.toml").write_text(cfg_text)
                        last_cfg = cfg_text
                    try:
                        st = load_settings(["f.py", "--load", "probe_c09", *to_argv(cli_opts)])
                        reg = load_checks(st)
                        mods = {f.__module__ for fs in reg.values() for f in fs}
                        loader_sets[i] = [f"probe_c09.k{p.lower()}{c}" in mods for p, c, _, _ in PROBES]
                    except ValueError as e:
                        loader_sets[i] = "error" if str(e).startswith("refurb: ") else "foreign"
        finally:
            _sys.path.remove(str(d))
            for m in [m for m in _sys.modules if m == "probe_c09" or m.startswith("probe_c09.")]:
                del _sys.modules[m]
        for i, got in loader_sets.items():
            cfg_opts, cli_opts = cases[i]
            res.bump("load_checks_cases")
            if got != impl[i]:
                res.violate(
                    f"load_checks registers {got} of the four probe checks, should_load_check (and the documented ladder) says {impl[i]}",
                    {"kind": "load-checks-differs-from-ladder"},
                    {"config": to_toml(to_config(cfg_opts)) if cfg_opts else "", "argv": ["f.py", "--load", "probe_c09", *to_argv(cli_opts)], "registered": got, "ladder": impl[i], "probes": [f"{p}{c}" for p, c, _, _ in PROBES],
                     "how": "write the probe_c09 plugin (harness/props/c09.py:plugin_sources), f.py (`x = 1`) and pyproject.toml into an empty directory; python -m refurb <argv> --verbose lists the loaded checks"},
                )
                break

        # ---- model
        model: list[Any] = [None] * len(cases)
        if ctx.driver.available():
            checks = [{"prefix": p, "code": c, "categories": list(cats), "enabled": en} for p, c, cats, en in PROBES]
            reqs = []
            for cfg_opts, cli_opts in cases:
                doc = {"tool": {"refurb": to_config(cfg_opts)}} if cfg_opts else {}
                reqs.append({"verb": "select", "env_color": False, "args": ["f.py", *to_argv(cli_opts)], "file": {"r": "ok", "doc": settings_io.annotate(doc)}, "checks": checks})
            for i, a in enumerate(ctx.driver.batch(reqs)):
                model[i] = a["loaded"] if a.get("r") == "ok" else ("error" if a.get("r") == "refurb" else a.get("r"))
        else:
            res.disagreements.append({"where": "driver", "reason": "driver executable not built"})

        # ---- compare
        by_kind: dict[str, tuple] = {}
        for i, (cfg_opts, cli_opts) in enumerate(cases):
            key = (to_toml(to_config(cfg_opts)) if cfg_opts else "", tuple(to_argv(cli_opts)))
            res.case(key, nontrivial=bool(cfg_opts or cli_opts))
            res.bump(f"len{min(len(cfg_opts) + len(cli_opts), 5)}")
            if model[i] is not None and model[i] != impl[i]:
                res.disagree("select", {"config": key[0], "argv": list(key[1])}, model[i], impl[i])
            for j, probe in enumerate(PROBES):
                want = selected(cfg_opts, cli_opts, probe)
                got = impl[i] if isinstance(impl[i], str) else impl[i][j]
                if want != got:
                    kind = "error-mismatch" if isinstance(want, str) or isinstance(got, str) else diagnose(cfg_opts, cli_opts, probe, got, want)
                    cur = by_kind.get(kind)
                    size = len(cfg_opts) + len(cli_opts)
                    if cur is None or size < cur[0]:
                        by_kind[kind] = (size, cfg_opts, cli_opts, probe, want, got)
        res.sample({"config": cases[len(cases) // 2][0], "argv": to_argv(cases[len(cases) // 2][1]), "impl_loaded": impl[len(cases) // 2]})
        res.sample({"config": cases[-1][0], "argv": to_argv(cases[-1][1]), "impl_loaded": impl[-1]})

        # ---- end to end: confirm each kind of violation, and sample the --verbose listing
        e2e: list[tuple[str, list, list]] = [(k, v[1], v[2]) for k, v in by_kind.items()]
        sample_n = 24 if ctx.quick else 120
        ok_cases = [c for i, c in enumerate(cases) if not isinstance(impl[i], str)]
        for c in rng.sample(ok_cases, min(sample_n, len(ok_cases))):
            e2e.append(("sample", c[0], c[1]))
        with ThreadPoolExecutor(16) as ex:
            verdicts = list(ex.map(lambda t: cli_verdict(d, t[0], t[1][1], t[1][2]), list(enumerate(e2e))))
    for (kind, cfg_opts, cli_opts), v in zip(e2e, verdicts):
        res.bump("cli_runs")
        want = [f"{p[0]}{p[1]}" for p in PROBES if selected(cfg_opts, cli_opts, p) is True]
        if v["stderr"].strip():
            res.violate("refurb printed to stderr during a selection run", {"kind": "stderr", "argv": v["argv"]}, v)
            continue
        if v["listed"] != v["reported"]:
            res.violate(
                f"--verbose lists {v['listed']} but the checks that report are {v['reported']}",
                {"kind": "verbose-listing-differs", "argv": v["argv"], "config": v["config"]},
                {**v, "how": "write f.py (`x = 1`), the probe_c09 plugin (harness/props/c09.py:plugin_sources) and pyproject.toml into an empty directory and run python -m refurb with argv"},
            )
        if sorted(want) != v["reported"]:
            probe_kind = kind
            if kind == "sample":
                kinds = {
                    diagnose(cfg_opts, cli_opts, p, f"{p[0]}{p[1]}" in v["reported"], f"{p[0]}{p[1]}" in want)
                    for p in PROBES
                    if (f"{p[0]}{p[1]}" in v["reported"]) != (f"{p[0]}{p[1]}" in want)
                }
                probe_kind = kinds.pop() if len(kinds) == 1 else "other"
            sig: dict[str, Any] = {"kind": probe_kind}
            if probe_kind == "other":
                sig.update({"argv": v["argv"], "config": v["config"]})
            res.violate(
                f"selection differs from the README rules ({probe_kind}): with config {v['config']!r} and argv {v['argv'][5:]} "
                f"the probe checks that report are {v['reported']}, the documented precedence gives {sorted(want)}",
                sig,
                {**v, "required": sorted(want), "how": "write f.py (`x = 1`), the probe_c09 plugin (harness/props/c09.py:plugin_sources) and pyproject.toml into an empty directory and run python -m refurb with argv"},
            )
    for kind in by_kind:
        res.bump(f"oracle_kind:{kind}")
    res.assumptions += [
        "the README's precedence rules as transcribed in harness/props/c09.py:selected (where the README is silent — CLI enable vs config disable without an all-switch — the implementation's combination is taken as the rule)",
        "probe checks K901/K902/K903/XYZ100 stand for arbitrary checks: the ladder only reads (prefix, id, categories, enabled)",
    ]


def replay(path) -> int:
    data = json.loads(Path(path).read_text())
    print(json.dumps(data, indent=1))
    return 0
