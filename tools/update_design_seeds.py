#!/usr/bin/env python3
"""Rewrite the seeded-changes table of DESIGN.md (between the SEEDTABLE markers) from seeded/*/meta.json."""
import re
import subprocess
import sys
from pathlib import Path

root = Path(__file__).resolve().parent.parent
table = subprocess.run([sys.executable, str(root / "tools" / "seed_table.py")], capture_output=True, text=True, check=True).stdout
d = root / "DESIGN.md"
s = d.read_text()
s = re.sub(r"<!-- SEEDTABLE-BEGIN -->.*?<!-- SEEDTABLE-END -->", lambda _m: "<!-- SEEDTABLE-BEGIN -->\n" + table + "<!-- SEEDTABLE-END -->", s, flags=re.S)
d.write_text(s)
print("rows:", table.count("\n") - 2)
