"""C17 — catalogue coherence.  The quantifier is finite, so the run is exhaustive.

Lean: Props/C17.lean over Generated/{Catalogue,Docs,Examples}.lean (regenerated each run).
Correspondence: Model `explain` (Driver) vs refurb.explain.explain in-process, every code + unknown codes.
Oracle (on the implementation): `refurb --explain CODE` through the CLI for every code must print that
check's own name/categories/doc; docs/checks.md must regenerate byte-identically with the repo's own
generator; default.toml's disable list must equal the default-disabled checks; every documented Bad
example is flagged by its own check and every Good one is not.
"""

from __future__ import annotations

import runpy
import shutil
from concurrent.futures import ThreadPoolExecutor

from .. import core, extract

GENERATED = ["Catalogue", "Docs", "Examples"]


def render(row: dict) -> str:
    cats = " ".join(f"[{x}]" for x in row["categories"])
    return f"{row['prefix']}{row['code']}: {row['name'] or '<name unknown>'} {cats}\n\n{row['doc']}"


def run(ctx) -> None:
    res = ctx.res
    res.exhaustive = True
    res.rule = (
        "exhaustive over the catalogue: one case per (check, facet) with facets explain-cli, explain-model, "
        "docs entry, default-config entry, and one case per documented example block; all are non-trivial "
        "(each names a distinct check/example); distinct = distinct (facet, code, index)"
    )
    res.assumptions += [
        "documented examples are linted with an auto-prelude that imports their free names (harness/extract.py:auto_prelude)",
        "docs/gen_checks.py is executed on a scratch copy to regenerate checks.md",
    ]
    rows = extract.catalogue_rows()
    by_key: dict[tuple[str, int], list[dict]] = {}
    for r in rows:
        by_key.setdefault((r["prefix"], r["code"]), []).append(r)

    # ---- uniqueness (implementation side of codes_unique / names_unique)
    names: dict[str, list[dict]] = {}
    for r in rows:
        names.setdefault(r["name"], []).append(r)
    for name, rs in names.items():
        if len(rs) > 1:
            res.violate(
                f"check name {name!r} is used by {len(rs)} checks: {[r['module'] for r in rs]}",
                {"kind": "duplicate-name", "name": name},
                {"modules": [r["module"] for r in rs], "how": "refurb.loader.get_modules([]) + get_error_class"},
            )
    for r in rows:
        if not r["has_name"]:
            res.violate(
                f"{r['prefix']}{r['code']} has no name", {"kind": "no-name", "code": r["code"]}, {"module": r["module"]}
            )
        if len(r["error_classes"]) != 1:
            res.violate(
                f"{r['module']} defines {len(r['error_classes'])} error classes {r['error_classes']}; get_error_class picks one by dir() order",
                {"kind": "error-classes", "module": r["module"]},
                {"module": r["module"], "classes": r["error_classes"]},
            )

    # ---- explain through the CLI, every code
    with core.scratch("rv-c17-") as d:
        (d / "pyproject.toml").write_text("")

        def ask(key):
            code = f"{key[0]}{key[1]:03d}"
            rc, out, err = core.refurb_cli(["--explain", code], cwd=d)
            return key, code, rc, out, err

        with ThreadPoolExecutor(16) as ex:
            answers = list(ex.map(ask, by_key))
        unknown = [("FURB", 999), ("FURB", 99), ("XYZ", 123)]
        with ThreadPoolExecutor(4) as ex:
            unknown_answers = list(ex.map(ask, [k for k in unknown if k not in by_key]))
    for key, code, rc, out, err in answers:
        for r in by_key[key]:
            res.case(("explain-cli", r["module"]))
            expected = render(r) + "\n"
            if out != expected or rc != 0 or err:
                res.violate(
                    f"`refurb --explain {code}` does not print {r['module']}'s own explanation",
                    {"kind": "explain", "code": code, "module": r["module"]},
                    {"argv": ["--explain", code], "stdout": out[:600], "stderr": err[-600:], "rc": rc, "expected": expected[:600]},
                )
    for key, code, rc, out, err in unknown_answers:
        res.case(("explain-cli-unknown", code))
        if "not found" not in out or err or rc != 0:
            res.violate(
                f"`refurb --explain {code}` (no such check) did not say 'not found'",
                {"kind": "explain-unknown", "code": code},
                {"argv": ["--explain", code], "stdout": out[:300], "stderr": err[-600:], "rc": rc},
            )
    res.sample({"argv": ["--explain", "FURB123"], "expected_head": render(by_key[("FURB", 123)][0])[:80]} if ("FURB", 123) in by_key else {})

    # ---- every code that can appear in the output can be explained: also the codes of plugin checks, whether the plugin picks
    # its own prefix or keeps the inherited default one, loaded by --load or by `load = [...]` in the config file
    PLUG = (
        "from dataclasses import dataclass\nfrom mypy.nodes import IntExpr\nfrom refurb.error import Error\n\n\n@dataclass\nclass ErrorInfo(Error):\n"
        "    \"\"\"\n    Doc of {tag}: do not write the number {n}.\n    \"\"\"\n\n{prefix}    code = {code}\n    name = \"{name}\"\n    categories = (\"plug\",)\n"
        "    msg: str = \"{tag} fired\"\n\n\ndef check(node: IntExpr, errors: list[Error]) -> None:\n    if node.value == {n}:\n        errors.append(ErrorInfo.from_node(node))\n"
    )
    plugs = {
        "own_prefix": {"prefix": '    prefix = "ACME"\n', "code": 101, "n": 41, "shown": "ACME101", "name": "acme-check"},
        "default_prefix": {"prefix": "", "code": 900, "n": 42, "shown": "FURB900", "name": "inherits-prefix"},
        "near_prefix": {"prefix": '    prefix = "FUR"\n', "code": 123, "n": 43, "shown": "FUR123", "name": "near-prefix"},
    }
    with core.scratch("rv-c17-plug-") as d:
        (d / "plugs").mkdir()
        (d / "plugs" / "__init__.py").write_text("")
        for mod, p in plugs.items():
            (d / "plugs" / f"{mod}.py").write_text(PLUG.format(tag=mod, **{k: v for k, v in p.items() if k != "shown"}))
        (d / "f.py").write_text("a = 41\nb = 42\nc = 43\n")
        (d / "pyproject.toml").write_text("")
        (d / "cfg.toml").write_text('[tool.refurb]\nload = ["plugs"]\n')
        rc0, out0, err0 = core.refurb_cli(["f.py", "--load", "plugs", "--quiet"], cwd=d)
        shown = sorted({f"{x['prefix']}{x['code']}" for x in core.parse_plain(out0)[0]})
        res.case(("explain-plugin", "lint"))
        if shown != sorted(p["shown"] for p in plugs.values()):
            res.notes.append(f"plugin probe: diagnostics shown {shown}, expected {sorted(p['shown'] for p in plugs.values())}: {err0[-200:]}")
        jobs = [(mod, how) for mod in plugs for how in ("--load", "config")]

        def ask_plugin(job):
            mod, how = job
            argv = ["--explain", plugs[mod]["shown"]] + (["--load", "plugs"] if how == "--load" else ["--config-file", "cfg.toml"])
            return job, argv, core.refurb_cli(argv, cwd=d)

        with ThreadPoolExecutor(6) as ex:
            pans = list(ex.map(ask_plugin, jobs))
    for (mod, how), argv, (rc, out, err) in pans:
        res.case(("explain-plugin", mod, how))
        p = plugs[mod]
        ok = rc == 0 and not err and out.startswith(f"{p['shown']}: {p['name']} [plug]") and f"Doc of {mod}" in out
        if not ok:
            res.violate(
                f"`refurb {' '.join(argv)}` does not print the explanation of the plugin check that reports {p['shown']}",
                {"kind": "explain-plugin", "plugin": mod, "via": how},
                {"files": {"plugs/__init__.py": "", f"plugs/{mod}.py": PLUG.format(tag=mod, **{k: v for k, v in p.items() if k != 'shown'}), "f.py": "a = 41\nb = 42\nc = 43\n", "cfg.toml": '[tool.refurb]\nload = ["plugs"]\n', "pyproject.toml": ""},
                 "argv": argv, "stdout": out[:400], "stderr": err[-400:], "rc": rc, "required": f"{p['shown']}: {p['name']} [plug] ... Doc of {mod}",
                 "how": "write `files` into an empty directory; `python -m refurb f.py --load plugs --quiet` shows the code; then run argv"},
            )

    # ---- model vs implementation: explain
    if ctx.driver.available():
        from refurb.error import ErrorCode
        from refurb.explain import explain
        from refurb.settings import Settings

        keys = list(by_key) + unknown
        reqs = [{"verb": "explain", "prefix": k[0], "code": k[1]} for k in keys]
        answers2 = ctx.driver.batch(reqs)
        for k, a in zip(keys, answers2):
            out = explain(Settings(explain=ErrorCode(k[1], k[0])))
            if out.startswith("refurb: Error code"):
                impl = {"r": "notFound"}
            elif out.startswith("refurb: Explanation"):
                impl = {"r": "noDoc"}
            else:
                head = out.split("\n", 1)[0]
                impl = {"r": "found", "head": head}
            res.case(("explain-model", k))
            model = dict(a)
            if model.get("r") == "found":
                model = {"r": "found", "head": model["head"]}  # Model/Catalogue.lean: CheckInfo.explainHeader
            if model != impl:
                res.disagree("explain", {"prefix": k[0], "code": k[1]}, model, impl)
    else:
        res.disagreements.append({"where": "driver", "reason": "driver executable not built"})

    # ---- docs/checks.md regenerates identically
    with core.scratch("rv-c17-docs-") as d:
        shutil.copy(core.REPO / "docs" / "gen_checks.py", d / "gen_checks.py")
        runpy.run_path(str(d / "gen_checks.py"), run_name="__main__")
        regenerated = (d / "checks.md").read_text()
    shipped = (core.REPO / "docs" / "checks.md").read_text()
    res.case(("docs", "checks.md"))
    if regenerated != shipped:
        a = {e["code"]: e for e in extract.parse_checks_md(regenerated)}
        b = {e["code"]: e for e in extract.parse_checks_md(shipped)}
        diff = sorted(c for c in set(a) | set(b) if a.get(c) != b.get(c))
        for c in diff[:10] or ["<layout>"]:
            res.violate(
                f"docs/checks.md disagrees with the catalogue for {c}",
                {"kind": "docs", "code": c},
                {"how": "python docs/gen_checks.py (on a scratch copy) and diff with docs/checks.md", "catalogue_says": a.get(c), "docs_say": b.get(c)},
            )
    for e in extract.parse_checks_md(shipped):
        res.case(("docs-entry", e["code"]))

    # ---- default.toml
    import tomllib

    default = tomllib.loads((core.REPO / "docs" / "configs" / "default.toml").read_text())
    documented = sorted(str(x) for x in default.get("disable", []))
    actual = sorted(f"{r['prefix']}{r['code']}" for r in rows if not r["enabled"])
    for c in sorted(set(documented) ^ set(actual)):
        res.case(("default-config", c))
        res.violate(
            f"docs/configs/default.toml ('emulates the default settings') "
            + (f"omits {c}, which is disabled by default" if c in actual else f"disables {c}, which is enabled by default"),
            {"kind": "default-config", "code": c},
            {"file": "docs/configs/default.toml", "disable": documented, "disabled_by_default": actual},
        )
    for c in actual:
        res.case(("default-config", c))

    # ---- documented examples
    for ex in extract.examples_linted():
        res.case(("example", ex["code"], ex["kind"], ex["index"]))
        want = ex["kind"] == "Bad"
        if ex["flagged"] != want:
            res.violate(
                f"documented {ex['kind']} example #{ex['index']} of {ex['prefix']}{ex['code']} is "
                + ("not flagged" if want else "flagged")
                + " by its own check",
                {"kind": "example", "code": ex["code"], "example": ex["kind"], "index": ex["index"]},
                {
                    "source": extract.auto_prelude(ex["src"]) + ex["src"],
                    "argv": ["FILE", "--disable-all", "--enable", f"{ex['prefix']}{ex['code']}", "--quiet"],
                    "output": ex["output"],
                },
            )
    # ---- the documented Bad example is flagged EVERY time it occurs: two identical copies of each example in one run (whatever a
    # check remembers about what it already reported must not make it skip the same example in another file)
    bad_exs = [e for e in extract.examples_linted() if e["kind"] == "Bad" and e["flagged"]]
    with core.scratch("rv-c17twice-") as td:
        (td / "pyproject.toml").write_text("")
        names2: dict[str, dict] = {}
        for e in bad_exs:
            for copy_ in ("a", "b"):
                n2 = f"twice_{e['code']}_{e['index']}_{copy_}.py"
                (td / n2).write_text(extract.auto_prelude(e["src"]) + e["src"])
                names2[n2] = e
        order = sorted(names2)
        nb2 = 6
        batches2 = [order[i::nb2] for i in range(nb2)]  # the a and b copies of one example land in the same batch (adjacent names, even stride)
        batches2 = [sorted(set(b) | {n[:-4] + "b.py" for n in b if n.endswith("a.py")} | {n[:-4] + "a.py" for n in b if n.endswith("b.py")}) for b in batches2]
        with ThreadPoolExecutor(6) as ex2:
            outs2 = list(ex2.map(lambda b: core.refurb_cli([*b, "--enable-all", "--quiet"], cwd=td, timeout=900), batches2))
    seen2: set[str] = set()
    for b, (rc2, out2, err2) in zip(batches2, outs2):
        diags2, other2 = core.parse_plain(out2)
        if err2.strip() or other2:
            res.notes.append(f"a batch of doubled examples was refused as a whole ({(other2 or [err2.strip()])[0][:120]}): skipped")
            continue
        flagged2 = {(x["file"], x["code"]) for x in diags2}
        for n2 in b:
            if n2 in seen2:
                continue
            seen2.add(n2)
            e = names2[n2]
            res.case(("example-twice", n2))
            res.bump("examples_doubled")
            if (n2, e["code"]) not in flagged2:
                res.violate(
                    f"the documented Bad example #{e['index']} of {e['prefix']}{e['code']} is not flagged in {n2} when an identical copy of it is checked in the same run",
                    {"kind": "example-twice", "code": e["code"]},
                    {"files": {n2[:-4] + "a.py": extract.auto_prelude(e["src"]) + e["src"], n2[:-4] + "b.py": "(the same text)"}, "argv": [n2[:-4] + "a.py", n2[:-4] + "b.py", "--enable-all", "--quiet"],
                     "reported_for_the_pair": sorted(f"{f}: FURB{c}" for f, c in flagged2 if f[:-4] == n2[:-4] or f[:-5] == n2[:-5]), "required": f"{e['prefix']}{e['code']} in both files"},
                )
    exs = extract.examples_linted()
    if exs:
        res.sample({"example": exs[0]["src"], "code": exs[0]["code"], "kind": exs[0]["kind"], "flagged": exs[0]["flagged"]})
    res.bump("checks", len(rows))
    res.bump("examples", len(exs))


def replay(path) -> int:
    import json

    data = json.loads(path.read_text())
    print(json.dumps(data, indent=1))
    return 0
