/-
C05 — type-conditioned diagnostics agree with the types mypy infers.

Model: Model/Types.lean (refurb/checks/common.py:540-783 + FURB123).  Tables: Generated/SimpleTypes.lean
(`SIMPLE_TYPES`, `FUNC_NAME_MAPPING`, read at run time).

Three groups of statements, all over types / expressions / MROs of any size:

1. `is_same_type` against the PROPERTY's notion `Exactly` ("mypy infers exactly that class"): whatever passes is —
   through alias chains of any depth — an instance of exactly the expected class (a real tuple for `tuple`: a
   NamedTuple is rejected, and so is the class object itself); Any / unions / None / type variables / callables /
   literals / other classes / an unresolved operand never pass for a concrete class.
2. `get_mypy_type` against a reference inference relation `Res` (`Infers` for results that are types): the full
   statement is false (a name narrowed by isinstance() is typed by its declaration: refurb has no flow-sensitive
   types), it holds for `Plain` expressions.
3. `is_subclass` over MROs of any length, and the end-to-end statement for FURB123.
-/
import RefurbVerif.Model.Types
import RefurbVerif.Generated.SimpleTypes

namespace RefurbVerif.C05
open RefurbVerif.Types RefurbVerif.Generated

/-! ### 0. facts about the generated tables -/

/-- a row of `SIMPLE_TYPES` maps mypy's fullname of a builtin class to the Python class of the same name
    (and the two pseudo-keys "Any"/"None" to `Any`/`None`); no value is a `str` -/
def rowOK : String × Expected → Bool
  | (k, .pyType n) => k == "builtins." ++ n
  | (k, .pyAny) => k == "Any"
  | (k, .pyNone) => k == "None"
  | (_, .named _) => false

def TableOK (tbl : SimpleTypes) : Prop := ∀ p ∈ tbl, rowOK p = true

/-- today's `SIMPLE_TYPES` is keyed by the class each value denotes -/
theorem simpleTypes_ok : TableOK simpleTypes := by unfold TableOK; decide +kernel

theorem lookup_mem {α} (tbl : List (String × α)) (c : String) (v : α) (h : tbl.lookup c = some v) : (c, v) ∈ tbl := by
  induction tbl with
  | nil => simp [List.lookup] at h
  | cons p r ih =>
    obtain ⟨k, w⟩ := p
    by_cases hk : c = k
    · subst hk; simp [List.lookup] at h; subst h; simp
    · have : (c == k) = false := by simp [hk]
      simp [List.lookup, this] at h
      exact List.mem_cons_of_mem _ (ih h)

/-- what a hit in a well-formed table tells about the key -/
theorem lookup_pyType {tbl : SimpleTypes} (ok : TableOK tbl) {c n : String} (h : tbl.lookup c = some (.pyType n)) :
    c = "builtins." ++ n := by
  have := ok _ (lookup_mem tbl c _ h)
  simpa [rowOK] using this

theorem lookup_not_named {tbl : SimpleTypes} (ok : TableOK tbl) {c s : String} : tbl.lookup c ≠ some (.named s) := by
  intro h
  have := ok _ (lookup_mem tbl c _ h)
  simp [rowOK] at this

theorem lookup_pyAny {tbl : SimpleTypes} (ok : TableOK tbl) {c : String} (h : tbl.lookup c = some .pyAny) : c = "Any" := by
  have := ok _ (lookup_mem tbl c _ h)
  simpa [rowOK] using this

theorem lookup_pyNone {tbl : SimpleTypes} (ok : TableOK tbl) {c : String} (h : tbl.lookup c = some .pyNone) : c = "None" := by
  have := ok _ (lookup_mem tbl c _ h)
  simpa [rowOK] using this

/-- FURB123 never asks for `None` or `Any` -/
def fnmRowOK : String × String × List Expected → Bool
  | (_, _, es) => es.all (fun e => match e with | .pyType _ => true | .named _ => true | _ => false)

theorem funcNameMapping_concrete : ∀ r ∈ funcNameMapping, fnmRowOK r = true := by decide +kernel

/-! ### 1. is_same_type vs "exactly that class" -/

/-- the PROPERTY's notion for a `Type`: after alias expansion an instance of the class the expectation names; for
    `tuple` a real tuple (a tuple type whose fallback is `builtins.tuple`, NOT a NamedTuple); `Any` only for `Any` -/
def ExactlyTy : Ty → Expected → Prop
  | .alias t, e => ExactlyTy t e
  | .inst c _, .pyType n => c = "builtins." ++ n
  | .inst c _, .named s => c = s
  | .tuple _ fb, .pyType n => n = "tuple" ∧ fb = "builtins.tuple"
  | .any, .pyAny => True
  | _, _ => False

/-- … and for what the resolver returns: a class object, a type-alias node or a module are never "of that type";
    `None` (no answer) only matches the expectation `None` -/
def Exactly : Option Val → Expected → Prop
  | none, .pyNone => True
  | some (.ty t), e => ExactlyTy t e
  | _, _ => False

/-- `is_same_type` is `any` over the expectations, for expectation lists of any length -/
theorem isSameType_iff (tbl : SimpleTypes) (v : Option Val) (es : List Expected) :
    isSameType tbl v es = true ↔ ∃ e ∈ es, isSame1 tbl v e = true := by
  simp [isSameType, List.any_eq_true]

theorem isSameType_append (tbl : SimpleTypes) (v : Option Val) (es fs : List Expected) :
    isSameType tbl v (es ++ fs) = (isSameType tbl v es || isSameType tbl v fs) := by
  simp [isSameType, List.any_append]

/-- real class fullnames are dotted: no instance is called "Any" or "None" (the two pseudo-keys of `SIMPLE_TYPES`) -/
def WellNamedTy : Ty → Prop
  | .alias t => WellNamedTy t
  | .inst c _ => c ≠ "Any" ∧ c ≠ "None"
  | _ => True

def WellNamed : Option Val → Prop
  | some (.ty t) => WellNamedTy t
  | _ => True

/-- `nt: NT` for a NamedTuple class (mypy: alias → TupleType with fallback `m.NT`) -/
def namedTupleTy : Ty := .alias (.tuple [.inst "builtins.int" [], .inst "builtins.str" []] "m.NT")

/-- a NamedTuple does not pass for `tuple`: `tuple(nt)` is a conversion, not a no-op -/
theorem namedTuple_rejected : isSameType simpleTypes (some (.ty namedTupleTy)) [.pyType "tuple"] = false := by
  decide +kernel

/-- the class object `str` (what `get_mypy_type` returns for the NAME `str`) does not pass for `str` -/
theorem classObject_rejected (tbl : SimpleTypes) (c : String) (es : List Expected) :
    isSameType tbl (some (.info c)) es = false := by
  simp [isSameType, isSame1]

theorem isSameName_exact {tbl : SimpleTypes} (ok : TableOK tbl) {c : String} {T : Expected}
    (hc : c ≠ "Any" ∧ c ≠ "None") (h : isSameName tbl c T = true) :
    match T with
    | .pyType n => c = "builtins." ++ n
    | .named s => c = s
    | _ => False := by
  unfold isSameName at h
  cases T with
  | pyNone =>
    cases hl : tbl.lookup c with
    | none => simp [hl] at h
    | some v =>
      simp [hl] at h
      subst h
      exact hc.2 (lookup_pyNone ok hl)
  | pyAny =>
    cases hl : tbl.lookup c with
    | none => simp [hl] at h
    | some v =>
      simp [hl] at h
      subst h
      exact hc.1 (lookup_pyAny ok hl)
  | pyType n =>
    cases hl : tbl.lookup c with
    | none => simp [hl] at h
    | some v =>
      simp [hl] at h
      subst h
      exact lookup_pyType ok hl
  | named s =>
    cases hl : tbl.lookup c with
    | none => simpa [hl] using h
    | some v =>
      simp [hl] at h
      rcases h with h | h
      · subst h; exact absurd hl (lookup_not_named ok)
      · exact h

theorem isSameTy_exact {tbl : SimpleTypes} (ok : TableOK tbl) :
    ∀ (t : Ty) (T : Expected), WellNamedTy t → isSameTy tbl t T = true → ExactlyTy t T
  | .alias t, T, g, h => by
    simp only [isSameTy] at h
    simp only [ExactlyTy]
    exact isSameTy_exact ok t T (by simpa [WellNamedTy] using g) h
  | .tuple _ fb, T, _, h => by
    simp [isSameTy] at h
    obtain ⟨hT, hfb⟩ := h
    subst hT
    simp [ExactlyTy, hfb]
  | .any, T, _, h => by
    simp [isSameTy] at h
    subst h
    simp [ExactlyTy]
  | .inst c _, T, g, h => by
    simp only [isSameTy] at h
    have := isSameName_exact ok (by simpa [WellNamedTy] using g) h
    cases T <;> simp_all [ExactlyTy]
  | .none, _, _, h => by simp [isSameTy] at h
  | .union _, _, _, h => by simp [isSameTy] at h
  | .callable _, _, _, h => by simp [isSameTy] at h
  | .typeVar, _, _, h => by simp [isSameTy] at h
  | .aliasUnresolved, _, _, h => by simp [isSameTy] at h
  | .literal _, _, _, h => by simp [isSameTy] at h
  | .uninhabited, _, _, h => by simp [isSameTy] at h
  | .other, _, _, h => by simp [isSameTy] at h

/-- For any well-formed table and any expectation list: what passes `is_same_type` is a type that, after expanding
    aliases of any depth, is an instance of exactly one of the expected classes (a real tuple for `tuple`, never a
    NamedTuple; never the class object); an operand without an answer only passes for the expectation `None` -/
theorem isSameType_exact {tbl : SimpleTypes} (ok : TableOK tbl) (v : Option Val) (es : List Expected)
    (g : WellNamed v) (h : isSameType tbl v es = true) : ∃ T ∈ es, Exactly v T := by
  obtain ⟨T, hT, h1⟩ := (isSameType_iff tbl v es).mp h
  refine ⟨T, hT, ?_⟩
  match v, g, h1 with
  | none, _, h1 =>
    cases T <;> simp_all [isSame1, Exactly]
  | some (.ty t), g, h1 =>
    simp only [isSame1] at h1
    simp only [Exactly]
    exact isSameTy_exact ok t T (by simpa [WellNamed] using g) h1
  | some (.info c), _, h1 => simp [isSame1] at h1
  | some (.aliasNode _), _, h1 => simp [isSame1] at h1
  | some (.file _), _, h1 => simp [isSame1] at h1

/-- an expectation that names a class (not `None`, not `Any`) -/
def Concrete : Expected → Prop
  | .pyType _ => True
  | .named _ => True
  | _ => False

/-- the class `c` is not the one `T` names -/
def ClassDiffers : Expected → String → Prop
  | .pyType n, c => c ≠ "builtins." ++ n
  | .named s, c => c ≠ s
  | _, _ => True

/-- types that must never qualify for the concrete class `T`: Any, None, unions, type variables, callables,
    literal types, `NoReturn`, every other kind of type, instances of other classes, tuple types when `T` is not
    `tuple` — and aliases (of aliases …) of those -/
inductive NonQual (T : Expected) : Ty → Prop
  | any : NonQual T .any
  | none : NonQual T .none
  | union (items) : NonQual T (.union items)
  | typeVar : NonQual T .typeVar
  | callable (r) : NonQual T (.callable r)
  | literal (b) : NonQual T (.literal b)
  | uninhabited : NonQual T .uninhabited
  | other : NonQual T .other
  | aliasUnresolved : NonQual T .aliasUnresolved
  | inst (c args) : ClassDiffers T c → NonQual T (.inst c args)
  | tuple (items fb) : T ≠ .pyType "tuple" → NonQual T (.tuple items fb)
  | alias (t) : NonQual T t → NonQual T (.alias t)

theorem isSameName_differs {tbl : SimpleTypes} (ok : TableOK tbl) {T : Expected} {c : String}
    (hT : Concrete T) (hd : ClassDiffers T c) : isSameName tbl c T = false := by
  unfold isSameName
  cases T with
  | pyNone => simp [Concrete] at hT
  | pyAny => simp [Concrete] at hT
  | pyType n =>
    cases hl : tbl.lookup c with
    | none => simp
    | some v =>
      simp only [Bool.or_false, beq_eq_false_iff_ne, ne_eq]
      intro hv
      subst hv
      exact hd (lookup_pyType ok hl)
  | named s =>
    have hcs : (c == s) = false := by simpa [ClassDiffers] using hd
    cases hl : tbl.lookup c with
    | none => simp [hcs]
    | some v =>
      simp only [hcs, Bool.or_false, beq_eq_false_iff_ne, ne_eq]
      intro hv
      subst hv
      exact lookup_not_named ok hl

/-- Any, unions, `None`, type variables, callables, literal types, other classes (through alias chains of any
    depth) never pass `is_same_type` for a concrete class -/
theorem never_qualify {tbl : SimpleTypes} (ok : TableOK tbl) {T : Expected} (hT : Concrete T) {t : Ty}
    (h : NonQual T t) : isSameType tbl (some (.ty t)) [T] = false := by
  have key : isSameTy tbl t T = false := by
    induction h with
    | any => cases T <;> simp_all [isSameTy, Concrete]
    | none => simp [isSameTy]
    | union => simp [isSameTy]
    | typeVar => simp [isSameTy]
    | callable => simp [isSameTy]
    | literal => simp [isSameTy]
    | uninhabited => simp [isSameTy]
    | other => simp [isSameTy]
    | aliasUnresolved => simp [isSameTy]
    | inst c args hd => simpa [isSameTy] using isSameName_differs ok hT hd
    | tuple items fb hne => simp [isSameTy, hne]
    | alias t _ ih => simpa [isSameTy] using ih
  simp [isSameType, isSame1, key]

/-- an operand the resolver could not type (unresolved name, unsupported expression form) never passes for any
    expectation other than the literal `None` — in particular for no class -/
theorem never_qualify_unresolved (tbl : SimpleTypes) {es : List Expected} (h : ∀ e ∈ es, e ≠ .pyNone) :
    isSameType tbl none es = false := by
  simp only [isSameType, List.any_eq_false]
  intro e he
  cases e with
  | pyNone => exact absurd rfl (h _ he)
  | _ => simp [isSame1]

/-- a module or a type-alias node (what the resolver returns for the NAME of a module / alias) never passes -/
theorem never_qualify_symbols (tbl : SimpleTypes) (es : List Expected) :
    (∀ m, isSameType tbl (some (.file m)) es = false) ∧ (∀ t, isSameType tbl (some (.aliasNode t)) es = false) := by
  constructor <;> intro _ <;> simp [isSameType, isSame1]

/-- an instance of a subclass of a builtin (`class MyInt(int)`), `bool` for `int`, a `NewType`, an enum class:
    different fullname, so it does not pass — instantiating `never_qualify` on today's table -/
theorem subclass_instance_never_int (c : String) (args : List Ty) (h : c ≠ "builtins.int") :
    isSameType simpleTypes (some (.ty (.inst c args))) [.pyType "int"] = false :=
  never_qualify simpleTypes_ok (by simp [Concrete]) (.inst c args (by simpa [ClassDiffers] using h))

/-! ### 2. get_mypy_type vs a reference inference relation -/

/-- Reference: what mypy infers for the expression forms of the fragment, as a relation (the element types of
    displays and the type arguments of a freshly constructed instance are left open: only classes are specified).
    `Res Γ e (.ty t)` is the inference judgement proper; the symbol results (`.info`, `.aliasNode`, `.file`) say
    what a name / attribute DENOTES when it is a class, an alias or a module. -/
inductive Res (Γ : Ctx) : Expr → Val → Prop
  | strLit {t} : builtinType Γ "str" = some t → Res Γ .strLit (.ty t)
  | bytesLit {t} : builtinType Γ "bytes" = some t → Res Γ .bytesLit (.ty t)
  | intLit {t} : builtinType Γ "int" = some t → Res Γ .intLit (.ty t)
  | floatLit {t} : builtinType Γ "float" = some t → Res Γ .floatLit (.ty t)
  | complexLit {t} : builtinType Γ "complex" = some t → Res Γ .complexLit (.ty t)
  | boolLit {fn node nar t} : isBoolLiteral fn = true → builtinType Γ "bool" = some t → Res Γ (.name fn node nar) (.ty t)
  /-- flow-sensitive: a narrowed reference has the narrowed type -/
  | nameNarrowed {fn node t} : isBoolLiteral fn = false → Res Γ (.name fn node (some t)) (.ty t)
  | nameDeclared {fn s v} : isBoolLiteral fn = false → symVal s = some v → Res Γ (.name fn (some s) none) v
  | dictE {c} (args) : builtinType Γ "dict" = some (.inst c []) → Res Γ .dictE (.ty (.inst c args))
  | listE {c} (args) : builtinType Γ "list" = some (.inst c []) → Res Γ .listE (.ty (.inst c args))
  | setE {c} (args) : builtinType Γ "set" = some (.inst c []) → Res Γ .setE (.ty (.inst c args))
  | tupleE {c} (args) : builtinType Γ "tuple" = some (.inst c []) → Res Γ .tupleE (.ty (.inst c args))
  | tupleE' {c} (items) : builtinType Γ "tuple" = some (.inst c []) → Res Γ .tupleE (.ty (.tuple items c))
  | memberNarrowed {e n t} : Res Γ (.member e n (some t)) (.ty t)
  /-- an enum member reached through its class has the enum's type, not the type of its value -/
  | memberEnum {e c n t} : Res Γ e (.info c) → (Γ.classNames c).lookup n = some (.var t) → Γ.isEnumMember c n = true →
      Res Γ (.member e n none) (.ty (.inst c []))
  | memberClass {e c n s v} : Res Γ e (.info c) → (Γ.classNames c).lookup n = some s →
      (Γ.isEnumMember c n = false ∨ ∀ t, s ≠ .var t) → symVal s = some v → Res Γ (.member e n none) v
  | memberModule {e m n s v} : Res Γ e (.file m) → (Γ.moduleNames m).lookup n = some s → symVal s = some v →
      Res Γ (.member e n none) v
  | memberInst {e t c n s v} : Res Γ e (.ty t) → t.cls = some c → Γ.lookupMro c n = some s → symVal s = some v →
      Res Γ (.member e n none) v
  | castCall {t} : Res Γ (.castCall t) (.ty t)
  | callCallable {f r} : Res Γ f (.ty (.callable r)) → Res Γ (.call f) (.ty r)
  | callAlias {f t} : Res Γ f (.aliasNode t) → Res Γ (.call f) (.ty t)
  /-- constructing a class gives an instance of it (`type(x)` and TypedDict classes excepted) -/
  | callClass {f c} (args) : Res Γ f (.info c) → Γ.specialCtor c = false → Res Γ (.call f) (.ty (.inst c args))
  | notOp {mt t} : builtinType Γ "bool" = some t → Res Γ (.unary "not" mt) (.ty t)
  /-- operators, indexing: the return type of the dunder method mypy selected -/
  | unary {o r} : (o == "not") = false → Res Γ (.unary o (some (.callable r))) (.ty r)
  | op {o r} : Res Γ (.op o (some (.callable r))) (.ty r)
  | index {b r} : Res Γ (.index b (some (.callable r)) false) (.ty r)
  | awaitCoroutine {e a b r} : Res Γ e (.ty (.inst "typing.Coroutine" [a, b, r])) → Res Γ (.await e) (.ty r)
  | awaitTask {e r} : Res Γ e (.ty (.inst "asyncio.tasks.Task" [r])) → Res Γ (.await e) (.ty r)
  | lambda {b t} : Res Γ b (.ty t) → Res Γ (.lambda b) (.ty (.callable t))
  /-- an assignment expression has the type of its VALUE -/
  | walrus {target value v} : Res Γ value v → Res Γ (.walrus target value) v

/-- `Infers Γ e t`: mypy infers type `t` for `e` -/
def Infers (Γ : Ctx) (e : Expr) (t : Ty) : Prop := Res Γ e (.ty t)

theorem builtin_inst {Γ : Ctx} {n : String} {t : Ty} (h : builtinType Γ n = some t) : ∃ c, t = .inst c [] := by
  unfold builtinType at h
  split at h
  · simp at h; exact ⟨_, h.symm⟩
  · simp at h

theorem classAttrRef_sound {Γ : Ctx} {e : Expr} {c n : String} {s : Sym} {v : Val}
    (hr : Res Γ e (.info c)) (hl : (Γ.classNames c).lookup n = some s) (h : classAttrRef Γ c n s = some v) :
    Res Γ (.member e n none) v := by
  unfold classAttrRef at h
  split at h
  · rename_i t
    by_cases hm : Γ.isEnumMember c n = true
    · simp [hm] at h; subst h; exact .memberEnum hr hl hm
    · have hm : Γ.isEnumMember c n = false := by simpa using hm
      simp only [hm] at h
      exact .memberClass hr hl (Or.inl hm) (by simpa [symVal] using h)
  · rename_i hnv
    exact .memberClass hr hl (Or.inr (fun t ht => hnv t ht)) h

theorem memberRef_sound {Γ : Ctx} {e : Expr} {n : String} {recv v : Val}
    (hr : Res Γ e recv) (h : memberRef Γ (some recv) n = some v) : Res Γ (.member e n none) v := by
  unfold memberRef at h
  split at h
  · rename_i c heq
    cases heq
    cases hl : (Γ.classNames c).lookup n with
    | none => simp [hl] at h
    | some s => simp [hl] at h; exact classAttrRef_sound hr hl h
  · rename_i hni
    unfold memberOf at h
    split at h
    · rename_i m heq
      cases heq
      cases hl : (Γ.moduleNames m).lookup n with
      | none => simp [hl] at h
      | some s => simp [hl] at h; exact .memberModule hr hl h
    · rename_i c heq
      cases heq
      exact absurd rfl (hni c)
    · rename_i c args heq
      cases heq
      cases hl : Γ.lookupMro c n with
      | none => simp [hl] at h
      | some s => simp [hl] at h; exact .memberInst hr (by simp [Ty.cls]) hl h
    · simp at h

theorem callOf_sound {Γ : Ctx} {f : Expr} {fv v : Val} (hf : Res Γ f fv) (hsp : specialCall Γ (some fv) = false)
    (h : callOf (some fv) = some v) : Res Γ (.call f) v := by
  unfold callOf at h
  split at h
  · rename_i r heq; cases heq; simp at h; subst h; exact .callCallable hf
  · rename_i t heq; cases heq; simp at h; subst h; exact .callAlias hf
  · rename_i c heq; cases heq; simp at h; subst h
    exact .callClass [] hf (by simpa [specialCall] using hsp)
  · simp at h

theorem callRef_sound {Γ : Ctx} {f : Expr} {fv v : Val} (hf : Res Γ f fv) (h : callRef Γ (some fv) = some v) :
    Res Γ (.call f) v := by
  unfold callRef at h
  by_cases hsp : specialCall Γ (some fv) = true
  · simp [hsp] at h
  · have hsp : specialCall Γ (some fv) = false := by simpa using hsp
    simp only [hsp] at h
    exact callOf_sound hf hsp (by simpa using h)

theorem awaitOf_sound {Γ : Ctx} {e : Expr} {ev v : Val} (he : Res Γ e ev) (h : awaitOf (some ev) = some v) :
    Res Γ (.await e) v := by
  unfold awaitOf at h
  split at h
  · rename_i a b r heq; cases heq; simp at h; subst h; exact .awaitCoroutine he
  · rename_i r heq; cases heq; simp at h; subst h; exact .awaitTask he
  · simp at h

theorem methodRet_some {mt : Option Ty} {v : Val} (h : methodRet mt = some v) : ∃ r, mt = some (.callable r) ∧ v = .ty r := by
  unfold methodRet at h
  split at h
  · simp at h; exact ⟨_, rfl, h.symm⟩
  · simp at h

theorem display_sound {Γ : Ctx} {n : String} {v : Val} (h : (builtinType Γ n).map Val.ty = some v) :
    ∃ c, builtinType Γ n = some (.inst c []) ∧ v = .ty (.inst c []) := by
  cases hb : builtinType Γ n with
  | none => simp [hb] at h
  | some t =>
    obtain ⟨c, rfl⟩ := builtin_inst hb
    simp [hb] at h
    exact ⟨c, rfl, h.symm⟩

/-- the executable reference `inferRef` (what the harness compares with mypy's own `result.types`) only
    produces judgements of the relation, for expressions of any depth -/
theorem inferRef_sound (Γ : Ctx) : ∀ (e : Expr) (v : Val), inferRef Γ e = some v → Res Γ e v := by
  intro e
  induction e with
  | strLit => intro v h; obtain ⟨c, hb, rfl⟩ := display_sound (n := "str") h; exact .strLit hb
  | bytesLit => intro v h; obtain ⟨c, hb, rfl⟩ := display_sound (n := "bytes") h; exact .bytesLit hb
  | intLit => intro v h; obtain ⟨c, hb, rfl⟩ := display_sound (n := "int") h; exact .intLit hb
  | floatLit => intro v h; obtain ⟨c, hb, rfl⟩ := display_sound (n := "float") h; exact .floatLit hb
  | complexLit => intro v h; obtain ⟨c, hb, rfl⟩ := display_sound (n := "complex") h; exact .complexLit hb
  | name fn node nar =>
    intro v h
    simp only [inferRef] at h
    by_cases hb : isBoolLiteral fn = true
    · simp only [hb, if_true] at h
      obtain ⟨c, hb', rfl⟩ := display_sound (n := "bool") h
      exact .boolLit hb hb'
    · have hb : isBoolLiteral fn = false := by simpa using hb
      simp only [hb] at h
      cases nar with
      | some t => simp at h; subst h; exact .nameNarrowed hb
      | none =>
        cases node with
        | none => simp at h
        | some s => simp at h; exact .nameDeclared hb h
  | dictE => intro v h; obtain ⟨c, hb, rfl⟩ := display_sound (n := "dict") h; exact .dictE [] hb
  | listE => intro v h; obtain ⟨c, hb, rfl⟩ := display_sound (n := "list") h; exact .listE [] hb
  | tupleE => intro v h; obtain ⟨c, hb, rfl⟩ := display_sound (n := "tuple") h; exact .tupleE [] hb
  | setE => intro v h; obtain ⟨c, hb, rfl⟩ := display_sound (n := "set") h; exact .setE [] hb
  | member e n nar ih =>
    intro v h
    simp only [inferRef] at h
    cases nar with
    | some t => simp at h; subst h; exact .memberNarrowed
    | none =>
      simp only at h
      cases hr : inferRef Γ e with
      | none => simp [hr, memberRef, memberOf] at h
      | some recv => rw [hr] at h; exact memberRef_sound (ih recv hr) h
  | castCall t => intro v h; simp [inferRef] at h; subst h; exact .castCall
  | call f ih =>
    intro v h
    simp only [inferRef] at h
    cases hf : inferRef Γ f with
    | none => simp [hf, callRef, callOf, specialCall] at h
    | some fv => rw [hf] at h; exact callRef_sound (ih fv hf) h
  | unary o mt =>
    intro v h
    simp only [inferRef] at h
    by_cases ho : (o == "not") = true
    · simp only [ho, if_true] at h
      obtain ⟨c, hb, rfl⟩ := display_sound (n := "bool") h
      have : o = "not" := by simpa using ho
      subst this
      exact .notOp hb
    · have ho : (o == "not") = false := by simpa using ho
      simp only [ho] at h
      obtain ⟨r, rfl, rfl⟩ := methodRet_some h
      exact .unary ho
  | op o mt => intro v h; simp only [inferRef] at h; obtain ⟨r, rfl, rfl⟩ := methodRet_some h; exact .op
  | index b mt bu _ =>
    intro v h
    simp only [inferRef] at h
    cases bu with
    | true => simp at h
    | false => simp only [Bool.false_eq_true, if_false] at h; obtain ⟨r, rfl, rfl⟩ := methodRet_some h; exact .index
  | await e ih =>
    intro v h
    simp only [inferRef] at h
    cases he : inferRef Γ e with
    | none => simp [he, awaitOf] at h
    | some ev => rw [he] at h; exact awaitOf_sound (ih ev he) h
  | lambda b ih =>
    intro v h
    simp only [inferRef] at h
    cases hb : inferRef Γ b with
    | none => simp [hb, lambdaOf] at h
    | some bv =>
      rw [hb] at h
      unfold lambdaOf at h
      split at h
      · rename_i t heq
        cases heq
        split at h
        · simp at h; subst h; exact .lambda (ih _ hb)
        · simp at h
      · simp at h
  | lambdaOther => intro v h; simp [inferRef] at h
  | walrus target value _ ihv => intro v h; simp only [inferRef] at h; exact .walrus (ihv v h)
  | other => intro v h; simp [inferRef] at h

/-- the guard under which every answer of the resolver is the reference's answer: no narrowed reference, no
    non-member attribute of an enum class reached through the class, no subscript of a union-typed value, no call of a
    class with a special constructor -/
def Plain (Γ : Ctx) : Expr → Prop
  | .name _ _ narrowed => narrowed = none
  | .member e n narrowed => narrowed = none ∧ Plain Γ e ∧ enumNonMember Γ (getMypyType Γ e) n = false
  | .call callee => Plain Γ callee ∧ specialCall Γ (getMypyType Γ callee) = false
  | .index base _ baseUnion => Plain Γ base ∧ baseUnion = false
  | .await e => Plain Γ e
  | .lambda b => Plain Γ b
  | .walrus _ value => Plain Γ value
  | _ => True

theorem classAttr_agree {Γ : Ctx} {c n : String} {s : Sym} {v : Val} (hl : (Γ.classNames c).lookup n = some s)
    (hne : enumNonMember Γ (some (.info c)) n = false) (h : classAttr Γ c s = some v) :
    classAttrRef Γ c n s = some v := by
  unfold classAttr at h
  unfold classAttrRef
  split at h
  · rename_i t
    by_cases he : Γ.isEnum c = true
    · simp only [he, if_true] at h
      have hm : Γ.isEnumMember c n = true := by
        simp only [enumNonMember, hl, he, Bool.true_and, Bool.and_true] at hne
        simpa using hne
      simp [hm, h]
    · have he' : Γ.isEnum c = false := by simpa using he
      simp only [he'] at h
      have hm : Γ.isEnumMember c n = false := by
        unfold Ctx.isEnumMember
        unfold Ctx.isEnum at he'
        split <;> simp_all
      simp only [Bool.false_eq_true, if_false] at h
      simp [hm, h]
  · exact h

/-- on plain expressions of any depth every answer of the resolver is the reference's answer -/
theorem plain_agree (Γ : Ctx) : ∀ e : Expr, Plain Γ e → ∀ v, getMypyType Γ e = some v → inferRef Γ e = some v := by
  intro e
  induction e with
  | name fn node nar => intro h v hv; simp only [Plain] at h; subst h; simpa [getMypyType, inferRef] using hv
  | member e n nar ih =>
    intro h v hv
    simp only [Plain] at h
    obtain ⟨rfl, hp, hen⟩ := h
    simp only [getMypyType] at hv
    simp only [inferRef]
    cases hr : getMypyType Γ e with
    | none => simp [hr, memberOf] at hv
    | some recv =>
      rw [hr] at hv hen
      rw [ih hp recv hr]
      unfold memberRef
      split
      · rename_i c heq
        cases heq
        simp only [memberOf] at hv
        cases hl : (Γ.classNames c).lookup n with
        | none => simp [hl] at hv
        | some s => simp [hl] at hv ⊢; exact classAttr_agree hl hen hv
      · exact hv
  | call f ih =>
    intro h v hv
    simp only [Plain] at h
    simp only [getMypyType] at hv
    simp only [inferRef]
    cases hf : getMypyType Γ f with
    | none => simp [hf, callOf] at hv
    | some fv =>
      rw [hf] at hv
      rw [ih h.1 fv hf]
      have := h.2
      rw [hf] at this
      simp [callRef, this, hv]
  | index b mt bu ih =>
    intro h v hv
    simp only [Plain] at h
    obtain ⟨_, rfl⟩ := h
    simp only [getMypyType, indexOf] at hv
    simp only [inferRef]
    split at hv
    · split at hv
      · simpa using hv
      · simp at hv
    · simp at hv
  | await e ih =>
    intro h v hv
    simp only [getMypyType] at hv
    simp only [inferRef]
    cases he : getMypyType Γ e with
    | none => simp [he, awaitOf] at hv
    | some ev => rw [he] at hv; rw [ih h ev he]; exact hv
  | lambda b ih =>
    intro h v hv
    simp only [getMypyType] at hv
    simp only [inferRef]
    cases hb : getMypyType Γ b with
    | none => simp [hb, lambdaOf] at hv
    | some bv => rw [hb] at hv; rw [ih h bv hb]; exact hv
  | walrus target value _ ihv => intro h v hv; exact ihv h v hv
  | _ => intro _ v hv; exact hv

/-- the full statement: every answer of `get_mypy_type` is a judgement of the reference -/
def FullResolverSound : Prop := ∀ (Γ : Ctx) (e : Expr) (v : Val), getMypyType Γ e = some v → Res Γ e v

def intTy : Ty := .inst "builtins.int" []
def myIntTy : Ty := .inst "m.MyInt" []
def boolTy : Ty := .inst "builtins.bool" []

def emptyCtx : Ctx := { classes := [], modules := [], builtins := [] }

/-- `x: int` inside `if isinstance(x, bool):` -/
def narrowedWitness : Expr := .name "m.x" (some (.var (some intTy))) (some boolTy)

/-- FALSE: refurb types a reference by its declaration (`int`), mypy's binder has narrowed it (`bool`); FURB123 then
    calls `int(x)` redundant although it converts a `bool` -/
theorem resolver_sound_refuted : ¬ FullResolverSound := by
  intro h
  have h1 : getMypyType emptyCtx narrowedWitness = some (.ty intTy) := by
    simp [narrowedWitness, getMypyType, isBoolLiteral, symVal]
  have h2 := h _ _ _ h1
  have key : ∀ v, Res emptyCtx narrowedWitness v → v = .ty boolTy := by
    intro v hv
    unfold narrowedWitness at hv
    cases hv with
    | boolLit hb' _ => simp [isBoolLiteral] at hb'
    | nameNarrowed _ => rfl
  have := key _ h2
  simp [intTy, boolTy] at this

def enumCtx : Ctx :=
  { classes := [{ fullname := "m.IE", mro := ["m.IE", "enum.IntEnum", "builtins.int", "builtins.object"],
                  names := [("ONE", .var (some intTy))], isEnum := true, enumMembers := ["ONE"] }],
    modules := [], builtins := [] }

/-- `IE.ONE` for `class IE(IntEnum): ONE = 1`: resolver and reference both answer `IE`, not `int` -/
theorem enum_member_resolved :
    let e := Expr.member (.name "m.IE" (some (.typeInfo "m.IE")) none) "ONE" none
    getMypyType enumCtx e = some (.ty (.inst "m.IE" [])) ∧ inferRef enumCtx e = some (.ty (.inst "m.IE" [])) := by
  constructor <;> rfl

/-- `(w := v)` with `w: int`, `v: MyInt`: typed by the VALUE, as mypy does -/
theorem walrus_by_value (Γ : Ctx) (t v : Expr) : getMypyType Γ (.walrus t v) = getMypyType Γ v := rfl

/-- `v[0]` for `v: list[int] | list[str]`: the base does not resolve to an `Instance`, so the resolver has no answer
    (mypy's `method_type` only describes the last union member) -/
theorem union_index_unresolved :
    let v := Expr.name "m.v" (some (.var (some (.union [.inst "builtins.list" [intTy], .inst "builtins.list" [.inst "builtins.str" []]])))) none
    getMypyType emptyCtx (.index v (some (.callable (.inst "builtins.str" []))) true) = none := rfl

/-- TRUE for plain expressions of any depth: what the resolver answers is what the reference infers -/
theorem resolver_sound_partial (Γ : Ctx) (e : Expr) (v : Val) (hp : Plain Γ e) (h : getMypyType Γ e = some v) :
    Res Γ e v :=
  inferRef_sound Γ e v (plain_agree Γ e hp v h)

/-- in the form of the design: a type answered for a plain expression is the type mypy infers -/
theorem resolver_sound (Γ : Ctx) (e : Expr) (t : Ty) (hp : Plain Γ e) (h : getMypyType Γ e = some (.ty t)) :
    Infers Γ e t :=
  resolver_sound_partial Γ e _ hp h

/-- the resolver has no answer for the forms outside the fragment (conditional expressions, comprehensions,
    `and`/`or` and every operator for which mypy recorded no single method, multi-statement lambdas) -/
theorem unsupported_unresolved (Γ : Ctx) (o : String) :
    getMypyType Γ .other = none ∧ getMypyType Γ .lambdaOther = none ∧ getMypyType Γ (.op o none) = none ∧
    getMypyType Γ (.index .other none false) = none ∧ getMypyType Γ (.name "m.undefined" none none) = none := by
  simp [getMypyType, methodRet, isBoolLiteral, indexOf]

/-! ### 3. is_subclass over MROs of any length -/

theorem mroMatches_iff (tbl : SimpleTypes) (mro : List String) (es : List Expected) :
    mroMatches tbl mro es = true ↔ ∃ c ∈ mro, ∃ e ∈ es, isSameName tbl c e = true := by
  simp [mroMatches, List.any_eq_true]

theorem mroMatches_append (tbl : SimpleTypes) (m₁ m₂ : List String) (es : List Expected) :
    mroMatches tbl (m₁ ++ m₂) es = (mroMatches tbl m₁ es || mroMatches tbl m₂ es) := by
  simp [mroMatches, List.any_append]

/-- monotone in the MRO: whatever a class qualifies for, every class whose MRO contains that class's MRO
    (every subclass) qualifies for too -/
theorem mroMatches_mono (tbl : SimpleTypes) {m₁ m₂ : List String} (es : List Expected)
    (sub : ∀ c ∈ m₁, c ∈ m₂) (h : mroMatches tbl m₁ es = true) : mroMatches tbl m₂ es = true := by
  obtain ⟨c, hc, e, he, hs⟩ := (mroMatches_iff tbl m₁ es).mp h
  exact (mroMatches_iff tbl m₂ es).mpr ⟨c, sub c hc, e, he, hs⟩

theorem isSubclass_subclass (tbl : SimpleTypes) (Γ : Ctx) (c d : String) (a₁ a₂ : List Ty) (es : List Expected)
    (sub : ∀ x ∈ Γ.mro c, x ∈ Γ.mro d) (h : isSubclass tbl Γ (some (.ty (.inst c a₁))) es = true) :
    isSubclass tbl Γ (some (.ty (.inst d a₂))) es = true := by
  simp only [isSubclass, extractTypeinfo] at h ⊢
  exact mroMatches_mono tbl es sub h

/-- with a class name as the expectation (`"typing.Mapping"`, `"io.IOBase"`, …) `is_subclass` is membership of
    that name in the MRO, whatever its length -/
theorem isSubclass_named {tbl : SimpleTypes} (ok : TableOK tbl) (Γ : Ctx) (c : String) (args : List Ty) (s : String) :
    isSubclass tbl Γ (some (.ty (.inst c args))) [.named s] = true ↔ s ∈ Γ.mro c := by
  simp only [isSubclass, extractTypeinfo]
  rw [mroMatches_iff]
  constructor
  · rintro ⟨x, hx, e, he, hs⟩
    simp at he
    subst he
    have := isSameName_exact ok (c := x) (T := .named s)
    unfold isSameName at hs
    cases hl : tbl.lookup x with
    | none => simp [hl] at hs; subst hs; exact hx
    | some v =>
      simp [hl] at hs
      rcases hs with hs | hs
      · subst hs; exact absurd hl (lookup_not_named ok)
      · subst hs; exact hx
  · intro hs
    exact ⟨s, hs, .named s, by simp, by simp [isSameName]⟩

/-- `extract_typeinfo` does not expand aliases: a value declared through a type alias is never a Mapping / Sized
    for refurb (conservative: a diagnostic is withheld, none is added) -/
theorem isSubclass_alias (tbl : SimpleTypes) (Γ : Ctx) (t : Ty) (es : List Expected) :
    isSubclass tbl Γ (some (.ty (.alias t))) es = false := by
  simp [isSubclass, extractTypeinfo]

/-- every tuple type — also a NamedTuple's — is judged by the MRO of builtins' `tuple`, whatever its fallback -/
theorem isSubclass_tuple (tbl : SimpleTypes) (Γ : Ctx) (i₁ i₂ : List Ty) (f₁ f₂ : String) (es : List Expected) :
    isSubclass tbl Γ (some (.ty (.tuple i₁ f₁))) es = isSubclass tbl Γ (some (.ty (.tuple i₂ f₂))) es := by
  simp [isSubclass, extractTypeinfo]

/-- the class object itself (`NT`, `dict`) is not an instance of anything: `len(NT) == 0` is not a len-check of a Sized -/
theorem isSubclass_classobj (tbl : SimpleTypes) (Γ : Ctx) (c : String) (es : List Expected) :
    isSubclass tbl Γ (some (.info c)) es = false := by
  simp [isSubclass, extractTypeinfo]

/-- no answer, Any, unions, type variables, callables, modules: never a subclass of anything -/
theorem isSubclass_never (tbl : SimpleTypes) (Γ : Ctx) (es : List Expected) (r : Ty) (items : List Ty) :
    isSubclass tbl Γ none es = false ∧ isSubclass tbl Γ (some (.ty .any)) es = false ∧
    isSubclass tbl Γ (some (.ty (.union items))) es = false ∧ isSubclass tbl Γ (some (.ty .typeVar)) es = false ∧
    isSubclass tbl Γ (some (.ty (.callable r))) es = false ∧ isSubclass tbl Γ (some (.ty .none)) es = false := by
  simp [isSubclass, extractTypeinfo]

/-- `mypy_type_to_python_type` answers only for instances, with the class `SIMPLE_TYPES` registers -/
theorem mypyTypeToPythonType_some {tbl : SimpleTypes} (ok : TableOK tbl) (v : Option Val) (n : String)
    (h : mypyTypeToPythonType tbl v = some (.pyType n)) : ∃ args, v = some (.ty (.inst ("builtins." ++ n) args)) := by
  unfold mypyTypeToPythonType at h
  split at h
  · rename_i c args
    have := lookup_pyType ok h
    subst this
    exact ⟨args, rfl⟩
  · simp at h

/-! ### 4. FURB123 end to end -/

/-- If FURB123 reports `T(E)` for a plain operand `E` of any depth and the guard holds, then the reference infers
    for `E` a type that is — after alias expansion — exactly an instance of one of the classes `FUNC_NAME_MAPPING`
    lists for `T` (a real tuple for `tuple`). -/
theorem furb123_partial (Γ : Ctx) (callee : String) (arg : Expr)
    (hp : Plain Γ arg) (g : WellNamed (getMypyType Γ arg))
    (h : furb123 simpleTypes funcNameMapping Γ callee arg = true) :
    ∃ suffix es, funcNameMapping.lookup callee = some (suffix, es) ∧
      ∃ T ∈ es, ∃ t, Infers Γ arg t ∧ ExactlyTy t T := by
  unfold furb123 furb123V at h
  cases hl : funcNameMapping.lookup callee with
  | none => simp [hl] at h
  | some row =>
    obtain ⟨suffix, es⟩ := row
    simp only [hl] at h
    refine ⟨suffix, es, rfl, ?_⟩
    obtain ⟨T, hT, hex⟩ := isSameType_exact simpleTypes_ok _ es g h
    have hrow := funcNameMapping_concrete _ (lookup_mem _ _ _ hl)
    have hconc : Concrete T := by
      simp only [fnmRowOK, List.all_eq_true] at hrow
      have := hrow T hT
      cases T <;> simp_all [Concrete]
    cases hv : getMypyType Γ arg with
    | none => rw [hv] at hex; cases T <;> simp_all [Exactly, Concrete]
    | some v =>
      rw [hv] at hex
      cases v with
      | ty t => exact ⟨T, hT, t, resolver_sound Γ arg t hp hv, by simpa [Exactly] using hex⟩
      | info c => simp [Exactly] at hex
      | aliasNode t => simp [Exactly] at hex
      | file m => simp [Exactly] at hex

/-- FURB123 stays silent whenever the operand has no answer, or one that never qualifies -/
theorem furb123_silent_unresolved (Γ : Ctx) (callee : String) (arg : Expr) (h : getMypyType Γ arg = none) :
    furb123 simpleTypes funcNameMapping Γ callee arg = false := by
  unfold furb123 furb123V
  cases hl : funcNameMapping.lookup callee with
  | none => rfl
  | some row =>
    obtain ⟨suffix, es⟩ := row
    simp only [h]
    apply never_qualify_unresolved
    have hrow := funcNameMapping_concrete _ (lookup_mem _ _ _ hl)
    simp only [fnmRowOK, List.all_eq_true] at hrow
    intro e he heq
    subst heq
    simpa using hrow _ he

/-! ### non-vacuity -/

def demoCtx : Ctx :=
  { classes := [
      { fullname := "builtins.list", mro := ["builtins.list", "typing.MutableSequence", "typing.Sequence", "typing.Collection", "builtins.object"],
        names := [("copy", .func (some (.callable (.inst "builtins.list" [.typeVar]))))] },
      { fullname := "m.User", mro := ["m.User", "builtins.object"], names := [("items", .var (some (.inst "builtins.list" [intTy])))] }],
    modules := [("m", [("u", .var (some (.inst "m.User" [])))])],
    builtins := [("int", .typeInfo "builtins.int"), ("list", .typeInfo "builtins.list"), ("function", .typeInfo "builtins.function")] }

/-- `list(u.items.copy())` with `u: User`, `User.items: list[int]` -/
def demoArg : Expr := .call (.member (.member (.name "m.u" (some (.var (some (.inst "m.User" [])))) none) "items" none) "copy" none)

example : furb123 simpleTypes funcNameMapping demoCtx "builtins.list" demoArg = true := by decide +kernel
theorem demo_plain : Plain demoCtx demoArg := by
  simp only [Plain, demoArg]
  refine ⟨⟨trivial, ⟨trivial, trivial, ?_⟩, ?_⟩, ?_⟩
  · rfl
  · rfl
  · rfl

theorem demo_resolved : getMypyType demoCtx demoArg = some (.ty (.inst "builtins.list" [.typeVar])) := rfl

example : WellNamed (getMypyType demoCtx demoArg) := by
  rw [demo_resolved]; simp [WellNamed, WellNamedTy]
example : ∃ t, Infers demoCtx demoArg t ∧ ExactlyTy t (.pyType "list") :=
  ⟨.inst "builtins.list" [.typeVar], resolver_sound demoCtx demoArg _ demo_plain demo_resolved, by simp [ExactlyTy]⟩
example : NonQual (.pyType "int") (.alias (.alias (.union [intTy, .none]))) := .alias _ (.alias _ (.union _))
example : isSubclass simpleTypes demoCtx (some (.ty (.inst "builtins.list" [intTy]))) [.named "typing.Sized", .named "typing.Collection"] = true := by
  decide +kernel
example : (isSubclass_named simpleTypes_ok demoCtx "builtins.list" [] "typing.Sequence").mpr (by decide +kernel) = rfl := rfl

end RefurbVerif.C05
