/-
C15 — suggestions never need a newer Python than the configured target version.

Three layers.

1. Unbounded, table-free: the two gate shapes refurb's checks use (`Gate`, Model/Gates.lean) are sound
   for EVERY target version exactly when the threshold is at least the feature's first version
   (`gate_sound`, `gate_too_low_is_unsound`), and raising the target never closes a gate (`gate_monotone`).
2. Finite tables, `decide +kernel`: Generated/Gates.lean (what refurb really reported on every check's
   idioms under every target 3.6 … 3.13, re-generated from /repo on every run) against the committed
   reference table Model/Introduced.lean: `every_feature_listed`, `step_function`, `gate_ge_feature…`,
   `variant_switch`, `featured_checks_take_settings…`.
3. Lifting: the table row pattern of every check IS a threshold gate (`step_function`), so the
   statements extend from the swept targets to every target ≥ 3.6 (`monotone`,
   `gate_ge_feature_unbounded_…`): above the last swept target nothing changes and every feature that is
   proposed there is already old enough.

The full `gate_ge_feature` is FALSE of the current code: FURB178 proposes `shlex.join` (3.8) under
targets 3.6 and 3.7.  It is kept as `FullGateGeFeature`, refuted, and proved under the two guards that
each make it true (targets ≥ 3.8; every check but FURB178).
-/
import RefurbVerif.Model.Gates
import RefurbVerif.Generated.Gates
import RefurbVerif.Generated.Catalogue
import RefurbVerif.Props.C14

namespace RefurbVerif.C15

open RefurbVerif RefurbVerif.Generated

/-! ## order lemmas (Python tuple comparison on `(major, minor)`) -/

theorem ble_iff (a b : Ver) : a.ble b = true ↔ (a.major < b.major ∨ (a.major = b.major ∧ a.minor ≤ b.minor)) := by
  simp [Ver.ble]

theorem blt_iff (a b : Ver) : a.blt b = true ↔ (a.major < b.major ∨ (a.major = b.major ∧ a.minor < b.minor)) := by
  simp [Ver.blt]

theorem le_iff (a b : Ver) : a ≤ b ↔ a.ble b = true := Iff.rfl
theorem lt_iff (a b : Ver) : a < b ↔ a.blt b = true := Iff.rfl

theorem ble_refl (a : Ver) : a.ble a = true := by rw [ble_iff]; omega

theorem ble_trans {a b c : Ver} (h1 : a.ble b = true) (h2 : b.ble c = true) : a.ble c = true := by
  rw [ble_iff] at *; omega

/-- `not (v < t)` is `t <= v`: the early `return` is skipped exactly from the threshold on -/
theorem not_blt (v t : Ver) : (!(v.blt t)) = t.ble v := by
  have h1 := blt_iff v t
  have h2 := ble_iff t v
  cases hb : v.blt t <;> cases hc : t.ble v <;> simp_all <;> omega

theorem blt_of_ble_of_blt {a b c : Ver} (h1 : a.ble b = true) (h2 : b.blt c = true) : a.blt c = true := by
  rw [ble_iff] at h1; rw [blt_iff] at *; omega

/-! ## 1. the gate shapes, for every target version -/

/-- the condition a gate has to meet for a feature first available in `since` -/
def _root_.RefurbVerif.Gate.guards : Gate → Ver → Prop
  | .always, _ => True
  | .returnBelow t, since => since ≤ t
  | .switchFrom t, since => since ≤ t

/-- A gate whose threshold is not below the feature's first version never makes refurb propose the
    feature under an older target — for every target whatsoever, not only the swept ones. -/
theorem gate_sound (g : Gate) (since : Ver) (h : g.guards since) :
    ∀ v : Ver, g.usesFeature v = true → since ≤ v := by
  intro v hv
  cases g with
  | always => simp [Gate.usesFeature] at hv
  | returnBelow t =>
    simp only [Gate.usesFeature, not_blt] at hv
    exact ble_trans h hv
  | switchFrom t =>
    simp only [Gate.usesFeature] at hv
    exact ble_trans h hv

/-- Conversely a threshold below the feature's first version is always a violation: under the
    threshold target itself the feature is proposed although it does not exist yet.  (This is what
    makes a weakened gate, e.g. FURB188's `< (3, 9)` turned into `< (3, 8)`, show up.) -/
theorem gate_too_low_is_unsound (t since : Ver) (h : t < since) :
    (Gate.returnBelow t).usesFeature t = true ∧ (Gate.switchFrom t).usesFeature t = true ∧ ¬ since ≤ t := by
  refine ⟨?_, ?_, ?_⟩
  · simp only [Gate.usesFeature, not_blt]; exact ble_refl t
  · simp only [Gate.usesFeature]; exact ble_refl t
  · intro h2
    rw [lt_iff, blt_iff] at h
    rw [le_iff, ble_iff] at h2
    omega

/-- Raising the target never makes a gated check stop reporting. -/
theorem gate_monotone (g : Gate) (v w : Ver) (hvw : v ≤ w) (h : g.reports v = true) : g.reports w = true := by
  cases g with
  | always => rfl
  | returnBelow t =>
    simp only [Gate.reports, not_blt] at *
    exact ble_trans h hvw
  | switchFrom t => rfl

/-- … and never switches a message back to the older spelling. -/
theorem gate_switch_monotone (g : Gate) (v w : Ver) (hvw : v ≤ w) (h : g.usesFeature v = true) :
    g.usesFeature w = true := by
  cases g with
  | always => simp [Gate.usesFeature] at h
  | returnBelow t =>
    simp only [Gate.usesFeature, not_blt] at *
    exact ble_trans h hvw
  | switchFrom t =>
    simp only [Gate.usesFeature] at *
    exact ble_trans h hvw

/-- `Settings.get_python_version`: a configured target wins, otherwise the running interpreter. -/
theorem getPythonVersion_spec (running : Ver) :
    getPythonVersion none running = running ∧ ∀ v, getPythonVersion (some v) running = v := by
  simp [getPythonVersion]

/-! ## 2. the generated table against the reference table -/

/-- The generated `featureSince` column is exactly what the committed reference table says about
    the generated feature names (the translator's own reading of the table is not trusted). -/
theorem featureSince_correct : resolve featureNames = featureSince := by decide +kernel

/-- No silent unknowns: every feature the scanner found in any replacement of any check is an entry
    of the committed reference table (an `unlisted:<token>` name would resolve to `none`), and every
    variant's feature indices point into the name list. -/
theorem every_feature_listed : allListed (resolve featureNames) gates = true := by
  rw [featureSince_correct]; decide +kernel

/-- ∀-form of `every_feature_listed`. -/
theorem every_feature_has_a_version :
    ∀ ck ∈ gates, ∀ var ∈ ck.variants, ∀ i ∈ var.features, ∃ name since,
      featureNames[i]? = some name ∧ introducedIn name = some since ∧ sinceAt featureSince i = some since := by
  intro ck hck var hvar i hi
  have h := every_feature_listed
  simp only [allListed, Bool.and_eq_true, List.all_eq_true, decide_eq_true_eq] at h
  have hlt : i < (resolve featureNames).length := h.2 ck hck var hvar i hi
  have hlt' : i < featureNames.length := by simpa [resolve] using hlt
  have hmem : (resolve featureNames)[i] ∈ resolve featureNames := List.getElem_mem hlt
  have hsome := h.1 _ hmem
  have hget : (resolve featureNames)[i] = introducedIn featureNames[i] := by simp [resolve]
  cases hs : introducedIn featureNames[i] with
  | none => rw [hget, hs] at hsome; cases hsome
  | some since =>
    refine ⟨featureNames[i], since, List.getElem?_eq_getElem hlt', hs, ?_⟩
    rw [← featureSince_correct]
    simp [sinceAt, resolve, List.getElem?_eq_getElem hlt', hs]

/-- The sweep covers targets inside `tableMin … tableMax` only. -/
theorem table_in_range : inRange gates tableMin tableMax = true := by decide +kernel

theorem row_in_range : ∀ ck ∈ gates, ∀ row ∈ ck.rows, tableMin ≤ row.ver ∧ row.ver ≤ tableMax := by
  intro ck hck row hrow
  have h := table_in_range
  simp only [inRange, List.all_eq_true, Bool.and_eq_true] at h
  exact h ck hck row hrow

/-- Every check's row pattern over the swept targets is a step function: there is a threshold (the
    first target under which it reported) from which on it always reports, and below which it never
    does.  I.e. the table refines one threshold gate per check. -/
theorem step_function : refinesThreshold gates = true := by decide +kernel

theorem step_function_row : ∀ ck ∈ gates, ∀ row ∈ ck.rows, row.reports = ck.reportsAt row.ver := by
  intro ck hck row hrow
  have h := step_function
  simp only [refinesThreshold, List.all_eq_true, beq_iff_eq] at h
  exact h ck hck row hrow

/-- **monotone** (every target version, unbounded): raising the target never removes a check's
    diagnostic — if the check reports under `v` it reports under every `w ≥ v`. -/
theorem monotone_check (ck : CheckGates) (v w : Ver) (hvw : v ≤ w) (h : ck.reportsAt v = true) : ck.reportsAt w = true := by
  unfold CheckGates.reportsAt at *
  split at h
  · exact ble_trans h hvw
  · cases h

/-- `monotone_check` by check code. -/
theorem monotone (c : Nat) (v w : Ver) (hvw : v ≤ w) (h : reportsAt gates c v = true) : reportsAt gates c w = true := by
  unfold reportsAt at *
  split at h
  · exact monotone_check _ v w hvw h
  · cases h

/-- `monotone` read off the rows themselves. -/
theorem monotone_table : ∀ ck ∈ gates, ∀ r1 ∈ ck.rows, ∀ r2 ∈ ck.rows, r1.ver ≤ r2.ver →
    r1.reports = true → r2.reports = true := by
  intro ck hck r1 h1 r2 h2 hv hr
  rw [step_function_row ck hck r1 h1] at hr
  rw [step_function_row ck hck r2 h2]
  exact monotone_check ck r1.ver r2.ver hv hr

/-- what the checker `gateGeFeature` establishes, as a ∀-statement -/
theorem gateGeFeature_spec {since : List (Option Ver)} {lo : Ver} {cks : List CheckGates} {q : Nat → Bool} {p : Row → Bool}
    (h : gateGeFeature since lo cks q p = true) :
    ∀ ck ∈ cks, q ck.code = true → ∀ row ∈ ck.rows, p row = true → lo ≤ row.ver →
      ∀ var ∈ ck.variants, var.id ∈ row.variants →
        ∀ i ∈ var.features, ∀ s, sinceAt since i = some s → s ≤ row.ver := by
  intro ck hck hq row hrow hp hlo var hvar hid i hi s hs
  simp only [gateGeFeature, List.all_eq_true, Bool.or_eq_true, Bool.not_eq_true'] at h
  rcases h ck hck with hno | hall
  · rw [hq] at hno; cases hno
  · have h1 := hall var hvar
    simp only [variantOk, List.all_eq_true] at h1
    have h2 := h1 i hi
    rw [hs] at h2
    simp only [Bool.or_eq_true, List.all_eq_true, Bool.not_eq_true', Bool.and_eq_false_iff] at h2
    rcases h2 with hold | hrows
    · exact ble_trans hold hlo
    · rcases hrows row hrow with hno | hle
      · rcases hno with hno | hno
        · rw [hp] at hno; cases hno
        · simp [hid] at hno
      · exact hle

/-- **gate_ge_feature**, full statement: under every swept target, every feature of every message a
    check produces is available in that target. -/
def FullGateGeFeature : Prop := gateGeFeature featureSince tableMin gates (fun _ => true) (fun _ => true) = true

/-- The full statement is FALSE of the current code: some check proposes a feature that the target
    does not have (FURB178 proposes `shlex.join`, new in 3.8, under targets 3.6 and 3.7; the oracle of
    harness/props/c15.py reproduces it through the CLI). -/
theorem gate_ge_feature : FullGateGeFeature := by
  unfold FullGateGeFeature; decide +kernel

/-- It holds for every target from 3.8 on: what is missing below is exactly a gate for a 3.8 feature. -/
theorem gate_ge_feature_partial_from_3_8 :
    gateGeFeature featureSince tableMin gates (fun _ => true) (fun row => (⟨3, 8⟩ : Ver).ble row.ver) = true := by
  decide +kernel

/-- It holds for every check except FURB178, under every swept target (3.6 included). -/
theorem gate_ge_feature_partial_except_furb178 :
    gateGeFeature featureSince tableMin gates (fun c => c != 178) (fun _ => true) = true := by decide +kernel

/-- ∀-form: for every check but FURB178, whenever it produces message `var` under swept target
    `row.ver`, every feature `var` needs has a first version, and it is ≤ the target. -/
theorem gate_ge_feature_except_furb178 :
    ∀ ck ∈ gates, ck.code ≠ 178 → ∀ row ∈ ck.rows, ∀ var ∈ ck.variants, var.id ∈ row.variants →
      ∀ i ∈ var.features, ∃ since, sinceAt featureSince i = some since ∧ since ≤ row.ver := by
  intro ck hck hne row hrow var hvar hid i hi
  obtain ⟨_, since, _, _, hs⟩ := every_feature_has_a_version ck hck var hvar i hi
  refine ⟨since, hs, ?_⟩
  exact gateGeFeature_spec gate_ge_feature_partial_except_furb178 ck hck (by simpa using hne) row hrow rfl
    (row_in_range ck hck row hrow).1 var hvar hid i hi since hs

/-! ## 3. lifting to every target ≥ the first swept one -/

theorem clamp_le {lo hi v : Ver} (h : lo ≤ v) : (clampVer lo hi v).ble v = true := by
  unfold clampVer
  split
  · exact h
  · split
    · assumption
    · exact ble_refl v

theorem rowAt_mem {ck : CheckGates} {lo hi v : Ver} {row : Row}
    (h : ck.rowAt lo hi v = some row) : row ∈ ck.rows ∧ row.ver = clampVer lo hi v := by
  unfold CheckGates.rowAt at h
  have hm := List.mem_of_find?_eq_some h
  have hp := List.find?_some h
  simp only [beq_iff_eq] at hp
  exact ⟨hm, hp⟩

/-- generic lifting lemma: a table that passes `gateGeFeature` under guards `q`, `p` satisfies the
    property under EVERY target `v ≥ lo`, for the row that speaks for `v` -/
theorem lift_gate_ge_feature {since : List (Option Ver)} {cks : List CheckGates} {q : Nat → Bool} {p : Row → Bool}
    {lo hi : Ver} (h : gateGeFeature since lo cks q p = true)
    (hr : ∀ ck ∈ cks, ∀ row ∈ ck.rows, lo ≤ row.ver) :
    ∀ ck ∈ cks, q ck.code = true → ∀ v : Ver, lo ≤ v → ∀ row, ck.rowAt lo hi v = some row → p row = true →
      ∀ var ∈ ck.variants, var.id ∈ row.variants →
        ∀ i ∈ var.features, ∀ s, sinceAt since i = some s → s ≤ v := by
  intro ck hck hq v hv row hrow hp var hvar hid i hi s hs
  obtain ⟨hm, hver⟩ := rowAt_mem hrow
  have h1 := gateGeFeature_spec h ck hck hq row hm hp (hr ck hck row hm) var hvar hid i hi s hs
  have h2 : row.ver.ble v = true := by rw [hver]; exact clamp_le hv
  exact ble_trans h1 h2

/-- **gate_ge_feature for every target ≥ 3.6** (unbounded), every check but FURB178: whatever message
    the check produces under target `v` (beyond the sweep: what it produces under the last swept
    target, see `step_function`), every feature the message needs is at most `v`. -/
theorem gate_ge_feature_unbounded_except_furb178 :
    ∀ ck ∈ gates, ck.code ≠ 178 → ∀ v : Ver, tableMin ≤ v → ∀ row, ck.rowAt tableMin tableMax v = some row →
      ∀ var ∈ ck.variants, var.id ∈ row.variants →
        ∀ i ∈ var.features, ∃ since, sinceAt featureSince i = some since ∧ since ≤ v := by
  intro ck hck hne v hv row hrow var hvar hid i hi
  obtain ⟨_, since, _, _, hs⟩ := every_feature_has_a_version ck hck var hvar i hi
  refine ⟨since, hs, ?_⟩
  exact lift_gate_ge_feature gate_ge_feature_partial_except_furb178 (fun ck hck row hrow => (row_in_range ck hck row hrow).1)
    ck hck (by simpa using hne) v hv row hrow rfl var hvar hid i hi since hs

/-- **gate_ge_feature for every target ≥ 3.8** (unbounded), every check. -/
theorem gate_ge_feature_unbounded_from_3_8 :
    ∀ ck ∈ gates, ∀ v : Ver, (⟨3, 8⟩ : Ver) ≤ v → ∀ row, ck.rowAt tableMin tableMax v = some row →
      ∀ var ∈ ck.variants, var.id ∈ row.variants →
        ∀ i ∈ var.features, ∃ since, sinceAt featureSince i = some since ∧ since ≤ v := by
  intro ck hck v hv row hrow var hvar hid i hi
  obtain ⟨_, since, _, _, hs⟩ := every_feature_has_a_version ck hck var hvar i hi
  refine ⟨since, hs, ?_⟩
  have hlo : tableMin ≤ v := ble_trans (by decide : tableMin.ble ⟨3, 8⟩ = true) hv
  have hver : row.ver = clampVer tableMin tableMax v := (rowAt_mem hrow).2
  have hp : (⟨3, 8⟩ : Ver).ble row.ver = true := by
    rw [hver]; unfold clampVer
    split
    · rename_i h; exact absurd (ble_trans hv h) (by decide)
    · split
      · decide
      · exact hv
  exact lift_gate_ge_feature gate_ge_feature_partial_from_3_8 (fun ck hck row hrow => (row_in_range ck hck row hrow).1)
    ck hck rfl v hlo row hrow hp var hvar hid i hi since hs

/-! ## message switches -/

/-- **variant_switch**: between two swept targets `v ≤ w` up to the running interpreter's version, a
    message that is produced under `v` and no longer under `w` has been replaced — some message is
    produced under `w` that was not produced under `v`, and it needs a feature newer than `v` (it is
    the newer spelling; by `gate_ge_feature…` that feature is ≤ `w`).  No diagnostic just vanishes. -/
theorem variant_switch : switchOk featureSince gates runningVersion = true := by decide +kernel

theorem uniform_spec {ck : CheckGates} (h : ck.uniform = true) : ∀ r1 ∈ ck.rows, ∀ r2 ∈ ck.rows, r1.variants = r2.variants := by
  unfold CheckGates.uniform at h
  split at h
  · intro r1 h1; rename_i heq; rw [heq] at h1; cases h1
  · rename_i r rs heq
    simp only [List.all_eq_true, beq_iff_eq] at h
    have key : ∀ x ∈ ck.rows, x.variants = r.variants := by
      intro x hx
      rw [heq] at hx
      rcases List.mem_cons.mp hx with rfl | hx
      · rfl
      · exact h x hx
    intro r1 h1 r2 h2
    rw [key r1 h1, key r2 h2]

theorem variant_switch_row : ∀ ck ∈ gates, ∀ r1 ∈ ck.rows, ∀ r2 ∈ ck.rows, r1.ver ≤ r2.ver → r2.ver ≤ runningVersion →
    ∀ old ∈ r1.variants, old ∉ r2.variants →
      ∃ new ∈ r2.variants, new ∉ r1.variants ∧ newerThan featureSince ck.variants new r1.ver = true := by
  intro ck hck r1 h1 r2 h2 hv hw old hold hgone
  have h := variant_switch
  simp only [switchOk, List.all_eq_true, Bool.or_eq_true] at h
  rcases h ck hck with hu | hall
  · rw [uniform_spec hu r1 h1 r2 h2] at hold
    exact absurd hold hgone
  · rcases hall r1 h1 r2 h2 with hno | hall2
    · simp only [Bool.not_eq_true', Bool.and_eq_false_iff] at hno
      rcases hno with hno | hno
      · rw [le_iff] at hv; rw [hv] at hno; cases hno
      · rw [le_iff] at hw; rw [hw] at hno; cases hno
    · rcases hall2 old hold with hstill | hnew
      · exact absurd (List.contains_iff_mem.mp hstill) hgone
      · simp only [List.any_eq_true, Bool.and_eq_true, Bool.not_eq_true'] at hnew
        obtain ⟨new, hnew, hnot, hnewer⟩ := hnew
        refine ⟨new, hnew, ?_, hnewer⟩
        intro hin
        rw [List.contains_iff_mem.mpr hin] at hnot
        cases hnot

/-! ## a check that proposes a post-3.6 feature must be able to see the target -/

def takesSettings (code : Nat) : Bool := catalogue.any fun ci => ci.code == code && ci.nparams == 3

def featuredChecksTakeSettings (q : Nat → Bool) : Bool :=
  gates.all fun ck => !q ck.code || !(ck.variants.any (hasFeatureAfter featureSince tableMin)) || takesSettings ck.code

/-- full statement: every check with a message that needs something newer than the first swept target
    receives `settings` (3 parameters) — a check that cannot see the target cannot respect it -/
def FullFeaturedChecksTakeSettings : Prop := featuredChecksTakeSettings (fun _ => true) = true

/-- FALSE today: FURB178 proposes `shlex.join` and takes no `settings`. -/
theorem featured_checks_take_settings : FullFeaturedChecksTakeSettings := by
  unfold FullFeaturedChecksTakeSettings; decide +kernel

/-- True of every other check. -/
theorem featured_checks_take_settings_partial : featuredChecksTakeSettings (fun c => c != 178) = true := by
  decide +kernel

/-! ## non-vacuity -/

/-- gates are really observed: some checks are silent under a low swept target and report under a higher one;
    and a check that reports under the first swept target is modelled as reporting under every older target too -/
example : (gates.filter fun ck => ck.rows.any (fun r => !r.reports) && ck.rows.any (·.reports)).length ≥ 3 ∧
    reportsAt gates 100 ⟨3, 6⟩ = true ∧ reportsAt gates 100 ⟨2, 7⟩ = true ∧ reportsAt gates 100 ⟨3, 40⟩ = true := by
  decide +kernel

/-- the table has featured variants, so `gate_ge_feature…` is not vacuous -/
example : (gates.filter fun ck => ck.variants.any (hasFeatureAfter featureSince tableMin)).length ≥ 6 := by decide +kernel

/-- a real switch happens (FURB121 between 3.9 and 3.10), so `variant_switch` is not vacuous -/
example : (gates.filter fun ck => !ck.uniform && ck.rows.any (fun r1 => ck.rows.any fun r2 =>
    r1.ver.ble r2.ver && r2.ver.ble runningVersion && r1.variants.any (fun old => !r2.variants.contains old))).length ≥ 1 := by
  decide +kernel

/-- `gate_sound` applies to the gates as written in the source -/
example : (Gate.returnBelow ⟨3, 9⟩).guards ⟨3, 9⟩ ∧ (Gate.switchFrom ⟨3, 10⟩).guards ⟨3, 10⟩ ∧
    (Gate.returnBelow ⟨3, 9⟩).usesFeature ⟨3, 12⟩ = true := by
  refine ⟨?_, ?_, ?_⟩
  · show (⟨3, 9⟩ : Ver) ≤ ⟨3, 9⟩; decide
  · show (⟨3, 10⟩ : Ver) ≤ ⟨3, 10⟩; decide
  · decide

/-! ## 6. which version a run targets -/

/-- the version a run with these settings targets (`Settings.get_python_version`) -/
def targetOf (s : Settings) (running : Ver) : Ver :=
  getPythonVersion (s.pythonVersion.map (fun p => (⟨p.1, p.2⟩ : Ver))) running

/-- **`--python-version` decides, whatever the config file says** — also when the version given happens to be the one
    refurb runs on (a command-line value is never "the fallback anyway") -/
theorem target_cli_wins (e : Bool) (cfg cli s : Settings) (h : merge e cfg cli = .ok s) (v : Nat × Nat)
    (hv : cli.pythonVersion = some v) (running : Ver) : targetOf s running = ⟨v.1, v.2⟩ := by
  have := (C14.merge_scalars_cli_wins e cfg cli s h).1 v hv
  simp [targetOf, getPythonVersion, this]

/-- without one, the config file's `python_version` decides, and without that the running interpreter -/
theorem target_config_fallback (e : Bool) (cfg cli s : Settings) (h : merge e cfg cli = .ok s)
    (hv : cli.pythonVersion = none) (running : Ver) : targetOf s running = targetOf cfg running := by
  have := (C14.merge_scalars_config_fallback e cfg cli s h).1 hv
  simp [targetOf, this]

theorem target_default (s : Settings) (h : s.pythonVersion = none) (running : Ver) : targetOf s running = running := by
  simp [targetOf, getPythonVersion, h]

/-- so raising the command-line target step by step walks the SAME table the monotonicity theorems are about, at every
    step and under any config: what is reported for a check at the lower target is reported at the higher one -/
theorem monotone_under_any_config (e₁ e₂ : Bool) (cfg cli₁ cli₂ s₁ s₂ : Settings)
    (h₁ : merge e₁ cfg cli₁ = .ok s₁) (h₂ : merge e₂ cfg cli₂ = .ok s₂) (v w : Nat × Nat)
    (hv : cli₁.pythonVersion = some v) (hw : cli₂.pythonVersion = some w) (hvw : (⟨v.1, v.2⟩ : Ver) ≤ ⟨w.1, w.2⟩)
    (running : Ver) (c : Nat) (h : reportsAt Generated.gates c (targetOf s₁ running) = true) :
    reportsAt Generated.gates c (targetOf s₂ running) = true := by
  rw [target_cli_wins e₁ cfg cli₁ s₁ h₁ v hv] at h
  rw [target_cli_wins e₂ cfg cli₂ s₂ h₂ w hw]
  exact monotone c _ _ hvw h

example : (merge false { pythonVersion := some (3, 9) } { pythonVersion := some (3, 12) }).toOption.map (targetOf · ⟨3, 12⟩)
    = some ⟨3, 12⟩ := by decide

end RefurbVerif.C15
