import RefurbVerif.Wire.Basic
import RefurbVerif.Wire.Settings
import RefurbVerif.Wire.Report
import RefurbVerif.Wire.Paths
import RefurbVerif.Model.Run
import RefurbVerif.Generated.NoqaLines
open Lean

namespace RefurbVerif.Wire
open RefurbVerif.Run

namespace RunW

def toRaw (j : Json) : RawDiag :=
  { line := int j "line", col := int j "col", pfx := chars j "prefix", code := nat j "code", msg := chars j "msg" }

def toFileIn (j : Json) : FileIn :=
  { path := chars j "path", rel := chars j "rel", source := chars j "source", dump := chars j "dump",
    raw := (arr j "raw").map toRaw }

def toMypy (j : Json) : Mypy :=
  if str j "r" == "failed" then .failed ((strs j "lines").map String.toList)
  else .built ((arr j "files").map toFileIn)

/-- `{env_color, args, file, checks, mypy, load_error?, cwd, links, fuel}` -/
def toRunInput (j : Json) : RunInput :=
  { envColor := bool j "env_color"
    argv := strs j "args"
    config := toFileOutcome (obj j "file")
    lineCfg := Generated.noqaLineCfg
    checks := (arr j "checks").map toCheckSel
    mypy := toMypy (obj j "mypy")
    loadError := (optStr j "load_error").map String.toList
    resolver := Paths.resolvePy (toLinks j "links") (nat j "fuel") (strs j "cwd") }

def outcomeKind : Outcome → String
  | .printed _ _ => "printed"
  | .early .help => "help"
  | .early .version => "version"
  | .early .generate => "generate"
  | .early .explain => "explain"
  | .libraryError _ => "libraryError"
  | .traceback _ => "traceback"

end RunW

/-- driver verbs of the whole-run model (Model/Run.lean).
    `run_main`: JSON of a `RunInput` ↦ `{stdout, exit, kind}`;
    `run_items`: the list `run_refurb` returns for the loaded settings (for diagnosis of a disagreement) -/
def handleRun (verb : String) (j : Json) : Option Json :=
  match verb with
  | "run_main" =>
    let i := RunW.toRunInput j
    let o := run i
    some (Json.mkObj [("stdout", String.ofList o.result.1), ("exit", o.result.2), ("kind", RunW.outcomeKind o)])
  | "run_items" =>
    let i := RunW.toRunInput j
    some (match loadSettings i.envColor i.argv i.config with
      | .ok s =>
        match runRefurb i s with
        | some items => Json.mkObj [("items", Json.arr (items.map itemJ).toArray)]
        | none => Json.mkObj [("raised", "IndexError")]
      | .error _ => Json.mkObj [("raised", "settings")])
  | _ => none

end RefurbVerif.Wire
