/-
Lemmas for C02: Python's expression grammar as an inductive relation, and the proof that the reference printer's
text is derived by it (`pr_der`), plus small facts about the model's helper functions.

`Der ℓ ts e`: the token list `ts` is derived from the non-terminal of level `ℓ` of Python's expression grammar and
denotes the tree `e` (one constructor per production; canonical spacing, spaces are tokens).  `e` is the tree as
the user wrote it (`Node` with f-strings as `.fstr`); `desugar e` is what mypy hands to refurb.

All statements are for trees of any size and depth.
-/
import RefurbVerif.Model.Stringify

namespace RefurbVerif.C02
open RefurbVerif.Sfy

/-! ### The grammar -/

mutual
/-- Python's expression grammar (PEG of CPython 3.12, the productions for the node kinds of the model).
    Levels: 0 named_expression · 1 expression (lambda) · 2 conditional · 3 disjunction · 4 conjunction ·
    5 inversion · 6 comparison · 7 bitwise_or · 8 bitwise_xor · 9 bitwise_and · 10 shift_expr · 11 sum · 12 term ·
    13 factor · 14 power · 15 await_primary · 16 primary · 17 atom -/
inductive Der : Nat → Toks → Node → Prop
  /-- a non-terminal of a lower level derives everything a higher one does -/
  | up {n m ts e} : n ≤ m → Der m ts e → Der n ts e
  /-- atom: `'(' named_expression ')'` -/
  | paren {ts e} : Der 0 ts e → Der 17 ([.t "("] ++ ts ++ [.t ")"]) e
  | name {s} : isName s = true → Der 17 [.name s] (.name s)
  | int (n : Nat) : Der 17 [.num (natChars n)] (.int n)
  | float {s} : isNumText s = true → Der 17 [.num s] (.float s)
  | complex {s} : isNumText s = true → Der 17 [.num s] (.complex s)
  | str (v) : Der 17 [.str v] (.str v)
  | bytes (v) : Der 17 [.bytes v] (.bytes v)
  | ellipsis : Der 17 [.t "..."] .ellipsis
  /-- primary: `primary '.' NAME`; a bare integer literal cannot stand directly before the dot -/
  | member {ts e a} : Der 16 ts e → isIntLit e = false → isIdent a = true →
      Der 16 (ts ++ [.t ".", .name a]) (.member e a)
  /-- … but a parenthesised one can -/
  | memberP {ts e a} : Der 0 ts e → isIdent a = true →
      Der 16 ([.t "("] ++ ts ++ [.t ")"] ++ [.t ".", .name a]) (.member e a)
  /-- primary: `primary '(' arguments ')'` -/
  | call {tf f tas args} : Der 16 tf f → DerArgs tas args → argsOrdered (args.map (·.1)) = true →
      Der 16 (tf ++ [.t "("] ++ commaSep tas ++ [.t ")"]) (.call f args)
  /-- primary: `primary '[' slices ']'` -/
  | index {tb b ti i} : Der 16 tb b → DerIndex ti i → Der 16 (tb ++ [.t "["] ++ ti ++ [.t "]"]) (.index b i)
  /-- the fifteen binary operators; `lhs`/`rhs` give the level of each operand -/
  | binop {o tl l tr r} : Der o.lhs tl l → Der o.rhs tr r →
      Der o.prec (tl ++ [.sp, .t o.text, .sp] ++ tr) (.op o l r)
  /-- comparison: `bitwise_or (op bitwise_or)+` -/
  | cmp {tf f tr rest} : Der 7 tf f → DerCmp tr rest → rest ≠ [] → Der 6 (tf ++ tr) (.cmp f rest)
  /-- inversion: `'not' inversion` -/
  | not_ {ts e} : Der 5 ts e → Der 5 ([.t "not", .sp] ++ ts) (.unary .not_ e)
  /-- factor: `('+' | '-' | '~') factor` -/
  | unary {o ts e} : o ≠ .not_ → Der 13 ts e → Der 13 ([.t o.text] ++ ts) (.unary o e)
  /-- lambdef: `'lambda' [params] ':' expression` (plain positional parameters) -/
  | lambda {ps tb b} : (ps.all (fun p => p.2 = .pos && isIdent p.1)) = true → Der 1 tb b →
      Der 1 ([.t "lambda"] ++ (if ps.isEmpty then [] else .sp :: commaSep (ps.map (fun p => [.name p.1])))
        ++ [.t ":", .sp] ++ tb) (.lambda ps (some b))
  /-- expression: `disjunction 'if' disjunction 'else' expression` -/
  | cond {tt t tc c te e} : Der 3 tt t → Der 3 tc c → Der 1 te e →
      Der 2 (tt ++ [.sp, .t "if", .sp] ++ tc ++ [.sp, .t "else", .sp] ++ te) (.cond t c e)
  /-- await_primary: `'await' primary` -/
  | await {ts e} : Der 16 ts e → Der 15 ([.t "await", .sp] ++ ts) (.await e)
  /-- named_expression: `NAME ':=' expression` -/
  | walrus {s tr r} : isIdent s = true → Der 1 tr r → Der 0 ([.name s] ++ [.sp, .t ":=", .sp] ++ tr) (.walrus (.name s) r)
  /-- atom: tuple; one element needs the trailing comma -/
  | tuple {tss items} : DerItems false tss items →
      Der 17 ([.t "("] ++ commaSep tss ++ (if items.length = 1 then [.t ","] else []) ++ [.t ")"]) (.tuple items)
  | list {tss items} : DerItems false tss items → Der 17 ([.t "["] ++ commaSep tss ++ [.t "]"]) (.list items)
  | set {tss items} : DerItems false tss items → items ≠ [] → Der 17 ([.t "{"] ++ commaSep tss ++ [.t "}"]) (.set items)
  | dict {tss items} : DerDict tss items → Der 17 ([.t "{"] ++ commaSep tss ++ [.t "}"]) (.dict items)
  /-- atom: f-string with at least one replacement field -/
  | fstr {ts parts} : DerParts ts parts → parts.any isFieldB = true → noAdjLits parts = true →
      Der 17 ([.t "f\""] ++ ts ++ [.t "\""]) (.fstr parts)

/-- an optional expression (slice bound) -/
inductive DerOpt : Toks → Option Node → Prop
  | none : DerOpt [] none
  | some {ts e} : Der 1 ts e → DerOpt ts (some e)

/-- items of a display or of a subscript tuple: `'*' bitwise_or`, a named expression, or (subscript) a slice -/
inductive DerItems : Bool → List Toks → List Node → Prop
  | nil {sl} : DerItems sl [] []
  | star {sl ts e tss rest} : Der 7 ts e → DerItems sl tss rest → DerItems sl ((.t "*" :: ts) :: tss) (.star e :: rest)
  | expr {sl ts e tss rest} : Der 0 ts e → DerItems sl tss rest → DerItems sl (ts :: tss) (e :: rest)
  | slice {tb b te e tst s tss rest} : DerOpt tb b → DerOpt te e → DerOpt tst s → DerItems true tss rest →
      DerItems true ((tb ++ [.t ":"] ++ te ++ (match s with | some _ => .t ":" :: tst | none => [])) :: tss)
        (.slice b e s :: rest)

/-- `key ':' value` and `'**' bitwise_or` -/
inductive DerDict : List Toks → List (Option Node × Node) → Prop
  | nil : DerDict [] []
  | kv {tk k tv v tss rest} : Der 1 tk k → Der 1 tv v → DerDict tss rest →
      DerDict ((tk ++ [.t ":", .sp] ++ tv) :: tss) ((some k, v) :: rest)
  | spread {tv v tss rest} : Der 7 tv v → DerDict tss rest → DerDict ((.t "**" :: tv) :: tss) ((none, v) :: rest)

/-- call arguments -/
inductive DerArgs : List Toks → List (ArgKind × Str × Node) → Prop
  | nil : DerArgs [] []
  | pos {nm ta a tss rest} : Der 0 ta a → DerArgs tss rest → DerArgs (ta :: tss) ((.pos, nm, a) :: rest)
  | named {nm ta a tss rest} : isIdent nm = true → Der 1 ta a → DerArgs tss rest →
      DerArgs (([.name nm, .t "="] ++ ta) :: tss) ((.named, nm, a) :: rest)
  | star {nm ta a tss rest} : Der 1 ta a → DerArgs tss rest → DerArgs ((.t "*" :: ta) :: tss) ((.star, nm, a) :: rest)
  | star2 {nm ta a tss rest} : Der 1 ta a → DerArgs tss rest → DerArgs ((.t "**" :: ta) :: tss) ((.star2, nm, a) :: rest)

/-- the tail of a comparison chain -/
inductive DerCmp : Toks → List (CmpOp × Node) → Prop
  | nil : DerCmp [] []
  | cons {o te e ts rest} : Der 7 te e → DerCmp ts rest → DerCmp ([.sp, .t o.text, .sp] ++ te ++ ts) ((o, e) :: rest)

/-- `slices`: one slice, a tuple that holds a slice (no parentheses), or a named expression -/
inductive DerIndex : Toks → Node → Prop
  | slice {tb b te e tst s} : DerOpt tb b → DerOpt te e → DerOpt tst s →
      DerIndex (tb ++ [.t ":"] ++ te ++ (match s with | some _ => .t ":" :: tst | none => [])) (.slice b e s)
  | slices {tss items} : DerItems true tss items → items.any isSliceB = true →
      DerIndex (commaSep tss ++ (if items.length = 1 then [.t ","] else [])) (.tuple items)
  | expr {ts e} : Der 0 ts e → DerIndex ts e

/-- the middle of an f-string: literal chunks (braces doubled) and replacement fields -/
inductive DerParts : Toks → List Node → Prop
  | nil : DerParts [] []
  | lit {v d ts rest} : v ≠ [] → (d = true ∨ hasBrace v = false) → DerParts ts rest →
      DerParts (.flit v d :: ts) (.str v :: rest)
  | field {te e conv spec ts rest} : Der 3 te e → (∀ c, conv = some c → isConv c = true) → hasBrace spec = false →
      DerParts ts rest →
      DerParts ([.t "{"] ++ (if startsWithBrace te then [.sp] else []) ++ te
          ++ (match conv with | some c => [.t (String.ofList ['!', c])] | none => [])
          ++ (if spec.isEmpty then [] else if spec.all plainSpecChar then [.t ":", .fspec spec] else [.t ":", .flit spec false])
          ++ [.t "}"] ++ ts)
        (.ffield e conv spec :: rest)
end

/-! ### The reference printer is faithful -/

theorem prec_le (e : Node) : e.prec ≤ 17 := by
  cases e <;> simp [Node.prec] <;> (try (rename_i o _ _; cases o <;> simp [BinOp.prec])) <;>
    (try (rename_i o _; cases o <;> simp [UnOp.prec]))

theorem lhs_le (o : BinOp) : o.lhs ≤ 17 := by cases o <;> simp [BinOp.lhs, BinOp.prec]
theorem rhs_le (o : BinOp) : o.rhs ≤ 17 := by cases o <;> simp [BinOp.rhs, BinOp.prec]

/-- a child printed through `wrap` derives at the level of its position -/
theorem sub_der {e : Node} {ℓ : Nat} (h : Der e.prec (pr e) e) (hℓ : ℓ ≤ 17) : Der ℓ (wrap ℓ e.prec (pr e)) e := by
  unfold wrap; split
  · exact Der.up hℓ (Der.paren (Der.up (Nat.zero_le _) h))
  · exact Der.up (by omega) h

mutual
theorem pr_der : (e : Node) → wf e = true → Der e.prec (pr e) e
  | .name s, h => by simpa [pr, Node.prec] using Der.name (by simpa [wf] using h)
  | .int v, h => by
    have hv : 0 ≤ v := by simpa [wf] using h
    obtain ⟨n, rfl⟩ := Int.eq_ofNat_of_zero_le hv
    have : intChars (n : Int) = natChars n := by simp [intChars]
    simpa [pr, Node.prec, this] using Der.int n
  | .float s, h => by simpa [pr, Node.prec] using Der.float (by simpa [wf] using h)
  | .complex s, h => by simpa [pr, Node.prec] using Der.complex (by simpa [wf] using h)
  | .str v, _ => by simpa [pr, Node.prec] using Der.str v
  | .bytes v, _ => by simpa [pr, Node.prec] using Der.bytes v
  | .ellipsis, _ => by simpa [pr, Node.prec] using Der.ellipsis
  | .member e a, h => by
    have ⟨he, ha⟩ : wf e = true ∧ isIdent a = true := by simpa [wf] using h
    have ih := pr_der e he
    by_cases hi : isIntLit e = true
    · have := Der.memberP (a := a) (Der.up (Nat.zero_le _) ih) ha
      simpa [pr, Node.prec, hi, lparen, rparen] using this
    · have hi' : isIntLit e = false := by simpa using hi
      have := Der.member (a := a) (sub_der ih (by omega : 16 ≤ 17)) hi' ha
      simpa [pr, Node.prec, hi'] using this
  | .dict items, h => by
    simpa [pr, Node.prec] using Der.dict (prDict_der items (by simpa [wf] using h))
  | .tuple items, h => by
    simpa [pr, Node.prec] using Der.tuple (prItems_der false items (by simpa [wf] using h))
  | .list items, h => by
    simpa [pr, Node.prec] using Der.list (prItems_der false items (by simpa [wf] using h))
  | .set items, h => by
    have ⟨hne, hi⟩ : items ≠ [] ∧ wfItems false items = true := by simpa [wf] using h
    simpa [pr, Node.prec] using Der.set (prItems_der false items hi) hne
  | .call f args, h => by
    have ⟨⟨hf, ha⟩, ho⟩ : (wf f = true ∧ wfArgs args = true) ∧ argsOrdered (args.map (·.1)) = true := by
      simpa [wf] using h
    simpa [pr, Node.prec] using Der.call (sub_der (pr_der f hf) (by omega : 16 ≤ 17)) (prArgs_der args ha) ho
  | .index b i, h => by
    have ⟨hb, hi⟩ : wf b = true ∧ wfIndex i = true := by simpa [wf] using h
    simpa [pr, Node.prec] using Der.index (sub_der (pr_der b hb) (by omega : 16 ≤ 17)) (prIndex_der i hi)
  | .slice .., h => by simp [wf] at h
  | .op o l r, h => by
    have ⟨hl, hr⟩ : wf l = true ∧ wf r = true := by simpa [wf] using h
    simpa [pr, Node.prec] using Der.binop (o := o) (sub_der (pr_der l hl) (lhs_le o)) (sub_der (pr_der r hr) (rhs_le o))
  | .cmp f rest, h => by
    have ⟨⟨hf, hne⟩, hr⟩ : (wf f = true ∧ rest ≠ []) ∧ wfCmp rest = true := by simpa [wf] using h
    simpa [pr, Node.prec] using Der.cmp (sub_der (pr_der f hf) (by omega : 7 ≤ 17)) (prCmp_der rest hr) hne
  | .unary o e, h => by
    have he : wf e = true := by simpa [wf] using h
    have ih := pr_der e he
    by_cases ho : o = .not_
    · subst ho
      simpa [pr, Node.prec, UnOp.prec, UnOp.text] using Der.not_ (sub_der ih (by omega : 5 ≤ 17))
    · have hp : o.prec = 13 := by cases o <;> simp_all [UnOp.prec]
      have := Der.unary ho (sub_der ih (by omega : 13 ≤ 17))
      simpa [pr, Node.prec, ho, hp] using this
  | .lambda ps none, h => by simp [wf] at h
  | .lambda ps (some b), h => by
    have ⟨hps, hb⟩ : (ps.all (fun p => p.2 = .pos && isIdent p.1)) = true ∧ wf b = true := by
      simpa [wf] using h
    have := Der.lambda hps (sub_der (pr_der b hb) (by omega : 1 ≤ 17))
    simpa [pr, prOpt, Node.prec] using this
  | .cond t c e, h => by
    have ⟨⟨ht, hc⟩, he⟩ : (wf t = true ∧ wf c = true) ∧ wf e = true := by simpa [wf] using h
    simpa [pr, Node.prec] using
      Der.cond (sub_der (pr_der t ht) (by omega : 3 ≤ 17)) (sub_der (pr_der c hc) (by omega : 3 ≤ 17))
        (sub_der (pr_der e he) (by omega : 1 ≤ 17))
  | .await e, h => by
    have he : wf e = true := by simpa [wf] using h
    simpa [pr, Node.prec] using Der.await (sub_der (pr_der e he) (by omega : 16 ≤ 17))
  | .walrus (.name s) r, h => by
    have ⟨hs, hr⟩ : isIdent s = true ∧ wf r = true := by simpa [wf] using h
    simpa [pr, Node.prec] using Der.walrus hs (sub_der (pr_der r hr) (by omega : 1 ≤ 17))
  | .walrus (.member ..) _, h | .walrus (.int _) _, h | .walrus (.float _) _, h | .walrus (.complex _) _, h
  | .walrus (.str _) _, h | .walrus (.bytes _) _, h | .walrus .ellipsis _, h | .walrus (.dict _) _, h
  | .walrus (.tuple _) _, h | .walrus (.list _) _, h | .walrus (.set _) _, h | .walrus (.call ..) _, h
  | .walrus (.index ..) _, h | .walrus (.slice ..) _, h | .walrus (.op ..) _, h | .walrus (.cmp ..) _, h
  | .walrus (.unary ..) _, h | .walrus (.lambda ..) _, h | .walrus (.cond ..) _, h | .walrus (.await _) _, h
  | .walrus (.walrus ..) _, h | .walrus (.star _) _, h | .walrus (.fstr _) _, h | .walrus (.ffield ..) _, h
  | .walrus (.other _) _, h => by simp [wf] at h
  | .star _, h => by simp [wf] at h
  | .fstr parts, h => by
    have ⟨⟨hp, hf⟩, ha⟩ : (wfParts parts = true ∧ parts.any isFieldB = true) ∧ noAdjLits parts = true := by
      simpa [wf] using h
    simpa [pr, Node.prec] using Der.fstr (prParts_der parts hp) hf ha
  | .ffield .., h => by simp [wf] at h
  | .other _, h => by simp [wf] at h

theorem prOpt_der : (o : Option Node) → wfOpt o = true → DerOpt (prOpt o) o
  | none, _ => by simpa [prOpt] using DerOpt.none
  | some e, h => by
    simpa [prOpt] using DerOpt.some (sub_der (pr_der e (by simpa [wfOpt] using h)) (by omega : 1 ≤ 17))

theorem prItems_der : (sl : Bool) → (es : List Node) → wfItems sl es = true → DerItems sl (prItems es) es
  | _, [], _ => by simpa [prItems] using DerItems.nil
  | sl, .star e :: rest, h => by
    have ⟨he, hr⟩ : wf e = true ∧ wfItems sl rest = true := by simpa [wfItems] using h
    have := DerItems.star (sub_der (pr_der e he) (by omega : 7 ≤ 17)) (prItems_der sl rest hr)
    simpa [prItems, pr, wrap, Node.prec] using this
  | sl, .slice b e s :: rest, h => by
    have ⟨⟨⟨⟨hsl, hb⟩, he⟩, hs⟩, hr⟩ :
        ((((sl = true ∧ wfOpt b = true) ∧ wfOpt e = true) ∧ wfOpt s = true) ∧ wfItems sl rest = true) := by
      simpa [wfItems] using h
    subst hsl
    have := DerItems.slice (prOpt_der b hb) (prOpt_der e he) (prOpt_der s hs) (prItems_der true rest hr)
    cases s <;> simpa [prItems, pr, wrap, Node.prec, prOpt] using this
  | sl, x :: rest, h => by
    by_cases hst : ∃ e, x = .star e
    · obtain ⟨e, rfl⟩ := hst
      have ⟨he, hr⟩ : wf e = true ∧ wfItems sl rest = true := by simpa [wfItems] using h
      have := DerItems.star (sub_der (pr_der e he) (by omega : 7 ≤ 17)) (prItems_der sl rest hr)
      simpa [prItems, pr, wrap, Node.prec] using this
    · by_cases hsl : ∃ b e s, x = .slice b e s
      · obtain ⟨b, e, s, rfl⟩ := hsl
        have ⟨⟨⟨⟨hsl, hb⟩, he⟩, hs⟩, hr⟩ :
            ((((sl = true ∧ wfOpt b = true) ∧ wfOpt e = true) ∧ wfOpt s = true) ∧ wfItems sl rest = true) := by
          simpa [wfItems] using h
        subst hsl
        have := DerItems.slice (prOpt_der b hb) (prOpt_der e he) (prOpt_der s hs) (prItems_der true rest hr)
        cases s <;> simpa [prItems, pr, wrap, Node.prec, prOpt] using this
      · have hw : wfItems sl (x :: rest) = (wf x && wfItems sl rest) := by
          cases x <;> simp_all [wfItems]
        have ⟨hx, hr⟩ : wf x = true ∧ wfItems sl rest = true := by simpa [hw] using h
        have := DerItems.expr (sub_der (pr_der x hx) (by omega : 0 ≤ 17)) (prItems_der sl rest hr)
        simpa [prItems] using this

theorem prDict_der : (items : List (Option Node × Node)) → wfDict items = true → DerDict (prDict items) items
  | [], _ => by simpa [prDict] using DerDict.nil
  | (some k, v) :: rest, h => by
    have ⟨⟨hk, hv⟩, hr⟩ : (wf k = true ∧ wf v = true) ∧ wfDict rest = true := by simpa [wfDict, wfOpt] using h
    simpa [prDict] using DerDict.kv (sub_der (pr_der k hk) (by omega : 1 ≤ 17)) (sub_der (pr_der v hv) (by omega : 1 ≤ 17))
      (prDict_der rest hr)
  | (none, v) :: rest, h => by
    have ⟨hv, hr⟩ : wf v = true ∧ wfDict rest = true := by simpa [wfDict, wfOpt] using h
    simpa [prDict] using DerDict.spread (sub_der (pr_der v hv) (by omega : 7 ≤ 17)) (prDict_der rest hr)

theorem prArgs_der : (args : List (ArgKind × Str × Node)) → wfArgs args = true → DerArgs (prArgs args) args
  | [], _ => by simpa [prArgs] using DerArgs.nil
  | (k, nm, a) :: rest, h => by
    cases k <;> simp [wfArgs] at h
    · simpa [prArgs] using DerArgs.pos (nm := nm) (sub_der (pr_der a h.1) (by omega : 0 ≤ 17)) (prArgs_der rest h.2)
    · simpa [prArgs] using DerArgs.star (nm := nm) (sub_der (pr_der a h.1) (by omega : 1 ≤ 17)) (prArgs_der rest h.2)
    · simpa [prArgs] using DerArgs.named h.1.1 (sub_der (pr_der a h.1.2) (by omega : 1 ≤ 17)) (prArgs_der rest h.2)
    · simpa [prArgs] using DerArgs.star2 (nm := nm) (sub_der (pr_der a h.1) (by omega : 1 ≤ 17)) (prArgs_der rest h.2)

theorem prCmp_der : (rest : List (CmpOp × Node)) → wfCmp rest = true → DerCmp (prCmp rest) rest
  | [], _ => by simpa [prCmp] using DerCmp.nil
  | (o, e) :: rest, h => by
    have ⟨he, hr⟩ : wf e = true ∧ wfCmp rest = true := by simpa [wfCmp] using h
    simpa [prCmp] using DerCmp.cons (o := o) (sub_der (pr_der e he) (by omega : 7 ≤ 17)) (prCmp_der rest hr)

theorem prIndex_der : (i : Node) → wfIndex i = true → DerIndex (prIndex i) i
  | .slice b e s, h => by
    have ⟨⟨hb, he⟩, hs⟩ : (wfOpt b = true ∧ wfOpt e = true) ∧ wfOpt s = true := by simpa [wfIndex] using h
    have := DerIndex.slice (prOpt_der b hb) (prOpt_der e he) (prOpt_der s hs)
    cases s <;> simpa [prIndex, pr, prOpt] using this
  | .tuple items, h => by
    have hi : wfItems (items.any isSliceB) items = true := by simpa [wfIndex] using h
    by_cases hs : items.any isSliceB = true
    · rw [hs] at hi
      have := DerIndex.slices (prItems_der true items hi) hs
      simpa [prIndex, hs] using this
    · have hs' : items.any isSliceB = false := by simpa using hs
      rw [hs'] at hi
      have := DerIndex.expr (Der.up (Nat.zero_le _) (Der.tuple (prItems_der false items hi)))
      simpa [prIndex, hs'] using this
  | i, h => by
    by_cases h1 : ∃ b e s, i = .slice b e s
    · obtain ⟨b, e, s, rfl⟩ := h1
      have ⟨⟨hb, he⟩, hs⟩ : (wfOpt b = true ∧ wfOpt e = true) ∧ wfOpt s = true := by simpa [wfIndex] using h
      have := DerIndex.slice (prOpt_der b hb) (prOpt_der e he) (prOpt_der s hs)
      cases s <;> simpa [prIndex, pr, prOpt] using this
    · by_cases h2 : ∃ items, i = .tuple items
      · obtain ⟨items, rfl⟩ := h2
        have hi : wfItems (items.any isSliceB) items = true := by simpa [wfIndex] using h
        by_cases hs : items.any isSliceB = true
        · rw [hs] at hi
          have := DerIndex.slices (prItems_der true items hi) hs
          simpa [prIndex, hs] using this
        · have hs' : items.any isSliceB = false := by simpa using hs
          rw [hs'] at hi
          have := DerIndex.expr (Der.up (Nat.zero_le _) (Der.tuple (prItems_der false items hi)))
          simpa [prIndex, hs'] using this
      · have hw : wfIndex i = wf i := by cases i <;> simp_all [wfIndex]
        have hp : prIndex i = pr i := by cases i <;> simp_all [prIndex]
        have := DerIndex.expr (Der.up (Nat.zero_le _) (pr_der i (by simpa [hw] using h)))
        simpa [hp] using this

theorem prParts_der : (ps : List Node) → wfParts ps = true → DerParts (prParts ps) ps
  | [], _ => by simpa [prParts] using DerParts.nil
  | p :: rest, h => by
    by_cases h1 : ∃ v, p = .str v
    · obtain ⟨v, rfl⟩ := h1
      have ⟨hv, hr⟩ : v ≠ [] ∧ wfParts rest = true := by simpa [wfParts] using h
      have hd : hasBrace v = true ∨ hasBrace v = false := by cases hasBrace v <;> simp
      simpa [prParts] using DerParts.lit (d := hasBrace v) hv hd (prParts_der rest hr)
    · by_cases h2 : ∃ e conv spec, p = .ffield e conv spec
      · obtain ⟨e, conv, spec, rfl⟩ := h2
        have hc' : ∀ c, conv = some c → isConv c = true := by
          intro c hc2; subst hc2; simp [wfParts] at h; exact h.1.1.2
        have ⟨⟨he, hs⟩, hr⟩ : (wf e = true ∧ hasBrace spec = false) ∧ wfParts rest = true := by
          cases conv <;> simp [wfParts] at h <;> simp [h]
        have := DerParts.field (conv := conv) (spec := spec) (sub_der (pr_der e he) (by omega : 3 ≤ 17)) hc' hs
          (prParts_der rest hr)
        cases conv <;> simpa [prParts, pr] using this
      · exfalso
        cases p <;> simp_all [wfParts]
end

/-! ### `_stringify` agrees with the reference printer under the guard -/

theorem wrap_ge {ℓ p : Nat} (ts : Toks) (h : ℓ ≤ p) : wrap ℓ p ts = ts := by
  unfold wrap; split
  · omega
  · rfl

theorem wrap_zero (p : Nat) (ts : Toks) : wrap 0 p ts = ts := wrap_ge ts (Nat.zero_le _)

theorem unmangle_id (s : Str) (h : ∀ c ∈ s, isMangleChar c = false) : unmangle s = s := by
  induction s with
  | nil => rfl
  | cons c cs ih =>
    have hcs := ih (fun d hd => h d (List.mem_cons_of_mem _ hd))
    have hc : isMangleChar c = false := h c (List.mem_cons_self ..)
    cases cs with
    | nil => simp [unmangle, hc]
    | cons d ds => rw [unmangle, hcs]

theorem identChar_not_mangle (c : Char) (h : isIdentChar c = true) : isMangleChar c = false := by
  by_cases h1 : c = '\''
  · subst h1; revert h; decide
  · by_cases h2 : c = '*'
    · subst h2; revert h; decide
    · simp [isMangleChar, h1, h2]

theorem unmangle_name (s : Str) (h : isName s = true) : unmangle s = s := by
  unfold isName at h
  rcases Bool.or_eq_true _ _ |>.mp h with h | h
  · apply unmangle_id
    unfold isIdent at h
    have h := (Bool.and_eq_true _ _ |>.mp h).1
    cases s with
    | nil => simp at h
    | cons c cs =>
      have ⟨h1, h2⟩ : isIdentStart c = true ∧ cs.all isIdentChar = true := by simpa using h
      intro d hd
      rcases List.mem_cons.mp hd with rfl | hd
      · exact identChar_not_mangle _ (by simp [isIdentChar, h1])
      · exact identChar_not_mangle _ (List.all_eq_true.mp h2 d hd)
  · have : s ∈ constNames := by simpa using h
    simp [constNames] at this
    rcases this with rfl | rfl | rfl <;> decide

theorem desugarL_length (l : List Node) : (desugarL l).length = l.length := by
  induction l with
  | nil => simp [desugarL]
  | cons x xs ih => simp [desugarL, ih]

/-- mypy's desugaring yields a bare string literal only for a bare string literal -/
theorem desugar_str {e : Node} (hw : wf e = true) {v : Str} (h : desugar e = .str v) : e = .str v := by
  cases e <;> simp [desugar] at h ⊢
  case str => exact h
  case fstr parts =>
    have ⟨⟨hp, hf⟩, _⟩ : (wfParts parts = true ∧ parts.any isFieldB = true) ∧ noAdjLits parts = true := by
      simpa [wf] using hw
    match parts, hp, hf, h with
    | [], _, hf, _ => simp at hf
    | [p], hp, hf, h =>
      cases p <;> simp [isFieldB] at hf
      simp [desugarL, joinForm, desugar, formatCall] at h
    | p :: q :: rest, _, _, h => simp [desugarL, joinForm] at h
  case ffield => simp [formatCall] at h

theorem fstrCall_notF_str {v a : Str} (args : List (ArgKind × Str × Node))
    (h1 : ¬ (v = fmtFormat ∧ a = sFormat)) (h2 : ¬ (v = [] ∧ a = sJoin)) :
    fstrCall (.member (.str v) a) args = .notF := by
  rw [fstrCall.eq_def]
  simp [h1, h2]

theorem fstrCall_notF_member {d : Node} {a : Str} (args : List (ArgKind × Str × Node))
    (hs : ¬ ∃ v, d = .str v) : fstrCall (.member d a) args = .notF := by
  rw [fstrCall.eq_def]
  cases d <;> simp at hs ⊢

theorem fstrCall_notF_other {d : Node} (args : List (ArgKind × Str × Node))
    (hs : ¬ ∃ e a, d = .member e a) : fstrCall d args = .notF := by
  rw [fstrCall.eq_def]
  cases d <;> simp at hs ⊢

/-- mypy's desugaring yields an attribute access only for an attribute access -/
theorem desugar_member {f : Node} (hw : wf f = true) {e' : Node} {a' : Str} (h : desugar f = .member e' a') :
    ∃ e, f = .member e a' ∧ desugar e = e' := by
  cases f <;> simp [desugar] at h
  case member e a => exact ⟨e, by simp [h.2], h.1⟩
  case fstr parts =>
    match parts, h with
    | [], h => simp [desugarL, joinForm] at h
    | [p], h =>
      have : wfParts [p] = true := by simp [wf] at hw; exact hw.1.1
      cases p <;> simp_all [wfParts, desugarL, joinForm, desugar, formatCall]
    | p :: q :: rest, h => simp [desugarL, joinForm] at h
  case ffield => simp [formatCall] at h

theorem fstrCall_notF {f : Node} (hw : wf f = true) (hl : looksLikeFString f = false)
    (args : List (ArgKind × Str × Node)) : fstrCall (desugar f) args = .notF := by
  by_cases hm : ∃ e' a', desugar f = .member e' a'
  · obtain ⟨e', a', hd⟩ := hm
    obtain ⟨e, rfl, he'⟩ := desugar_member hw hd
    have he : wf e = true := by simp [wf] at hw; exact hw.1
    rw [hd]
    by_cases hs : ∃ v, e' = .str v
    · obtain ⟨v, rfl⟩ := hs
      have := desugar_str he he'
      subst this
      simp [looksLikeFString] at hl
      exact fstrCall_notF_str args (fun h => by simp [h.1, h.2] at hl) (fun h => by simp [h.1, h.2] at hl)
    · exact fstrCall_notF_member args hs
  · exact fstrCall_notF_other args hm

end RefurbVerif.C02
