/-
Model of the side effects of `run_refurb` (refurb/main.py:136-232) and of `output_timing_stats`
(main.py:332-365).

Part A — the temp-file lifecycle as an automaton over events.  A `Scenario` fixes the outcome of
every step that can fail (these are the fault sequences the property quantifies over); `run`
produces the event trace exactly in the order of the statements of `run_refurb`, *including* the
early `return`s and the propagating exceptions that skip `mypy_timing_stats.unlink()`.

Part B — `timingJson`: the JSON text `output_timing_stats` writes, from the text of mypy's timing
file (`module microseconds` lines), the total time and the sequence of assignments
`refurb_timing_stats_in_ms[file.module] = ms` made by the visiting loop.  Python semantics that are
modelled: `str.splitlines`, `str.split()` and `str.rsplit(maxsplit=1)` (which of the two the loop uses
is read off the working tree: `Generated.timingRsplit`), `int(str)` (sign, single underscores, every Unicode
decimal digit, the 4300-digit limit), `dict[k] = v` (later value wins, position of the first
insertion is kept), floor division, `sorted(..., key=itemgetter(1), reverse=True)` (stable),
`json.dumps(..., separators=(",", ":"))` with `ensure_ascii`.

No proofs here; the theorems are in Props/C18.lean.
-/
import RefurbVerif.Model.Report
import RefurbVerif.Generated.Unicode
import RefurbVerif.Generated.LifecycleShape

namespace RefurbVerif.Lifecycle
open RefurbVerif

/-! ## Part A — lifecycle -/

/-- the file `mkstemp()` creates in `$TMPDIR` -/
inductive Temp where
  | none | created | unlinked
  deriving DecidableEq, Repr

/-- `process_options(args)`: returns, or mypy's argument parser calls `sys.exit` (bad flag after
    `--`, directory without `.py` files, …) -/
inductive POpts where
  | ok | systemExit
  deriving DecidableEq, Repr

/-- `build(files, options=opt)`: returns, raises `CompileError` (syntax error, missing file, …:
    caught, early `return`), or raises anything else (propagates) -/
inductive Build where
  | ok | compileError | otherExc
  deriving DecidableEq, Repr

/-- `load_checks(settings)`: returns or raises `TypeError` (ill-formed plugin check; caught in `main`) -/
inductive Load where
  | ok | typeError
  deriving DecidableEq, Repr

/-- `visitor.accept(tree)` for one file: returns (a `RecursionError` is suppressed, so it counts as
    `ok`) or a check raises -/
inductive Visit where
  | ok | raises
  deriving DecidableEq, Repr

/-- what happens inside `output_timing_stats` when `--timing-stats` is set -/
inductive Ots where
  | ok
  | readError      -- `mypy_timing_stats.read_text()` raises OSError (temp file vanished)
  | valueError     -- a line of the timing file is not `module integer`
  | writeError     -- `settings.timing_stats.write_text` raises OSError (unwritable FILE)
  deriving DecidableEq, Repr

structure Scenario where
  timingStats : Bool
  popts : POpts
  build : Build
  load : Load
  visits : List Visit      -- one per checked file, in order
  ots : Ots
  deriving DecidableEq, Repr

/-- how `run_refurb` ends -/
inductive Outcome where
  | returned        -- a list of errors / error lines is returned to `main`
  | typeError       -- `TypeError` propagates to `main`, which prints it (exit 1)
  | crashed         -- any other exception: traceback
  deriving DecidableEq, Repr

/-- result of the call `output_timing_stats(...)` -/
inductive OtsResult where
  | skipped | ok | raised
  deriving DecidableEq, Repr

inductive Event where
  | processOptions (r : POpts)
  | mkstemp
  | build (r : Build)
  | loadChecks (r : Load)
  | visit (i : Nat) (r : Visit)
  | readTemp (ok : Bool)         -- `mypy_timing_stats.read_text()`
  | parseTemp (ok : Bool)        -- the `for line in lines` loop
  | writeStats (ok : Bool)       -- `settings.timing_stats.write_text(...)`
  | outputTimingStats (r : OtsResult)   -- the call returns / raises
  | unlink
  | done (o : Outcome)
  deriving DecidableEq, Repr

/-- places of the file system an event may touch -/
inductive Loc where
  | checkedTree      -- the files and directories named on the command line
  | mypyCache        -- `.mypy_cache/**` in the working directory
  | tmpDir           -- `$TMPDIR`
  | statsFile        -- the FILE of `--timing-stats FILE`
  deriving DecidableEq, Repr

/-- where an event reads -/
def Event.reads : Event → List Loc
  | .processOptions _ => [.checkedTree]          -- mypy expands directories, reads its config
  | .build _ => [.checkedTree, .mypyCache]
  | .readTemp _ => [.tmpDir]
  | _ => []

/-- where an event creates, modifies or deletes -/
def Event.writes : Event → List Loc
  | .mkstemp => [.tmpDir]
  | .build _ => [.mypyCache, .tmpDir]            -- the cache; `dump_timing_stats` into the temp file
  | .writeStats _ => [.statsFile]
  | .unlink => [.tmpDir]
  | _ => []

/-- effect of one event on the temp file; `none` = illegal (second `mkstemp`, `unlink` of a file that
    does not exist) -/
def Temp.step : Temp → Event → Option Temp
  | .none, .mkstemp => some .created
  | _, .mkstemp => Option.none
  | .created, .unlink => some .unlinked
  | _, .unlink => Option.none
  | t, _ => some t

def Temp.steps : Temp → List Event → Option Temp
  | t, [] => some t
  | t, e :: es =>
    match t.step e with
    | some t' => t'.steps es
    | Option.none => Option.none

/-- the visiting loop: events, and whether it ran to completion -/
def visitAll : Nat → List Visit → List Event × Bool
  | _, [] => ([], true)
  | i, .ok :: r => let p := visitAll (i + 1) r; (.visit i .ok :: p.1, p.2)
  | i, .raises :: _ => ([.visit i .raises], false)

/-- leaving `run_refurb` early, after `mkstemp()`: with outcome `o`, through the `finally` clause if the
    code has one (`fin`; see Generated/LifecycleShape.lean — refurb 2.0.0 has none) -/
def leave (fin : Bool) (s : Scenario) (o : Outcome) : List Event :=
  (if fin && s.timingStats then [.unlink] else []) ++ [.done o]

/-- `output_timing_stats(...)` and what follows it in `run_refurb` -/
def tail (fin : Bool) (s : Scenario) : List Event :=
  if s.timingStats then
    match s.ots with
    | .ok => [.readTemp true, .parseTemp true, .writeStats true, .outputTimingStats .ok, .unlink, .done .returned]
    | .readError => .readTemp false :: .outputTimingStats .raised :: leave fin s .crashed
    | .valueError => .readTemp true :: .parseTemp false :: .outputTimingStats .raised :: leave fin s .crashed
    | .writeError => .readTemp true :: .parseTemp true :: .writeStats false :: .outputTimingStats .raised :: leave fin s .crashed
  else [.outputTimingStats .skipped, .done .returned]

/-- from `checks = load_checks(settings)` on -/
def afterBuild (fin : Bool) (s : Scenario) : List Event :=
  match s.load with
  | .typeError => .loadChecks .typeError :: leave fin s .typeError
  | .ok =>
    .loadChecks .ok ::
      ((visitAll 0 s.visits).1 ++ (if (visitAll 0 s.visits).2 then tail fin s else leave fin s .crashed))

/-- from `build(...)` on -/
def fromBuild (fin : Bool) (s : Scenario) : List Event :=
  match s.build with
  | .compileError => .build .compileError :: leave fin s .returned
  | .otherExc => .build .otherExc :: leave fin s .crashed
  | .ok => .build .ok :: afterBuild fin s

/-- the event trace of `run_refurb(settings)`; `fin` = the unlink sits in a `finally` clause -/
def run (fin : Bool) (s : Scenario) : List Event :=
  match s.popts with
  | .systemExit => [.processOptions .systemExit, .done .returned]
  | .ok => .processOptions .ok :: ((if s.timingStats then [.mkstemp] else []) ++ fromBuild fin s)

/-- the trace of the code as it is in the working tree -/
def runNow (s : Scenario) : List Event := run Generated.unlinkInFinally s

/-- the temp file after the run (`none` if the trace were illegal — `legal` in Props/C18 shows it never is) -/
def finalTemp (fin : Bool) (s : Scenario) : Option Temp := Temp.none.steps (run fin s)

def outcome (fin : Bool) (s : Scenario) : Option Outcome :=
  (run fin s).findSome? (fun e => match e with | .done o => some o | _ => Option.none)

/-! ## Part B — the statistics file -/

inductive TErr where
  | valueError
  deriving DecidableEq, Repr

/-- `str.isspace()` for one character (what `str.split()` splits on) -/
def isPySpace (c : Char) : Bool :=
  let n := c.toNat
  (0x09 ≤ n && n ≤ 0x0d) || (0x1c ≤ n && n ≤ 0x20) || n == 0x85 || n == 0xa0 || n == 0x1680
    || (0x2000 ≤ n && n ≤ 0x200a) || n == 0x2028 || n == 0x2029 || n == 0x202f || n == 0x205f || n == 0x3000

/-- the line boundaries of `str.splitlines()` -/
def isLineBreak (c : Char) : Bool :=
  let n := c.toNat
  (0x0a ≤ n && n ≤ 0x0d) || (0x1c ≤ n && n ≤ 0x1e) || n == 0x85 || n == 0x2028 || n == 0x2029

/-- `str.splitlines()` (`\r\n` is one boundary; no empty last line) -/
def pySplitlines : Str → List Str
  | [] => []
  | '\r' :: '\n' :: r => [] :: pySplitlines r
  | c :: r =>
    if isLineBreak c then [] :: pySplitlines r
    else
      match pySplitlines r with
      | [] => [[c]]
      | l :: ls => (c :: l) :: ls

/-- `str.split()`: maximal runs of non-whitespace; `cur` is the current field, reversed -/
def splitAux : Str → Str → List Str
  | cur, [] => if cur.isEmpty then [] else [cur.reverse]
  | cur, c :: r =>
    if isPySpace c then (if cur.isEmpty then splitAux [] r else cur.reverse :: splitAux [] r)
    else splitAux (c :: cur) r

def pySplit (s : Str) : List Str := splitAux [] s

/-- decimal value of a character of category Nd -/
def digitVal (c : Char) : Option Nat :=
  match Generated.digitZeros.find? (fun z => z ≤ c.toNat && c.toNat ≤ z + 9) with
  | some z => some (c.toNat - z)
  | Option.none => Option.none

/-- digits with single underscores between them; `prevDigit` = the previous character was a digit.
    Returns (value, number of digits). -/
def digitsAux : Nat → Nat → Bool → Str → Option (Nat × Nat)
  | acc, n, prevDigit, [] => if prevDigit then some (acc, n) else Option.none
  | acc, n, prevDigit, c :: r =>
    if c = '_' then (if prevDigit then digitsAux acc n false r else Option.none)
    else
      match digitVal c with
      | some d => digitsAux (acc * 10 + d) (n + 1) true r
      | Option.none => Option.none

/-- `sys.get_int_max_str_digits()` -/
def maxStrDigits : Nat := 4300

/-- `int(s)` for a `str` without surrounding whitespace (`str.split()` never yields any) -/
def parsePyInt (s : Str) : Option Int :=
  let (neg, body) :=
    match s with
    | '-' :: r => (true, r)
    | '+' :: r => (false, r)
    | _ => (false, s)
  match digitsAux 0 0 false body with
  | some (v, n) => if n ≤ maxStrDigits then some (if neg then -(v : Int) else (v : Int)) else Option.none
  | Option.none => Option.none

/-- one iteration of the loop as it was up to refurb 2.0.0: `module, micro_seconds = line.split()` and
    `int(micro_seconds) // 1_000` (floor division) -/
def parseLine (line : Str) : Except TErr (Str × Int) :=
  match pySplit line with
  | [m, us] =>
    match parsePyInt us with
    | some v => .ok (m, v / 1000)
    | Option.none => .error .valueError
  | _ => .error .valueError

def notPySpace (c : Char) : Bool := !isPySpace c

/-- `str.rsplit(maxsplit=1)` with `sep=None` (CPython `rsplit_whitespace`), on the reversed text: trailing
    whitespace is skipped; the last maximal run of non-whitespace is the last field; what is left of it,
    with ITS trailing whitespace skipped, is the first field as it stands (leading and inner whitespace
    kept) — unless nothing is left, then the list has one element; a blank line gives `[]` -/
def pyRsplit1 (s : Str) : List Str :=
  match s.reverse.dropWhile isPySpace with
  | [] => []
  | c :: r =>
    let last := ((c :: r).takeWhile notPySpace).reverse
    match (((c :: r).dropWhile notPySpace).dropWhile isPySpace).reverse with
    | [] => [last]
    | rest => [rest, last]

/-- one iteration of the loop as it is now: `module, micro_seconds = line.rsplit(maxsplit=1)` (a module
    name can contain spaces) and `int(micro_seconds) // 1_000` -/
def parseLineR (line : Str) : Except TErr (Str × Int) :=
  match pyRsplit1 line with
  | [m, us] =>
    match parsePyInt us with
    | some v => .ok (m, v / 1000)
    | Option.none => .error .valueError
  | _ => .error .valueError

/-- the iteration for either shape of the code (`rs` = the line is cut with `rsplit(maxsplit=1)`) -/
def parseLineOf (rs : Bool) (line : Str) : Except TErr (Str × Int) :=
  if rs then parseLineR line else parseLine line

/-- the loop over all lines: the sequence of assignments `mypy_stats[module] = ms` -/
def parseLines (rs : Bool) : List Str → Except TErr (List (Str × Int))
  | [] => .ok []
  | l :: ls =>
    match parseLineOf rs l with
    | .error e => .error e
    | .ok kv =>
      match parseLines rs ls with
      | .error e => .error e
      | .ok kvs => .ok (kv :: kvs)

/-- `d[k] = v` on an insertion-ordered dict: replace in place, or append -/
def dictSet (d : List (Str × Int)) (k : Str) (v : Int) : List (Str × Int) :=
  match d with
  | [] => [(k, v)]
  | (k', v') :: r => if k' = k then (k, v) :: r else (k', v') :: dictSet r k v

/-- a sequence of assignments applied to an empty dict -/
def dictOf (assigns : List (Str × Int)) : List (Str × Int) :=
  assigns.foldl (fun d kv => dictSet d kv.1 kv.2) []

/-- `key=itemgetter(1), reverse=True`: descending by value (stable) -/
def geVal (a b : Str × Int) : Bool := decide (b.2 ≤ a.2)

/-- `dict(sorted(d.items(), key=itemgetter(1), reverse=True))` -/
def byValueDesc (d : List (Str × Int)) : List (Str × Int) := ssort geVal d

structure Stats where
  total : Int
  mypy : List (Str × Int)
  refurb : List (Str × Int)
  deriving DecidableEq, Repr

/-- the `data` dict of `output_timing_stats`.  `content` = text of mypy's timing file, `totalMs` =
    `int(mypy_total_time_spent * 1_000)`, `refurbAssigns` = the assignments of the visiting loop; `rs` = the
    shape of the line parse (see `parseLineOf`) -/
def timingData (rs : Bool) (content : Str) (totalMs : Int) (refurbAssigns : List (Str × Int)) : Except TErr Stats :=
  match parseLines rs (pySplitlines content) with
  | .error e => .error e
  | .ok assigns =>
    .ok { total := totalMs, mypy := byValueDesc (dictOf assigns), refurb := byValueDesc (dictOf refurbAssigns) }

/-- the values of the top-level dict `data`: an int, or a dict from module names to ints -/
inductive V where
  | int (i : Int)
  | dict (d : List (Str × Int))
  deriving DecidableEq, Repr

def keyTotal : Str := "mypy_total_time_spent_in_ms".toList
def keyMypy : Str := "mypy_time_spent_parsing_modules_in_ms".toList
def keyRefurb : Str := "refurb_time_spent_checking_file_in_ms".toList

/-- the dict literal `data = {...}` (insertion order = source order) -/
def Stats.data (st : Stats) : List (Str × V) :=
  [(keyTotal, .int st.total), (keyMypy, .dict st.mypy), (keyRefurb, .dict st.refurb)]

def hexDigit (n : Nat) : Char := if n < 10 then Char.ofNat (48 + n) else Char.ofNat (87 + n)

/-- `\uXXXX` (lower-case hex, as CPython prints it) -/
def u4 (n : Nat) : Str :=
  ['\\', 'u', hexDigit (n / 4096 % 16), hexDigit (n / 256 % 16), hexDigit (n / 16 % 16), hexDigit (n % 16)]

/-- `json.encoder.py_encode_basestring_ascii` for one character -/
def escChar (c : Char) : Str :=
  if c = '"' then ['\\', '"']
  else if c = '\\' then ['\\', '\\']
  else if c = '\n' then ['\\', 'n']
  else if c = '\r' then ['\\', 'r']
  else if c = '\t' then ['\\', 't']
  else if c.toNat = 8 then ['\\', 'b']
  else if c.toNat = 12 then ['\\', 'f']
  else if 32 ≤ c.toNat ∧ c.toNat ≤ 126 then [c]
  else if c.toNat < 0x10000 then u4 c.toNat
  else u4 (0xd800 + (c.toNat - 0x10000) / 1024) ++ u4 (0xdc00 + (c.toNat - 0x10000) % 1024)

def jsonStr (s : Str) : Str := '"' :: (s.flatMap escChar ++ ['"'])

/-- the items of a `dict[str, int]`, joined with "," -/
def renderInts : List (Str × Int) → Str
  | [] => []
  | [(k, v)] => jsonStr k ++ ':' :: intChars v
  | (k, v) :: f :: fs => jsonStr k ++ ':' :: intChars v ++ ',' :: renderInts (f :: fs)

def V.render : V → Str
  | .int i => intChars i
  | .dict d => '{' :: (renderInts d ++ ['}'])

def renderFields : List (Str × V) → Str
  | [] => []
  | [(k, v)] => jsonStr k ++ ':' :: v.render
  | (k, v) :: f :: fs => jsonStr k ++ ':' :: v.render ++ ',' :: renderFields (f :: fs)

/-- `json.dumps(data, separators=(",", ":"))` -/
def renderObj (fields : List (Str × V)) : Str := '{' :: (renderFields fields ++ ['}'])

/-- the text written to FILE, or the `ValueError` that escapes `output_timing_stats` -/
def timingJson (rs : Bool) (content : Str) (totalMs : Int) (refurbAssigns : List (Str × Int)) : Except TErr Str :=
  match timingData rs content totalMs refurbAssigns with
  | .error e => .error e
  | .ok st => .ok (renderObj st.data)

/-- …for the code as it is in the working tree (Generated/LifecycleShape.lean) -/
def timingDataNow (content : Str) (totalMs : Int) (refurbAssigns : List (Str × Int)) : Except TErr Stats :=
  timingData Generated.timingRsplit content totalMs refurbAssigns

/-- the outcome of `output_timing_stats` as a function of what it finds on disk: ties Part B to Part A -/
def otsOf (rs : Bool) (tempReadable : Bool) (content : Str) (statsWritable : Bool) : Ots :=
  if !tempReadable then .readError
  else
    match parseLines rs (pySplitlines content) with
    | .error _ => .valueError
    | .ok _ => if statsWritable then .ok else .writeError

end RefurbVerif.Lifecycle
