import RefurbVerif.Wire.Basic
import RefurbVerif.Wire.Report
import RefurbVerif.Model.Noqa
import RefurbVerif.Generated.NoqaLines
open Lean

namespace RefurbVerif.Wire

/-- text as an array of code points: the answers must stay free of U+0085/U+2028/U+2029, at which the harness
    (`str.splitlines` in `core.Driver.batch`) would cut an answer line in two -/
def cpJ (l : Str) : Json := Json.arr (l.map (fun c => (c.toNat : Json))).toArray
def strsJ (ls : List Str) : Json := Json.arr (ls.map cpJ).toArray

def srcMap (j : Json) : Str → Str := fun f =>
  match (arr j "files").find? (fun kv => match kv with | .arr #[.str k, _] => k.toList == f | _ => false) with
  | some (.arr #[_, .str v]) => v.toList
  | _ => []

/-- driver verbs of C08 -/
def handleNoqa (verb : String) (j : Json) : Option Json :=
  match verb with
  | "splitlines" =>
    let s := chars j "s"
    some (Json.mkObj [("py", strsJ (pySplitlines s)), ("phys", strsJ (physLines s)),
      ("source", strsJ (getSourceLines Generated.noqaLineCfg s)), ("translated", cpJ (translateNewlines false s))])
  | "rstrip" => some (cpJ (rstrip (chars j "s")))
  | "noqa" =>
    let line := chars j "line"
    some (Json.mkObj [
      ("ignored", isIgnoredViaComment line (chars j "code")),
      ("match", match searchNoqa (rstrip line) with
        | none => Json.null
        | some none => Json.mkObj [("group", Json.null)]
        | some (some g) => Json.mkObj [("group", cpJ g)])])
  | "noqa_report" =>
    let items := (arr j "items").map toItem
    let by_ := if str j "by" == "error" then SortBy.error else SortBy.filename
    some (match runReport Generated.noqaLineCfg by_ (srcMap j) (fun _ => false) items with
      | none => Json.mkObj [("raised", "IndexError")]
      | some r => Json.mkObj [("items", Json.arr (r.map itemJ).toArray)])
  | _ => none

end RefurbVerif.Wire
