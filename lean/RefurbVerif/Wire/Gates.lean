import RefurbVerif.Wire.Basic
import RefurbVerif.Model.Gates
import RefurbVerif.Generated.Gates
open Lean

namespace RefurbVerif.Wire

def verJ (v : Ver) : Json := Json.arr #[v.major, v.minor]

def toVer (j : Json) (k : String) : Option Ver :=
  match j.getObjVal? k with
  | .ok (.arr #[a, b]) =>
    match a.getNat?, b.getNat? with
    | .ok x, .ok y => some ⟨x, y⟩
    | _, _ => none
  | _ => none

def featureJ (i : Nat) : Json :=
  Json.mkObj [("name", (Generated.featureNames[i]?).getD "<out of range>"),
    ("since", optJ verJ (sinceAt (resolve Generated.featureNames) i))]

/-- driver verbs of C15:
    `gate` {code, version:[maj,min]} — what the model (generated table, clamped outside the sweep) says the check does;
    `target` {configured: [maj,min] | null, running: [maj,min]} — `Settings.get_python_version`;
    `gateshape` {kind: always|returnBelow|switchFrom, t, v} — the abstract gate;
    `introduced` — the reference table (so the harness can check its own reading of Introduced.lean). -/
def handleGates (verb : String) (j : Json) : Option Json :=
  match verb with
  | "gate" =>
    let v := (toVer j "version").getD ⟨0, 0⟩
    match findCheck Generated.gates (nat j "code") with
    | none => some (Json.mkObj [("found", false)])
    | some ck =>
      let row := ck.rowAt Generated.tableMin Generated.tableMax v
      let ids := (row.map (·.variants)).getD []
      let vars := ck.variants.filter (fun var => ids.contains var.id)
      some (Json.mkObj [
        ("found", true),
        ("reports", ck.reportsAt v),
        ("threshold", optJ verJ ck.threshold),
        ("rowReports", optJ (fun (r : Row) => Json.bool r.reports) row),
        ("variants", Json.arr (vars.map (fun var => Json.mkObj [
          ("text", var.text), ("features", Json.arr (var.features.map featureJ).toArray)])).toArray)])
  | "target" =>
    let running := (toVer j "running").getD ⟨0, 0⟩
    some (verJ (getPythonVersion (toVer j "configured") running))
  | "gateshape" =>
    let t := (toVer j "t").getD ⟨0, 0⟩
    let v := (toVer j "v").getD ⟨0, 0⟩
    let g := match str j "kind" with
      | "returnBelow" => Gate.returnBelow t
      | "switchFrom" => Gate.switchFrom t
      | _ => Gate.always
    some (Json.mkObj [("reports", g.reports v), ("usesFeature", g.usesFeature v)])
  | "introduced" =>
    some (Json.arr (introduced.map (fun e => Json.mkObj [
      ("name", e.name), ("since", verJ e.since), ("tokens", toJson e.tokens)])).toArray)
  | _ => none

end RefurbVerif.Wire
