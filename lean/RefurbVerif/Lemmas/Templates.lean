/-
Lemma for C02: filling the holes of a message template with fragments that derive at the level each hole requires
gives a text that derives the template's tree with the fragments' trees in the holes.
-/
import RefurbVerif.Lemmas.Grammar

namespace RefurbVerif.C02
open RefurbVerif.Sfy

/-- the fragment `f i` (denoting `σ i`) meets the demand `r` of its hole -/
def Meets (f : Nat → Toks) (σ : Nat → Node) (r : Req) : Prop :=
  r.level ≤ 17 ∧ Der r.level (f r.hole) (σ r.hole) ∧ (r.notInt = true → isIntLit (σ r.hole) = false) ∧
    (r.noBrace = true → startsWithBrace (f r.hole) = false)

@[simp] theorem fillT_nil (f : Nat → Toks) : fillT f [] = [] := rfl
@[simp] theorem fillT_append (f : Nat → Toks) (a b : Toks) : fillT f (a ++ b) = fillT f a ++ fillT f b := by
  simp [fillT]
@[simp] theorem fillT_cons (f : Nat → Toks) (t : Tok) (ts : Toks) : fillT f (t :: ts) = fillTok f t ++ fillT f ts := by
  simp [fillT]
@[simp] theorem fillTok_t (f : Nat → Toks) (s : String) : fillTok f (.t s) = [.t s] := rfl
@[simp] theorem fillTok_sp (f : Nat → Toks) : fillTok f .sp = [.sp] := rfl
@[simp] theorem fillTok_name (f : Nat → Toks) (s : Str) : fillTok f (.name s) = [.name s] := rfl
@[simp] theorem fillTok_num (f : Nat → Toks) (s : Str) : fillTok f (.num s) = [.num s] := rfl
@[simp] theorem fillTok_str (f : Nat → Toks) (s : Str) : fillTok f (.str s) = [.str s] := rfl
@[simp] theorem fillTok_bytes (f : Nat → Toks) (s : Str) : fillTok f (.bytes s) = [.bytes s] := rfl
@[simp] theorem fillTok_flit (f : Nat → Toks) (s : Str) (d : Bool) : fillTok f (.flit s d) = [.flit s d] := rfl
@[simp] theorem fillTok_fspec (f : Nat → Toks) (s : Str) : fillTok f (.fspec s) = [.fspec s] := rfl
@[simp] theorem fillTok_hole (f : Nat → Toks) (i : Nat) : fillTok f (.hole i) = f i := rfl

theorem fillT_wrap (f : Nat → Toks) (ℓ p : Nat) (ts : Toks) : fillT f (wrap ℓ p ts) = wrap ℓ p (fillT f ts) := by
  unfold wrap; split <;> simp

theorem fillT_commaSep (f : Nat → Toks) : ∀ tss : List Toks, fillT f (commaSep tss) = commaSep (tss.map (fillT f))
  | [] => by simp [commaSep]
  | [a] => by simp [commaSep]
  | a :: b :: rest => by
    have := fillT_commaSep f (b :: rest)
    simp [commaSep] at this ⊢
    rw [this]

theorem fillT_names (f : Nat → Toks) (ps : List (Str × ArgKind)) :
    (ps.map (fun p => [Tok.name p.1])).map (fillT f) = ps.map (fun p => [Tok.name p.1]) := by
  induction ps with
  | nil => rfl
  | cons p ps ih => simp [ih]

abbrev isHole := isHoleB

@[simp] theorem fillT_comp_name (f : Nat → Toks) :
    (fillT f ∘ fun p : Str × ArgKind => [Tok.name p.1]) = fun p => [Tok.name p.1] := by
  funext p; simp

theorem prec_fillN (σ : Nat → Node) (T : Node) (h : isHole T = false) : (fillN σ T).prec = T.prec := by
  cases T <;> simp [fillN, Node.prec, isHoleB] at h ⊢

theorem isIntLit_fillN (σ : Nat → Node) (T : Node) (h : isHole T = false) : isIntLit (fillN σ T) = isIntLit T := by
  cases T <;> simp [fillN, isIntLit, isHoleB] at h ⊢

theorem isSliceB_fillN (σ : Nat → Node) (T : Node) (h : isHole T = false) : isSliceB (fillN σ T) = isSliceB T := by
  cases T <;> simp [fillN, isSliceB, isHoleB] at h ⊢

theorem fillNL_length (σ : Nat → Node) (l : List Node) : (fillNL σ l).length = l.length := by
  induction l with
  | nil => simp [fillNL]
  | cons x xs ih => simp [fillNL, ih]

theorem fillNA_kinds (σ : Nat → Node) (l : List (ArgKind × Str × Node)) : (fillNA σ l).map (·.1) = l.map (·.1) := by
  induction l with
  | nil => simp [fillNA]
  | cons x xs ih => obtain ⟨k, n, a⟩ := x; simp [fillNA, ih]

theorem fillNC_ne_nil (σ : Nat → Node) (l : List (CmpOp × Node)) (h : l ≠ []) : fillNC σ l ≠ [] := by
  cases l with
  | nil => exact absurd rfl h
  | cons x xs => obtain ⟨o, e⟩ := x; simp [fillNC]

theorem fillNL_ne_nil (σ : Nat → Node) (l : List Node) (h : l ≠ []) : fillNL σ l ≠ [] := by
  cases l with
  | nil => exact absurd rfl h
  | cons x xs => simp [fillNL]

/-- from the bare text at the node's own level to the (possibly parenthesised) text at the level of its position -/
theorem wrapT_der {f : Nat → Toks} {σ : Nat → Node} {T : Node} {ℓ : Nat}
    (h : Der T.prec (fillT f (pr T)) (fillN σ T)) (hℓ : ℓ ≤ 17) :
    Der ℓ (fillT f (wrap ℓ T.prec (pr T))) (fillN σ T) := by
  rw [fillT_wrap]
  unfold wrap; split
  · exact Der.up hℓ (Der.paren (Der.up (Nat.zero_le _) h))
  · exact Der.up (by omega) h

theorem isFieldB_part (σ : Nat → Node) (p : Node) (rest : List Node) :
    ∃ p', fillNP σ (p :: rest) = p' :: fillNP σ rest ∧ isFieldB p' = isFieldB p ∧ isStrB p' = isStrB p := by
  cases p <;> simp [fillNP, isFieldB, isStrB]

theorem fillNP_shape (σ : Nat → Node) : ∀ ps : List Node, (fillNP σ ps).any isFieldB = ps.any isFieldB
  | [] => by simp [fillNP]
  | p :: rest => by
    obtain ⟨p', h1, h2, _⟩ := isFieldB_part σ p rest
    simp [h1, h2, fillNP_shape σ rest]

theorem noAdj_fillNP (σ : Nat → Node) : ∀ ps : List Node, noAdjLits (fillNP σ ps) = noAdjLits ps
  | [] => by simp [fillNP]
  | [p] => by
    obtain ⟨p', h1, _, _⟩ := isFieldB_part σ p []
    simp [h1, fillNP, noAdjLits]
  | p :: q :: rest => by
    obtain ⟨p', h1, _, h3⟩ := isFieldB_part σ p (q :: rest)
    obtain ⟨q', h1', _, h3'⟩ := isFieldB_part σ q rest
    have ih := noAdj_fillNP σ (q :: rest)
    rw [h1'] at ih
    simp [h1, h1', noAdjLits, h3, h3', ih]

theorem any_slice_fillNL_true (σ : Nat → Node) : ∀ items : List Node, items.any isSliceB = true →
    (fillNL σ items).any isSliceB = true
  | [], h => by simp at h
  | x :: rest, h => by
    simp only [List.any_cons, Bool.or_eq_true] at h
    rcases h with h | h
    · have hh : isHole x = false := by cases x <;> simp [isSliceB] at h; rfl
      simp [fillNL, isSliceB_fillN σ x hh, h]
    · simp [fillNL, any_slice_fillNL_true σ rest h]

theorem any_slice_fillNL (items : List Node) : (fillNL (fun _ => dummy) items).any isSliceB = items.any isSliceB := by
  induction items with
  | nil => simp [fillNL]
  | cons x rest ih =>
    have : isSliceB (fillN (fun _ => dummy) x) = isSliceB x := by
      cases x <;> simp [fillN, isSliceB, dummy]
    simp [fillNL, this, ih]

theorem hole_of_isHole {e : Node} (h : isHole e = true) : ∃ i, e = .other i := by
  cases e <;> simp [isHoleB] at h
  exact ⟨_, rfl⟩

abbrev dm : Nat → Node := fun _ => dummy

/-- a child in member-base position is not turned into a bare integer literal by the filling -/
theorem notInt_fill {f : Nat → Toks} {σ : Nat → Node} {e : Node} {ℓ : Nat} {nb : Bool}
    (hr : ∀ r ∈ reqs ℓ true nb e, Meets f σ r) (hi : isIntLit e = false) : isIntLit (fillN σ e) = false := by
  by_cases hh : isHole e = true
  · obtain ⟨i, rfl⟩ := hole_of_isHole hh
    have := hr ⟨i, ℓ, true, nb⟩ (by simp [reqs])
    simpa [fillN] using this.2.2.1 rfl
  · rw [isIntLit_fillN σ e (by simpa using hh)]; exact hi

section
variable (f : Nat → Toks) (σ : Nat → Node)

set_option maxHeartbeats 4000000 in
mutual
/-- a template node in a position of level `ℓ` -/
theorem fill_sub : (T : Node) → (ℓ : Nat) → ℓ ≤ 17 → (ni nb : Bool) → wf (fillN dm T) = true →
    (∀ r ∈ reqs ℓ ni nb T, Meets f σ r) → Der ℓ (fillT f (wrap ℓ T.prec (pr T))) (fillN σ T)
  | T, ℓ, hℓ, ni, nb, hw, hr => by
    by_cases hh : isHole T = true
    · obtain ⟨i, rfl⟩ := hole_of_isHole hh
      have := hr ⟨i, ℓ, ni, nb⟩ (by simp [reqs])
      simpa [pr, Node.prec, wrap_ge _ hℓ, fillN] using this.2.1
    · exact wrapT_der (fill_pr T ℓ ni nb (by simpa using hh) hw hr) hℓ

/-- a template node that is not itself a hole, at its own level -/
theorem fill_pr : (T : Node) → (ℓ : Nat) → (ni nb : Bool) → isHole T = false → wf (fillN dm T) = true →
    (∀ r ∈ reqs ℓ ni nb T, Meets f σ r) → Der T.prec (fillT f (pr T)) (fillN σ T)
  | .other _, _, _, _, hh, _, _ => by simp [isHoleB] at hh
  | .name s, _, _, _, _, hw, _ => by simpa [pr, Node.prec, fillN] using Der.name (by simpa [fillN, wf] using hw)
  | .int v, _, _, _, _, hw, _ => by
    have hv : 0 ≤ v := by simpa [fillN, wf] using hw
    obtain ⟨n, rfl⟩ := Int.eq_ofNat_of_zero_le hv
    have : intChars (n : Int) = natChars n := by simp [intChars]
    simpa [pr, Node.prec, fillN, this] using Der.int n
  | .float s, _, _, _, _, hw, _ => by simpa [pr, Node.prec, fillN] using Der.float (by simpa [fillN, wf] using hw)
  | .complex s, _, _, _, _, hw, _ => by simpa [pr, Node.prec, fillN] using Der.complex (by simpa [fillN, wf] using hw)
  | .str v, _, _, _, _, _, _ => by simpa [pr, Node.prec, fillN] using Der.str v
  | .bytes v, _, _, _, _, _, _ => by simpa [pr, Node.prec, fillN] using Der.bytes v
  | .ellipsis, _, _, _, _, _, _ => by simpa [pr, Node.prec, fillN] using Der.ellipsis
  | .member e a, _, _, _, _, hw, hr => by
    have ⟨he, ha⟩ : wf (fillN dm e) = true ∧ isIdent a = true := by simpa [fillN, wf] using hw
    have hr' : ∀ r ∈ reqs 16 true false e, Meets f σ r := by simpa [reqs] using hr
    by_cases hi : isIntLit e = true
    · have hh : isHole e = false := by cases e <;> simp [isIntLit] at hi; rfl
      have ih := fill_pr e 16 true false hh he hr'
      have := Der.memberP (a := a) (Der.up (Nat.zero_le _) ih) ha
      simpa [pr, Node.prec, fillN, hi, lparen, rparen] using this
    · have hi' : isIntLit e = false := by simpa using hi
      have := Der.member (a := a) (fill_sub e 16 (by omega) true false he hr') (notInt_fill hr' hi') ha
      simpa [pr, Node.prec, fillN, hi'] using this
  | .dict items, _, _, _, _, hw, hr => by
    have := Der.dict (fill_dict items (by simpa [fillN, wf] using hw) (by simpa [reqs] using hr))
    simpa [pr, Node.prec, fillN, fillT_commaSep] using this
  | .tuple items, _, _, _, _, hw, hr => by
    have := Der.tuple (fill_items false items (by simpa [fillN, wf] using hw) (by simpa [reqs] using hr))
    by_cases h1 : items.length = 1 <;> simpa [pr, Node.prec, fillN, fillT_commaSep, fillNL_length, h1] using this
  | .list items, _, _, _, _, hw, hr => by
    have := Der.list (fill_items false items (by simpa [fillN, wf] using hw) (by simpa [reqs] using hr))
    simpa [pr, Node.prec, fillN, fillT_commaSep] using this
  | .set items, _, _, _, _, hw, hr => by
    have ⟨hne, hi⟩ : fillNL dm items ≠ [] ∧ wfItems false (fillNL dm items) = true := by simpa [fillN, wf] using hw
    have hne' : items ≠ [] := by intro h; subst h; simp [fillNL] at hne
    have := Der.set (fill_items false items hi (by simpa [reqs] using hr)) (fillNL_ne_nil σ items hne')
    simpa [pr, Node.prec, fillN, fillT_commaSep] using this
  | .call g args, _, _, _, _, hw, hr => by
    have ⟨⟨hg, ha⟩, ho⟩ : (wf (fillN dm g) = true ∧ wfArgs (fillNA dm args) = true) ∧
        argsOrdered ((fillNA dm args).map (·.1)) = true := by simpa [fillN, wf] using hw
    have hr' : ∀ r ∈ reqs 16 false false g ++ reqsA args, Meets f σ r := by simpa [reqs] using hr
    have ho' : argsOrdered ((fillNA σ args).map (·.1)) = true := by rw [fillNA_kinds] at ho ⊢; exact ho
    have := Der.call (fill_sub g 16 (by omega) false false hg (fun r h => hr' r (List.mem_append_left _ h)))
      (fill_args args ha (fun r h => hr' r (List.mem_append_right _ h))) ho'
    simpa [pr, Node.prec, fillN, fillT_commaSep] using this
  | .index b i, _, _, _, _, hw, hr => by
    have ⟨hb, hi⟩ : wf (fillN dm b) = true ∧ wfIndex (fillN dm i) = true := by simpa [fillN, wf] using hw
    have hr' : ∀ r ∈ reqs 16 false false b ++ reqsI i, Meets f σ r := by simpa [reqs] using hr
    have := Der.index (fill_sub b 16 (by omega) false false hb (fun r h => hr' r (List.mem_append_left _ h)))
      (fill_index i hi (fun r h => hr' r (List.mem_append_right _ h)))
    simpa [pr, Node.prec, fillN] using this
  | .slice .., _, _, _, _, hw, _ => by simp [fillN, wf] at hw
  | .op o l r, _, _, _, _, hw, hr => by
    have ⟨hl, hr2⟩ : wf (fillN dm l) = true ∧ wf (fillN dm r) = true := by simpa [fillN, wf] using hw
    have hr' : ∀ q ∈ reqs o.lhs false false l ++ reqs o.rhs false false r, Meets f σ q := by simpa [reqs] using hr
    have := Der.binop (o := o) (fill_sub l o.lhs (lhs_le o) false false hl (fun q h => hr' q (List.mem_append_left _ h)))
      (fill_sub r o.rhs (rhs_le o) false false hr2 (fun q h => hr' q (List.mem_append_right _ h)))
    simpa [pr, Node.prec, fillN] using this
  | .cmp g rest, _, _, _, _, hw, hr => by
    have ⟨⟨hg, hne⟩, hc⟩ : (wf (fillN dm g) = true ∧ fillNC dm rest ≠ []) ∧ wfCmp (fillNC dm rest) = true := by
      simpa [fillN, wf] using hw
    have hne' : rest ≠ [] := by intro h; subst h; simp [fillNC] at hne
    have hr' : ∀ q ∈ reqs 7 false false g ++ reqsC rest, Meets f σ q := by simpa [reqs] using hr
    have := Der.cmp (fill_sub g 7 (by omega) false false hg (fun q h => hr' q (List.mem_append_left _ h)))
      (fill_cmp rest hc (fun q h => hr' q (List.mem_append_right _ h))) (fillNC_ne_nil σ rest hne')
    simpa [pr, Node.prec, fillN] using this
  | .unary o e, _, _, _, _, hw, hr => by
    have he : wf (fillN dm e) = true := by simpa [fillN, wf] using hw
    have hr' : ∀ q ∈ reqs o.prec false false e, Meets f σ q := by simpa [reqs] using hr
    by_cases ho : o = .not_
    · subst ho
      have := Der.not_ (fill_sub e 5 (by omega) false false he (by simpa [UnOp.prec] using hr'))
      simpa [pr, Node.prec, UnOp.prec, UnOp.text, fillN] using this
    · have hp : o.prec = 13 := by cases o <;> simp_all [UnOp.prec]
      have := Der.unary ho (fill_sub e 13 (by omega) false false he (by simpa [hp] using hr'))
      simpa [pr, Node.prec, ho, hp, fillN] using this
  | .lambda ps none, _, _, _, _, hw, _ => by simp [fillN, fillNO, wf] at hw
  | .lambda ps (some b), _, _, _, _, hw, hr => by
    have ⟨hps, hb⟩ : (ps.all (fun p => p.2 = .pos && isIdent p.1)) = true ∧ wf (fillN dm b) = true := by
      simpa [fillN, fillNO, wf] using hw
    have hr' : ∀ q ∈ reqs 1 false false b, Meets f σ q := by simpa [reqs, reqsO] using hr
    have := Der.lambda hps (fill_sub b 1 (by omega) false false hb hr')
    by_cases h1 : ps.isEmpty = true <;>
      simpa [pr, prOpt, Node.prec, fillN, fillNO, fillT_commaSep, fillT_names, h1] using this
  | .cond t c e, _, _, _, _, hw, hr => by
    have ⟨⟨ht, hc⟩, he⟩ : (wf (fillN dm t) = true ∧ wf (fillN dm c) = true) ∧ wf (fillN dm e) = true := by
      simpa [fillN, wf] using hw
    have hr' : ∀ q ∈ reqs 3 false false t ++ (reqs 3 false false c ++ reqs 1 false false e), Meets f σ q := by
      simpa [reqs] using hr
    have := Der.cond (fill_sub t 3 (by omega) false false ht (fun q h => hr' q (List.mem_append_left _ h)))
      (fill_sub c 3 (by omega) false false hc (fun q h => hr' q (List.mem_append_right _ (List.mem_append_left _ h))))
      (fill_sub e 1 (by omega) false false he (fun q h => hr' q (List.mem_append_right _ (List.mem_append_right _ h))))
    simpa [pr, Node.prec, fillN] using this
  | .await e, _, _, _, _, hw, hr => by
    have he : wf (fillN dm e) = true := by simpa [fillN, wf] using hw
    have := Der.await (fill_sub e 16 (by omega) false false he (by simpa [reqs] using hr))
    simpa [pr, Node.prec, fillN] using this
  | .walrus l r, _, _, _, _, hw, hr => by
    cases l <;> simp [fillN, wf] at hw
    rename_i s
    have := Der.walrus hw.1 (fill_sub r 1 (by omega) false false hw.2 (by simpa [reqs] using hr))
    simpa [pr, Node.prec, fillN] using this
  | .star _, _, _, _, _, hw, _ => by simp [fillN, wf] at hw
  | .fstr parts, _, _, _, _, hw, hr => by
    have ⟨⟨hp, hf⟩, ha⟩ : (wfParts (fillNP dm parts) = true ∧ (fillNP dm parts).any isFieldB = true) ∧
        noAdjLits (fillNP dm parts) = true := by simpa [fillN, wf] using hw
    have := Der.fstr (fill_parts parts hp (by simpa [reqs] using hr))
      (by rw [fillNP_shape] at hf ⊢; exact hf) (by rw [noAdj_fillNP] at ha ⊢; exact ha)
    simpa [pr, Node.prec, fillN] using this
  | .ffield .., _, _, _, _, hw, _ => by simp [fillN, wf] at hw

theorem fill_opt : (o : Option Node) → wfOpt (fillNO dm o) = true → (∀ r ∈ reqsO o, Meets f σ r) →
    DerOpt (fillT f (prOpt o)) (fillNO σ o)
  | none, _, _ => by simpa [prOpt, fillNO] using DerOpt.none
  | some e, hw, hr => by
    have := DerOpt.some (fill_sub e 1 (by omega) false false (by simpa [fillNO, wfOpt] using hw) (by simpa [reqsO] using hr))
    simpa [prOpt, fillNO] using this

theorem fill_items : (sl : Bool) → (es : List Node) → wfItems sl (fillNL dm es) = true → (∀ r ∈ reqsL es, Meets f σ r) →
    DerItems sl ((prItems es).map (fillT f)) (fillNL σ es)
  | _, [], _, _ => by simpa [prItems, fillNL] using DerItems.nil
  | sl, x :: rest, hw, hr => by
    have hr' : ∀ q ∈ reqs 0 false false x ++ reqsL rest, Meets f σ q := by simpa [reqsL] using hr
    have hrr := fun q h => hr' q (List.mem_append_right _ h)
    have hrx := fun q h => hr' q (List.mem_append_left _ h)
    by_cases hst : ∃ e, x = .star e
    · obtain ⟨e, rfl⟩ := hst
      have ⟨he, hwr⟩ : wf (fillN dm e) = true ∧ wfItems sl (fillNL dm rest) = true := by
        simpa [fillNL, fillN, wfItems] using hw
      have := DerItems.star (fill_sub e 7 (by omega) false false he (by simpa [reqs] using hrx)) (fill_items sl rest hwr hrr)
      simpa [prItems, pr, wrap, Node.prec, fillNL, fillN] using this
    · by_cases hsl : ∃ b e s, x = .slice b e s
      · obtain ⟨b, e, s, rfl⟩ := hsl
        have ⟨⟨⟨⟨hsl, hb⟩, he⟩, hs⟩, hwr⟩ : ((((sl = true ∧ wfOpt (fillNO dm b) = true) ∧ wfOpt (fillNO dm e) = true) ∧
            wfOpt (fillNO dm s) = true) ∧ wfItems sl (fillNL dm rest) = true) := by
          simpa [fillNL, fillN, wfItems] using hw
        subst hsl
        have hq : ∀ q ∈ reqsO b ++ (reqsO e ++ reqsO s), Meets f σ q := by simpa [reqs] using hrx
        have := DerItems.slice (fill_opt b hb (fun q h => hq q (List.mem_append_left _ h)))
          (fill_opt e he (fun q h => hq q (List.mem_append_right _ (List.mem_append_left _ h))))
          (fill_opt s hs (fun q h => hq q (List.mem_append_right _ (List.mem_append_right _ h))))
          (fill_items true rest hwr hrr)
        cases s <;> simpa [prItems, pr, wrap, Node.prec, prOpt, fillNL, fillN, fillNO] using this
      · have hw' : wfItems sl (fillNL dm (x :: rest)) = (wf (fillN dm x) && wfItems sl (fillNL dm rest)) := by
          cases x <;> simp_all [wfItems, fillNL, fillN, dummy]
        have ⟨hx, hwr⟩ : wf (fillN dm x) = true ∧ wfItems sl (fillNL dm rest) = true := by simpa [hw'] using hw
        have := DerItems.expr (fill_sub x 0 (by omega) false false hx hrx) (fill_items sl rest hwr hrr)
        simpa [prItems, fillNL] using this

theorem fill_dict : (items : List (Option Node × Node)) → wfDict (fillND dm items) = true →
    (∀ r ∈ reqsD items, Meets f σ r) → DerDict ((prDict items).map (fillT f)) (fillND σ items)
  | [], _, _ => by simpa [prDict, fillND] using DerDict.nil
  | (some k, v) :: rest, hw, hr => by
    have ⟨⟨hk, hv⟩, hwr⟩ : (wf (fillN dm k) = true ∧ wf (fillN dm v) = true) ∧ wfDict (fillND dm rest) = true := by
      simpa [fillND, fillNO, wfDict, wfOpt] using hw
    have hr' : ∀ q ∈ reqs 1 false false k ++ (reqs 1 false false v ++ reqsD rest), Meets f σ q := by
      simpa [reqsD] using hr
    have := DerDict.kv (fill_sub k 1 (by omega) false false hk (fun q h => hr' q (List.mem_append_left _ h)))
      (fill_sub v 1 (by omega) false false hv (fun q h => hr' q (List.mem_append_right _ (List.mem_append_left _ h))))
      (fill_dict rest hwr (fun q h => hr' q (List.mem_append_right _ (List.mem_append_right _ h))))
    simpa [prDict, fillND, fillNO] using this
  | (none, v) :: rest, hw, hr => by
    have ⟨hv, hwr⟩ : wf (fillN dm v) = true ∧ wfDict (fillND dm rest) = true := by
      simpa [fillND, fillNO, wfDict, wfOpt] using hw
    have hr' : ∀ q ∈ reqs 7 false false v ++ reqsD rest, Meets f σ q := by simpa [reqsD] using hr
    have := DerDict.spread (fill_sub v 7 (by omega) false false hv (fun q h => hr' q (List.mem_append_left _ h)))
      (fill_dict rest hwr (fun q h => hr' q (List.mem_append_right _ h)))
    simpa [prDict, fillND, fillNO] using this

theorem fill_args : (args : List (ArgKind × Str × Node)) → wfArgs (fillNA dm args) = true →
    (∀ r ∈ reqsA args, Meets f σ r) → DerArgs ((prArgs args).map (fillT f)) (fillNA σ args)
  | [], _, _ => by simpa [prArgs, fillNA] using DerArgs.nil
  | (k, nm, a) :: rest, hw, hr => by
    have hr' : ∀ q ∈ reqs (if k = .pos then 0 else 1) false false a ++ reqsA rest, Meets f σ q := by
      simpa [reqsA] using hr
    have hrr := fun q h => hr' q (List.mem_append_right _ h)
    have hra := fun q h => hr' q (List.mem_append_left _ h)
    cases k <;> simp [fillNA, wfArgs] at hw
    · simpa [prArgs, fillNA] using DerArgs.pos (nm := nm) (fill_sub a 0 (by omega) false false hw.1 (by simpa using hra)) (fill_args rest hw.2 hrr)
    · simpa [prArgs, fillNA] using DerArgs.star (nm := nm) (fill_sub a 1 (by omega) false false hw.1 (by simpa using hra)) (fill_args rest hw.2 hrr)
    · simpa [prArgs, fillNA] using DerArgs.named hw.1.1 (fill_sub a 1 (by omega) false false hw.1.2 (by simpa using hra)) (fill_args rest hw.2 hrr)
    · simpa [prArgs, fillNA] using DerArgs.star2 (nm := nm) (fill_sub a 1 (by omega) false false hw.1 (by simpa using hra)) (fill_args rest hw.2 hrr)

theorem fill_cmp : (rest : List (CmpOp × Node)) → wfCmp (fillNC dm rest) = true → (∀ r ∈ reqsC rest, Meets f σ r) →
    DerCmp (fillT f (prCmp rest)) (fillNC σ rest)
  | [], _, _ => by simpa [prCmp, fillNC] using DerCmp.nil
  | (o, e) :: rest, hw, hr => by
    have ⟨he, hwr⟩ : wf (fillN dm e) = true ∧ wfCmp (fillNC dm rest) = true := by simpa [fillNC, wfCmp] using hw
    have hr' : ∀ q ∈ reqs 7 false false e ++ reqsC rest, Meets f σ q := by simpa [reqsC] using hr
    have := DerCmp.cons (o := o) (fill_sub e 7 (by omega) false false he (fun q h => hr' q (List.mem_append_left _ h)))
      (fill_cmp rest hwr (fun q h => hr' q (List.mem_append_right _ h)))
    simpa [prCmp, fillNC] using this

theorem fill_index : (i : Node) → wfIndex (fillN dm i) = true → (∀ r ∈ reqsI i, Meets f σ r) →
    DerIndex (fillT f (prIndex i)) (fillN σ i)
  | i, hw, hr => by
    by_cases h1 : ∃ b e s, i = .slice b e s
    · obtain ⟨b, e, s, rfl⟩ := h1
      have ⟨⟨hb, he⟩, hs⟩ : (wfOpt (fillNO dm b) = true ∧ wfOpt (fillNO dm e) = true) ∧ wfOpt (fillNO dm s) = true := by
        simpa [fillN, wfIndex] using hw
      have hq : ∀ q ∈ reqsO b ++ (reqsO e ++ reqsO s), Meets f σ q := by simpa [reqsI, reqs] using hr
      have := DerIndex.slice (fill_opt b hb (fun q h => hq q (List.mem_append_left _ h)))
        (fill_opt e he (fun q h => hq q (List.mem_append_right _ (List.mem_append_left _ h))))
        (fill_opt s hs (fun q h => hq q (List.mem_append_right _ (List.mem_append_right _ h))))
      cases s <;> simpa [prIndex, pr, prOpt, fillN, fillNO] using this
    · by_cases h2 : ∃ items, i = .tuple items
      · obtain ⟨items, rfl⟩ := h2
        have hany : (fillNL dm items).any isSliceB = items.any isSliceB := any_slice_fillNL items
        have hany' : (fillNL σ items).any isSliceB = true ∨ items.any isSliceB = false := by
          by_cases hs : items.any isSliceB = true
          · exact Or.inl (any_slice_fillNL_true σ items hs)
          · exact Or.inr (by simpa using hs)
        have hi : wfItems (items.any isSliceB) (fillNL dm items) = true := by simpa [fillN, wfIndex, hany] using hw
        have hq : ∀ q ∈ reqsL items, Meets f σ q := by simpa [reqsI] using hr
        by_cases hs : items.any isSliceB = true
        · rw [hs] at hi
          have := DerIndex.slices (fill_items true items hi hq) (any_slice_fillNL_true σ items hs)
          by_cases h1 : items.length = 1 <;> simpa [prIndex, hs, fillN, fillT_commaSep, fillNL_length, h1] using this
        · have hs' : items.any isSliceB = false := by simpa using hs
          rw [hs'] at hi
          have := DerIndex.expr (Der.up (Nat.zero_le _) (Der.tuple (fill_items false items hi hq)))
          by_cases h1 : items.length = 1 <;> simpa [prIndex, hs', fillN, fillT_commaSep, fillNL_length, h1] using this
      · by_cases hh : isHole i = true
        · obtain ⟨k, rfl⟩ := hole_of_isHole hh
          have := hr ⟨k, 0, false, false⟩ (by simp [reqsI, reqs])
          simpa [prIndex, pr, fillN] using DerIndex.expr this.2.1
        · have hh' : isHole i = false := by simpa using hh
          have hw' : wfIndex (fillN dm i) = wf (fillN dm i) := by cases i <;> simp_all [wfIndex, fillN, isHoleB]
          have hp : prIndex i = pr i := by cases i <;> simp_all [prIndex]
          have hq : ∀ q ∈ reqs 0 false false i, Meets f σ q := by
            have : reqsI i = reqs 0 false false i := by cases i <;> simp_all [reqsI]
            simpa [this] using hr
          have := DerIndex.expr (Der.up (Nat.zero_le _) (fill_pr i 0 false false hh' (by simpa [hw'] using hw) hq))
          simpa [hp] using this

theorem fill_parts : (ps : List Node) → wfParts (fillNP dm ps) = true → (∀ r ∈ reqsP ps, Meets f σ r) →
    DerParts (fillT f (prParts ps)) (fillNP σ ps)
  | [], _, _ => by simpa [prParts, fillNP] using DerParts.nil
  | p :: rest, hw, hr => by
    have hr' : ∀ q ∈ reqs 0 false false p ++ reqsP rest, Meets f σ q := by simpa [reqsP] using hr
    have hrr := fun q h => hr' q (List.mem_append_right _ h)
    have hrp := fun q h => hr' q (List.mem_append_left _ h)
    by_cases h1 : ∃ v, p = .str v
    · obtain ⟨v, rfl⟩ := h1
      have ⟨hv, hwr⟩ : v ≠ [] ∧ wfParts (fillNP dm rest) = true := by simpa [fillNP, wfParts] using hw
      have hd : hasBrace v = true ∨ hasBrace v = false := by cases hasBrace v <;> simp
      simpa [prParts, fillNP] using DerParts.lit (d := hasBrace v) hv hd (fill_parts rest hwr hrr)
    · by_cases h2 : ∃ e conv spec, p = .ffield e conv spec
      · obtain ⟨e, conv, spec, rfl⟩ := h2
        have hc' : ∀ c, conv = some c → isConv c = true := by
          intro c hc2; subst hc2; simp [fillNP, wfParts] at hw; exact hw.1.1.2
        have ⟨⟨he, hs⟩, hwr⟩ : (wf (fillN dm e) = true ∧ hasBrace spec = false) ∧ wfParts (fillNP dm rest) = true := by
          cases conv <;> simp [fillNP, wfParts] at hw <;> simp [hw]
        by_cases hh : isHole e = true
        · obtain ⟨k, rfl⟩ := hole_of_isHole hh
          have hm := hrp ⟨k, 3, false, true⟩ (by simp [reqs, isHoleB])
          have hb : startsWithBrace (f k) = false := hm.2.2.2 rfl
          have := DerParts.field (conv := conv) (spec := spec) hm.2.1 hc' hs (fill_parts rest hwr hrr)
          have hw3 : wrap 3 (Node.other k).prec [Tok.hole k] = [.hole k] := by simp [wrap, Node.prec]
          have hb0 : startsWithBrace [Tok.hole k] = false := rfl
          cases conv <;> by_cases h1 : spec.isEmpty = true <;> by_cases h2 : spec.all plainSpecChar = true <;>
            simpa [prParts, pr, fillNP, fillN, hw3, hb0, hb, h1, h2] using this
        · exfalso
          have hm := hrp ⟨0, 18, false, false⟩ (by simp [reqs, hh])
          exact absurd hm.1 (by decide)
      · exfalso
        cases p <;> simp_all [wfParts, fillNP]
end
end

/-! ### Executable twins of `pr`, `reqs`, `wf`

The model's `pr`, `reqs` and `wf` are compiled by well-founded recursion (`prIndex`/`reqsI`/`wfIndex` call back on
the same node), so the kernel cannot evaluate them on a concrete table.  `pr2`, `reqs2`, `wf2` are the same
functions by structural recursion (the subscript cases inlined); `pr2_eq`, `reqs2_eq`, `wf2_eq` prove them equal
for every tree, so that a `decide` over a regenerated table speaks about the model's functions. -/

mutual
def pr2 : Node → Toks
  | .name s => [.name s]
  | .member e a => (if isIntLit e then lparen ++ pr2 e ++ rparen else wrap 16 e.prec (pr2 e)) ++ [.t ".", .name a]
  | .int v => [.num (intChars v)]
  | .float s => [.num s]
  | .complex s => [.num s]
  | .str v => [.str v]
  | .bytes v => [.bytes v]
  | .ellipsis => [.t "..."]
  | .dict items => [.t "{"] ++ commaSep (pr2Dict items) ++ [.t "}"]
  | .tuple items => [.t "("] ++ commaSep (pr2Items items) ++ (if items.length = 1 then [.t ","] else []) ++ [.t ")"]
  | .list items => [.t "["] ++ commaSep (pr2Items items) ++ [.t "]"]
  | .set items => [.t "{"] ++ commaSep (pr2Items items) ++ [.t "}"]
  | .call f args => wrap 16 f.prec (pr2 f) ++ [.t "("] ++ commaSep (pr2Args args) ++ [.t ")"]
  | .index b (.tuple items) =>
    wrap 16 b.prec (pr2 b) ++ [.t "["] ++
      (if items.any isSliceB then commaSep (pr2Items items) ++ (if items.length = 1 then [.t ","] else [])
       else [.t "("] ++ commaSep (pr2Items items) ++ (if items.length = 1 then [.t ","] else []) ++ [.t ")"]) ++ [.t "]"]
  | .index b i => wrap 16 b.prec (pr2 b) ++ [.t "["] ++ pr2 i ++ [.t "]"]
  | .slice b e s => pr2Opt b ++ [.t ":"] ++ pr2Opt e ++ pr2Stride s
  | .op o l r => wrap o.lhs l.prec (pr2 l) ++ [.sp, .t o.text, .sp] ++ wrap o.rhs r.prec (pr2 r)
  | .cmp f rest => wrap 7 f.prec (pr2 f) ++ pr2Cmp rest
  | .unary o e => (if o = .not_ then [.t o.text, .sp] else [.t o.text]) ++ wrap o.prec e.prec (pr2 e)
  | .lambda ps b =>
    [.t "lambda"] ++ (if ps.isEmpty then [] else .sp :: commaSep (ps.map (fun p => [.name p.1]))) ++ [.t ":", .sp]
      ++ pr2Opt b
  | .cond t c e =>
    wrap 3 t.prec (pr2 t) ++ [.sp, .t "if", .sp] ++ wrap 3 c.prec (pr2 c) ++ [.sp, .t "else", .sp] ++ wrap 1 e.prec (pr2 e)
  | .await e => [.t "await", .sp] ++ wrap 16 e.prec (pr2 e)
  | .walrus l r => pr2 l ++ [.sp, .t ":=", .sp] ++ wrap 1 r.prec (pr2 r)
  | .star e => .t "*" :: wrap 7 e.prec (pr2 e)
  | .fstr parts => [.t "f\""] ++ pr2Parts parts ++ [.t "\""]
  | .ffield e conv spec =>
    [.t "{"] ++ (if startsWithBrace (wrap 3 e.prec (pr2 e)) then [.sp] else []) ++ wrap 3 e.prec (pr2 e)
      ++ (match conv with | some c => [.t (String.ofList ['!', c])] | none => [])
      ++ (if spec.isEmpty then [] else if spec.all plainSpecChar then [.t ":", .fspec spec] else [.t ":", .flit spec false])
      ++ [.t "}"]
  | .other i => [.hole i]
def pr2Opt : Option Node → Toks
  | none => []
  | some e => wrap 1 e.prec (pr2 e)
def pr2Stride : Option Node → Toks
  | none => []
  | some s => .t ":" :: wrap 1 s.prec (pr2 s)
def pr2Items : List Node → List Toks
  | [] => []
  | x :: xs => wrap 0 x.prec (pr2 x) :: pr2Items xs
def pr2Dict : List (Option Node × Node) → List Toks
  | [] => []
  | (some k, v) :: xs => (wrap 1 k.prec (pr2 k) ++ [.t ":", .sp] ++ wrap 1 v.prec (pr2 v)) :: pr2Dict xs
  | (none, v) :: xs => (.t "**" :: wrap 7 v.prec (pr2 v)) :: pr2Dict xs
def pr2Args : List (ArgKind × Str × Node) → List Toks
  | [] => []
  | (k, nm, a) :: xs =>
    (match k with
      | .named => [.name nm, .t "="] ++ wrap 1 a.prec (pr2 a)
      | .star => .t "*" :: wrap 1 a.prec (pr2 a)
      | .star2 => .t "**" :: wrap 1 a.prec (pr2 a)
      | _ => wrap 0 a.prec (pr2 a)) :: pr2Args xs
def pr2Cmp : List (CmpOp × Node) → Toks
  | [] => []
  | (o, e) :: xs => [.sp, .t o.text, .sp] ++ wrap 7 e.prec (pr2 e) ++ pr2Cmp xs
def pr2Parts : List Node → Toks
  | [] => []
  | .str v :: rest => .flit v (hasBrace v) :: pr2Parts rest
  | p :: rest => pr2 p ++ pr2Parts rest
end

mutual
theorem pr2_eq : (e : Node) → pr2 e = pr e
  | .name s | .int v | .float s | .complex s | .str v | .bytes v | .ellipsis | .other i => by simp [pr2, pr]
  | .member e a => by simp [pr2, pr, pr2_eq e]
  | .dict items => by simp [pr2, pr, pr2Dict_eq items]
  | .tuple items => by simp [pr2, pr, pr2Items_eq items]
  | .list items => by simp [pr2, pr, pr2Items_eq items]
  | .set items => by simp [pr2, pr, pr2Items_eq items]
  | .call f args => by simp [pr2, pr, pr2_eq f, pr2Args_eq args]
  | .index b i => by
    have hb := pr2_eq b
    have hi := pr2_eq i
    cases i
    case tuple items =>
      have := pr2Items_eq items
      by_cases h : items.any isSliceB = true <;> simp [pr2, pr, prIndex, hb, this, h]
    all_goals simp_all [pr2, pr, prIndex]
  | .slice b e s => by
    cases s with
    | none => simp [pr2, pr, pr2Opt_eq b, pr2Opt_eq e, pr2Stride]
    | some s => simp [pr2, pr, pr2Opt_eq b, pr2Opt_eq e, pr2Stride, pr2_eq s]
  | .op o l r => by simp [pr2, pr, pr2_eq l, pr2_eq r]
  | .cmp f rest => by simp [pr2, pr, pr2_eq f, pr2Cmp_eq rest]
  | .unary o e => by simp [pr2, pr, pr2_eq e]
  | .lambda ps b => by simp [pr2, pr, pr2Opt_eq b]
  | .cond t c e => by simp [pr2, pr, pr2_eq t, pr2_eq c, pr2_eq e]
  | .await e => by simp [pr2, pr, pr2_eq e]
  | .walrus l r => by simp [pr2, pr, pr2_eq l, pr2_eq r]
  | .star e => by simp [pr2, pr, pr2_eq e]
  | .fstr parts => by simp [pr2, pr, pr2Parts_eq parts]
  | .ffield e conv spec => by cases conv <;> simp [pr2, pr, pr2_eq e]
theorem pr2Opt_eq : (o : Option Node) → pr2Opt o = prOpt o
  | none => by simp [pr2Opt, prOpt]
  | some e => by simp [pr2Opt, prOpt, pr2_eq e]
theorem pr2Items_eq : (l : List Node) → pr2Items l = prItems l
  | [] => by simp [pr2Items, prItems]
  | x :: xs => by simp [pr2Items, prItems, pr2_eq x, pr2Items_eq xs]
theorem pr2Dict_eq : (l : List (Option Node × Node)) → pr2Dict l = prDict l
  | [] => by simp [pr2Dict, prDict]
  | (some k, v) :: xs => by simp [pr2Dict, prDict, pr2_eq k, pr2_eq v, pr2Dict_eq xs]
  | (none, v) :: xs => by simp [pr2Dict, prDict, pr2_eq v, pr2Dict_eq xs]
theorem pr2Args_eq : (l : List (ArgKind × Str × Node)) → pr2Args l = prArgs l
  | [] => by simp [pr2Args, prArgs]
  | (k, nm, a) :: xs => by cases k <;> simp [pr2Args, prArgs, pr2_eq a, pr2Args_eq xs]
theorem pr2Cmp_eq : (l : List (CmpOp × Node)) → pr2Cmp l = prCmp l
  | [] => by simp [pr2Cmp, prCmp]
  | (o, e) :: xs => by simp [pr2Cmp, prCmp, pr2_eq e, pr2Cmp_eq xs]
theorem pr2Parts_eq : (l : List Node) → pr2Parts l = prParts l
  | [] => by simp [pr2Parts, prParts]
  | p :: rest => by
    have h1 := pr2_eq p
    have h2 := pr2Parts_eq rest
    cases p <;> simp_all [pr2Parts, prParts]
end

mutual
def reqs2 (ℓ : Nat) (ni nb : Bool) : Node → List Req
  | .other i => [⟨i, ℓ, ni, nb⟩]
  | .member e _ => reqs2 16 true false e
  | .dict items => reqs2D items
  | .tuple items => reqs2L items
  | .list items => reqs2L items
  | .set items => reqs2L items
  | .call f args => reqs2 16 false false f ++ reqs2A args
  | .index b (.tuple items) => reqs2 16 false false b ++ reqs2L items
  | .index b i => reqs2 16 false false b ++ reqs2 0 false false i
  | .slice b e s => reqs2O b ++ reqs2O e ++ reqs2O s
  | .op o l r => reqs2 o.lhs false false l ++ reqs2 o.rhs false false r
  | .cmp f rest => reqs2 7 false false f ++ reqs2C rest
  | .unary o e => reqs2 o.prec false false e
  | .lambda _ b => reqs2O b
  | .cond t c e => reqs2 3 false false t ++ reqs2 3 false false c ++ reqs2 1 false false e
  | .await e => reqs2 16 false false e
  | .walrus _ r => reqs2 1 false false r
  | .star e => reqs2 7 false false e
  | .fstr parts => reqs2P parts
  | .ffield e _ _ => if isHoleB e then reqs2 3 false true e else [⟨0, 18, false, false⟩]
  | _ => []
def reqs2O : Option Node → List Req
  | none => []
  | some e => reqs2 1 false false e
def reqs2L : List Node → List Req
  | [] => []
  | x :: xs => reqs2 0 false false x ++ reqs2L xs
def reqs2D : List (Option Node × Node) → List Req
  | [] => []
  | (some k, v) :: xs => reqs2 1 false false k ++ reqs2 1 false false v ++ reqs2D xs
  | (none, v) :: xs => reqs2 7 false false v ++ reqs2D xs
def reqs2A : List (ArgKind × Str × Node) → List Req
  | [] => []
  | (k, _, a) :: xs => reqs2 (if k = .pos then 0 else 1) false false a ++ reqs2A xs
def reqs2C : List (CmpOp × Node) → List Req
  | [] => []
  | (_, e) :: xs => reqs2 7 false false e ++ reqs2C xs
def reqs2P : List Node → List Req
  | [] => []
  | p :: xs => reqs2 0 false false p ++ reqs2P xs
end

mutual
theorem reqs2_eq : (e : Node) → (ℓ : Nat) → (ni nb : Bool) → reqs2 ℓ ni nb e = reqs ℓ ni nb e
  | .name s, _, _, _ | .int v, _, _, _ | .float s, _, _, _ | .complex s, _, _, _ | .str v, _, _, _ | .bytes v, _, _, _
  | .ellipsis, _, _, _ | .other i, _, _, _ => by simp [reqs2, reqs]
  | .member e a, _, _, _ => by simp [reqs2, reqs, reqs2_eq e]
  | .dict items, _, _, _ => by simp [reqs2, reqs, reqs2D_eq items]
  | .tuple items, _, _, _ => by simp [reqs2, reqs, reqs2L_eq items]
  | .list items, _, _, _ => by simp [reqs2, reqs, reqs2L_eq items]
  | .set items, _, _, _ => by simp [reqs2, reqs, reqs2L_eq items]
  | .call f args, _, _, _ => by simp [reqs2, reqs, reqs2_eq f, reqs2A_eq args]
  | .index b i, _, _, _ => by
    have hb := reqs2_eq b
    have hi := reqs2_eq i
    cases i
    case tuple items =>
      have := reqs2L_eq items
      simp [reqs2, reqs, reqsI, hb, this]
    all_goals simp_all [reqs2, reqs, reqsI]
  | .slice b e s, _, _, _ => by simp [reqs2, reqs, reqs2O_eq b, reqs2O_eq e, reqs2O_eq s]
  | .op o l r, _, _, _ => by simp [reqs2, reqs, reqs2_eq l, reqs2_eq r]
  | .cmp f rest, _, _, _ => by simp [reqs2, reqs, reqs2_eq f, reqs2C_eq rest]
  | .unary o e, _, _, _ => by simp [reqs2, reqs, reqs2_eq e]
  | .lambda ps b, _, _, _ => by simp [reqs2, reqs, reqs2O_eq b]
  | .cond t c e, _, _, _ => by simp [reqs2, reqs, reqs2_eq t, reqs2_eq c, reqs2_eq e]
  | .await e, _, _, _ => by simp [reqs2, reqs, reqs2_eq e]
  | .walrus l r, _, _, _ => by simp [reqs2, reqs, reqs2_eq r]
  | .star e, _, _, _ => by simp [reqs2, reqs, reqs2_eq e]
  | .fstr parts, _, _, _ => by simp [reqs2, reqs, reqs2P_eq parts]
  | .ffield e conv spec, _, _, _ => by simp [reqs2, reqs, reqs2_eq e]
theorem reqs2O_eq : (o : Option Node) → reqs2O o = reqsO o
  | none => by simp [reqs2O, reqsO]
  | some e => by simp [reqs2O, reqsO, reqs2_eq e]
theorem reqs2L_eq : (l : List Node) → reqs2L l = reqsL l
  | [] => by simp [reqs2L, reqsL]
  | x :: xs => by simp [reqs2L, reqsL, reqs2_eq x, reqs2L_eq xs]
theorem reqs2D_eq : (l : List (Option Node × Node)) → reqs2D l = reqsD l
  | [] => by simp [reqs2D, reqsD]
  | (some k, v) :: xs => by simp [reqs2D, reqsD, reqs2_eq k, reqs2_eq v, reqs2D_eq xs]
  | (none, v) :: xs => by simp [reqs2D, reqsD, reqs2_eq v, reqs2D_eq xs]
theorem reqs2A_eq : (l : List (ArgKind × Str × Node)) → reqs2A l = reqsA l
  | [] => by simp [reqs2A, reqsA]
  | (k, nm, a) :: xs => by simp [reqs2A, reqsA, reqs2_eq a, reqs2A_eq xs]
theorem reqs2C_eq : (l : List (CmpOp × Node)) → reqs2C l = reqsC l
  | [] => by simp [reqs2C, reqsC]
  | (o, e) :: xs => by simp [reqs2C, reqsC, reqs2_eq e, reqs2C_eq xs]
theorem reqs2P_eq : (l : List Node) → reqs2P l = reqsP l
  | [] => by simp [reqs2P, reqsP]
  | p :: xs => by simp [reqs2P, reqsP, reqs2_eq p, reqs2P_eq xs]
end

mutual
def wf2 : Node → Bool
  | .name s => isName s
  | .member e a => wf2 e && isIdent a
  | .int v => decide (0 ≤ v)
  | .float s => isNumText s
  | .complex s => isNumText s
  | .str _ => true
  | .bytes _ => true
  | .ellipsis => true
  | .dict items => wf2Dict items
  | .tuple items => wf2Items false items
  | .list items => wf2Items false items
  | .set items => !items.isEmpty && wf2Items false items
  | .call f args => wf2 f && wf2Args args && argsOrdered (args.map (·.1))
  | .index b (.slice s e st) => wf2 b && (wf2Opt s && wf2Opt e && wf2Opt st)
  | .index b (.tuple items) => wf2 b && wf2Items (items.any isSliceB) items
  | .index b i => wf2 b && wf2 i
  | .slice .. => false
  | .op _ l r => wf2 l && wf2 r
  | .cmp f rest => wf2 f && !rest.isEmpty && wf2Cmp rest
  | .unary _ e => wf2 e
  | .lambda ps b => ps.all (fun p => p.2 = .pos && isIdent p.1) && wf2Body b
  | .cond t c e => wf2 t && wf2 c && wf2 e
  | .await e => wf2 e
  | .walrus l r => (match l with | .name s => isIdent s | _ => false) && wf2 r
  | .star _ => false
  | .fstr parts => wf2Parts parts && parts.any isFieldB && noAdjLits parts
  | .ffield .. => false
  | .other _ => false
def wf2Opt : Option Node → Bool
  | none => true
  | some e => wf2 e
def wf2Body : Option Node → Bool
  | none => false
  | some e => wf2 e
def wf2Items (sl : Bool) : List Node → Bool
  | [] => true
  | .star e :: rest => wf2 e && wf2Items sl rest
  | .slice b e s :: rest => sl && wf2Opt b && wf2Opt e && wf2Opt s && wf2Items sl rest
  | x :: rest => wf2 x && wf2Items sl rest
def wf2Dict : List (Option Node × Node) → Bool
  | [] => true
  | (k, v) :: rest => wf2Opt k && wf2 v && wf2Dict rest
def wf2Args : List (ArgKind × Str × Node) → Bool
  | [] => true
  | (k, nm, a) :: rest =>
    (match k with
      | .pos | .star | .star2 => true
      | .named => isIdent nm
      | _ => false) && wf2 a && wf2Args rest
def wf2Cmp : List (CmpOp × Node) → Bool
  | [] => true
  | (_, e) :: rest => wf2 e && wf2Cmp rest
def wf2Parts : List Node → Bool
  | [] => true
  | .str v :: rest => !v.isEmpty && wf2Parts rest
  | .ffield e conv spec :: rest =>
    wf2 e && (match conv with | some c => isConv c | none => true) && !hasBrace spec && wf2Parts rest
  | _ :: _ => false
end

mutual
theorem wf2_eq : (e : Node) → wf2 e = wf e
  | .name s | .int v | .float s | .complex s | .str v | .bytes v | .ellipsis | .other i => by simp [wf2, wf]
  | .member e a => by simp [wf2, wf, wf2_eq e]
  | .dict items => by simp [wf2, wf, wf2Dict_eq items]
  | .tuple items => by simp [wf2, wf, wf2Items_eq false items]
  | .list items => by simp [wf2, wf, wf2Items_eq false items]
  | .set items => by simp [wf2, wf, wf2Items_eq false items]
  | .call f args => by simp [wf2, wf, wf2_eq f, wf2Args_eq args]
  | .index b i => by
    have hb := wf2_eq b
    have hi := wf2_eq i
    cases i
    case tuple items =>
      have := wf2Items_eq (items.any isSliceB) items
      simp [wf2, wf, wfIndex, hb, this]
    case slice s e st =>
      simp [wf2, wf, wfIndex, hb, wf2Opt_eq s, wf2Opt_eq e, wf2Opt_eq st]
    all_goals simp_all [wf2, wf, wfIndex]
  | .slice b e s => by simp [wf2, wf]
  | .op o l r => by simp [wf2, wf, wf2_eq l, wf2_eq r]
  | .cmp f rest => by simp [wf2, wf, wf2_eq f, wf2Cmp_eq rest]
  | .unary o e => by simp [wf2, wf, wf2_eq e]
  | .lambda ps b => by cases b <;> simp [wf2, wf, wf2Body, wf2_eq]
  | .cond t c e => by simp [wf2, wf, wf2_eq t, wf2_eq c, wf2_eq e]
  | .await e => by simp [wf2, wf, wf2_eq e]
  | .walrus l r => by cases l <;> simp [wf2, wf, wf2_eq r]
  | .star e => by simp [wf2, wf]
  | .fstr parts => by simp [wf2, wf, wf2Parts_eq parts]
  | .ffield e conv spec => by simp [wf2, wf]
theorem wf2Opt_eq : (o : Option Node) → wf2Opt o = wfOpt o
  | none => by simp [wf2Opt, wfOpt]
  | some e => by simp [wf2Opt, wfOpt, wf2_eq e]
theorem wf2Items_eq : (sl : Bool) → (l : List Node) → wf2Items sl l = wfItems sl l
  | _, [] => by simp [wf2Items, wfItems]
  | sl, x :: rest => by
    have hx := wf2_eq x
    have hr := wf2Items_eq sl rest
    cases x
    case star e => simp [wf2Items, wfItems, wf2_eq e, hr]
    case slice b e s => simp [wf2Items, wfItems, wf2Opt_eq b, wf2Opt_eq e, wf2Opt_eq s, hr]
    all_goals simp_all [wf2Items, wfItems]
theorem wf2Dict_eq : (l : List (Option Node × Node)) → wf2Dict l = wfDict l
  | [] => by simp [wf2Dict, wfDict]
  | (k, v) :: rest => by simp [wf2Dict, wfDict, wf2Opt_eq k, wf2_eq v, wf2Dict_eq rest]
theorem wf2Args_eq : (l : List (ArgKind × Str × Node)) → wf2Args l = wfArgs l
  | [] => by simp [wf2Args, wfArgs]
  | (k, nm, a) :: rest => by cases k <;> simp [wf2Args, wfArgs, wf2_eq a, wf2Args_eq rest]
theorem wf2Cmp_eq : (l : List (CmpOp × Node)) → wf2Cmp l = wfCmp l
  | [] => by simp [wf2Cmp, wfCmp]
  | (o, e) :: rest => by simp [wf2Cmp, wfCmp, wf2_eq e, wf2Cmp_eq rest]
theorem wf2Parts_eq : (l : List Node) → wf2Parts l = wfParts l
  | [] => by simp [wf2Parts, wfParts]
  | p :: rest => by
    have hr := wf2Parts_eq rest
    cases p
    case str v => simp [wf2Parts, wfParts, hr]
    case ffield e conv spec => cases conv <;> simp [wf2Parts, wfParts, wf2_eq e, hr]
    all_goals simp [wf2Parts, wfParts]
end

/-! ### Fragments that are not bare expressions: `target = value`, `for target in iterable`, `in operand`

The messages of the checks also quote an assignment (FURB188 `{0} = {0}.removesuffix({1})`), the head of a `for`
loop (FURB135 `for {0} in {1}.values()`) and the tail of a membership test (FURB130 `in {0}`).  `Frag` is such a
fragment as a tree, `prFrag` its reference text, `DerFrag` Python's grammar for it on top of `Der`. -/

/-- a quoted fragment as a tree -/
inductive Frag where
  /-- an expression -/
  | expr (e : Node)
  /-- `assignment: star_targets '=' star_expressions` with one target -/
  | assign (t v : Node)
  /-- `'for' star_targets 'in' star_expressions` (the head of a loop or of a comprehension clause) -/
  | forIn (t e : Node)
  /-- `compare_op_bitwise_or_pair`: `'in' bitwise_or` / `'not' 'in' bitwise_or` -/
  | inTail (neg : Bool) (e : Node)
  deriving Repr, Inhabited

mutual
/-- what Python accepts left of `=` / after `for`: a name, an attribute, a subscript, a tuple or list of these -/
def isTargetN : Node → Bool
  | .name s => isIdent s
  | .member .. => true
  | .index .. => true
  | .tuple items => !items.isEmpty && isTargetL items
  | .list items => !items.isEmpty && isTargetL items
  | _ => false
def isTargetL : List Node → Bool
  | [] => true
  | x :: xs => isTargetN x && isTargetL xs
end

def inText (neg : Bool) : String := if neg then "not in" else "in"

/-- the reference text of a fragment (components through `wrap`, like the children of an expression) -/
def prFrag : Frag → Toks
  | .expr e => wrap 1 e.prec (pr e)
  | .assign t v => wrap 16 t.prec (pr t) ++ [.sp, .t "=", .sp] ++ wrap 1 v.prec (pr v)
  | .forIn t e => [.t "for", .sp] ++ wrap 16 t.prec (pr t) ++ [.sp, .t "in", .sp] ++ wrap 1 e.prec (pr e)
  | .inTail neg e => [.t (inText neg), .sp] ++ wrap 7 e.prec (pr e)

/-- Python's grammar for the fragment forms: a target is a primary whose tree has the shape of a target; the right
    side of `=` and the iterable of `for` are expressions (level 1), the operand of `in` is a `bitwise_or` (7) -/
inductive DerFrag : Toks → Frag → Prop
  | expr {ts e} : Der 1 ts e → DerFrag ts (.expr e)
  | assign {tt t tv v} : Der 16 tt t → isTargetN t = true → Der 1 tv v →
      DerFrag (tt ++ [.sp, .t "=", .sp] ++ tv) (.assign t v)
  | forIn {tt t te e} : Der 16 tt t → isTargetN t = true → Der 1 te e →
      DerFrag ([.t "for", .sp] ++ tt ++ [.sp, .t "in", .sp] ++ te) (.forIn t e)
  | inTail {neg te e} : Der 7 te e → DerFrag ([.t (inText neg), .sp] ++ te) (.inTail neg e)

def fillF (σ : Nat → Node) : Frag → Frag
  | .expr e => .expr (fillN σ e)
  | .assign t v => .assign (fillN σ t) (fillN σ v)
  | .forIn t e => .forIn (fillN σ t) (fillN σ e)
  | .inTail neg e => .inTail neg (fillN σ e)

/-- the demands of the holes of a fragment -/
def reqsF : Frag → List Req
  | .expr e => reqs 1 false false e
  | .assign t v => reqs 16 false false t ++ reqs 1 false false v
  | .forIn t e => reqs 16 false false t ++ reqs 1 false false e
  | .inTail _ e => reqs 7 false false e

/-- the fragment's own structure is well-formed (holes taken for identifiers) -/
def wfF : Frag → Bool
  | .expr e => wfT e
  | .assign t v => wfT t && wfT v
  | .forIn t e => wfT t && wfT e
  | .inTail _ e => wfT e

/-- the target of the filled fragment, if the form has one -/
def Frag.target? : Frag → Option Node
  | .assign t _ => some t
  | .forIn t _ => some t
  | _ => none

/-- **Fragment in hole, for every quoted form.** If the text put into every hole derives at the level the hole's
    position requires, and what ends up left of `=` / after `for` has the shape of a target, the filled fragment is
    derived by Python's grammar as the fragment's tree over the operands. Any fragment, any operands. -/
theorem fragment_in_form (F : Frag) (f : Nat → Toks) (σ : Nat → Node) (hT : wfF F = true)
    (h : ∀ r ∈ reqsF F, Meets f σ r) (ht : ∀ t, F.target? = some t → isTargetN (fillN σ t) = true) :
    DerFrag (fillT f (prFrag F)) (fillF σ F) := by
  cases F with
  | expr e =>
    exact DerFrag.expr (fill_sub f σ e 1 (by omega) false false (by simpa [wfF, wfT] using hT) (by simpa [reqsF] using h))
  | assign t v =>
    have ⟨h1, h2⟩ : wfT t = true ∧ wfT v = true := by simpa [wfF] using hT
    have hr : ∀ r ∈ reqs 16 false false t ++ reqs 1 false false v, Meets f σ r := by simpa [reqsF] using h
    have := DerFrag.assign (fill_sub f σ t 16 (by omega) false false h1 (fun r hh => hr r (List.mem_append_left _ hh)))
      (ht t rfl) (fill_sub f σ v 1 (by omega) false false h2 (fun r hh => hr r (List.mem_append_right _ hh)))
    simpa [prFrag, fillF] using this
  | forIn t e =>
    have ⟨h1, h2⟩ : wfT t = true ∧ wfT e = true := by simpa [wfF] using hT
    have hr : ∀ r ∈ reqs 16 false false t ++ reqs 1 false false e, Meets f σ r := by simpa [reqsF] using h
    have := DerFrag.forIn (fill_sub f σ t 16 (by omega) false false h1 (fun r hh => hr r (List.mem_append_left _ hh)))
      (ht t rfl) (fill_sub f σ e 1 (by omega) false false h2 (fun r hh => hr r (List.mem_append_right _ hh)))
    simpa [prFrag, fillF] using this
  | inTail neg e =>
    have := DerFrag.inTail (neg := neg) (fill_sub f σ e 7 (by omega) false false (by simpa [wfF, wfT] using hT)
      (by simpa [reqsF] using h))
    simpa [prFrag, fillF] using this

/-! ### Comparing a regenerated template with the committed ones -/

/-- the holes of a text in order of first occurrence -/
def holeOrder : Toks → List Nat
  | [] => []
  | .hole i :: ts => i :: (holeOrder ts).filter (· ≠ i)
  | _ :: ts => holeOrder ts

def renumTok (o : List Nat) : Tok → Tok
  | .hole i => .hole (o.idxOf i)
  | t => t

/-- a template up to the numbering of its holes: its text and the demands of its holes, holes renumbered by first
    occurrence in the text -/
def canonForm (T : Node) : Toks × List Req :=
  let ts := wrap 1 T.prec (pr T)
  let o := holeOrder ts
  (ts.map (renumTok o), (reqs 1 false false T).map (fun r => { r with hole := o.idxOf r.hole }))

open T in
/-- the hand-written table does not list every variant of the messages of the checks it covers; these are the
    missing ones, classified here (same conventions as `templates` in Model/Stringify.lean) -/
def templatesMore : List Template := [
  ⟨"FURB116", "new", .fstr [.ffield (h 0) none ['o']]⟩,                          -- `f"{{0}:o}"`
  ⟨"FURB116", "new", .fstr [.ffield (h 0) none ['x']]⟩,
  ⟨"FURB117", "old", call (nm "open") [call (nm "str") [h 0], h 1]⟩,            -- `open(str({0}), {1})`
  ⟨"FURB117", "old", call (nm "open") [h 0, h 1]⟩,
  ⟨"FURB117", "new", meth (h 0) "open" [h 1]⟩,
  ⟨"FURB118", "new", att (nm "operator") "invert"⟩,
  ⟨"FURB118", "new", att (nm "operator") "neg"⟩,
  ⟨"FURB118", "new", att (nm "operator") "not_"⟩,
  ⟨"FURB118", "new", att (nm "operator") "pos"⟩,
  ⟨"FURB118", "new", att (nm "list") "copy"⟩,
  ⟨"FURB130", "new", .cmp (nm "_") [(.notIn, h 0)]⟩,                            -- `not in {0}`
  ⟨"FURB166", "old", .call (nm "int") [(.pos, [], .index (h 0) (.slice (some (.int 2)) none none)),
      (.named, "base".toList, h 1)]⟩,                                            -- `int({0}[2:], base={1})`
  ⟨"FURB166", "new", .call (nm "int") [(.pos, [], h 0), (.named, "base".toList, .int 0)]⟩,
  ⟨"FURB169", "old", .cmp (call (nm "type") [h 0]) [(.eq, call (nm "type") [nm "None"])]⟩,
  ⟨"FURB169", "old", .cmp (call (nm "type") [h 0]) [(.ne, call (nm "type") [nm "None"])]⟩,
  ⟨"FURB171", "new", .cmp (h 0) [(.ne, h 1)]⟩,                                  -- `{0} != {1}`
  ⟨"FURB173", "new", .set [h 0]⟩,                                               -- `{{0}}`, the hole a joined list
  ⟨"FURB181", "old", meth (meth (h 0) "digest" [h 1]) "hex" []⟩,
  ⟨"FURB181", "new", meth (h 0) "hexdigest" [h 1]⟩,
  ⟨"FURB186", "new", meth (h 0) "sort" [h 1]⟩,                                  -- `{0}.sort({1})`, `{1}` joined arguments
  ⟨"FURB192", "new", .call (nm "max") [(.pos, [], h 0), (.named, "key".toList, h 1)]⟩,
  ⟨"FURB192", "new", .call (nm "min") [(.pos, [], h 0), (.named, "key".toList, h 1)]⟩
]

/-- the committed classification: Model `templates` and the supplement -/
def committed : List Template := templates ++ templatesMore

/-! ### A necessary condition for a text to parse as an expression: every `:=` is introduced by a bracket or comma -/

def isWal : Tok → Bool
  | .t s => s == ":="
  | _ => false

def isOpn : Tok → Bool
  | .t s => s == "(" || s == "[" || s == "{" || s == ","
  | _ => false

/-- number of `:=` tokens -/
def wal (ts : Toks) : Nat := ts.countP isWal
/-- number of opening brackets and commas -/
def opn (ts : Toks) : Nat := ts.countP isOpn
def walL (tss : List Toks) : Nat := (tss.map wal).sum
def opnL (tss : List Toks) : Nat := (tss.map opn).sum

@[simp] theorem wal_nil : wal [] = 0 := rfl
@[simp] theorem opn_nil : opn [] = 0 := rfl
@[simp] theorem wal_append (a b : Toks) : wal (a ++ b) = wal a + wal b := by simp [wal]
@[simp] theorem opn_append (a b : Toks) : opn (a ++ b) = opn a + opn b := by simp [opn]
@[simp] theorem wal_cons (t : Tok) (ts : Toks) : wal (t :: ts) = (if isWal t then 1 else 0) + wal ts := by
  simp [wal, List.countP_cons]; omega
@[simp] theorem opn_cons (t : Tok) (ts : Toks) : opn (t :: ts) = (if isOpn t then 1 else 0) + opn ts := by
  simp [opn, List.countP_cons]; omega
@[simp] theorem walL_nil : walL [] = 0 := rfl
@[simp] theorem opnL_nil : opnL [] = 0 := rfl
@[simp] theorem walL_cons (a : Toks) (l : List Toks) : walL (a :: l) = wal a + walL l := by simp [walL]
@[simp] theorem opnL_cons (a : Toks) (l : List Toks) : opnL (a :: l) = opn a + opnL l := by simp [opnL]

theorem wal_commaSep : ∀ tss : List Toks, wal (commaSep tss) = walL tss
  | [] => by simp [commaSep]
  | [a] => by simp [commaSep]
  | a :: b :: rest => by
    have := wal_commaSep (b :: rest)
    simp [commaSep, isWal] at this ⊢
    omega

theorem opn_commaSep : ∀ tss : List Toks, opn (commaSep tss) + 1 = opnL tss + tss.length ∨ tss = []
  | [] => Or.inr rfl
  | [a] => by simp [commaSep]
  | a :: b :: rest => by
    have := opn_commaSep (b :: rest)
    simp [commaSep, isOpn] at this ⊢
    omega

theorem walL_names (ps : List (Str × ArgKind)) : walL (ps.map (fun p => [Tok.name p.1])) = 0 := by
  induction ps with
  | nil => rfl
  | cons p ps ih => simp [ih, isWal]

theorem isWal_binop (o : BinOp) : isWal (.t o.text) = false := by cases o <;> decide
theorem isWal_cmpop (o : CmpOp) : isWal (.t o.text) = false := by cases o <;> decide
theorem isWal_unop (o : UnOp) : isWal (.t o.text) = false := by cases o <;> decide
theorem isWal_conv (c : Char) : isWal (.t (String.ofList ['!', c])) = false := by
  simp only [isWal, beq_eq_false_iff_ne, ne_eq]
  intro h
  have := congrArg String.toList h
  simp at this

theorem bang_push_ne (c : Char) : ("!".push c = ":=") = False := by
  simp only [eq_iff_iff, iff_false]
  intro h
  have := congrArg String.toList h
  simp at this

mutual
theorem der_wal : {ℓ : Nat} → {ts : Toks} → {e : Node} → Der ℓ ts e → wal ts ≤ opn ts + (if ℓ = 0 then 1 else 0)
  | _, _, _, .up hnm d => by
    have := der_wal d
    split at this <;> split <;> omega
  | _, _, _, .paren d => by have := der_wal d; simp [isWal, isOpn] at this ⊢; omega
  | _, _, _, .name _ | _, _, _, .int _ | _, _, _, .float _ | _, _, _, .complex _ | _, _, _, .str _ | _, _, _, .bytes _
  | _, _, _, .ellipsis => by simp [isWal]
  | _, _, _, .member d _ _ => by have := der_wal d; simp [isWal, isOpn] at this ⊢; omega
  | _, _, _, .memberP d _ => by have := der_wal d; simp [isWal, isOpn] at this ⊢; omega
  | _, _, _, .call (tas := tas) d a _ => by
    have h1 := der_wal d
    have h2 := args_wal a
    have h3 := wal_commaSep tas
    have h4 := opn_commaSep tas
    simp [isWal, isOpn] at h1 ⊢
    rcases h4 with h4 | h4
    · omega
    · subst h4; simp [commaSep] at h2 h3 ⊢ <;> omega
  | _, _, _, .index d i => by
    have h1 := der_wal d
    have h2 := index_wal i
    simp [isWal, isOpn] at h1 ⊢; omega
  | _, _, _, .binop (o := o) dl dr => by
    have h1 := der_wal dl
    have h2 := der_wal dr
    have := isWal_binop o
    cases o <;> simp [isWal, isOpn, BinOp.text, BinOp.lhs, BinOp.rhs, BinOp.prec] at h1 h2 ⊢ <;> omega
  | _, _, _, .cmp d r _ => by
    have h1 := der_wal d
    have h2 := cmp_wal r
    simp at h1 ⊢; omega
  | _, _, _, .not_ d => by have := der_wal d; simp [isWal, isOpn] at this ⊢; omega
  | _, _, _, .unary (o := o) _ d => by
    have h := der_wal d
    have := isWal_unop o
    simp [this] at h ⊢; omega
  | _, _, _, .lambda (ps := ps) _ d => by
    have h := der_wal d
    have h3 := wal_commaSep (ps.map (fun p => [Tok.name p.1]))
    have h4 := walL_names ps
    by_cases hp : ps.isEmpty = true <;> simp [hp, isWal, isOpn, h3, h4] at h ⊢ <;> omega
  | _, _, _, .cond d1 d2 d3 => by
    have h1 := der_wal d1; have h2 := der_wal d2; have h3 := der_wal d3
    simp [isWal, isOpn] at h1 h2 h3 ⊢; omega
  | _, _, _, .await d => by have := der_wal d; simp [isWal, isOpn] at this ⊢; omega
  | _, _, _, .walrus _ d => by have := der_wal d; simp [isWal, isOpn] at this ⊢; omega
  | _, _, _, .tuple (tss := tss) (items := items) d => by
    have h2 := items_wal d
    have h3 := wal_commaSep tss
    have h4 := opn_commaSep tss
    by_cases h1 : items.length = 1 <;> simp [isWal, isOpn, h1] <;> rcases h4 with h4 | h4 <;>
      first | omega | (subst h4; simp [commaSep] at h2 h3 ⊢ <;> omega)
  | _, _, _, .list (tss := tss) d => by
    have h2 := items_wal d
    have h3 := wal_commaSep tss
    have h4 := opn_commaSep tss
    simp [isWal, isOpn]
    rcases h4 with h4 | h4
    · omega
    · subst h4; simp [commaSep] at h2 h3 ⊢ <;> omega
  | _, _, _, .set (tss := tss) d _ => by
    have h2 := items_wal d
    have h3 := wal_commaSep tss
    have h4 := opn_commaSep tss
    simp [isWal, isOpn]
    rcases h4 with h4 | h4
    · omega
    · subst h4; simp [commaSep] at h2 h3 ⊢ <;> omega
  | _, _, _, .dict (tss := tss) d => by
    have h2 := dict_wal d
    have h3 := wal_commaSep tss
    have h4 := opn_commaSep tss
    simp [isWal, isOpn]
    rcases h4 with h4 | h4
    · omega
    · subst h4; simp [commaSep] at h2 h3 ⊢ <;> omega
  | _, _, _, .fstr d _ _ => by have := parts_wal d; simp [isWal, isOpn] at this ⊢; omega

theorem opt_wal : {ts : Toks} → {o : Option Node} → DerOpt ts o → wal ts ≤ opn ts
  | _, _, .none => by simp
  | _, _, .some d => by have := der_wal d; simpa using this

theorem items_wal : {sl : Bool} → {tss : List Toks} → {items : List Node} → DerItems sl tss items →
    walL tss ≤ opnL tss + tss.length
  | _, _, _, .nil => by simp
  | _, _, _, .star d r => by
    have h1 := der_wal d; have h2 := items_wal r
    simp [isWal, isOpn] at h1 ⊢; omega
  | _, _, _, .expr d r => by
    have h1 := der_wal d; have h2 := items_wal r
    simp at h1 ⊢; omega
  | _, _, _, .slice (s := s) b e st r => by
    have h1 := opt_wal b; have h2 := opt_wal e; have h3 := opt_wal st; have h4 := items_wal r
    cases s <;> simp [isWal, isOpn] at h3 ⊢ <;> omega

theorem dict_wal : {tss : List Toks} → {items : List (Option Node × Node)} → DerDict tss items → walL tss ≤ opnL tss
  | _, _, .nil => by simp
  | _, _, .kv dk dv r => by
    have h1 := der_wal dk; have h2 := der_wal dv; have h3 := dict_wal r
    simp [isWal, isOpn] at h1 h2 ⊢; omega
  | _, _, .spread dv r => by
    have h2 := der_wal dv; have h3 := dict_wal r
    simp [isWal, isOpn] at h2 ⊢; omega

theorem args_wal : {tss : List Toks} → {args : List (ArgKind × Str × Node)} → DerArgs tss args →
    walL tss ≤ opnL tss + tss.length
  | _, _, .nil => by simp
  | _, _, .pos d r => by
    have h1 := der_wal d; have h2 := args_wal r
    simp at h1 ⊢; omega
  | _, _, .named _ d r => by
    have h1 := der_wal d; have h2 := args_wal r
    simp [isWal, isOpn] at h1 ⊢; omega
  | _, _, .star d r => by
    have h1 := der_wal d; have h2 := args_wal r
    simp [isWal, isOpn] at h1 ⊢; omega
  | _, _, .star2 d r => by
    have h1 := der_wal d; have h2 := args_wal r
    simp [isWal, isOpn] at h1 ⊢; omega

theorem cmp_wal : {ts : Toks} → {rest : List (CmpOp × Node)} → DerCmp ts rest → wal ts ≤ opn ts
  | _, _, .nil => by simp
  | _, _, .cons (o := o) d r => by
    have h1 := der_wal d; have h2 := cmp_wal r
    cases o <;> simp [isWal, isOpn, CmpOp.text] at h1 ⊢ <;> omega

theorem index_wal : {ts : Toks} → {i : Node} → DerIndex ts i → wal ts ≤ opn ts + 1
  | _, _, .slice (s := s) b e st => by
    have h1 := opt_wal b; have h2 := opt_wal e; have h3 := opt_wal st
    cases s <;> simp [isWal, isOpn] at h3 ⊢ <;> omega
  | _, _, .slices (tss := tss) (items := items) d _ => by
    have h2 := items_wal d
    have h3 := wal_commaSep tss
    have h4 := opn_commaSep tss
    by_cases h1 : items.length = 1 <;> simp [isWal, isOpn, h1] <;> rcases h4 with h4 | h4 <;>
      first | omega | (subst h4; simp [commaSep] at h2 h3 ⊢ <;> omega)
  | _, _, .expr d => by have := der_wal d; simp at this ⊢; omega

theorem parts_wal : {ts : Toks} → {ps : List Node} → DerParts ts ps → wal ts ≤ opn ts
  | _, _, .nil => by simp
  | _, _, .lit _ _ r => by have := parts_wal r; simp [isWal, isOpn] at this ⊢; omega
  | _, _, .field (te := te) (conv := conv) (spec := spec) d _ _ r => by
    have h1 := der_wal d; have h2 := parts_wal r
    by_cases hb : startsWithBrace te = true <;> cases conv <;> by_cases hs : spec.isEmpty = true <;>
      by_cases hp : spec.all plainSpecChar = true <;> simp [isWal, isOpn, hb, hs, hp, bang_push_ne] at h1 ⊢ <;> omega
end

/-- **A text with more `:=` than opening brackets and commas is not an expression.** In Python's grammar a named
    expression only occurs directly inside a bracket or after a comma (a parenthesised expression, a call argument, a
    subscript, a display item); so at any level above 0, `:=` tokens cannot outnumber `(`, `[`, `{` and `,` tokens. -/
theorem not_der_of_wal {ℓ : Nat} {ts : Toks} (hℓ : 1 ≤ ℓ) (h : opn ts < wal ts) (e : Node) : ¬ Der ℓ ts e := by
  intro d
  have := der_wal d
  have h0 : ¬ ℓ = 0 := by omega
  simp [h0] at this
  omega

/-! ### The same on the executable twins (what a `decide` over a table evaluates) -/

def wfT2 (T : Node) : Bool := wf2 (fillN (fun _ => dummy) T)

theorem wfT2_eq (T : Node) : wfT2 T = wfT T := by simp [wfT2, wfT, wf2_eq]

def prFrag2 : Frag → Toks
  | .expr e => wrap 1 e.prec (pr2 e)
  | .assign t v => wrap 16 t.prec (pr2 t) ++ [.sp, .t "=", .sp] ++ wrap 1 v.prec (pr2 v)
  | .forIn t e => [.t "for", .sp] ++ wrap 16 t.prec (pr2 t) ++ [.sp, .t "in", .sp] ++ wrap 1 e.prec (pr2 e)
  | .inTail neg e => [.t (inText neg), .sp] ++ wrap 7 e.prec (pr2 e)

theorem prFrag2_eq (F : Frag) : prFrag2 F = prFrag F := by cases F <;> simp [prFrag2, prFrag, pr2_eq]

def reqsF2 : Frag → List Req
  | .expr e => reqs2 1 false false e
  | .assign t v => reqs2 16 false false t ++ reqs2 1 false false v
  | .forIn t e => reqs2 16 false false t ++ reqs2 1 false false e
  | .inTail _ e => reqs2 7 false false e

theorem reqsF2_eq (F : Frag) : reqsF2 F = reqsF F := by cases F <;> simp [reqsF2, reqsF, reqs2_eq]

def wfF2 : Frag → Bool
  | .expr e => wfT2 e
  | .assign t v => wfT2 t && wfT2 v
  | .forIn t e => wfT2 t && wfT2 e
  | .inTail _ e => wfT2 e

theorem wfF2_eq (F : Frag) : wfF2 F = wfF F := by cases F <;> simp [wfF2, wfF, wfT2_eq]

def canonForm2 (T : Node) : Toks × List Req :=
  let ts := wrap 1 T.prec (pr2 T)
  let o := holeOrder ts
  (ts.map (renumTok o), (reqs2 1 false false T).map (fun r => { r with hole := o.idxOf r.hole }))

theorem canonForm2_eq (T : Node) : canonForm2 T = canonForm T := by simp [canonForm2, canonForm, pr2_eq, reqs2_eq]

end RefurbVerif.C02
