/-
C16 — plugin contract: checks load once, obey selection, bad ones fail cleanly.

Statements are over every module forest, every list of load targets (any length, any repetition),
every signature and every selection.  `getModules`, `validSignature`, `loadChecks`, `runCheckArity`
and `visit` (Model/Loader.lean) mirror `get_modules`, `extract_function_types`, `load_checks`
(refurb/loader.py) and `RefurbVisitor.run_check` (refurb/visitor/visitor.py).
-/
import RefurbVerif.Model.Loader

namespace RefurbVerif.C16
open RefurbVerif RefurbVerif.Loader

/-! ### Discovery: a specification of `get_modules` that does not mention the `loaded` set -/

/-- what naming `t` asks for: the module itself, or every non-package module below the package -/
def reach (f : Forest) (t : ModPath) : List ModPath :=
  match f.resolve t with
  | some (.leaf _) => [t]
  | some (.pkg kids) => kids.leaves t
  | none => []

/-- append the elements that are not there yet, in order -/
def addNew (out : List ModPath) : List ModPath → List ModPath
  | [] => out
  | p :: ps => addNew (if p ∈ out then out else out ++ [p]) ps

/-- first-occurrence concatenation of the walks of the targets -/
def specOut (f : Forest) (out : List ModPath) : List ModPath → List ModPath
  | [] => out
  | t :: ts => specOut f (addNew out (reach f t)) ts

theorem mem_addNew (out ps : List ModPath) (q : ModPath) : q ∈ addNew out ps ↔ q ∈ out ∨ q ∈ ps := by
  induction ps generalizing out with
  | nil => simp [addNew]
  | cons p ps ih =>
    simp only [addNew, ih]
    split <;> simp <;> grind

theorem nodup_addNew (out ps : List ModPath) (h : out.Nodup) : (addNew out ps).Nodup := by
  induction ps generalizing out with
  | nil => simpa [addNew]
  | cons p ps ih =>
    simp only [addNew]
    apply ih
    split
    · exact h
    · rename_i hp
      rw [List.nodup_append]
      refine ⟨h, by simp, ?_⟩
      intro a ha b hb
      simp at hb
      subst hb
      intro hab; subst hab; exact hp ha

theorem addNew_noop (out ps : List ModPath) (h : ∀ p ∈ ps, p ∈ out) : addNew out ps = out := by
  induction ps generalizing out with
  | nil => rfl
  | cons p ps ih =>
    simp only [addNew]
    have hp : p ∈ out := h p (by simp)
    simp only [hp, if_true]
    exact ih out (fun q hq => h q (by simp [hq]))

theorem mem_specOut (f : Forest) (out : List ModPath) (ts : List ModPath) (q : ModPath) :
    q ∈ specOut f out ts ↔ q ∈ out ∨ ∃ t ∈ ts, q ∈ reach f t := by
  induction ts generalizing out with
  | nil => simp [specOut]
  | cons t ts ih =>
    simp only [specOut, ih, mem_addNew]
    constructor
    · rintro ((h | h) | ⟨u, hu, h⟩)
      · exact Or.inl h
      · exact Or.inr ⟨t, by simp, h⟩
      · exact Or.inr ⟨u, by simp [hu], h⟩
    · rintro (h | ⟨u, hu, h⟩)
      · exact Or.inl (Or.inl h)
      · rcases List.mem_cons.mp hu with rfl | hu
        · exact Or.inl (Or.inr h)
        · exact Or.inr ⟨u, hu, h⟩

theorem nodup_specOut (f : Forest) (out : List ModPath) (ts : List ModPath) (h : out.Nodup) :
    (specOut f out ts).Nodup := by
  induction ts generalizing out with
  | nil => simpa [specOut]
  | cons t ts ih => exact ih _ (nodup_addNew _ _ h)

theorem specOut_append (f : Forest) (out : List ModPath) (xs ys : List ModPath) :
    specOut f out (xs ++ ys) = specOut f (specOut f out xs) ys := by
  induction xs generalizing out with
  | nil => rfl
  | cons x xs ih => simp [specOut, ih]

/-- targets whose walk is already covered change nothing -/
theorem specOut_noop (f : Forest) (out : List ModPath) (ts : List ModPath)
    (h : ∀ t ∈ ts, ∀ p ∈ reach f t, p ∈ out) : specOut f out ts = out := by
  induction ts generalizing out with
  | nil => rfl
  | cons t ts ih =>
    simp only [specOut]
    rw [addNew_noop out _ (h t (by simp))]
    exact ih out (fun u hu => h u (by simp [hu]))

/-! ### The `loaded` bookkeeping implements the specification -/

/-- what the `loaded` set means while `get_modules` runs -/
structure Inv (f : Forest) (st : WalkState) : Prop where
  /-- a leaf module is in `loaded` exactly when it has been yielded -/
  leafs : ∀ p, (p, false) ∈ st.loaded ↔ p ∈ st.out
  /-- a package is marked only when everything below it has been yielded -/
  pkgs : ∀ t, (t, true) ∈ st.loaded → ∀ p ∈ reach f t, p ∈ st.out

theorem yieldLeaf_spec (f : Forest) (st : WalkState) (p : ModPath) (h : Inv f st) :
    Inv f (yieldLeaf st p) ∧ (yieldLeaf st p).out = (if p ∈ st.out then st.out else st.out ++ [p]) ∧
      (∀ t, (t, true) ∈ (yieldLeaf st p).loaded ↔ (t, true) ∈ st.loaded) := by
  unfold yieldLeaf
  by_cases hp : (p, false) ∈ st.loaded
  · have : p ∈ st.out := (h.leafs p).mp hp
    simp [hp, this, h]
  · have hn : p ∉ st.out := fun hc => hp ((h.leafs p).mpr hc)
    simp only [hp, if_false, hn]
    refine ⟨⟨?_, ?_⟩, trivial, ?_⟩
    · intro q
      simp only [List.mem_cons, Prod.mk.injEq, and_true, List.mem_append]
      rw [h.leafs q]; grind
    · intro t ht q hq
      simp only [List.mem_cons, Prod.mk.injEq] at ht
      rcases ht with ⟨_, hf⟩ | ht
      · cases hf
      · exact List.mem_append_left _ (h.pkgs t ht q hq)
    · intro t; simp

theorem foldl_yieldLeaf_spec (f : Forest) (ps : List ModPath) (st : WalkState) (h : Inv f st) :
    Inv f (ps.foldl yieldLeaf st) ∧ (ps.foldl yieldLeaf st).out = addNew st.out ps ∧
      (∀ t, (t, true) ∈ (ps.foldl yieldLeaf st).loaded ↔ (t, true) ∈ st.loaded) := by
  induction ps generalizing st with
  | nil => exact ⟨h, rfl, fun _ => Iff.rfl⟩
  | cons p ps ih =>
    obtain ⟨h1, h2, h3⟩ := yieldLeaf_spec f st p h
    obtain ⟨i1, i2, i3⟩ := ih (yieldLeaf st p) h1
    refine ⟨i1, ?_, fun t => (i3 t).trans (h3 t)⟩
    simp only [List.foldl_cons, addNew, i2, h2]

/-- one target: the invariant is kept and the output grows by exactly the new part of its walk -/
theorem stepTarget_spec (f : Forest) (st st' : WalkState) (t : ModPath) (h : Inv f st)
    (hs : stepTarget f st t = .ok st') : Inv f st' ∧ st'.out = addNew st.out (reach f t) := by
  unfold stepTarget at hs
  unfold reach
  split at hs
  · cases hs
  · rename_i l hres
    simp only [hres]
    split at hs
    · rename_i hin
      cases hs
      have : t ∈ st.out := (h.leafs t).mp hin
      exact ⟨h, by simp [addNew, this]⟩
    · cases hs
      obtain ⟨h1, h2, _⟩ := yieldLeaf_spec f st t h
      exact ⟨h1, by simp [addNew, h2]⟩
  · rename_i kids hres
    simp only [hres]
    split at hs
    · rename_i hin
      cases hs
      refine ⟨h, (addNew_noop _ _ ?_).symm⟩
      have := h.pkgs t hin
      simpa [reach, hres] using this
    · cases hs
      obtain ⟨h1, h2, h3⟩ := foldl_yieldLeaf_spec f (kids.leaves t) st h
      refine ⟨⟨?_, ?_⟩, h2⟩
      · intro p
        simp only [List.mem_cons, Prod.mk.injEq, Bool.false_eq_true, and_false, false_or]
        exact h1.leafs p
      · intro u hu q hq
        simp only [List.mem_cons, Prod.mk.injEq, and_true] at hu
        rcases hu with rfl | hu
        · simp only [reach, hres] at hq
          show q ∈ (List.foldl yieldLeaf st (kids.leaves u)).out
          rw [h2, mem_addNew]; exact Or.inr hq
        · exact h1.pkgs u hu q hq

theorem stepTarget_ok_iff (f : Forest) (st : WalkState) (t : ModPath) :
    (∃ st', stepTarget f st t = .ok st') ↔ (f.resolve t).isSome := by
  unfold stepTarget
  split
  · rename_i h; simp [h]
  · rename_i h; simp only [h, Option.isSome_some, iff_true]; split <;> exact ⟨_, rfl⟩
  · rename_i h; simp only [h, Option.isSome_some, iff_true]; split <;> exact ⟨_, rfl⟩

theorem stepTarget_error (f : Forest) (st : WalkState) (t : ModPath) (e : LoadErr)
    (h : stepTarget f st t = .error e) : f.resolve t = none ∧ e = importFailure t := by
  unfold stepTarget at h
  split at h
  · rename_i hr; cases h; exact ⟨hr, rfl⟩
  · split at h <;> cases h
  · split at h <;> cases h

theorem walkTargets_spec (f : Forest) (ts : List ModPath) (st : WalkState) (h : Inv f st)
    (hall : allResolve f ts = true) :
    (walkTargets f st ts).1.out = specOut f st.out ts ∧ (walkTargets f st ts).2 = none := by
  induction ts generalizing st with
  | nil => simp [walkTargets, specOut]
  | cons t ts ih =>
    simp only [allResolve, List.all_cons, Bool.and_eq_true] at hall
    obtain ⟨st', hs⟩ := (stepTarget_ok_iff f st t).mpr hall.1
    obtain ⟨h1, h2⟩ := stepTarget_spec f st st' t h hs
    obtain ⟨i1, i2⟩ := ih st' h1 (by simpa [allResolve] using hall.2)
    unfold walkTargets
    simp only [hs, specOut, ← h2]
    exact ⟨i1, i2⟩

theorem inv_init (f : Forest) : Inv f { loaded := [], out := [] } := ⟨by simp, by simp⟩

theorem firstBad_spec (f : Forest) (ts : List ModPath) (h : ¬ allResolve f ts = true) :
    ∃ t, firstBad f ts = some t ∧ t ∈ ts ∧ f.resolve t = none := by
  induction ts with
  | nil => simp [allResolve] at h
  | cons x xs ih =>
    by_cases hx : (f.resolve x).isSome
    · have hxs : ¬ allResolve f xs = true := by
        intro hc; apply h; simp only [allResolve, List.all_cons, Bool.and_eq_true]; exact ⟨hx, by simpa [allResolve] using hc⟩
      obtain ⟨t, h1, h2, h3⟩ := ih hxs
      have hn : (f.resolve x).isNone = false := by cases hr : f.resolve x <;> simp_all
      exact ⟨t, by simp [firstBad, hn]; exact h1, List.mem_cons_of_mem _ h2, h3⟩
    · have hn : f.resolve x = none := by cases hr : f.resolve x <;> simp_all
      exact ⟨x, by simp [firstBad, hn], by simp, hn⟩

theorem firstBad_append (f : Forest) (xs ys : List ModPath) :
    firstBad f (xs ++ ys) = (firstBad f xs).or (firstBad f ys) := by
  simp [firstBad, List.find?_append]

theorem firstBad_none (f : Forest) (ts : List ModPath) (h : allResolve f ts = true) : firstBad f ts = none := by
  simp only [firstBad, List.find?_eq_none]
  intro t ht
  simp only [allResolve, List.all_eq_true] at h
  have := h t ht
  cases hr : f.resolve t <;> simp_all

/-- **`get_modules` is first-occurrence dedup of the concatenated walks.**  When the built-in
    package and every target can be imported, the yielded list is their walks concatenated with
    everything already yielded left out.  When some target cannot be imported, nothing at all is
    yielded and the generator ends with the import failure of the first such target (all targets
    are imported before the first module is yielded). -/
theorem getModules_eq (f : Forest) (b : ModPath) (ts : List ModPath) :
    getModules f b ts = if allResolve f (b :: ts) then (specOut f [] (b :: ts), none)
      else ([], some (importFailure ((firstBad f (b :: ts)).getD []))) := by
  unfold getModules
  by_cases hall : allResolve f (b :: ts) = true
  · obtain ⟨h1, h2⟩ := walkTargets_spec f (b :: ts) _ (inv_init f) hall
    simp only [hall, if_true]
    exact Prod.ext h1 h2
  · simp [hall]

/-! ### The property, part 1: each check module once, whatever the spelling -/

/-- **Each module at most once.**  Whatever the forest and however many targets are given — repeated,
    overlapping, nested — `get_modules` never yields the same module twice, so no check is
    registered (and no diagnostic produced) twice because of how `--load` was spelled. -/
theorem each_leaf_at_most_once (f : Forest) (b : ModPath) (ts : List ModPath) :
    (getModules f b ts).1.Nodup := by
  rw [getModules_eq]
  split
  · exact nodup_specOut f [] _ (by simp)
  · simp

/-- **Exactly the reachable modules.**  When every target can be imported, a module is yielded iff
    it is the built-in package's or a target's own leaf module or lies below one of them. -/
theorem reachable_exactly_once (f : Forest) (b : ModPath) (ts : List ModPath) (p : ModPath)
    (h : allResolve f (b :: ts) = true) :
    p ∈ (getModules f b ts).1 ↔ ∃ t ∈ b :: ts, p ∈ reach f t := by
  rw [getModules_eq]
  simp only [h, if_true, mem_specOut]
  simp

/-- exactly once, as a count -/
theorem reachable_count_one (f : Forest) (b : ModPath) (ts : List ModPath) (p : ModPath)
    (h : allResolve f (b :: ts) = true) (hp : ∃ t ∈ b :: ts, p ∈ reach f t) :
    (getModules f b ts).1.count p = 1 :=
  by rw [(each_leaf_at_most_once f b ts).count, if_pos ((reachable_exactly_once f b ts p h).mpr hp)]

/-- the generator ends with an exception iff some target is not importable — and then it is the
    import failure (ModuleNotFoundError; ValueError for the empty name) of the first such target,
    raised before anything was yielded -/
theorem getModules_error_iff (f : Forest) (b : ModPath) (ts : List ModPath) :
    ((getModules f b ts).2 = none ↔ allResolve f (b :: ts) = true) ∧
    (∀ e, (getModules f b ts).2 = some e →
      (∃ t ∈ b :: ts, f.resolve t = none ∧ e = importFailure t) ∧ (getModules f b ts).1 = []) := by
  rw [getModules_eq]
  by_cases h : allResolve f (b :: ts) = true
  · simp [h]
  · simp only [h]
    refine ⟨by simp, ?_⟩
    intro e he
    simp only [Bool.false_eq_true, if_false, Option.some.injEq] at he ⊢
    obtain ⟨t, h1, h2, h3⟩ := firstBad_spec f (b :: ts) h
    refine ⟨⟨t, h2, h3, ?_⟩, trivial⟩
    rw [← he, h1]; rfl

theorem allResolve_append (f : Forest) (xs ys : List ModPath) :
    allResolve f (xs ++ ys) = (allResolve f xs && allResolve f ys) := by
  simp [allResolve]

/-- **A target that adds nothing new can be dropped, wherever it stands.**  If everything `t` asks
    for is already asked for by the built-in package or an earlier target, the yielded list — order
    included — and the way the generator ends are the same with and without `t`. -/
theorem redundant_target (f : Forest) (b : ModPath) (pre post : List ModPath) (t : ModPath)
    (ht : (f.resolve t).isSome)
    (h : ∀ p ∈ reach f t, ∃ u ∈ b :: pre, p ∈ reach f u) :
    getModules f b (pre ++ t :: post) = getModules f b (pre ++ post) := by
  rw [getModules_eq, getModules_eq]
  have e1 : b :: (pre ++ t :: post) = (b :: pre) ++ ([t] ++ post) := by simp
  have e2 : b :: (pre ++ post) = (b :: pre) ++ post := by simp
  rw [e1, e2]
  have hts : allResolve f [t] = true := by simp [allResolve, ht]
  simp only [allResolve_append, hts, Bool.true_and]
  split
  · congr 1
    rw [specOut_append, specOut_append, specOut_append]
    congr 1
    apply specOut_noop
    intro u hu q hq
    simp only [List.mem_singleton] at hu
    subst hu
    rw [mem_specOut]
    exact Or.inr (h q hq)
  · have hnt : firstBad f [t] = none := firstBad_none f [t] hts
    simp only [firstBad_append, hnt, Option.none_or]

/-- **Repeating the whole target list changes nothing** (list and order included). -/
theorem duplicate_targets (f : Forest) (b : ModPath) (ts : List ModPath) :
    getModules f b (ts ++ ts) = getModules f b ts := by
  rw [getModules_eq, getModules_eq]
  have e1 : b :: (ts ++ ts) = (b :: ts) ++ ts := by simp
  rw [e1]
  have hsub : allResolve f (b :: ts) = true → allResolve f ts = true := by
    intro hp
    simp only [allResolve, List.all_cons, Bool.and_eq_true] at hp; simpa [allResolve] using hp.2
  by_cases hp : allResolve f (b :: ts) = true
  · simp only [allResolve_append, hp, hsub hp, Bool.and_self, if_true]
    congr 1
    rw [specOut_append]
    apply specOut_noop
    intro u hu q hq
    rw [mem_specOut]
    exact Or.inr ⟨u, by simp [hu], hq⟩
  · have hp' : allResolve f (b :: ts) = false := by simpa using hp
    obtain ⟨t, h1, _, _⟩ := firstBad_spec f (b :: ts) hp
    rw [allResolve_append, hp', firstBad_append, h1]
    simp

/-- naming a target twice, anywhere -/
theorem repeated_target (f : Forest) (b : ModPath) (pre post : List ModPath) (t : ModPath)
    (ht : (f.resolve t).isSome) (hmem : t ∈ b :: pre) :
    getModules f b (pre ++ t :: post) = getModules f b (pre ++ post) :=
  redundant_target f b pre post t ht (fun _ hp => ⟨t, hmem, hp⟩)

/-- **Same coverage, same checks.**  Two target lists (all importable) that reach the same modules —
    in any order, by any spelling — yield the same modules, each once (a permutation). -/
theorem same_reach_same_modules (f : Forest) (b : ModPath) (ts ts' : List ModPath)
    (h : allResolve f (b :: ts) = true) (h' : allResolve f (b :: ts') = true)
    (hsame : ∀ p, (∃ t ∈ b :: ts, p ∈ reach f t) ↔ (∃ t ∈ b :: ts', p ∈ reach f t)) :
    (getModules f b ts).1.Perm (getModules f b ts').1 := by
  rw [List.perm_ext_iff_of_nodup (each_leaf_at_most_once f b ts) (each_leaf_at_most_once f b ts')]
  intro p
  rw [reachable_exactly_once f b ts p h, reachable_exactly_once f b ts' p h', hsame p]

/-! ### Package + its own submodule, the built-in package named again -/

theorem resolve_nil (g : Forest) : g.resolve [] = none := by
  cases g <;> rfl

/-- importing `t.r` goes through the package `t` -/
theorem resolve_append (g : Forest) (t r : ModPath) (kids : Forest)
    (ht : g.resolve t = some (.pkg kids)) (hr : r ≠ []) : g.resolve (t ++ r) = kids.resolve r := by
  induction g generalizing t kids with
  | nil => simp [Forest.resolve] at ht
  | leaf n l rest ih =>
    cases t with
    | nil => simp [Forest.resolve] at ht
    | cons c cs =>
      simp only [Forest.resolve] at ht
      simp only [List.cons_append, Forest.resolve]
      by_cases hn : n = c
      · simp only [hn, if_true] at ht
        split at ht <;> cases ht
      · simp only [hn, if_false] at ht ⊢
        exact ih (c :: cs) kids ht
  | pkg n ks rest ihk ihr =>
    cases t with
    | nil => simp [Forest.resolve] at ht
    | cons c cs =>
      simp only [Forest.resolve] at ht
      simp only [List.cons_append, Forest.resolve]
      by_cases hn : n = c
      · simp only [hn, if_true] at ht ⊢
        by_cases hcs : cs = []
        · subst hcs
          simp only [if_true] at ht
          cases ht
          simp [hr]
        · simp only [hcs, if_false] at ht
          have : cs ++ r ≠ [] := by simp [hcs]
          simp only [this, if_false]
          exact ihk cs kids ht
      · simp only [hn, if_false] at ht ⊢
        exact ihr (c :: cs) kids ht

/-- whatever resolves below a list of siblings is listed by the walk of those siblings -/
theorem leaves_of_resolve (g : Forest) (pre r : ModPath) :
    (∀ l, g.resolve r = some (.leaf l) → pre ++ r ∈ g.leaves pre) ∧
    (∀ k, g.resolve r = some (.pkg k) → ∀ p ∈ k.leaves (pre ++ r), p ∈ g.leaves pre) := by
  induction g generalizing pre r with
  | nil => simp [Forest.resolve]
  | leaf n l rest ih =>
    cases r with
    | nil => simp [Forest.resolve]
    | cons c cs =>
      simp only [Forest.resolve, Forest.leaves]
      by_cases hn : n = c
      · subst hn
        simp only [if_true]
        by_cases hcs : cs = []
        · subst hcs; simp
        · simp [hcs]
      · simp only [hn, if_false]
        obtain ⟨i1, i2⟩ := ih pre (c :: cs)
        exact ⟨fun l h => List.mem_cons_of_mem _ (i1 l h), fun k h p hp => List.mem_cons_of_mem _ (i2 k h p hp)⟩
  | pkg n ks rest ihk ihr =>
    cases r with
    | nil => simp [Forest.resolve]
    | cons c cs =>
      simp only [Forest.resolve, Forest.leaves]
      by_cases hn : n = c
      · subst hn
        simp only [if_true]
        by_cases hcs : cs = []
        · subst hcs
          simp only [if_true]
          refine ⟨fun l h => (by cases h), fun k h p hp => ?_⟩
          cases h
          exact List.mem_append_left _ hp
        · simp only [hcs, if_false]
          obtain ⟨i1, i2⟩ := ihk (pre ++ [n]) cs
          have e : pre ++ [n] ++ cs = pre ++ n :: cs := by simp
          refine ⟨fun l h => List.mem_append_left _ ?_, fun k h p hp => List.mem_append_left _ ?_⟩
          · rw [← e]; exact i1 l h
          · apply i2 k h; rw [e]; exact hp
      · simp only [hn, if_false]
        obtain ⟨i1, i2⟩ := ihr pre (c :: cs)
        exact ⟨fun l h => List.mem_append_right _ (i1 l h), fun k h p hp => List.mem_append_right _ (i2 k h p hp)⟩

/-- **A package covers its own submodules and sub-packages.** -/
theorem submodule_subsumed (f : Forest) (t r : ModPath) (kids : Forest)
    (ht : f.resolve t = some (.pkg kids)) (hr : r ≠ []) :
    ∀ p ∈ reach f (t ++ r), p ∈ reach f t := by
  intro p hp
  simp only [reach, ht]
  simp only [reach, resolve_append f t r kids ht hr] at hp
  obtain ⟨i1, i2⟩ := leaves_of_resolve kids t r
  split at hp
  · rename_i l hl
    simp only [List.mem_singleton] at hp
    subst hp
    exact i1 l hl
  · rename_i k hk
    exact i2 k hk p hp
  · simp at hp

/-- **Spelling is irrelevant.**
    (1) the target list given twice: same list;
    (2) a package and then (anywhere later) one of its own submodules or sub-packages: same list
        as the package alone;
    (3) the submodule first and the package later: the same modules, each once (a permutation);
    (4) the built-in package, or anything inside it, named as a target: same list as without. -/
theorem spelling_irrelevant (f : Forest) (b : ModPath) :
    (∀ ts, getModules f b (ts ++ ts) = getModules f b ts) ∧
    (∀ pre mid post t r kids, f.resolve t = some (.pkg kids) → r ≠ [] → (f.resolve (t ++ r)).isSome →
      getModules f b (pre ++ t :: mid ++ (t ++ r) :: post) = getModules f b (pre ++ t :: mid ++ post)) ∧
    (∀ ts t r kids, f.resolve t = some (.pkg kids) → r ≠ [] → allResolve f (b :: (t ++ r) :: t :: ts) = true →
      (getModules f b ((t ++ r) :: t :: ts)).1.Perm (getModules f b (t :: ts)).1) ∧
    (∀ pre post, (f.resolve b).isSome → getModules f b (pre ++ b :: post) = getModules f b (pre ++ post)) ∧
    (∀ pre post r kids, f.resolve b = some (.pkg kids) → r ≠ [] → (f.resolve (b ++ r)).isSome →
      getModules f b (pre ++ (b ++ r) :: post) = getModules f b (pre ++ post)) := by
  refine ⟨duplicate_targets f b, ?_, ?_, ?_, ?_⟩
  · intro pre mid post t r kids ht hr hres
    have e : pre ++ t :: mid ++ (t ++ r) :: post = (pre ++ t :: mid) ++ (t ++ r) :: post := by simp
    have e' : pre ++ t :: mid ++ post = (pre ++ t :: mid) ++ post := by simp
    rw [e, e']
    apply redundant_target f b _ post (t ++ r) hres
    intro p hp
    exact ⟨t, by simp, submodule_subsumed f t r kids ht hr p hp⟩
  · intro ts t r kids ht hr hall
    have hall' : allResolve f (b :: t :: ts) = true := by
      simp only [allResolve, List.all_cons, Bool.and_eq_true] at hall ⊢
      exact ⟨hall.1, hall.2.2⟩
    apply same_reach_same_modules f b _ _ hall hall'
    intro p
    constructor
    · rintro ⟨u, hu, hp⟩
      simp only [List.mem_cons] at hu
      rcases hu with rfl | rfl | rfl | hu
      · exact ⟨u, by simp, hp⟩
      · exact ⟨t, by simp, submodule_subsumed f t r kids ht hr p hp⟩
      · exact ⟨u, by simp, hp⟩
      · exact ⟨u, by simp [hu], hp⟩
    · rintro ⟨u, hu, hp⟩
      simp only [List.mem_cons] at hu
      rcases hu with rfl | rfl | hu
      · exact ⟨u, by simp, hp⟩
      · exact ⟨u, by simp, hp⟩
      · exact ⟨u, by simp [hu], hp⟩
  · intro pre post hb
    exact repeated_target f b pre post b hb (by simp)
  · intro pre post r kids hb hr hres
    apply redundant_target f b pre post (b ++ r) hres
    intro p hp
    exact ⟨b, by simp, submodule_subsumed f b r kids hb hr p hp⟩

/-! ### Signatures -/

deriving instance DecidableEq for Except

theorem bind_ok {α β} (x : Except LoadErr α) (g : α → Except LoadErr β) (b : β) :
    (x >>= g) = .ok b ↔ ∃ a, x = .ok a ∧ g a = .ok b := by
  cases x with
  | error e => simp [Bind.bind, Except.bind]
  | ok a => simp [Bind.bind, Except.bind]

theorem bind_error {α β} (x : Except LoadErr α) (g : α → Except LoadErr β) (e : LoadErr) :
    (x >>= g) = .error e ↔ x = .error e ∨ ∃ a, x = .ok a ∧ g a = .error e := by
  cases x with
  | error e' => simp [Bind.bind, Except.bind]
  | ok a => simp [Bind.bind, Except.bind]

theorem nodeTypes_annotated (file : String) (line : Nat) (ann : Ann) (tys : List String)
    (h : nodeTypes file line ann = .ok tys) : ann.annotated = true := by
  cases ann with
  | union args r => rfl
  | one a => cases a <;> first | rfl | (simp [nodeTypes] at h)

theorem checkOptionals_ok (file : String) (line : Nat) (ps : List Param)
    (h : checkOptionals file line ps = .ok ()) : ∀ p ∈ ps, p.name = "settings" ∧ p.ann = .one .settings := by
  induction ps with
  | nil => simp
  | cons p ps ih =>
    simp only [checkOptionals, bind_ok] at h
    obtain ⟨_, h1, h2⟩ := h
    intro q hq
    rcases List.mem_cons.mp hq with rfl | hq
    · unfold checkOptional at h1
      split at h1
      · assumption
      · cases h1
    · exact ih h2 q hq

/-- **What validation guarantees.**  An accepted check is callable, has two or three parameters,
    every parameter is annotated (an unannotated first parameter is rejected as
    `"_empty" is not a valid Mypy node type`), the second is `list[Error]`, a third is exactly
    `settings: Settings`. -/
theorem valid_shape (file : String) (line : Nat) (sig : Sig) (tys : List String)
    (h : validSignature file line sig = .ok tys) :
    sig.callable = true ∧ (sig.params.length = 2 ∨ sig.params.length = 3) ∧
    (∀ p ∈ sig.params, p.ann.annotated = true) ∧
    (∀ p ∈ sig.params.drop 2, p.name = "settings" ∧ p.ann = .one .settings) ∧
    (∃ p, sig.params[1]? = some p ∧ p.ann = .one .listError) := by
  unfold validSignature at h
  split at h
  · cases h
  · rename_i hc
    split at h
    · cases h
    · rename_i hlen
      split at h
      · rename_i nodeParam errorParam optional hparams
        split at h
        · cases h
        · rename_i hle
          simp only [bind_ok] at h
          obtain ⟨_, ho, hn⟩ := h
          have hopt := checkOptionals_ok file line optional ho
          have he : errorParam.ann = .one .listError := by
            unfold isListError at hle
            split at hle
            · assumption
            · simp at hle
          rw [hparams] at hlen ⊢
          simp only [List.length_cons] at hlen
          refine ⟨by simpa using hc, by simp only [List.length_cons]; omega, ?_, by simpa using hopt, ⟨errorParam, rfl, he⟩⟩
          intro p hp
          simp only [List.mem_cons] at hp
          rcases hp with rfl | rfl | hp
          · exact nodeTypes_annotated file line _ tys hn
          · rw [he]; rfl
          · rw [(hopt p hp).2]; rfl
      · cases h

theorem annotations_length (sig : Sig) (h : ∀ p ∈ sig.params, p.ann.annotated = true) :
    sig.annotations.length = sig.params.length + (if sig.ret then 1 else 0) := by
  unfold Sig.annotations
  rw [List.filter_eq_self.mpr (by simpa using h)]
  split <;> simp

/-- the visitor passes as many arguments as the check has parameters -/
def ArityRight (sig : Sig) : Prop :=
  ∀ file line tys, validSignature file line sig = .ok tys → runCheckArity sig = sig.params.length

/-- **The arity rule is right for every accepted check** (since c0c0e5f, which decides by the
    parameter count): a two-parameter check gets `(node, errors)`, a three-parameter check gets
    `(node, errors, settings)` — with or without a return annotation. -/
theorem arity_right (sig : Sig) : ArityRight sig := by
  intro file line tys h
  obtain ⟨_, hlen, _, _, _⟩ := valid_shape file line sig tys h
  unfold runCheckArity
  rcases hlen with h2 | h3
  · simp [h2]
  · simp [h3]

/-- `def check(node: IntExpr, errors: list[Error], settings: Settings):` — no `-> None` -/
def threeNoReturn : Sig :=
  { params := [⟨"node", .one (.node "IntExpr"), .pos⟩, ⟨"errors", .one .listError, .pos⟩,
               ⟨"settings", .one .settings, .pos⟩], ret := false }

/-- the statement `ArityRight` for the rule used before c0c0e5f (`len(__annotations__) == 4`) -/
def OldArityRight (sig : Sig) : Prop :=
  ∀ file line tys, validSignature file line sig = .ok tys → arityByAnnotations sig.annotations = sig.params.length

/-- history: **the old rule was wrong for an accepted check.**  Three annotated parameters without a
    return annotation give three `__annotations__`, not four: the check passed validation and was
    then called with two arguments (`check() missing 1 required positional argument: 'settings'`). -/
theorem old_arity_rule_refuted : ¬ ∀ sig, OldArityRight sig := by
  intro h
  have := h threeNoReturn "p.py" 1 ["IntExpr"] (by decide)
  revert this; decide

/-- history: exactly where the old rule agreed with the parameter count -/
theorem old_arity_rule_iff (file : String) (line : Nat) (sig : Sig) (tys : List String)
    (h : validSignature file line sig = .ok tys) :
    arityByAnnotations sig.annotations = runCheckArity sig ↔ (sig.ret = true ∨ sig.params.length = 2) := by
  obtain ⟨_, hlen, hann, _, _⟩ := valid_shape file line sig tys h
  unfold arityByAnnotations runCheckArity
  rw [annotations_length sig hann]
  rcases hlen with h2 | h3
  · cases hr : sig.ret <;> simp [h2]
  · cases hr : sig.ret <;> simp [h3]

/-- the call the visitor makes binds to the accepted signature -/
def CallBinds (sig : Sig) : Prop :=
  ∀ file line tys, validSignature file line sig = .ok tys → sig.binds (runCheckArity sig) = true

/-- `def check(node: IntExpr, errors: list[Error], *, settings: Settings) -> None:` -/
def kwOnlySettings : Sig :=
  { params := [⟨"node", .one (.node "IntExpr"), .pos⟩, ⟨"errors", .one .listError, .pos⟩,
               ⟨"settings", .one .settings, .kwOnly⟩], ret := true }

/-- **An accepted signature whose call still fails** (recorded finding): a keyword-only `settings`.
    Validation counts parameters of every kind, the visitor passes positionals. -/
theorem call_binds_refuted : ¬ CallBinds kwOnlySettings := by
  intro h
  have := h "p.py" 1 ["IntExpr"] (by decide)
  revert this; decide

theorem filter_all {α} (q : α → Bool) (l : List α) (h : ∀ x ∈ l, q x = true) : (l.filter q).length = l.length := by
  rw [List.filter_eq_self.mpr h]

/-- **Opting into the settings works** for every accepted check with plain positional parameters:
    the call binds, and a three-parameter check is passed three arguments. -/
theorem call_binds_partial (sig : Sig) (hkind : ∀ p ∈ sig.params, p.kind = .pos) : CallBinds sig := by
  intro file line tys h
  rw [arity_right sig file line tys h]
  unfold Sig.binds
  have h1 : (sig.params.filter (fun p => decide (p.kind = .pos))).length = sig.params.length :=
    filter_all _ _ (by simpa using hkind)
  have h2 : (sig.params.filter (fun p => decide (p.kind = .pos) || decide (p.kind = .posDefault))).length = sig.params.length :=
    filter_all _ _ (by intro p hp; simp [hkind p hp])
  have h3 : sig.params.any (fun p => decide (p.kind = .kwOnly)) = false := by
    simp only [List.any_eq_false, decide_eq_true_eq]
    intro p hp; rw [hkind p hp]; decide
  simp [h1, h2, h3]

/-- the former defect: accepted, three arguments, the call binds -/
theorem no_return_annotation_works :
    validSignature "p.py" 1 threeNoReturn = .ok ["IntExpr"] ∧ runCheckArity threeNoReturn = 3 ∧
    threeNoReturn.binds (runCheckArity threeNoReturn) = true := by decide

/-! ### Rejections -/

def hashableAtom : Atom → Bool
  | .unhashable _ _ => false
  | _ => true

/-- the members of a union annotation are hashable (always so for a union Python can build) -/
def hashableUnion : Ann → Bool
  | .one _ => true
  | .union args _ => args.all hashableAtom

/-- every rejection names the file and line of the check -/
def RejectLocated (sig : Sig) : Prop :=
  ∀ file line e, validSignature file line sig = .error e → ∃ reason, e = located file line reason

/-- `check = 5` -/
def notCallable : Sig := { callable := false, params := [], ret := false }
/-- `def check(node: "IntExpr", errors: list[Error]) -> None` -/
def quotedNode : Sig :=
  { params := [⟨"node", .one (.opaque "'IntExpr'"), .pos⟩, ⟨"errors", .one .listError, .pos⟩], ret := true }
/-- `settings: Settings | None` -/
def optionalSettings : Sig :=
  { params := [⟨"node", .one (.node "IntExpr"), .pos⟩, ⟨"errors", .one .listError, .pos⟩,
               ⟨"settings", .union [.settings, .cls "NoneType"] "refurb.settings.Settings | None", .pos⟩], ret := true }
/-- `node: [IntExpr]` -/
def listNode : Sig :=
  { params := [⟨"node", .one (.unhashable "list" "[<class 'mypy.nodes.IntExpr'>]"), .pos⟩, ⟨"errors", .one .listError, .pos⟩], ret := true }

/-- the one rejection without a location: a non-callable `check` has no source line -/
theorem reject_located_refuted : ¬ RejectLocated notCallable := by
  intro h
  obtain ⟨r, hr⟩ := h "p.py" 7 _ (by decide : validSignature "p.py" 7 notCallable = .error (.typeError none "Check function must be callable"))
  cases hr

/-- since 3274683 annotations without `__name__` (quoted, `X | None`, a list display) are named by
    their `repr` in a located message instead of ending in an AttributeError / unhashable-type error -/
theorem nameless_annotations_located :
    validSignature "p.py" 7 quotedNode = .error (located "p.py" 7 "\"'IntExpr'\" is not a valid Mypy node type") ∧
    validSignature "p.py" 7 optionalSettings =
      .error (located "p.py" 7 "\"settings: refurb.settings.Settings | None\" is not a valid service") ∧
    validSignature "p.py" 7 listNode =
      .error (located "p.py" 7 "\"[<class 'mypy.nodes.IntExpr'>]\" is not a valid Mypy node type") := by
  decide

theorem atomNode_located (file : String) (line : Nat) (a : Atom) (e : LoadErr) (hp : hashableAtom a = true)
    (h : atomNode file line a = .error e) : ∃ reason, e = located file line reason := by
  unfold atomNode at h
  split at h
  · cases h
  · simp [hashableAtom] at hp
  · cases h; exact ⟨_, rfl⟩

theorem atomNodes_located (file : String) (line : Nat) (as : List Atom) (e : LoadErr)
    (hp : as.all hashableAtom = true) (h : atomNodes file line as = .error e) :
    ∃ reason, e = located file line reason := by
  induction as with
  | nil => cases h
  | cons a as ih =>
    simp only [List.all_cons, Bool.and_eq_true] at hp
    simp only [atomNodes, bind_error] at h
    rcases h with h | ⟨n, _, h⟩
    · exact atomNode_located file line a e hp.1 h
    · rcases h with h | ⟨ns, _, h⟩
      · exact ih hp.2 h
      · cases h

theorem checkOptionals_located (file : String) (line : Nat) (ps : List Param) (e : LoadErr)
    (h : checkOptionals file line ps = .error e) : ∃ reason, e = located file line reason := by
  induction ps with
  | nil => cases h
  | cons p ps ih =>
    simp only [checkOptionals, bind_error] at h
    rcases h with h | ⟨_, _, h⟩
    · unfold checkOptional at h
      split at h
      · cases h
      · cases h; exact ⟨_, rfl⟩
    · exact ih h

/-- **Every function is rejected with `file:line: reason`.**  If `check` is callable, every way
    validation can fail — whatever the annotations are: classes, strings, unions, lists — is a
    TypeError carrying the file and the line of the check; `main` prints it on one line and exits
    with status 1, no traceback.  (The hypothesis on union members holds for every union Python
    can construct.) -/
theorem reject_located_partial (sig : Sig) (hc : sig.callable = true)
    (hnode : ∀ p ∈ sig.params.take 1, hashableUnion p.ann = true) : RejectLocated sig := by
  intro file line e h
  unfold validSignature at h
  simp only [hc, Bool.not_true, Bool.false_eq_true, if_false] at h
  split at h
  · cases h; exact ⟨_, rfl⟩
  · split at h
    · rename_i nodeParam errorParam optional hparams
      rw [hparams] at hnode
      split at h
      · cases h; exact ⟨_, rfl⟩
      · simp only [bind_error] at h
        rcases h with h | ⟨_, _, h⟩
        · exact checkOptionals_located file line optional e h
        · have hn : hashableUnion nodeParam.ann = true := hnode nodeParam (by simp)
          cases hna : nodeParam.ann with
          | union args r =>
            rw [hna] at h hn
            exact atomNodes_located file line args e hn h
          | one a =>
            rw [hna] at h
            cases a <;> first | (cases h; exact ⟨_, rfl⟩) | (cases h)
    · cases h; exact ⟨_, rfl⟩

/-- what the user sees for a located rejection: one line `file:line: reason`, exit status 1 -/
theorem located_report (f : Forest) (file : String) (line : Nat) (reason : String) :
    reportOf f (located file line reason) =
      { stdoutLine := some (file ++ ":" ++ toString line ++ ": " ++ reason), traceback := false, exit := 1 } := rfl

/-- since 0822260 a target that cannot be imported is one printed line (the ModuleNotFoundError's
    text), exit status 1, no traceback — unless it is the empty name (ValueError: recorded finding) -/
theorem import_failure_report (f : Forest) (t : ModPath) (h : t ≠ [""]) :
    reportOf f (importFailure t) = { stdoutLine := some (importText f t), traceback := false, exit := 1 } := by
  simp [importFailure, h, reportOf]

theorem empty_name_traceback (f : Forest) :
    reportOf f (importFailure [""]) = { stdoutLine := none, traceback := true, exit := 1 } := by
  simp [importFailure, reportOf]

/-! ### Registration and dispatch -/

/-- the module has an error class and the selection ladder (C09) picks it -/
def selected (f : Forest) (s : Settings) (p : ModPath) : Prop :=
  ∃ l e, f.leafAt p = some l ∧ getErrorClass l = some e ∧ shouldLoad s e = true

theorem contribution_snd (f : Forest) (s : Settings) (p : ModPath) (c : Dispatch)
    (h : moduleContribution f s p = .ok c) : ∀ x ∈ c, x.2 = p := by
  unfold moduleContribution at h
  split at h
  · cases h; simp
  · split at h
    · cases h; simp
    · split at h
      · split at h
        · cases h; simp
        · simp only [bind_ok] at h
          obtain ⟨tys, _, h⟩ := h
          cases h
          simp
      · cases h; simp

theorem contribution_selected (f : Forest) (s : Settings) (p : ModPath) (c : Dispatch)
    (h : moduleContribution f s p = .ok c) (hne : c ≠ []) : selected f s p := by
  unfold moduleContribution at h
  split at h
  · cases h; exact absurd rfl hne
  · rename_i l hl
    split at h
    · cases h; exact absurd rfl hne
    · rename_i e he
      split at h
      · rename_i hs
        exact ⟨l, e, hl, he, hs⟩
      · cases h; exact absurd rfl hne

/-- **Validation happens only for selected checks** (this is what the code does): a module without
    an error class, or whose error class the selection ladder rejects, registers nothing and
    raises nothing — whatever its `check` looks like, valid or not. -/
theorem invalid_unselected_silent (f : Forest) (s : Settings) (p : ModPath) (h : ¬ selected f s p) :
    moduleContribution f s p = .ok [] := by
  unfold moduleContribution
  split
  · rfl
  · rename_i l hl
    split
    · rfl
    · rename_i e he
      split
      · rename_i hs
        exact absurd ⟨l, e, hl, he, hs⟩ h
      · rfl

/-- a selected module's contribution is exactly what validation says -/
theorem selected_contribution (f : Forest) (s : Settings) (p : ModPath) (l : Leaf) (e : CheckSel) (sig : Sig)
    (hl : f.leafAt p = some l) (he : getErrorClass l = some e) (hs : shouldLoad s e = true)
    (hc : l.check = some sig) :
    moduleContribution f s p = (validSignature l.file l.line sig >>= fun tys => .ok (tys.map (·, p))) := by
  simp [moduleContribution, hl, he, hs, hc]

theorem loadModules_ok (f : Forest) (s : Settings) (ps : List ModPath) (t : Dispatch)
    (h : loadModules f s ps = .ok t) :
    ∃ cs : List Dispatch, cs.length = ps.length ∧ t = cs.flatten ∧
      ∀ i (hi : i < ps.length) (hi' : i < cs.length), moduleContribution f s ps[i] = .ok cs[i] := by
  induction ps generalizing t with
  | nil => simp only [loadModules] at h; cases h; exact ⟨[], rfl, rfl, by simp⟩
  | cons p ps ih =>
    simp only [loadModules, bind_ok] at h
    obtain ⟨c, hc, r, hr, ht⟩ := h
    cases ht
    obtain ⟨cs, hlen, hflat, hall⟩ := ih r hr
    refine ⟨c :: cs, by simp [hlen], by simp [hflat], ?_⟩
    intro i hi hi'
    cases i with
    | zero => simpa using hc
    | succ j => simpa using hall j (by simpa using hi) (by simpa using hi')

/-- every entry of the dispatch table comes from a module that was yielded and selected -/
theorem mem_loadModules (f : Forest) (s : Settings) (ps : List ModPath) (t : Dispatch)
    (h : loadModules f s ps = .ok t) (x : String × ModPath) (hx : x ∈ t) :
    x.2 ∈ ps ∧ selected f s x.2 ∧ ∃ c, moduleContribution f s x.2 = .ok c ∧ x ∈ c := by
  induction ps generalizing t with
  | nil => simp only [loadModules] at h; cases h; simp at hx
  | cons p ps ih =>
    simp only [loadModules, bind_ok] at h
    obtain ⟨c, hc, r, hr, ht⟩ := h
    cases ht
    rcases List.mem_append.mp hx with hx | hx
    · have hp : x.2 = p := contribution_snd f s p c hc x hx
      refine ⟨by simp [hp], ?_, c, by rw [hp]; exact hc, hx⟩
      rw [hp]
      exact contribution_selected f s p c hc (List.ne_nil_of_mem hx)
    · obtain ⟨h1, h2, h3⟩ := ih r hr hx
      exact ⟨List.mem_cons_of_mem _ h1, h2, h3⟩

/-- the first module whose `check` is rejected decides how loading ends -/
theorem loadModules_error (f : Forest) (s : Settings) (pre post : List ModPath) (p : ModPath) (e : LoadErr)
    (hpre : ∀ q ∈ pre, ∃ c, moduleContribution f s q = .ok c)
    (hp : moduleContribution f s p = .error e) :
    loadModules f s (pre ++ p :: post) = .error e := by
  induction pre with
  | nil => simp [loadModules, hp, Bind.bind, Except.bind]
  | cons q pre ih =>
    obtain ⟨c, hc⟩ := hpre q (by simp)
    have := ih (fun q' hq' => hpre q' (by simp [hq']))
    simp [loadModules, hc, this, Bind.bind, Except.bind]

theorem mem_checksFor (t : Dispatch) (ty : String) (p : ModPath) : p ∈ checksFor t ty ↔ (ty, p) ∈ t := by
  simp only [checksFor, List.mem_map, List.mem_filter, decide_eq_true_eq]
  constructor
  · rintro ⟨x, ⟨hx, hty⟩, hp⟩
    obtain ⟨a, b⟩ := x
    simp only at hty hp
    subst hty; subst hp; exact hx
  · intro h; exact ⟨(ty, p), ⟨h, rfl⟩, rfl⟩

theorem mem_visitFrom (f : Forest) (t : Dispatch) (nodes : List String) (i : Nat) (c : Call)
    (h : c ∈ visitFrom f t i nodes) : ∃ ty, (ty, c.check) ∈ t := by
  induction nodes generalizing i with
  | nil => simp [visitFrom] at h
  | cons ty tys ih =>
    simp only [visitFrom, List.mem_append] at h
    rcases h with h | h
    · simp only [callsAt, List.mem_map] at h
      obtain ⟨p, hp, rfl⟩ := h
      exact ⟨ty, (mem_checksFor t ty p).mp hp⟩
    · exact ih (i + 1) h

theorem loadChecks_ok (f : Forest) (b : ModPath) (ts : List ModPath) (s : Settings) (t : Dispatch)
    (h : loadChecks f b ts s = .ok t) :
    loadModules f s (getModules f b ts).1 = .ok t ∧ (getModules f b ts).2 = none := by
  simp only [loadChecks, bind_ok] at h
  obtain ⟨t', h1, h2⟩ := h
  split at h2
  · rename_i hnone; cases h2; exact ⟨h1, hnone⟩
  · cases h2

/-- **A check that is not selected is never called.**  If loading succeeds, no call the visitor
    makes — on any sequence of nodes — goes to a module that has no error class or whose error
    class the selection (enable / disable / ignore / all-switches, C09) rejects.  The module is
    imported, its `check` is not even validated, and it is not in the dispatch table. -/
theorem unselected_never_called (f : Forest) (b : ModPath) (ts : List ModPath) (s : Settings) (t : Dispatch)
    (p : ModPath) (hload : loadChecks f b ts s = .ok t) (hp : ¬ selected f s p) (nodes : List String) :
    ∀ c ∈ visit f t nodes, c.check ≠ p := by
  intro c hc heq
  obtain ⟨ty, hty⟩ := mem_visitFrom f t nodes 0 c hc
  obtain ⟨hm, _⟩ := loadChecks_ok f b ts s t hload
  obtain ⟨_, hsel, _⟩ := mem_loadModules f s _ t hm (ty, c.check) hty
  exact hp (heq ▸ hsel)

/-- every call goes to a module that `get_modules` yielded -/
theorem called_only_if_reachable (f : Forest) (b : ModPath) (ts : List ModPath) (s : Settings) (t : Dispatch)
    (hload : loadChecks f b ts s = .ok t) (nodes : List String) :
    ∀ c ∈ visit f t nodes, c.check ∈ (getModules f b ts).1 := by
  intro c hc
  obtain ⟨ty, hty⟩ := mem_visitFrom f t nodes 0 c hc
  obtain ⟨hm, _⟩ := loadChecks_ok f b ts s t hload
  exact (mem_loadModules f s _ t hm (ty, c.check) hty).1

/-- **A selected check with an invalid signature stops the run with its own error.**  If `p` is the
    first yielded module whose contribution fails — it is selected and `validSignature` rejects its
    `check` — then `load_checks` ends with exactly that error, whatever comes after it. -/
theorem invalid_selected_rejected (f : Forest) (b : ModPath) (ts : List ModPath) (s : Settings)
    (pre post : List ModPath) (p : ModPath) (l : Leaf) (e : CheckSel) (sig : Sig) (err : LoadErr)
    (hmods : (getModules f b ts).1 = pre ++ p :: post)
    (hpre : ∀ q ∈ pre, ∃ c, moduleContribution f s q = .ok c)
    (hl : f.leafAt p = some l) (he : getErrorClass l = some e) (hs : shouldLoad s e = true)
    (hc : l.check = some sig) (hv : validSignature l.file l.line sig = .error err) :
    loadChecks f b ts s = .error err := by
  have hp : moduleContribution f s p = .error err := by
    rw [selected_contribution f s p l e sig hl he hs hc, hv]; rfl
  simp only [loadChecks, hmods, loadModules_error f s pre post p err hpre hp]
  rfl

/-- … and for a function that error is `file:line: reason`, printed on one line, exit status 1,
    no traceback -/
theorem invalid_selected_report (f : Forest) (b : ModPath) (ts : List ModPath) (s : Settings)
    (pre post : List ModPath) (p : ModPath) (l : Leaf) (e : CheckSel) (sig : Sig) (err : LoadErr)
    (hmods : (getModules f b ts).1 = pre ++ p :: post)
    (hpre : ∀ q ∈ pre, ∃ c, moduleContribution f s q = .ok c)
    (hl : f.leafAt p = some l) (he : getErrorClass l = some e) (hs : shouldLoad s e = true)
    (hc : l.check = some sig) (hv : validSignature l.file l.line sig = .error err)
    (hcall : sig.callable = true) (hnode : ∀ q ∈ sig.params.take 1, hashableUnion q.ann = true) :
    ∃ reason, loadChecks f b ts s = .error (located l.file l.line reason) ∧
      reportOf f (located l.file l.line reason) =
        { stdoutLine := some (l.file ++ ":" ++ toString l.line ++ ": " ++ reason), traceback := false, exit := 1 } := by
  obtain ⟨reason, hr⟩ := reject_located_partial sig hcall hnode l.file l.line err hv
  refine ⟨reason, ?_, rfl⟩
  rw [← hr]
  exact invalid_selected_rejected f b ts s pre post p l e sig err hmods hpre hl he hs hc hv

/-- **A target that cannot be imported stops everything, before any check is looked at**: the
    result of `load_checks` is the import failure of the first such target, whatever else is loaded -/
theorem load_target_not_importable (f : Forest) (b : ModPath) (ts : List ModPath) (s : Settings)
    (h : ¬ allResolve f (b :: ts) = true) :
    ∃ t ∈ b :: ts, f.resolve t = none ∧ loadChecks f b ts s = .error (importFailure t) := by
  obtain ⟨t, h1, h2, h3⟩ := firstBad_spec f (b :: ts) h
  refine ⟨t, h2, h3, ?_⟩
  have hg : getModules f b ts = ([], some (importFailure t)) := by
    rw [getModules_eq]; simp [h, h1]
  simp [loadChecks, hg, loadModules, Bind.bind, Except.bind]

/-- loading succeeds when every target is importable and every selected check validates -/
theorem loadModules_ok_of (f : Forest) (s : Settings) (ps : List ModPath)
    (h : ∀ p ∈ ps, ∃ c, moduleContribution f s p = .ok c) : ∃ t, loadModules f s ps = .ok t := by
  induction ps with
  | nil => exact ⟨[], rfl⟩
  | cons p ps ih =>
    obtain ⟨c, hc⟩ := h p (by simp)
    obtain ⟨r, hr⟩ := ih (fun q hq => h q (by simp [hq]))
    exact ⟨c ++ r, by simp [loadModules, hc, hr, Bind.bind, Except.bind]⟩

theorem loadChecks_ok_of (f : Forest) (b : ModPath) (ts : List ModPath) (s : Settings)
    (hall : allResolve f (b :: ts) = true)
    (h : ∀ p ∈ (getModules f b ts).1, ∃ c, moduleContribution f s p = .ok c) :
    ∃ t, loadChecks f b ts s = .ok t := by
  obtain ⟨t, ht⟩ := loadModules_ok_of f s _ h
  have hnone := ((getModules_error_iff f b ts).1).mpr hall
  exact ⟨t, by simp [loadChecks, ht, hnone, Bind.bind, Except.bind]⟩

/-! ### Exactly once in the dispatch table -/

theorem filter_snd_contribution (f : Forest) (s : Settings) (p q : ModPath) (c : Dispatch)
    (h : moduleContribution f s q = .ok c) :
    c.filter (fun x => x.2 = p) = if q = p then c else [] := by
  have hs := contribution_snd f s q c h
  by_cases hqp : q = p
  · subst hqp
    simp only [if_true]
    exact List.filter_eq_self.mpr (by intro x hx; simp [hs x hx])
  · simp only [hqp, if_false]
    exact List.filter_eq_nil_iff.mpr (by intro x hx; simp [hs x hx, hqp])

theorem loadModules_filter (f : Forest) (s : Settings) (ps : List ModPath) (t : Dispatch) (p : ModPath) (c : Dispatch)
    (h : loadModules f s ps = .ok t) (hnd : ps.Nodup) (hp : p ∈ ps) (hc : moduleContribution f s p = .ok c) :
    t.filter (fun x => x.2 = p) = c := by
  induction ps generalizing t with
  | nil => simp at hp
  | cons q ps ih =>
    simp only [loadModules, bind_ok] at h
    obtain ⟨cq, hcq, r, hr, ht⟩ := h
    cases ht
    rw [List.filter_append, filter_snd_contribution f s p q cq hcq]
    have hnd' := List.nodup_cons.mp hnd
    by_cases hqp : q = p
    · subst hqp
      rw [hc] at hcq; cases hcq
      simp only [if_true]
      have : r.filter (fun x => x.2 = q) = [] := by
        apply List.filter_eq_nil_iff.mpr
        intro x hx hx2
        have := (mem_loadModules f s ps r hr x hx).1
        simp only [decide_eq_true_eq] at hx2
        rw [hx2] at this
        exact hnd'.1 this
      simp [this]
    · simp only [hqp, if_false, List.nil_append]
      have hp' : p ∈ ps := by
        rcases List.mem_cons.mp hp with h | h
        · exact absurd h.symm hqp
        · exact h
      exact ih r hr hnd'.2 hp'

theorem count_checksFor (t : Dispatch) (ty : String) (p : ModPath) :
    (checksFor t ty).count p = t.count (ty, p) := by
  induction t with
  | nil => rfl
  | cons x t ih =>
    obtain ⟨a, c⟩ := x
    simp only [checksFor, List.filter_cons] at ih ⊢
    by_cases ha : a = ty
    · subst ha
      simp only [decide_true, if_true, List.map_cons, List.count_cons, ih]
      by_cases hc : c = p
      · subst hc; simp
      · have : ¬ ((a, c) = (a, p)) := by simp [hc]
        simp [hc, this]
    · have : ¬ ((a, c) = (ty, p)) := by simp [ha]
      simp only [ha, decide_false, List.count_cons]
      simp [this, ih]

theorem count_map_pair (tys : List String) (ty : String) (p : ModPath) :
    (tys.map (·, p)).count (ty, p) = tys.count ty := by
  induction tys with
  | nil => rfl
  | cons a tys ih =>
    simp only [List.map_cons, List.count_cons, ih]
    by_cases ha : a = ty
    · subst ha; simp
    · have : ¬ ((a, p) = (ty, p)) := by simp [ha]
      simp [ha, this]

/-- **Each selected valid check is registered exactly as often as it subscribes.**  If loading
    succeeds and `p` — reached by the targets in whatever way — is selected and its `check`
    validates with node types `tys`, then the entries of the dispatch table that belong to `p` are
    exactly `tys` (in order): for a node type it names once, `p` is called once per node of that
    type, not once per spelling of `--load`. -/
theorem selected_valid_registered_once (f : Forest) (b : ModPath) (ts : List ModPath) (s : Settings)
    (t : Dispatch) (p : ModPath) (l : Leaf) (e : CheckSel) (sig : Sig) (tys : List String)
    (hload : loadChecks f b ts s = .ok t) (hp : p ∈ (getModules f b ts).1)
    (hl : f.leafAt p = some l) (he : getErrorClass l = some e) (hs : shouldLoad s e = true)
    (hc : l.check = some sig) (hv : validSignature l.file l.line sig = .ok tys) :
    t.filter (fun x => x.2 = p) = tys.map (·, p) ∧
    ∀ ty, (checksFor t ty).count p = tys.count ty := by
  obtain ⟨hm, _⟩ := loadChecks_ok f b ts s t hload
  have hcontr : moduleContribution f s p = .ok (tys.map (·, p)) := by
    rw [selected_contribution f s p l e sig hl he hs hc, hv]; rfl
  have hfil := loadModules_filter f s _ t p _ hm (each_leaf_at_most_once f b ts) hp hcontr
  refine ⟨hfil, ?_⟩
  intro ty
  rw [count_checksFor, ← List.count_filter (p := fun x => decide (x.2 = p)) (by simp), hfil, count_map_pair]

/-- the calls the visitor makes to `p` at one node: as many as `p` names that node's type -/
theorem calls_at_node (f : Forest) (t : Dispatch) (p : ModPath) (i : Nat) (ty : String) :
    ((callsAt f t i ty).filter (fun c => c.check = p)).length = (checksFor t ty).count p := by
  simp only [callsAt]
  induction checksFor t ty with
  | nil => rfl
  | cons x xs ih =>
    simp only [List.map_cons, List.filter_cons, List.count_cons]
    by_cases hx : x = p
    · subst hx; simp [ih]
    · simp [hx, ih]

/-! ### Non-vacuity: a concrete forest, targets, selection -/

def selA : CheckSel := { pfx := "XYZ", code := 101, categories := [], enabled := true }
def selB : CheckSel := { pfx := "XYZ", code := 102, categories := ["c"], enabled := false }

def goodTwo : Sig :=
  { params := [⟨"node", .union [.node "IntExpr", .node "StrExpr"] "mypy.nodes.IntExpr | mypy.nodes.StrExpr", .pos⟩, ⟨"errors", .one .listError, .pos⟩], ret := true }
def goodThree : Sig :=
  { params := [⟨"node", .one (.node "IntExpr"), .pos⟩, ⟨"errors", .one .listError, .pos⟩,
               ⟨"settings", .one .settings, .pos⟩], ret := true }
def badName : Sig :=
  { params := [⟨"node", .one (.node "IntExpr"), .pos⟩, ⟨"errors", .one .listError, .pos⟩,
               ⟨"s", .one .settings, .pos⟩], ret := true }

def leafOf (sel : CheckSel) (sig : Sig) (file : String) : Leaf :=
  { errs := [⟨"Error", "Error", true, sel⟩, ⟨"ErrorInfo", "ErrorInfo", true, sel⟩], check := some sig, file := file, line := 17 }

/-- `refurb/checks/{a}` built in; a plugin package `p/{m, sub/{n}}`; a top-level module `bad` -/
def demo : Forest :=
  .pkg "refurb" (.pkg "checks" (.leaf "a" (leafOf selA goodTwo "a.py") .nil) .nil)
    (.pkg "p" (.leaf "m" (leafOf selA goodThree "p/m.py") (.pkg "sub" (.leaf "n" (leafOf selB badName "p/sub/n.py") .nil) .nil))
      (.leaf "bad" (leafOf selA badName "bad.py") .nil))

def demoBuiltin : ModPath := ["refurb", "checks"]

example : getModules demo demoBuiltin [["p", "sub", "n"], ["p"], ["p", "m"], ["refurb", "checks"], ["p"]] =
    ([["refurb", "checks", "a"], ["p", "sub", "n"], ["p", "m"]], none) := by decide
example : getModules demo demoBuiltin [["p"], ["nope"], ["bad"]] = ([], some (.importError ["nope"])) := by decide
example : (reportOf demo (.importError ["p", "m", "x"])).stdoutLine = some "No module named 'p.m.x'; 'p.m' is not a package" ∧
    (reportOf demo (.importError ["p", "zz", "x"])).stdoutLine = some "No module named 'p.zz'" := by decide
example : allResolve demo (demoBuiltin :: [["p", "sub", "n"], ["p"]]) = true := by decide
example : demo.resolve ["p"] ≠ none ∧ reach demo ["p", "sub"] = [["p", "sub", "n"]] := by decide
/-- selected and valid: registered once per node type; the unselected invalid `p.sub.n` is silent -/
example : loadChecks demo demoBuiltin [["p"], ["p", "m"]] {} =
    .ok [("IntExpr", ["refurb", "checks", "a"]), ("StrExpr", ["refurb", "checks", "a"]), ("IntExpr", ["p", "m"])] := by decide
example : ¬ selected demo {} ["p", "sub", "n"] := by
  rintro ⟨l, e, hl, he, hs⟩
  have : demo.leafAt ["p", "sub", "n"] = some (leafOf selB badName "p/sub/n.py") := by decide
  rw [this] at hl; cases hl
  have : getErrorClass (leafOf selB badName "p/sub/n.py") = some selB := by decide
  rw [this] at he; cases he
  revert hs; decide
/-- the same module once selected: one located rejection -/
example : loadChecks demo demoBuiltin [["p"]] { enable := [{ cls := .code "XYZ" 102 }] } =
    .error (located "p/sub/n.py" 17 "\"s: Settings\" is not a valid service") := by decide
example : (reportOf demo (located "p/sub/n.py" 17 "\"s: Settings\" is not a valid service")).stdoutLine =
    some "p/sub/n.py:17: \"s: Settings\" is not a valid service" := by decide
/-- the visitor: the three-parameter check gets three arguments, the two-parameter one two -/
example : visit demo [("IntExpr", ["refurb", "checks", "a"]), ("StrExpr", ["refurb", "checks", "a"]), ("IntExpr", ["p", "m"])]
    ["IntExpr", "NameExpr", "StrExpr"] =
    [⟨["refurb", "checks", "a"], 0, 2⟩, ⟨["p", "m"], 0, 3⟩, ⟨["refurb", "checks", "a"], 2, 2⟩] := by decide
example : validSignature "f.py" 3 goodThree = .ok ["IntExpr"] ∧ (∀ p ∈ goodThree.params, p.kind = .pos) := by decide
example : hashableUnion (.union [.node "IntExpr", .cls "int"] "mypy.nodes.IntExpr | int") = true ∧
    validSignature "f.py" 3 { params := [⟨"node", .union [.node "IntExpr", .cls "int"] "mypy.nodes.IntExpr | int", .pos⟩, ⟨"errors", .one .listError, .pos⟩], ret := true }
      = .error (located "f.py" 3 "\"int\" is not a valid Mypy node type") := by decide
/-- the repaired defect, end to end in the model: accepted, registered, called with three arguments -/
example : runFile (.leaf "m" (leafOf selA threeNoReturn "m.py") .nil) [("IntExpr", ["m"])] ["IntExpr"] =
    .ok [⟨["m"], 0, 3⟩] := by decide
/-- the recorded finding: a keyword-only `settings` is accepted and then the call does not bind -/
example : runFile (.leaf "m" (leafOf selA kwOnlySettings "m.py") .nil) [("IntExpr", ["m"])] ["IntExpr"] =
    .error (.typeError none "check() argument mismatch") := by decide

end RefurbVerif.C16
