type X = int
type Y[T] = list[T]
x: X = int(0)
