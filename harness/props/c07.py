"""C07 — reported positions are real token positions inside the reported file.

Lean: Props/C07.lean over Model/Pos.lean (from_node_valid under the explicit assumption FirstTokenInvariant;
never_zero_based for the three formats; FURB180 `column - 10`: AbcValid refuted / exact condition / partial;
FURB106 `end_column - 7` on `func.line`: TabsValid refuted for `.line`, proved for `.endLine`; FURB113 reports a
statement of its own block; exactly three checks build an Error by hand — over Generated/Positions.lean).

ORACLE (this is what gives the assumption force).  For EVERY diagnostic of every refurb run below:
  * the file is one of the files given on the command line (or lies under the directory given);
  * 1 <= line <= number of physical lines (tokenizer lines: \\n, \\r\\n, \\r);
  * the printed column c satisfies 1 <= c <= len(line in UTF-8 bytes) + 1, read as a UTF-8 BYTE offset + 1 (the
    convention of ast/mypy; the character column for ASCII lines);
  * a `tokenize` token (Python 3.12: f-string pieces are tokens; NL/NEWLINE/INDENT/DEDENT/COMMENT/empty tokens are
    not) starts exactly there;
  * metamorphic: the layout variants keep the ast, so the k-th diagnostic with a given (code, message) must point at
    the same token text as in the untransformed program ("never taken from a different line than the column" —
    catches a position that happens to hit some other token);
  * for the three computed positions the token is the intended one: FURB180 -> NAME `metaclass`, FURB106 -> NAME
    `replace`, FURB113 (and the other statement-list checks FURB127/128/138/154/182) -> first token of a statement.
Programs: docstring "Bad" examples of all checks (+ auto prelude) and test/data/err_*.py, untransformed and under
GEN-LAYOUT (backslash continuations, line breaks inside brackets, parenthesised values broken after operators /
before dots, tab / wide re-indentation, nesting 3 and 10 deep, non-ASCII statements before the idiom on the same
line, trailing blanks and non-ASCII comments, form feeds, CRLF, CR, BOM, latin-1 coding cookie); every variant is
kept only if its ast.dump (marker statements and nesting aside) equals the original's.  Plus the enumerated layouts
of the three computed positions and the corpus.

CORRESPONDENCE.  Model vs real on the enumerated layouts: `class C(<bases> metaclass <g1> = <g2> V)`,
`<pfx> v = ( R <g1> . <g2> replace (...))`, blocks of append statements: where tokenize/ast put the tokens vs the
layout arithmetic, and the stored line/column of the real diagnostics vs Pos.abcShorthand / Pos.expandtabs /
Pos.listExtend.  `pos_check` (= ValidPos, theorem validPosB_iff) vs this file's oracle on every diagnostic.
The three formatters vs render (column + 1) in-process.
"""

from __future__ import annotations

import ast
import base64
import io
import json
import os
import re
import tokenize
from concurrent.futures import ProcessPoolExecutor, ThreadPoolExecutor
from pathlib import Path
from typing import Any

from .. import core, extract

GENERATED = ["Positions"]

COMPUTED = {"FURB106", "FURB113", "FURB180"}
NOT_A_TOKEN = {tokenize.NL, tokenize.NEWLINE, tokenize.INDENT, tokenize.DEDENT, tokenize.ENDMARKER, tokenize.COMMENT, tokenize.ENCODING}
MARKS = ["\u00e9", "\u20ac\u20ac", "\U0001f600\u00e9", "\u00fc\u20ac\U0001f600"]  # 2-, 3-, 4-byte characters
LINE_SPLIT = re.compile(r"\r\n|\r|\n")


# ============================================================================================
# the oracle: token table of a file


class Table:
    """physical lines (decoded) and token starts of a source file, columns in UTF-8 bytes"""

    def __init__(self, data: bytes) -> None:
        enc, _ = tokenize.detect_encoding(io.BytesIO(data).readline)
        raw = data[3:] if data.startswith(b"\xef\xbb\xbf") else data
        # Python translates \r\n and \r to \n before tokenizing (also inside string literals)
        self.text = LINE_SPLIT.sub("\n", raw.decode("utf-8" if enc == "utf-8-sig" else enc))
        toks = [None, *tokenize.generate_tokens(io.StringIO(self.text).readline)]
        self.lines = self.text.split("\n")
        if self.lines and self.lines[-1] == "":
            self.lines.pop()  # the text after the last terminator is not a line
        self.line_bytes = [len(l.encode("utf8")) for l in self.lines]
        self.starts: dict[tuple[int, int], tuple[str, str]] = {}
        self.per_line: list[list[list[int]]] = [[] for _ in self.lines]
        for t in toks[1:]:
            if t.type in NOT_A_TOKEN or t.start == t.end:
                continue
            r, c = t.start
            if r > len(self.lines):
                continue
            b = len(self.lines[r - 1][:c].encode("utf8"))
            self.starts[(r, b)] = (tokenize.tok_name[t.type], t.string)
            first_row_text = t.string.split("\n")[0] if t.start[0] != t.end[0] else t.string
            self.per_line[r - 1].append([b, max(1, len(first_row_text.encode("utf8")))])

    def judge(self, line: int, col: int) -> tuple[bool, bool, bool]:
        """(line exists, printed column within the line, a token starts there) — mirrors Pos.lineOk/colOk/tokOk"""
        line_ok = 1 <= line <= len(self.lines)
        col_ok = line_ok and 1 <= col <= self.line_bytes[line - 1] + 1
        tok_ok = line_ok and (line, col - 1) in self.starts
        return line_ok, col_ok, tok_ok

    def token(self, line: int, col: int) -> tuple[str, str] | None:
        return self.starts.get((line, col - 1))

    def wire(self) -> list[Any]:
        return [[self.line_bytes[i], self.per_line[i]] for i in range(len(self.lines))]


# ============================================================================================
# GEN-LAYOUT


def toks_of(text: str) -> list[tokenize.TokenInfo]:
    return list(tokenize.generate_tokens(io.StringIO(text).readline))


def line_offsets(text: str) -> list[int]:
    offs, o = [], 0
    for l in text.split("\n"):
        offs.append(o)
        o += len(l) + 1
    return offs


def apply_edits(text: str, edits: list[tuple[int, int, str]]) -> str:
    for a, b, rep in sorted(edits, reverse=True):
        text = text[:a] + rep + text[b:]
    return text


class _Strip(ast.NodeTransformer):
    def generic_visit(self, node: ast.AST) -> ast.AST:
        super().generic_visit(node)
        for f, v in ast.iter_fields(node):
            if isinstance(v, list) and v and isinstance(v[0], ast.stmt):
                kept = [s for s in v if not (isinstance(s, ast.Expr) and isinstance(s.value, ast.Constant) and s.value.value in MARKS)]
                if len(kept) != len(v):
                    setattr(node, f, kept)
        return node


def canon(src: str | bytes, nest: int = 0) -> str | None:
    """ast.dump without positions, marker statements removed, `nest` levels of `if 1:` unwrapped; None if invalid"""
    try:
        tree = ast.parse(src)
    except (SyntaxError, ValueError):
        return None
    for _ in range(nest):
        w = tree.body[0] if len(tree.body) == 1 else None
        if isinstance(w, (ast.If, ast.For)) and not w.orelse:
            tree = ast.Module(body=w.body, type_ignores=[])
        elif isinstance(w, ast.Try) and not w.handlers and not w.orelse and len(w.finalbody) == 1 and isinstance(w.finalbody[0], ast.Pass):
            tree = ast.Module(body=w.body, type_ignores=[])
        elif isinstance(w, (ast.AsyncFunctionDef, ast.ClassDef)) and not w.decorator_list:
            tree = ast.Module(body=w.body, type_ignores=[])
        else:
            return None
    return ast.dump(_Strip().visit(tree))


GAP_PREV_NO = {tokenize.COMMENT, tokenize.NL, tokenize.NEWLINE, tokenize.INDENT, tokenize.DEDENT, tokenize.FSTRING_START, tokenize.FSTRING_MIDDLE}
GAP_NEXT_NO = {tokenize.NEWLINE, tokenize.NL, tokenize.COMMENT, tokenize.ENDMARKER, tokenize.INDENT, tokenize.DEDENT, tokenize.FSTRING_MIDDLE, tokenize.FSTRING_END}


def gaps(text: str) -> list[dict[str, Any]]:
    """places between two tokens of one row where blanks / a line break may go"""
    offs = line_offsets(text)
    out, depth, prev = [], 0, None
    for t in toks_of(text):
        if prev is not None and prev.end[0] == t.start[0] and prev.type not in GAP_PREV_NO and t.type not in GAP_NEXT_NO:
            out.append(
                {
                    "a": offs[prev.end[0] - 1] + prev.end[1],
                    "b": offs[t.start[0] - 1] + t.start[1],
                    "depth": depth,
                    "prev": prev.string,
                    "prev_op": prev.type == tokenize.OP and prev.string not in "()[]{},",
                    "next": t.string,
                }
            )
        if t.type == tokenize.OP:
            if t.string in "([{":
                depth += 1
            elif t.string in ")]}":
                depth -= 1
        prev = t
    return out


def validated(text: str, edits: list[tuple[int, int, str]], want: str, nest: int) -> str:
    """apply as many of the (independent) edits as keep the ast; greedy by chunks"""
    accepted: list[tuple[int, int, str]] = []
    for i in range(0, len(edits), 6):
        chunk = edits[i : i + 6]
        if canon(apply_edits(text, accepted + chunk), nest) == want:
            accepted += chunk
            continue
        for e in chunk:
            if canon(apply_edits(text, accepted + [e]), nest) == want:
                accepted.append(e)
    return apply_edits(text, accepted)


def t_bs(text: str, rng, want: str, nest: int) -> str:
    p = rng.choice([0.12, 0.3, 0.6])
    edits = [(g["a"], g["b"], " \\\n" + " " * rng.randint(0, 11)) for g in gaps(text) if rng.random() < p]
    return validated(text, edits, want, nest)


def t_nl(text: str, rng, want: str, nest: int) -> str:
    p = rng.choice([0.25, 0.6, 1.0])
    edits = []
    for g in gaps(text):
        if g["depth"] > 0 and rng.random() < p:
            cmt = rng.choice(["", "", "  # \u00e9\u20ac", " "])
            edits.append((g["a"], g["b"], cmt + "\n" + " " * rng.randint(0, 9)))
    return validated(text, edits, want, nest)


def t_ops(text: str, rng, want: str, nest: int) -> str:
    """inside brackets: break after every operator and before every `.`"""
    edits = []
    for g in gaps(text):
        if g["depth"] > 0 and (g["next"] == "." or (g["prev_op"] and g["prev"] != ".")):
            edits.append((g["a"], g["b"], "\n" + " " * rng.randint(1, 9)))
    return validated(text, edits, want, nest)


def _char_off(lines: list[str], offs: list[int], lineno: int, bytecol: int) -> int:
    return offs[lineno - 1] + len(lines[lineno - 1].encode("utf8")[:bytecol].decode("utf8"))


def t_paren(text: str, rng, want: str, nest: int) -> str:
    """wrap the value of simple statements / the test of if and while in parentheses"""
    try:
        tree = ast.parse(text)
    except SyntaxError:
        return text
    lines, offs = text.split("\n"), line_offsets(text)
    edits = []
    for n in ast.walk(tree):
        v = None
        if isinstance(n, (ast.Assign, ast.AugAssign, ast.AnnAssign, ast.Return, ast.Expr)):
            v = n.value
        elif isinstance(n, (ast.If, ast.While)):
            v = n.test
        if v is None or (isinstance(n, ast.Expr) and isinstance(v, ast.Constant) and isinstance(v.value, str)):
            continue
        if rng.random() < 0.8:
            a = _char_off(lines, offs, v.lineno, v.col_offset)
            b = _char_off(lines, offs, v.end_lineno, v.end_col_offset)
            edits.append((a, a, "("))
            edits.append((b, b, ")"))
    # an opening and its closing parenthesis must be accepted together
    pairs = [edits[i : i + 2] for i in range(0, len(edits), 2)]
    accepted: list[tuple[int, int, str]] = []
    if canon(apply_edits(text, edits), nest) == want:
        return apply_edits(text, edits)
    for pr in pairs:
        if canon(apply_edits(text, accepted + pr), nest) == want:
            accepted += pr
    return apply_edits(text, accepted)


def logical_line_starts(text: str) -> list[tuple[int, int, int]]:
    """(row, column of the first token, indentation depth) for every physical row on which a logical line starts"""
    out, depth, at_start = [], 0, True
    for t in toks_of(text):
        if t.type == tokenize.INDENT:
            depth += 1
        elif t.type == tokenize.DEDENT:
            depth -= 1
        elif t.type in (tokenize.NL, tokenize.COMMENT, tokenize.ENDMARKER):
            continue
        elif t.type == tokenize.NEWLINE:
            at_start = True
        elif at_start:
            out.append((t.start[0], t.start[1], depth))
            at_start = False
    return out


def t_reindent(unit: str):
    def go(text: str, rng, want: str, nest: int) -> str:
        offs = line_offsets(text)
        edits = [(offs[r - 1], offs[r - 1] + c, unit * d) for r, c, d in logical_line_starts(text)]
        out = apply_edits(text, edits)
        return out if canon(out, nest) == want else text

    return go


def string_rows(text: str) -> set[int]:
    """rows whose first character lies inside a string literal"""
    rows: set[int] = set()
    for t in toks_of(text):
        if t.type in (tokenize.STRING, tokenize.FSTRING_MIDDLE) and t.end[0] > t.start[0]:
            rows.update(range(t.start[0] + 1, t.end[0] + 1))
    return rows


WRAPPERS = [("if 1:", None), ("if 1:", None), ("try:", "finally:\n{i}    pass"), ("for _w{n} in (1,):", None), ("async def _w{n}() -> None:", None), ("class _K{n}:", None)]


def t_nest(k: int):
    """put the whole program `k` blocks deep (if / try-finally / for / async def / class), as the only statement of each"""

    def go(text: str, rng, want: str, nest: int) -> tuple[str, int] | str:
        if "__future__" in text or "import *" in text:
            return text
        unit = "    "
        keep = string_rows(text)
        lines = text.rstrip("\n").split("\n")
        body = [l if ((i + 1) in keep or not l.strip()) else unit * k + l for i, l in enumerate(lines)]
        kinds = [WRAPPERS[0] if k > 3 and i % 3 else rng.choice(WRAPPERS) for i in range(k)]
        head = "".join(unit * i + kinds[i][0].replace("{n}", str(i)) + "\n" for i in range(k))
        tail = "".join(unit * i + kinds[i][1].replace("{i}", unit * i) + "\n" for i in reversed(range(k)) if kinds[i][1])
        out = head + "\n".join(body) + "\n" + tail
        return (out, nest + k) if canon(out, nest + k) == want else text

    return go


COMPOUND = (ast.FunctionDef, ast.AsyncFunctionDef, ast.ClassDef, ast.If, ast.For, ast.AsyncFor, ast.While, ast.With, ast.AsyncWith, ast.Try, ast.TryStar, ast.Match)


def t_marks(text: str, rng, want: str, nest: int) -> str:
    """a non-ASCII string statement in front of simple statements, on the same line"""
    try:
        tree = ast.parse(text)
    except SyntaxError:
        return text
    p = rng.choice([0.3, 0.6, 1.0])
    lines, offs = text.split("\n"), line_offsets(text)
    edits = []
    for parent in ast.walk(tree):
        for field in ("body", "orelse", "finalbody"):
            body = getattr(parent, field, None)
            if not isinstance(body, list):
                continue
            for i, st in enumerate(body):
                if not isinstance(st, ast.stmt) or isinstance(st, COMPOUND):
                    continue
                if isinstance(st, ast.ImportFrom) and st.module == "__future__":
                    continue
                if i == 0 and field == "body" and isinstance(parent, (ast.Module, ast.FunctionDef, ast.AsyncFunctionDef, ast.ClassDef)):
                    continue
                prefix = lines[st.lineno - 1].encode("utf8")[: st.col_offset].decode("utf8")
                if prefix.strip(" \t\f") or rng.random() >= p:
                    continue
                o = offs[st.lineno - 1] + len(prefix)
                edits.append((o, o, '"%s"; ' % rng.choice(MARKS)))
    return validated(text, edits, want, nest)


def t_trail(text: str, rng, want: str, nest: int) -> str:
    offs = line_offsets(text)
    edits, commented = [], set()
    toks = toks_of(text)
    for t in toks:
        if t.type == tokenize.COMMENT:
            commented.add(t.start[0])
    for t in toks:
        if t.type in (tokenize.NL, tokenize.NEWLINE) and t.string and rng.random() < 0.6:
            o = offs[t.start[0] - 1] + t.start[1]
            pad = rng.choice(["  ", "\t", " \t ", "   "])
            if t.start[0] not in commented and t.start[1] > 0 and rng.random() < 0.4:
                pad = "  # \u00e9\u20ac\U0001f600" + pad
            edits.append((o, o, pad))
    return validated(text, edits, want, nest)


def t_ff(text: str, rng, want: str, nest: int) -> str:
    offs = line_offsets(text)
    edits = []
    for r, c, d in logical_line_starts(text):
        x = rng.random()
        if x < 0.3:
            edits.append((offs[r - 1], offs[r - 1], "\f"))
        elif x < 0.45 and d == 0:
            edits.append((offs[r - 1], offs[r - 1], "\f\n"))
    return validated(text, edits, want, nest)


TRANSFORMS = {
    "bs": t_bs,
    "nl": t_nl,
    "ops": t_ops,
    "paren": t_paren,
    "tabs": t_reindent("\t"),
    "indent13": t_reindent(" " * 13),
    "indent1": t_reindent(" "),
    "nest3": t_nest(3),
    "nest10": t_nest(10),
    "marks": t_marks,
    "trail": t_trail,
    "ff": t_ff,
}

RECIPES = [
    ["bs"],
    ["nl"],
    ["paren", "ops"],
    ["paren", "bs"],
    ["paren", "nl", "trail"],
    ["tabs"],
    ["indent13", "bs"],
    ["indent1", "nl"],
    ["nest3", "tabs"],
    ["nest10"],
    ["nest10", "paren", "ops"],
    ["marks"],
    ["marks", "bs"],
    ["marks", "paren", "ops", "tabs"],
    ["trail", "ff"],
    ["ff", "tabs"],
    ["marks", "nest3", "nl", "trail"],
    [],
]
FINALS = ["", "", "crlf", "crlf", "bom", "crlf+bom", "cr", "latin1"]


def finalize(text: str, final: str) -> bytes | None:
    if final == "latin1":
        try:
            return ("# -*- coding: latin-1 -*-\n" + text).encode("latin-1")
        except UnicodeEncodeError:
            final = "crlf"
    if "crlf" in final:
        text = text.replace("\n", "\r\n")
    elif "cr" in final:
        text = text.replace("\n", "\r")
    data = text.encode("utf8")
    if "bom" in final:
        data = b"\xef\xbb\xbf" + data
    return data


def make_variant(job: tuple[str, str, list[str], str, int]) -> dict[str, Any] | None:
    """(base id, text, recipe, final, seed) -> variant; runs in a worker process"""
    import random

    bid, text, recipe, final, seed = job
    rng = random.Random(seed)
    want = canon(text)
    if want is None:
        return None
    nest, applied = 0, []
    cur = text
    for name in recipe:
        try:
            out = TRANSFORMS[name](cur, rng, want, nest)
        except (tokenize.TokenError, SyntaxError, IndentationError, ValueError, IndexError):
            continue
        if isinstance(out, tuple):
            out, nest = out
        if out != cur:
            applied.append(name)
            cur = out
    data = finalize(cur, final)
    if data is None or canon(data, nest) != want:
        data, final = cur.encode("utf8"), ""
        if canon(data, nest) != want:
            return None
    if final:
        applied.append(final)
    return {"base": bid, "recipe": applied, "data": data, "nest": nest}


# ============================================================================================
# programs


def base_programs() -> list[dict[str, Any]]:
    out = []
    for ex in extract.documented_examples():
        if ex["kind"] != "Bad":
            continue
        src = extract.auto_prelude(ex["src"]) + ex["src"]
        out.append({"id": f"doc{ex['code']}_{ex['index']}", "kind": "doc", "code": ex["code"], "text": src})
    for f in sorted((core.REPO / "test" / "data").glob("err_*.py")):
        try:
            text = f.read_text()
        except UnicodeDecodeError:
            continue
        if "\r" in text:
            continue
        out.append({"id": f.stem, "kind": "data", "code": int(re.sub(r"\D", "", f.stem)[:3] or 0), "text": text})
    ok = []
    for b in out:
        if not b["text"].endswith("\n"):
            b["text"] += "\n"
        if canon(b["text"]) is not None:
            ok.append(b)
    return ok


# extra weight on the three computed positions and on the contexts DESIGN §5 lists
CORPUS_INLINE = {
    "abc_own_line": "from abc import ABCMeta\n\nclass A(\n  metaclass\n=\nABCMeta):\n    pass\n",
    "abc_blanks": "from abc import ABCMeta\n\nclass B(metaclass = ABCMeta):\n    pass\n",
    "abc_after_base": "import abc\n\nclass C(object, metaclass=abc.ABCMeta):\n    pass\n",
    "tabs_attr_next_line": 's = "x"\nt = (s\n   .replace("\\t", "    "))\n',
    "tabs_dot_then_break": 's = "x"\nv = (s.\n   replace("\\t", "    "))\n',
    "tabs_chain": 's = "x"\nu = s.replace("\\t", "    ").replace("\\t", " ")\n',
    "tabs_concat_receiver": 'y = ("\u00e9" "a"\n       "b").replace("\\t", " ")\n',
    "extend_semicolons": '"\u00e9"; nums = []; "\u00e9\u20ac\U0001f600"; nums.append(1); nums.append(2)\n',
    "extend_decorated_between": "import functools\nnums = [1]\nnums.append(1)\n# c\n\nnums.append(2)\n@functools.cache\ndef f(): pass\nnums.append(3)\nnums.append(4)\n",
    "contexts": (
        "import functools\nx = 1\nprint(f\"\u00e9{str(x)}\")\nprint(f\"{'\u00e9'}{ str(x) }\")\nprint(f\"{x!r:>{int(0)}}\")\n"
        "print(f\"\"\"\u00e9\n  {\n     str(x)}\"\"\")\n@functools.lru_cache(maxsize=None)\ndef f(): pass\n"
        "async def g(p):\n    async with open(p) as fh:\n        y = fh.read()\n    return [int(0) async for z in p]\n"
        "if (n := int(0)): pass\nh = lambda q=int(0): q\nd = {}\ndel d[int(0)]\n"
        "with open(\"f\") as fh, open(\"g\") as gh:\n    data = fh.read()\n"
    ),
}


# files whose traversal is cut short by the recursion limit (refurb suppresses the RecursionError, issue #302) AFTER a diagnostic was
# found far down and far right: whatever state survives the aborted traversal must not surface under another file's name
for _terms in (240, 265, 290, 315):
    CORPUS_INLINE[f"recursion_cut_{_terms}"] = (
        "# filler\n" * 150 + "a_rather_long_name_so_that_the_column_is_large_0123456789 = int(0)\nw = " + " + ".join(["1"] * _terms) + "\nv = list()\n"
    )


# ============================================================================================
# running refurb


def run_batch(job: tuple[Path, list[str], list[str], str]) -> dict[str, Any]:
    d, names, argv_files, mode = job
    argv = [*argv_files, "--enable-all", "--quiet"]
    rc, out, err = core.refurb_cli(argv, cwd=d, timeout=600)
    diags, other = core.parse_plain(out)
    failed = bool(other) or rc not in (0, 1) or bool(err.strip())
    return {"dir": d, "names": names, "argv": argv, "mode": mode, "rc": rc, "diags": diags, "other": other, "err": err, "failed": failed}


def classify_computed(code: str, data: bytes, line: int, col: int) -> str:
    """layout class of a FURB180 / FURB106 diagnostic, recovered from the ast of the file (call-site signature)"""
    try:
        tree = ast.parse(data)
    except (SyntaxError, ValueError):
        return "unparsable"
    table = Table(data)
    if code == "FURB180":
        for n in ast.walk(tree):
            if isinstance(n, ast.ClassDef):
                for kw in n.keywords:
                    if kw.arg == "metaclass" and kw.value.lineno == line and kw.value.col_offset - 10 == col - 1:
                        klen = 0
                        t = table.per_line[kw.lineno - 1]
                        for c, ln in t:
                            if c == kw.col_offset:
                                klen = ln
                        if klen != 9:
                            return "keyword-spelled-with-compatibility-characters"
                        if kw.value.lineno != kw.lineno:
                            return "value-on-another-line-than-keyword"
                        if kw.value.col_offset - kw.col_offset != 10:
                            return "blanks-or-parentheses-between-keyword-and-value"
                        return "adjacent"
        return "unmatched"
    if code == "FURB106":
        for n in ast.walk(tree):
            if isinstance(n, ast.Attribute) and n.attr == "replace" and n.end_col_offset - 7 == col - 1 and line in (n.lineno, n.end_lineno):
                tok = table.token(n.end_lineno, n.end_col_offset - 7 + 1)
                if tok != ("NAME", "replace"):
                    return "attribute-spelled-with-compatibility-characters"
                if n.end_lineno != n.lineno:
                    return "attribute-on-another-line-than-receiver-start"
                return "same-line"
        return "unmatched"
    return "any"


def stmt_starts(data: bytes) -> set[tuple[int, int]]:
    try:
        return {(n.lineno, n.col_offset) for n in ast.walk(ast.parse(data)) if isinstance(n, ast.stmt)}
    except (SyntaxError, ValueError):
        return set()


INTENDED = {"FURB180": ("NAME", "metaclass"), "FURB106": ("NAME", "replace")}
# the checks that look at a statement LIST (Block / MypyFile) and report one statement of a pattern that spans several:
# the position must be the first token of a statement
STATEMENT_CHECKS = {"FURB113", "FURB127", "FURB128", "FURB138", "FURB154", "FURB182"}


# ============================================================================================
# enumerated layouts of the computed positions (correspondence)


def pieces(seg: str) -> list[int]:
    out = []
    for i, part in enumerate(LINE_SPLIT.split(seg)):
        if i:
            out.append(-1)
        n = len(part.encode("utf8"))
        if n:
            out.append(n)
    return out


ABC_GAPS = ["", " ", "  ", "\n", "\n    ", " \\\n ", "\t", " # c\n  "]
ABC_VALUES = [("", "ABCMeta", ""), ("", "abc.ABCMeta", ""), ("(", "ABCMeta", ")"), ("", "abc .\n      ABCMeta", ""), ("( ", "ABCMeta", " )")]
ABC_NAMES = ["C", "\u00dcn\u00ef"]
ABC_BASES = ["", "object, ", "object,\n        ", "object, flag=True, "]
ABC_CTX = ["", "    ", "\t"]


def gen_abc(quick: bool, rng) -> list[dict[str, Any]]:
    """-> files: {text, items: [{kw, eq, val (absolute char offsets), klen, first_line, last_line}]}"""
    combos = []
    k = 0
    for g1 in ABC_GAPS:
        for g2 in ABC_GAPS:
            for val in ABC_VALUES:
                if quick:
                    combos.append((ABC_NAMES[k % 2], ABC_BASES[k % 4], g1, g2, val, ABC_CTX[(k // 4) % 3], "metaclass"))
                    k += 1
                else:
                    for nm in ABC_NAMES:
                        for bs in ABC_BASES:
                            for ctx in ABC_CTX:
                                combos.append((nm, bs, g1, g2, val, ctx, "metaclass"))
    for g1, g2 in (("", ""), (" ", " "), ("\n", "")):
        combos.append(("C", "", g1, g2, ABC_VALUES[0], "", "\uff4detaclass"))  # NFKC-normalised by the parser
        combos.append(("C", "object, ", g1, g2, ABC_VALUES[1], "    ", "metacla\u017fs"))
    files = []
    per = 120
    for i in range(0, len(combos), per):
        text = "import abc\nfrom abc import ABCMeta\n"
        items = []
        for j, (nm, bs, g1, g2, (vo, v, vc), ctx, kwtext) in enumerate(combos[i : i + per]):
            if ctx:
                text += "if 1:\n"
            head = f"{ctx}class {nm}{i + j}({bs}"
            first_line = text.count("\n") + 1
            kw = len(text) + len(head)
            body = head + kwtext + g1 + "=" + g2 + vo
            eq = kw + len(kwtext) + len(g1)
            val = len(text) + len(body)
            text += body + v + vc + "):\n" + ctx + "    pass\n"
            last_line = text.count("\n") - 1
            items.append({"kw": kw, "eq": eq, "val": val, "klen": len(kwtext.encode("utf8")), "first_line": first_line, "last_line": last_line,
                          "desc": {"g1": g1, "g2": g2, "value": vo + v + vc, "bases": bs, "ctx": ctx, "kw": kwtext}})
        files.append({"kind": "abc", "text": text, "items": items})
    return files


TABS_RECV = ["s", '"\u00e9"', '("a"\n        "b")', "s.strip()", 's.replace("\\t", " ")', "f(\n    s)", 'b"x"']
TABS_GAPS = ["", " ", "\n    ", " \\\n  ", "  # \u00e9\n  "]
TABS_PFX = ["", '"\u00e9\u20ac\U0001f600"; ', "    ", "\t"]


def gen_tabs(quick: bool, rng) -> list[dict[str, Any]]:
    combos = []
    k = 0
    for r in TABS_RECV:
        for g1 in TABS_GAPS:
            for g2 in TABS_GAPS:
                if quick:
                    combos.append((r, g1, g2, ["", " "][k % 2], TABS_PFX[k % 4], "replace"))
                    k += 1
                else:
                    for g3 in ("", " "):
                        for pfx in TABS_PFX:
                            combos.append((r, g1, g2, g3, pfx, "replace"))
    for g1, g2 in (("", ""), ("\n  ", "")):
        combos.append(("s", g1, g2, "", "", "\uff52eplace"))
    files = []
    per = 150
    for i in range(0, len(combos), per):
        text = 's = "x"\ndef f(x): return x\n'
        items = []
        for j, (r, g1, g2, g3, pfx, attr) in enumerate(combos[i : i + per]):
            indent = pfx if pfx.strip() == "" else ""
            if indent:
                text += "if 1:\n"
            first_line = text.count("\n") + 1
            head = f"{pfx}v{i + j} = ("
            recv = len(text) + len(head)
            isb = r.startswith("b")
            args = '(b"\\t", b"    ")' if isb else '("\\t", "    ")'
            layouts = []
            if r.startswith("s.replace"):
                layouts.append({"recv": recv, "attr": recv + 2, "alen": 7})
            a = recv + len(r) + len(g1) + 1 + len(g2)
            layouts.append({"recv": recv, "attr": a, "alen": len(attr.encode("utf8"))})
            text += head + r + g1 + "." + g2 + attr + g3 + args + ")\n"
            last_line = text.count("\n")
            items.append({"layouts": layouts, "first_line": first_line, "last_line": last_line, "desc": {"recv": r, "g1": g1, "g2": g2, "pfx": pfx, "attr": attr}})
        files.append({"kind": "tabs", "text": text, "items": items})
    return files


EXT_ALPHABET = {
    "A": "a.append({n})",
    "B": "b.append({n})",
    "W": "w.l.append({n})",
    "D": "d.append({n})",  # a deque: `append` on something that is not a list
    "X": "x = {n}",
    "2": "a.append({n}); a.append({n})",
    "M": "a.append(\n        {n})",
    "S": "a .append ({n})",
    "K": "a.append({n}, )",
    "F": "@functools.cache\n    def g{n}(): pass",
    "I": "if x:\n        a.append({n})\n        a.append({n})",
    "C": "# \u00e9 comment",
    "E": "",
}
EXT_PRELUDE = (
    "import functools\nfrom collections import deque\nclass W:\n    l: list[int]\n"
    "a: list[int] = []\nb = [1]\nw = W()\nd: deque[int] = deque()\nx = 0\n"
)


def gen_extend(quick: bool, rng) -> list[dict[str, Any]]:
    import itertools

    seqs: list[str] = []
    core_syms = "ABXD"
    for n in range(1, (4 if quick else 6)):
        seqs += ["".join(p) for p in itertools.product(core_syms, repeat=n)]
    all_syms = "".join(EXT_ALPHABET)
    for _ in range(150 if quick else 1500):
        seqs.append("".join(rng.choice(all_syms) for _ in range(rng.randint(2, 9))))
    files = []
    per = 200
    for i in range(0, len(seqs), per):
        text = EXT_PRELUDE
        items = []
        for j, seq in enumerate(seqs[i : i + per]):
            first_line = text.count("\n") + 1
            text += f"def fn{i + j}():\n    pass\n" if not seq.strip("CE") else f"def fn{i + j}():\n"
            for n, sym in enumerate(seq):
                text += "    " + EXT_ALPHABET[sym].replace("{n}", str(n)) + "\n"
            items.append({"first_line": first_line, "last_line": text.count("\n"), "seq": seq})
        files.append({"kind": "extend", "text": text, "items": items})
    return files


def extend_blocks(text: str) -> list[dict[str, Any]]:
    """every statement list `check_block_like` hands to check_stmts, as the model sees it (positions from `ast`)"""
    tree = ast.parse(text)
    lists = {"a": 1, "b": 2}
    blocks = []

    def key(e: ast.expr) -> int | None:
        if isinstance(e, ast.Name) and e.id in lists:
            return lists[e.id]
        if isinstance(e, ast.Attribute) and isinstance(e.value, ast.Name) and e.value.id == "w" and e.attr == "l":
            return 3
        return None

    for n in ast.walk(tree):
        for f in ("body", "orelse", "finalbody"):
            body = getattr(n, f, None)
            if isinstance(body, list) and body and isinstance(body[0], ast.stmt):
                stmts = []
                for s in body:
                    app = None
                    if (
                        isinstance(s, ast.Expr)
                        and isinstance(s.value, ast.Call)
                        and isinstance(s.value.func, ast.Attribute)
                        and s.value.func.attr == "append"
                        and len(s.value.args) == 1
                        and not s.value.keywords
                    ):
                        app = key(s.value.func.value)
                    # a decorated definition is a mypy Decorator whose line is the first decorator's
                    ln, co = s.lineno, s.col_offset
                    stmts.append([ln, co, app])
                blocks.append({"stmts": stmts, "first_line": body[0].lineno, "last_line": body[-1].end_lineno})
    return blocks


# ============================================================================================


def b64(data: bytes) -> str:
    return base64.b64encode(data).decode("ascii")


def replay_entry(name: str, data: bytes, argv: list[str], observed: str, required: str, extra: dict[str, Any] | None = None) -> dict[str, Any]:
    try:
        text = data.decode("utf8")
        ascii_safe = "\r" not in text and not data.startswith(b"\xef\xbb\xbf")
    except UnicodeDecodeError:
        text, ascii_safe = None, False
    r = {
        "files_b64": {name: b64(data)},
        "argv": argv,
        "observed": observed,
        "required": required,
        "how": "write the file(s) (base64 of the exact bytes under files_b64) into an empty directory and run `python -m refurb <argv>` there; "
        "or: bin/check C07 --replay <this file>",
    }
    if ascii_safe:
        r["files"] = {name: text}
    if extra:
        r.update(extra)
    return r


def run(ctx) -> None:
    res = ctx.res
    rng = ctx.rng("c07")
    quick = ctx.quick
    res.rule = (
        "oracle cases = diagnostics of refurb CLI runs (--enable-all) on: docstring Bad examples of all checks (+auto prelude) and test/data/err_*.py, "
        "untransformed and under GEN-LAYOUT recipes (18 recipes over 12 ast-preserving transforms x 6 byte-level finals: CRLF, CR, BOM, CRLF+BOM, latin-1 cookie); "
        "the enumerated layouts of the three computed positions (FURB180: 8x8 gaps x 5 value forms [x 2 names x 4 base/keyword prefixes x 3 contexts in thorough] + NFKC keyword; "
        "FURB106: 7 receivers x 5x5 gaps [x 2 x 4] + NFKC attribute; FURB113: all sequences over {a.append, b.append, other, deque.append} up to length 3 (5 thorough) + random "
        "sequences over 13 statement shapes); the corpus. non-trivial = the diagnostic comes from a transformed / enumerated layout; distinct = distinct "
        "(base program, applied transforms, code, line, column). correspondence cases = enumerated layouts + pos_check per diagnostic + formatter cases"
    )

    # ---------------------------------------------------------------- programs and variants
    bases = base_programs()
    for name, text in CORPUS_INLINE.items():
        bases.append({"id": "corpus_" + name, "kind": "corpus", "code": 0, "text": text})
    corpus_dir = core.VERIF / "corpus" / "C07"
    if corpus_dir.is_dir():
        for f in sorted(corpus_dir.glob("*.json")):
            try:
                c = json.loads(f.read_text())
                for fname, text in c.get("replay", c).get("files", {}).items():
                    bases.append({"id": f"corpusfile_{f.stem}_{fname}", "kind": "corpus", "code": 0, "text": text})
            except (ValueError, AttributeError):
                res.notes.append(f"unreadable corpus file {f.name}")
    n_doc, n_data = (3, 2) if quick else (48, 24)
    jobs = []
    for b in bases:
        n = {"doc": n_doc, "data": n_data, "corpus": 2 if quick else 8}[b["kind"]]
        recipes = RECIPES if (not quick and b["kind"] == "doc") else []
        for i in range(n):
            recipe = recipes[i] if i < len(recipes) else rng.choice(RECIPES)
            jobs.append((b["id"], b["text"], recipe, rng.choice(FINALS), rng.getrandbits(48)))
    with ProcessPoolExecutor(max_workers=16) as ex:
        variants = [v for v in ex.map(make_variant, jobs, chunksize=8) if v is not None]
    res.bump("variants_generated", len(variants))
    res.bump("variants_rejected_not_ast_preserving", len(jobs) - len(variants))

    enum_files = gen_abc(quick, ctx.rng("abc")) + gen_tabs(quick, ctx.rng("tabs")) + gen_extend(quick, ctx.rng("ext"))

    # ---------------------------------------------------------------- files on disk, batches
    files: dict[str, dict[str, Any]] = {}  # name -> {data, base, recipe, enum}
    k = 0
    for b in bases:
        files[f"p{k:05d}.py"] = {"data": b["text"].encode("utf8"), "base": b["id"], "recipe": [], "is_base": True}
        k += 1
    for v in variants:
        if not v["recipe"]:
            res.bump("variants_dropped_no_transform_applicable")
            continue
        files[f"p{k:05d}.py"] = {"data": v["data"], "base": v["base"], "recipe": v["recipe"], "is_base": False}
        k += 1
    for ef in enum_files:
        files[f"p{k:05d}.py"] = {"data": ef["text"].encode("utf8"), "base": None, "recipe": ["enum-" + ef["kind"]], "is_base": False, "enum": ef}
        k += 1

    with core.scratch("rv-c07-") as root:
        names = sorted(files)
        big = [n for n in names if "enum" in files[n]]
        small = [n for n in names if "enum" not in files[n]]
        nb = max(16, len(small) // 24)
        groups = [small[i::nb] for i in range(nb)] + [[n] for n in big]
        batch_jobs = []
        for gi, group in enumerate(groups):
            if not group:
                continue
            d = root / f"b{gi:04d}"
            mode = ["files", "files", "dotslash", "dir"][gi % 4] if len(group) > 1 else "files"
            sub = d / "pkg dir" if mode == "dir" else d
            sub.mkdir(parents=True)
            for n in group:
                (sub / n).write_bytes(files[n]["data"])
                files[n]["rel"] = f"pkg dir/{n}" if mode == "dir" else n
            argv_files = {"files": group, "dotslash": ["./" + n for n in group], "dir": ["pkg dir"]}[mode]
            batch_jobs.append((d, group, argv_files, mode))
        with ThreadPoolExecutor(16) as ex:
            results = list(ex.map(run_batch, batch_jobs))
        # a batch mypy refused as a whole: one file at a time
        retry = []
        for r in results:
            tb = r["err"] or "\n".join(r["other"])
            if r["failed"] and len(r["names"]) > 1 and "Traceback" in tb and ("get_source_lines" in tb or "is_ignored_via_comment" in tb):
                # a crash that may need the whole batch to reproduce (e.g. a diagnostic attributed to another file)
                res.violate(
                    "refurb crashed looking up the source line of a diagnostic in a multi-file run: the reported file/line pair does not exist",
                    {"kind": "crash-on-line-lookup", "layout": "multi-file"},
                    {
                        "files_b64": {files[n]["rel"]: b64(files[n]["data"]) for n in r["names"]},
                        "argv": r["argv"],
                        "observed": tb[-800:],
                        "required": "every diagnostic names one of the files and an existing line of it",
                        "how": "write the files (base64) into an empty directory, run python -m refurb <argv>",
                    },
                )
            if r["failed"] and len(r["names"]) > 1:
                for n in r["names"]:
                    retry.append((r["dir"], [n], [files[n]["rel"]], "files"))
        cap = 64 if quick else 400
        if len(retry) > cap:
            res.notes.append(f"{len(retry)} files were in batches refurb refused as a whole; only {cap} of them were re-run one at a time")
            res.bump("files_not_rerun_after_batch_failure", len(retry) - cap)
            retry = retry[:cap]
        if retry:
            with ThreadPoolExecutor(16) as ex:
                results = [r for r in results if not (r["failed"] and len(r["names"]) > 1)] + list(ex.map(run_batch, retry))
        res.bump("refurb_runs", len(batch_jobs) + len(retry))

        # the GitHub format names the same positions (never zero-based there either)
        gh_re = re.compile(r"^::error line=(-?\d+),col=(-?\d+),title=Refurb ([A-Z]{3,4})(\d+),file=(.*?)::")
        gh_sel = [r for r in results if not r["failed"] and r["diags"]][: (3 if quick else 12)]
        with ThreadPoolExecutor(16) as ex:
            gh_out = list(ex.map(lambda r: core.refurb_cli([*r["argv"], "--format", "github"], cwd=r["dir"], timeout=600), gh_sel))
        for r, (rc, out, err) in zip(gh_sel, gh_out):
            gh = sorted((os.path.normpath(m.group(5)), int(m.group(1)), int(m.group(2)), int(m.group(4))) for m in map(gh_re.match, out.split("\n")) if m)
            pl = sorted((os.path.normpath(d["file"]), d["line"], d["col"], d["code"]) for d in r["diags"])
            res.bump("github_format_runs")
            res.case(("github", tuple(r["names"][:3])))
            if gh != pl:
                diff = [x for x in gh if x not in pl][:3]
                res.violate(
                    f"--format github names other positions than the plain format, e.g. {diff} (plain has {[x for x in pl if x not in gh][:3]})",
                    {"kind": "github-format-position"},
                    {
                        "files_b64": {files[n]["rel"]: b64(files[n]["data"]) for n in r["names"]},
                        "argv": [*r["argv"], "--format", "github"],
                        "observed": diff,
                        "required": "line= and col= equal the line:column of the plain format (column + 1)",
                    },
                )

        # the GitHub format rewrites the file name (relative to the working directory): whatever it prints must still NAME the
        # checked file — also for files outside the working directory, in a sibling whose name merely starts like it
        with core.scratch("rv-c07gh-") as gd:
            layout = {"proj/in.py": "x = int(0)\n", "proj/sub/deep.py": "y = list()\n", "proj-old/mod.py": "z = int(0)\n", "projx/m.py": "w = int(0)\n", "other/omod.py": "v = int(0)\n"}
            for rel, src in layout.items():
                (gd / rel).parent.mkdir(parents=True, exist_ok=True)
                (gd / rel).write_text(src)
            (gd / "proj" / "pyproject.toml").write_text("")
            cwd = gd / "proj"
            spellings = ["in.py", "sub/deep.py", "../proj-old/mod.py", "../projx/m.py", "../other/omod.py", str(gd / "proj-old" / "mod.py"), str(gd / "proj" / "in.py"), "./sub/../in.py"]
            runs = [[sp, "--format", "github", "--quiet"] for sp in spellings] + [["in.py", "../proj-old/mod.py", "../other/omod.py", "--format", "github", "--quiet"]]
            with ThreadPoolExecutor(9) as ex:
                outs = list(ex.map(lambda a: core.refurb_cli(a, cwd=cwd, timeout=300), runs))
            for argv, (rc, out, err) in zip(runs, outs):
                given = {(cwd / a).resolve() for a in argv if a.endswith(".py")}
                res.case(("github-file", tuple(argv)))
                res.bump("github_file_name_runs")
                anns = [m for m in map(gh_re.match, out.split("\n")) if m]
                bad = [m.group(5) for m in anns if (cwd / m.group(5)).resolve() not in given]
                if err.strip() or rc not in (0, 1) or len(anns) != len(given) or bad:
                    res.violate(
                        f"--format github: `file=` does not name the checked file for {argv[:-3]} (printed: {[m.group(5) for m in anns]})",
                        {"kind": "github-format-file", "outside_cwd": any(a.startswith(("..", "/")) for a in argv)},
                        {"tree": layout, "cwd": "proj/", "argv": argv, "stdout": out[:600], "stderr": err[-400:],
                         "required": "one annotation per file whose file= value, resolved against the working directory, is the checked file",
                         "how": "create `tree` in an empty directory, cd proj, python -m refurb <argv>"},
                    )

        per_file: dict[str, list[dict[str, Any]]] = {n: [] for n in files}
        ran_ok: set[str] = set()
        for r in results:
            if r["failed"]:
                n = r["names"][0]
                res.bump("files_refused_by_mypy_or_crashed")
                tb = r["err"] or "\n".join(r["other"])
                if "Traceback" in tb and ("get_source_lines" in tb or "is_ignored_via_comment" in tb):
                    res.violate(
                        "refurb crashed looking up the source line of a diagnostic: the reported line does not exist",
                        {"kind": "crash-on-line-lookup", "layout": "+".join(files[n]["recipe"])},
                        replay_entry(n, files[n]["data"], r["argv"], tb[-800:], "every diagnostic names an existing line"),
                    )
                elif "Traceback" in tb:
                    res.notes.append(f"refurb crashed on {files[n]['base']} {files[n]['recipe']}: {tb.strip().splitlines()[-1][:200]} (not a C07 matter; see C03)")
                continue
            allowed = {(r["dir"] / files[n]["rel"]).resolve(): n for n in r["names"]}
            ran_ok.update(r["names"])
            for dg in r["diags"]:
                p = (r["dir"] / dg["file"]).resolve()
                n = allowed.get(p)
                if n is None:
                    res.violate(
                        f"diagnostic names {dg['file']!r}, which is not one of the files being checked",
                        {"kind": "wrong-file", "code": f"{dg['prefix']}{dg['code']}"},
                        {"argv": r["argv"], "files": sorted(r["names"]), "observed": dg, "required": "file is one of the arguments"},
                    )
                    continue
                dg["argv"] = r["argv"]
                dg["mode"] = r["mode"]
                per_file[n].append(dg)

    # ---------------------------------------------------------------- the oracle
    tables: dict[str, Table] = {}
    base_tokens: dict[str, dict[tuple[str, str], list[tuple[str, str] | None]]] = {}

    def table_of(n: str) -> Table:
        if n not in tables:
            tables[n] = Table(files[n]["data"])
        return tables[n]

    def grouped(n: str) -> dict[tuple[str, str], list[tuple[str, str] | None]]:
        g: dict[tuple[str, str], list[tuple[str, str] | None]] = {}
        t = table_of(n)
        for dg in sorted(per_file[n], key=lambda x: (x["line"], x["col"])):
            g.setdefault((f"{dg['prefix']}{dg['code']}", dg["msg"]), []).append(t.token(dg["line"], dg["col"]))
        return g

    for n, info in files.items():
        if info.get("is_base") and n in ran_ok:
            base_tokens[info["base"]] = grouped(n)

    codes_seen: dict[str, int] = {}
    codes_seen_transformed: dict[str, int] = {}
    viol_count: dict[str, int] = {}
    pos_reqs, pos_meta = [], []
    n_meta_checked = n_meta_skipped = 0
    for n in sorted(files):
        info = files[n]
        if n not in ran_ok:
            continue
        t = table_of(n)
        starts = None
        gv = grouped(n) if (not info.get("is_base") and info["base"] in base_tokens) else None
        order: dict[tuple[str, str], int] = {}
        ps = []
        for dg in sorted(per_file[n], key=lambda x: (x["line"], x["col"])):
            code = f"{dg['prefix']}{dg['code']}"
            line, col = dg["line"], dg["col"]
            nontrivial = not info.get("is_base")
            res.case((info["base"], tuple(info["recipe"]), code, line, col, n if "enum" in info else ""), nontrivial=nontrivial)
            codes_seen[code] = codes_seen.get(code, 0) + 1
            if nontrivial:
                codes_seen_transformed[code] = codes_seen_transformed.get(code, 0) + 1
            for tr in info["recipe"]:
                res.bump("diag_under_" + tr)
            ps.append([line, col])
            lo, co, to = t.judge(line, col)
            tok = t.token(line, col)
            kind = None
            required = "a token of the file starts at the printed line:column"
            if not lo:
                kind = "line-out-of-range"
            elif col < 1:
                kind = "column-not-positive"
            elif not co:
                kind = "column-beyond-line"
            elif not to:
                kind = "no-token-starts-there"
            elif code in INTENDED and tok != INTENDED[code]:
                # compatibility spellings normalise to the same identifier
                import unicodedata

                if not (tok and tok[0] == "NAME" and unicodedata.normalize("NFKC", tok[1]) == INTENDED[code][1]):
                    kind = "other-token-than-intended"
                    required = f"the position of the `{INTENDED[code][1]}` token"
            elif code in STATEMENT_CHECKS:
                if starts is None:
                    starts = stmt_starts(info["data"])
                if (line, col - 1) not in starts:
                    kind = "other-token-than-intended"
                    required = "the first token of a statement"
            key = (code, dg["msg"])
            i = order.get(key, 0)
            order[key] = i + 1
            if kind is None and gv is not None:
                bt = base_tokens[info["base"]].get(key)
                if bt is not None and len(bt) == len(gv[key]):
                    n_meta_checked += 1
                    if starts is None:
                        starts = stmt_starts(info["data"])
                    # a parenthesised expression statement starts at its parenthesis (the expression inside does not)
                    stmt_paren = tok == ("OP", "(") and (line, col - 1) in starts
                    if bt[i] is not None and tok is not None and bt[i] != tok and not stmt_paren:
                        kind = "other-token-than-in-plain-layout"
                        required = f"the same token as in the untransformed program: {bt[i]}"
                else:
                    n_meta_skipped += 1
            if kind:
                layout = classify_computed(code, info["data"], line, col) if code in COMPUTED else "any"
                sig = {"code": code, "kind": kind, "layout": layout}
                sk = json.dumps(sig, sort_keys=True)
                viol_count[sk] = viol_count.get(sk, 0) + 1
                if viol_count[sk] <= 2:
                    src_line = t.lines[line - 1] if lo else None
                    res.violate(
                        f"{code} reported at {line}:{col} ({kind}; layout {layout}; transforms {info['recipe']}): line is {src_line!r}, token there: {tok}",
                        sig,
                        replay_entry(
                            n,
                            info["data"],
                            [n, "--enable-all", "--quiet"],
                            f"{dg['file']}:{line}:{col} [{code}]: {dg['msg']}",
                            required,
                            {"source_line": src_line, "token_at_position": tok, "base_program": info["base"], "transforms": info["recipe"]},
                        ),
                    )
        if ps and (quick or len(pos_reqs) < 3000) and len(t.lines) <= 2500:
            pos_reqs.append({"verb": "pos_check", "lines": t.wire(), "ps": ps})
            pos_meta.append((n, ps))
    res.distribution["diagnostics_by_code"] = dict(sorted(codes_seen.items()))
    res.distribution["codes_seen"] = len(codes_seen)
    res.distribution["codes_seen_under_transformed_layouts"] = len(codes_seen_transformed)
    res.distribution["metamorphic_token_checks"] = n_meta_checked
    res.distribution["metamorphic_skipped_count_differs"] = n_meta_skipped
    res.distribution["violations_by_signature"] = viol_count
    all_codes = {f"{r['prefix']}{r['code']}" for r in extract.catalogue_rows()}
    missing = sorted(all_codes - set(codes_seen_transformed))
    if missing:
        res.notes.append(f"checks with no diagnostic under any transformed layout in this run: {missing}")
    shown = 0
    for n in sorted(files):
        if files[n]["recipe"] and per_file[n] and shown < 4 and "enum" not in files[n]:
            dg = per_file[n][0]
            res.sample({"base": files[n]["base"], "transforms": files[n]["recipe"], "diag": f"{dg['line']}:{dg['col']} {dg['prefix']}{dg['code']}", "token": table_of(n).token(dg["line"], dg["col"])})
            shown += 1

    # ---------------------------------------------------------------- correspondence
    if not ctx.driver.available():
        res.disagreements.append({"where": "driver", "reason": "driver executable not built"})
        return
    # (1) ValidPos (Lean) vs the oracle above, on every diagnostic
    for (n, ps), ans in zip(pos_meta, ctx.driver.batch(pos_reqs)):
        t = table_of(n)
        for p, a in zip(ps, ans):
            mine = list(t.judge(p[0], p[1]))
            res.bump("pos_check")
            if a != mine:
                res.disagree("pos_check", {"file": files[n]["base"], "transforms": files[n]["recipe"], "pos": p}, a, mine)

    # (2) enumerated layouts
    from ..extract_c07 import probe_expandtabs_line_field

    try:
        field = probe_expandtabs_line_field()
    except Exception as e:  # noqa: BLE001 — already recorded as an extraction error; the model keeps the last generated value
        field = ""
        res.notes.append(f"FURB106 probe failed ({e}); correspondence uses the last generated line field")
    for n in sorted(files):
        ef = files[n].get("enum")
        if ef is None:
            continue
        text = ef["text"]
        if n not in ran_ok:
            res.disagree("enum-run", {"kind": ef["kind"]}, "diagnostics", "refurb refused the enumerated file")
            continue
        t = table_of(n)
        tree = ast.parse(text)
        offs = line_offsets(text)

        def loc(o: int) -> list[int]:
            import bisect

            r = bisect.bisect_right(offs, o)
            return [r, len(text[offs[r - 1] : o].encode("utf8"))]

        diags = per_file[n]
        if ef["kind"] == "abc":
            reqs = [
                {"verb": "pos_abc", "pre": pieces(text[: it["kw"]]), "klen": it["klen"], "g1": pieces(text[it["kw"] + len(it["desc"]["kw"]) : it["eq"]]), "g2": pieces(text[it["eq"] + 1 : it["val"]])}
                for it in ef["items"]
            ]
            kwpos = {}
            for c in ast.walk(tree):
                if isinstance(c, ast.ClassDef):
                    for kw in c.keywords:
                        if kw.arg == "metaclass":
                            kwpos[c.lineno] = ([kw.lineno, kw.col_offset], [kw.value.lineno, kw.value.col_offset])
            for it, a in zip(ef["items"], ctx.driver.batch(reqs)):
                res.case(("abc", json.dumps(it["desc"], sort_keys=True)))
                res.bump("enum_abc")
                real_kw, real_val = kwpos.get(it["first_line"], (None, None))
                got = [[d["line"], d["col"] - 1] for d in diags if d["code"] == 180 and it["first_line"] <= d["line"] <= it["last_line"]]
                impl = {"kw": real_kw, "value": real_val, "stored": got[0] if len(got) == 1 else got}
                model = {"kw": a["kw"], "value": a["value"], "stored": a["stored"]}
                if model != impl or a["kw"] != loc(it["kw"]):
                    res.disagree("pos_abc", it["desc"], model, impl)
                valid_real = got == [real_kw] if real_kw else None
                if a["valid"] != valid_real:
                    res.disagree("pos_abc.valid", it["desc"], a["valid"], valid_real)
                res.bump("enum_abc_valid" if a["valid"] else "enum_abc_invalid")
        elif ef["kind"] == "tabs":
            reqs, owner = [], []
            for ii, it in enumerate(ef["items"]):
                for l in it["layouts"]:
                    reqs.append({"verb": "pos_tabs", "pre": pieces(text[: l["recv"]]), "mid": pieces(text[l["recv"] : l["attr"]]), "alen": l["alen"], "field": field})
                    owner.append((ii, l))
            answers = ctx.driver.batch(reqs)
            attrs = {}
            for c in ast.walk(tree):
                if isinstance(c, ast.Attribute) and c.attr == "replace":
                    attrs[(c.end_lineno, c.end_col_offset)] = [c.lineno, c.col_offset]
            model_by_item: dict[int, list[list[int]]] = {}
            for (ii, l), a in zip(owner, answers):
                it = ef["items"][ii]
                res.case(("tabs", json.dumps(it["desc"], sort_keys=True), l["attr"] - l["recv"]))
                res.bump("enum_tabs")
                res.bump("enum_tabs_valid" if a["valid"] else "enum_tabs_invalid")
                model_by_item.setdefault(ii, []).append(a["stored"])
                real_attr = loc(l["attr"])
                real_recv = attrs.get((real_attr[0], real_attr[1] + l["alen"]))
                if a["attr"] != real_attr or a["recv"] != real_recv:
                    res.disagree("pos_tabs.tokens", it["desc"], {"recv": a["recv"], "attr": a["attr"]}, {"recv": real_recv, "attr": real_attr})
            for ii, it in enumerate(ef["items"]):
                got = sorted([d["line"], d["col"] - 1] for d in diags if d["code"] == 106 and it["first_line"] <= d["line"] <= it["last_line"])
                if sorted(model_by_item.get(ii, [])) != got:
                    res.disagree("pos_tabs", it["desc"], sorted(model_by_item.get(ii, [])), got)
        else:
            blocks = extend_blocks(text)
            answers = ctx.driver.batch([{"verb": "pos_extend", "stmts": b["stmts"]} for b in blocks])
            model_all = sorted(p for a in answers for p in a)
            got_all = sorted([d["line"], d["col"] - 1] for d in diags if d["code"] == 113)
            for b in blocks:
                res.case(("extend", json.dumps(b["stmts"])), nontrivial=any(s[2] for s in b["stmts"]))
                res.bump("enum_extend_blocks")
            if model_all != got_all:
                only_model = [p for p in model_all if p not in got_all]
                only_impl = [p for p in got_all if p not in model_all]
                lines = text.split("\n")
                res.disagree("pos_extend", {"near": [lines[p[0] - 1] for p in (only_model + only_impl)[:4]]}, only_model[:6], only_impl[:6])
            res.bump("enum_extend_errors", len(got_all))

    # (3) the three formatters print column + 1 (in-process) = Pos.render
    from refurb.error import Error
    from refurb.main import format_as_github_annotation, format_with_color

    E = type("E", (Error,), {"prefix": "FURB", "code": 999})
    fm_reqs, fm_impl = [], []
    for line in (1, 7, 12345):
        for col in (-10, -1, 0, 1, 8, 79, 4095):
            e = E(line, col, "msg", "f.py")
            plain = core.DIAG_RE.match(str(e))
            gh = re.match(r"^::error line=(-?\d+),col=(-?\d+),", format_as_github_annotation(e))
            co = re.sub(r"\x1b\[[0-9;]*m", "", format_with_color(E(line, col, "msg", "f.py")))
            cm = core.DIAG_RE.match(co)
            fm_impl.append([[int(plain.group("line")), int(plain.group("col"))], [int(gh.group(1)), int(gh.group(2))], [int(cm.group("line")), int(cm.group("col"))]])
            fm_reqs.append({"verb": "pos_from_node", "line": line, "col": col, "end_line": line, "end_col": col + 3})
    for rq, a, impl in zip(fm_reqs, ctx.driver.batch(fm_reqs), fm_impl):
        res.case(("render", rq["line"], rq["col"]))
        res.bump("render")
        if not all(x == a["printed"] for x in impl):
            res.disagree("render", rq, a["printed"], impl)

    # ---------------------------------------------------------------- the same path checked again after it was rewritten
    # (several runs in one process: an editor integration, a test harness): the second report's positions are positions of the
    # file AS IT IS NOW
    from . import c11 as _c11

    v1 = 'import os\nx = int(0)\n\n\ndef f(p: str) -> str:\n    return os.path.join(p, "a")\n'
    v2 = '"""a docstring that was not there before"""\n\nimport os\n\nunrelated_name_here = None\nyy = {"k": [int(0)]}\n\n\ndef f(p: str) -> str:\n    if p:\n        return os.path.join(p, "a")\n    return p\n'
    with core.scratch("rv-c07h-") as hd:
        (hd / "pyproject.toml").write_text("")
        (hd / "module.py").write_text(v1)
        plan = [{"op": "run", "argv": ["module.py", "--enable-all", "--quiet"]}, {"op": "write", "path": "module.py", "text": v2},
                {"op": "run", "argv": ["module.py", "--enable-all", "--quiet"]}, {"op": "write", "path": "module.py", "text": v1},
                {"op": "run", "argv": ["module.py", "--enable-all", "--quiet"]},
                # the same report as a terminal and as a GitHub workflow get it
                {"op": "run", "argv": ["module.py", "--enable-all", "--quiet"], "color": True},
                {"op": "run", "argv": ["module.py", "--enable-all", "--quiet", "--format", "github"]}]
        outs_h = _c11.in_process(hd, plan, "rewrite")
    starts_v1 = {(t.start[0], len(v1.split("\n")[t.start[0] - 1][: t.start[1]].encode("utf8")) + 1) for t in toks_of(v1) if t.type not in (tokenize.NEWLINE, tokenize.NL, tokenize.INDENT, tokenize.DEDENT, tokenize.ENDMARKER, tokenize.COMMENT)}
    plain_v1 = sorted((x["line"], x["col"]) for x in core.parse_plain(outs_h[2])[0])
    for name_r, out_r in (("coloured (terminal)", re.sub(r"\x1b\[[0-9;]*m", "", outs_h[3])), ("GitHub annotation", outs_h[4])):
        if name_r.startswith("GitHub"):
            got_r = sorted((int(a), int(b)) for a, b in re.findall(r"^::error line=(-?\d+),col=(-?\d+),", out_r, flags=re.M))
        else:
            got_r = sorted((x["line"], x["col"]) for x in core.parse_plain(out_r)[0])
        res.case(("rendering-positions", name_r))
        res.bump("rendering_position_runs")
        bad_r = [p for p in got_r if p not in starts_v1]
        if bad_r or got_r != plain_v1:
            res.violate(
                f"the {name_r} rendering of a report places a diagnostic at {(bad_r or got_r)[0][0]}:{(bad_r or got_r)[0][1]}, " + ("where no token of the file starts" if bad_r else "not where the plain rendering of the same run does"),
                {"kind": "rendering-position", "rendering": name_r.split()[0]},
                {"file": v1, "report": out_r, "plain_positions": plain_v1, "positions": got_r, "how": "refurb.main.run_refurb + format_errors in one process (harness/props/c11.py:WORKER) with settings.color set / --format github"},
            )
    outs_h = outs_h[:3]
    for step, (text_now, out_h) in enumerate(zip((v1, v2, v1), outs_h)):
        diags_h, _oth = core.parse_plain(out_h)
        starts = {(t.start[0], len(text_now.split("\n")[t.start[0] - 1][: t.start[1]].encode("utf8")) + 1) for t in toks_of(text_now) if t.type not in (tokenize.NEWLINE, tokenize.NL, tokenize.INDENT, tokenize.DEDENT, tokenize.ENDMARKER, tokenize.COMMENT)}
        res.case(("rewritten-between-runs", step))
        res.bump("in_process_rewrite_runs")
        bad_h = [x for x in diags_h if (x["line"], x["col"]) not in starts]
        if bad_h or not diags_h:
            res.violate(
                f"run #{step + 1} in one process, after the file was rewritten: " + (f"{bad_h[0]['prefix']}{bad_h[0]['code']} is reported at {bad_h[0]['line']}:{bad_h[0]['col']} where no token of the CURRENT file starts" if bad_h else "no diagnostic at all"),
                {"kind": "stale-position-after-rewrite"},
                {"file_now": text_now, "report": out_h, "plan": "run; rewrite module.py; run; rewrite it back; run (harness/props/c11.py:WORKER)", "how": "refurb.main.run_refurb(load_settings([...])) three times in one process with the file rewritten in between"},
            )
            break

    res.assumptions += [
        "FirstTokenInvariant: mypy gives every node the line / UTF-8 byte column of its first token (and the end of its last token as end_line/end_column); "
        "assumed by from_node_valid, list_extend_valid and the layout models, validated by the tokenizer oracle on every diagnostic of this run and by the "
        "correspondence on the enumerated layouts",
        "a column is judged as a UTF-8 byte offset + 1 (the convention of ast/mypy), also on non-ASCII lines; for a file with a coding cookie: bytes of the decoded line re-encoded as UTF-8",
        "Python 3.12 tokenize is the referent for 'lexical token' (f-string pieces are tokens; a replacement field's root expression is positioned at its opening brace)",
        f"FURB106 line field probed from the working tree: {field}",
    ]
    res.not_proved += [
        "that mypy satisfies FirstTokenInvariant (external; oracle-validated only)",
        "the layout transformations are validated per variant (ast.dump equality), not proved ast-preserving",
    ]


def replay(path) -> int:
    d = json.loads(Path(path).read_text())
    r = d.get("replay", d)
    with core.scratch("rv-c07r-") as root:
        blobs = {}
        for n, b in r.get("files_b64", {}).items():
            blobs[n] = base64.b64decode(b)
        for n, text in r.get("files", {}).items():
            blobs.setdefault(n, text.encode("utf8"))
        for n, data in blobs.items():
            (root / n).parent.mkdir(parents=True, exist_ok=True)
            (root / n).write_bytes(data)
        rc, out, err = core.refurb_cli(r["argv"], cwd=root)
        print(out + err)
        diags, _ = core.parse_plain(out)
        bad = 0
        for dg in diags:
            data = blobs.get(os.path.normpath(dg["file"]))
            if data is None:
                print(f"NOT A CHECKED FILE: {dg['file']}")
                bad += 1
                continue
            t = Table(data)
            verdict = t.judge(dg["line"], dg["col"])
            tok = t.token(dg["line"], dg["col"])
            code = f"{dg['prefix']}{dg['code']}"
            wrong = not all(verdict) or (code in INTENDED and tok != INTENDED[code])
            print(f"{'VIOLATES' if wrong else 'ok      '} {dg['file']}:{dg['line']}:{dg['col']} [{code}] line-exists/column-in-line/token-starts = {verdict} token = {tok}")
            bad += wrong
        print("required:", r.get("required"))
    return 1 if bad else 0
