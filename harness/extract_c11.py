"""Translator for C11: does a run start from a clean line cache?  (by execution, in a fresh process)"""

from __future__ import annotations

import json
import subprocess
import textwrap

from . import core, extract
from .extract import HEADER, lbool

PROBE = textwrap.dedent(
    """
    import json, sys
    import refurb.main as m
    from refurb.settings import Settings
    open("stale.py", "w").write("x = 1\\n")
    open("f.py", "w").write("y = 2\\n")
    cached = hasattr(m.get_source_lines, "cache_info")
    m.get_source_lines("stale.py")
    open("stale.py", "w").write("x = 1  # changed\\n")
    m.run_refurb(Settings(files=["f.py"], quiet=True))
    # what would a noqa lookup for stale.py see now?
    seen = m.get_source_lines("stale.py")
    json.dump({"fresh_after_run": bool(seen) and seen[0] == "x = 1  # changed", "cached": cached}, open("_out.json", "w"))
    """
)


@extract.register("History")
def gen_history() -> str:
    with core.scratch("rv-c11x-") as d:
        (d / "_probe.py").write_text(PROBE)
        p = subprocess.run([core.PY, "_probe.py"], cwd=d, capture_output=True, text=True, timeout=300, env=core.py_env())
        if p.returncode != 0:
            raise RuntimeError("history probe failed: " + p.stderr[-1500:])
        out = json.loads((d / "_out.json").read_text())
    return (
        HEADER
        + "namespace RefurbVerif.Generated\n\n"
        + "/-- after `run_refurb` has started, a source-line lookup sees the file as it is now, even if the path was read\n"
        + "    earlier in this process (observed by execution: populate the cache, edit the file, run, look again) -/\n"
        + "def runStartsWithFreshLines : Bool := %s\n" % lbool(out["fresh_after_run"])
        + "\nend RefurbVerif.Generated\n"
    )
