/-
C02 — code quoted in a diagnostic is the user's code, and is valid Python.

`Der ℓ ts e` (Lemmas/Grammar.lean): the token list `ts` is derived from the non-terminal of level `ℓ` of Python's
expression grammar and denotes the tree `e` (one constructor per production; canonical spacing, spaces are
tokens).  `e` is the tree as the user wrote it (`Node` with f-strings as `.fstr`); `desugar e` is what mypy hands
to refurb; `sfy`/`stringify` are refurb's `_stringify`/`stringify`; `ppRef` is the precedence-aware printer.

All statements are for trees of any size and depth.
-/
import RefurbVerif.Lemmas.StringifyEq
import RefurbVerif.Lemmas.Templates

namespace RefurbVerif.C02
open RefurbVerif.Sfy

/-- **The reference printer is faithful.** For every expression tree the Python parser can produce (any size,
    any nesting), the text the precedence-aware printer gives is derived by Python's grammar *as that tree*: this
    is what `_stringify` would satisfy if it parenthesised children by the level of their position. -/
theorem pp_faithful (e : Node) (h : wf e = true) : Der 1 (ppRef e) e :=
  sub_der (pr_der e h) (by omega)


/-! ### `_stringify`: the full statement, its refutation, and the part that holds -/

/-- **Full statement (false of the current code).** Whatever expression the user wrote, the text refurb quotes for
    it parses back, as a Python expression, to that very expression. -/
def Faithful : Prop := ∀ e : Node, wf e = true → Der 1 (stringify (desugar e)) e

/-- Under the guard `safe` (and unless the whole expression is a bare walrus) refurb prints exactly the
    reference text … -/
theorem stringify_eq_ppRef (e : Node) (hw : wf e = true) (hs : safe e = true) (hp : 1 ≤ e.prec) :
    stringify (desugar e) = ppRef e := by
  simp [stringify, sfy_desugar e hw hs, orX, ppRef, wrap_ge _ hp]

/-- **The part that holds.** … and therefore the quoted text is the user's expression: if no operand needs
    parentheses in its position (`safe`: every child has at least the precedence its position requires), no
    unsupported node, no slice inside a tuple subscript, no call shaped like a desugared f-string, and every
    f-string consists of brace-free chunks and conversion-free fields, then the text `stringify` returns is
    derived by Python's grammar as the very tree the user wrote. Any size, any nesting. -/
theorem stringify_faithful_partial (e : Node) (hw : wf e = true) (hs : safe e = true) (hp : 1 ≤ e.prec) :
    Der 1 (stringify (desugar e)) e := by
  rw [stringify_eq_ppRef e hw hs hp]
  exact pp_faithful e hw

private def na : Node := .name ['a']
private def nb : Node := .name ['b']
private def nc : Node := .name ['c']

/-- **Refutation: two trees, one text.** `(a + b) * c` and `a + b * c` are different well-formed expressions and
    refurb quotes both as `a + b * c`. -/
theorem stringify_refuted :
    ∃ a b : Node, wf a = true ∧ wf b = true ∧ a ≠ b ∧ stringify (desugar a) = stringify (desugar b) :=
  ⟨.op .mul (.op .add na nb) nc, .op .add na (.op .mul nb nc),
    by simp [wf, na, nb, nc, isName, isIdent, isIdentStart, keywords],
    by simp [wf, na, nb, nc, isName, isIdent, isIdentStart, keywords],
    by simp, by decide⟩

/-- a text names at most one tree: true of CPython's parser (a function), not proved of `Der` -/
def Unambiguous : Prop := ∀ ts a b, Der 1 ts a → Der 1 ts b → a = b

/-- … so the full statement fails as soon as a text denotes at most one tree (which is the case for CPython's
    parser; the harness checks on every run that the two witnesses' common text parses to the second tree). -/
theorem faithful_refuted (hu : Unambiguous) : ¬ Faithful := by
  intro hf
  let a : Node := .op .mul (.op .add na nb) nc
  let b : Node := .op .add na (.op .mul nb nc)
  have hwa : wf a = true := by simp [a, wf, na, nb, nc, isName, isIdent, isIdentStart, keywords]
  have hwb : wf b = true := by simp [b, wf, na, nb, nc, isName, isIdent, isIdentStart, keywords]
  have hsb : safe b = true := by simp [b, safe, na, nb, nc, BinOp.lhs, BinOp.rhs, BinOp.prec, Node.prec]
  have h1 := hf a hwa
  have h2 := stringify_faithful_partial b hwb hsb (by decide)
  have he : stringify (desugar a) = stringify (desugar b) := by decide
  rw [he] at h1
  exact absurd (hu _ _ _ h1 h2) (by simp [a, b])

/-- the reference printer gives different trees different texts, under the same assumption -/
theorem ppRef_injective (hu : Unambiguous) (a b : Node) (ha : wf a = true) (hb : wf b = true)
    (h : ppRef a = ppRef b) : a = b :=
  hu _ _ _ (pp_faithful a ha) (h ▸ pp_faithful b hb)

/-! Further witnesses, one per way the printed text goes wrong (each is validated against CPython by the harness:
    the text parses to another tree, or not at all). -/

/-- unary operand: `-(a + b)` is quoted as `-a + b` -/
theorem refuted_unary : stringify (desugar (.unary .neg (.op .add na nb))) = stringify (desugar (.op .add (.unary .neg na) nb)) := by
  decide

/-- callee: `(lambda: a)()` is quoted as `lambda: a()` -/
theorem refuted_callee : stringify (desugar (.call (.lambda [] (some na)) [])) = stringify (desugar (.lambda [] (some (.call na [])))) := by
  decide

/-- f-string: `f"{{x}}{a}"` (a literal `{x}`) is quoted as `f"{x}{a}"` (a field `x`) -/
theorem refuted_fstring_braces :
    render (stringify (desugar (.fstr [.str "{x}".toList, .ffield na none []])))
      = render (stringify (desugar (.fstr [.ffield (.name ['x']) none [], .ffield na none []]))) := by
  decide

/-- f-string with a conversion: `f"{a!r}"` is quoted in mypy's desugared form `"{!r:{}}".format(a, "")` -/
theorem refuted_fstring_conv :
    stringify (desugar (.fstr [.ffield na (some 'r') []]))
      = stringify (desugar (.call (.member (.str "{!r:{}}".toList) sFormat) [(.pos, [], na), (.pos, [], .str [])])) := by
  decide

/-- a call the user wrote in the desugared shape is quoted as an f-string -/
theorem refuted_fake_fstring :
    stringify (desugar (.call (.member (.str fmtFormat) sFormat) [(.pos, [], na), (.pos, [], .str [])]))
      = stringify (desugar (.fstr [.ffield na none []])) := by
  decide

/-! ### Placeholders

`stringify` (as opposed to `_stringify`) is used for the base and the index of a subscript, the bounds of a slice,
the items of list/tuple/set displays, the keys and values of a dict display and both sides of an assignment: an
operand refurb cannot print becomes the documented placeholder `x` instead of failing the whole message. -/

/-- the operand as `stringify` treats it: itself if `_stringify` can print it, the name `x` otherwise -/
def phOr (c : Node) : Node := if (sfy c).isSome then c else .name ['x']

/-- the placeholder is printable, and replacing an unprintable operand by it beforehand changes nothing -/
theorem stringify_phOr (c : Node) : (sfy (phOr c)).isSome = true ∧ orX (sfy (phOr c)) = orX (sfy c) := by
  unfold phOr
  cases h : sfy c <;> simp [h, sfy, orX, xTok, unmangle, isMangleChar]

theorem sfyItems_phOr : ∀ items : List Node, sfyItems (items.map phOr) = sfyItems items
  | [] => rfl
  | x :: rest => by simp [sfyItems, (stringify_phOr x).2, sfyItems_phOr rest]

/-- **Placeholder lemma (one step).** What refurb prints for a subscript, a list, a tuple or a set is what it
    prints for the same node with every unprintable operand replaced by the name `x`: the result is the text of a
    tree that matches the user's up to that wildcard, and whose operands all print. Together with
    `stringify_faithful_partial` for the replaced tree this is why the oracle treats `x` as a wildcard. -/
theorem placeholder_sites (b i : Node) (items : List Node) :
    sfy (.index b i) = sfy (.index (phOr b) (phOr i)) ∧
    sfy (.list items) = sfy (.list (items.map phOr)) ∧
    sfy (.tuple items) = sfy (.tuple (items.map phOr)) ∧
    sfy (.set items) = sfy (.set (items.map phOr)) := by
  refine ⟨?_, ?_, ?_, ?_⟩
  · simp [sfy, (stringify_phOr b).2, (stringify_phOr i).2]
  · simp [sfy, sfyItems_phOr]
  · simp [sfy, sfyItems_phOr]
  · simp [sfy, sfyItems_phOr]

/-- e.g. `[*a, b]`: refurb has no case for a starred item and prints `[x, b]` -/
example : render (stringify (.list [.star na, nb])) = "[x, b]".toList := by decide

/-! ### Fragments in the holes of a message template -/

/-- **Fragment in hole.** A template is a tree `T` with holes; its text is the reference text of `T` with a marker
    where each hole is. If the fragment put into every hole derives — at the level that hole's position requires
    (`reqs`: 16 before `.attr`/`[…]`/`(…)`, 4/3 around `or`, 7 in a comparison, 3 in an f-string field, 1 after
    `key=`, 0 as a plain argument …) — the tree `σ i`, then the filled text derives the template's tree with the
    `σ i` in the holes. In particular it parses. Any template, any fragments. -/
theorem fragment_in_hole (T : Node) (f : Nat → Toks) (σ : Nat → Node) (hT : wfT T = true)
    (h : ∀ r ∈ reqs 1 false false T, Meets f σ r) :
    Der 1 (fillT f (wrap 1 T.prec (pr T))) (fillN σ T) :=
  fill_sub f σ T 1 (by omega) false false hT h

/-- what `stringify` prints for an operand meets a hole's demand as soon as the operand is safe and binds at
    least as tightly as the hole requires -/
theorem meets_of_meetsB (σ : Nat → Node) (r : Req) (h : meetsB r (σ r.hole) = true) :
    Meets (fun i => stringify (desugar (σ i))) σ r := by
  have ⟨⟨⟨⟨⟨hw, hs⟩, hp⟩, h17⟩, hni⟩, hnb⟩ :
      (((((wf (σ r.hole) = true ∧ safe (σ r.hole) = true) ∧ r.level ≤ (σ r.hole).prec) ∧ r.level ≤ 17) ∧
        (r.notInt = false ∨ isIntLit (σ r.hole) = false)) ∧ (r.noBrace = false ∨ startsWithBrace (pr (σ r.hole)) = false)) := by
    simpa [meetsB] using h
  have heq : stringify (desugar (σ r.hole)) = pr (σ r.hole) := by simp [stringify, sfy_desugar _ hw hs, orX]
  refine ⟨h17, ?_, ?_, ?_⟩
  · show Der r.level (stringify (desugar (σ r.hole))) (σ r.hole)
    rw [heq]; exact Der.up hp (pr_der _ hw)
  · intro hn; rcases hni with h | h
    · simp [hn] at h
    · exact h
  · intro hn
    show startsWithBrace (stringify (desugar (σ r.hole))) = false
    rw [heq]; rcases hnb with h | h
    · simp [hn] at h
    · exact h

/-- **A check's message is faithful when its operands fit its holes.** The text a check builds by putting
    `stringify(operand)` into the holes of its template denotes the template's tree over the operands, provided
    every operand is safe and has at least the precedence its hole requires (`meetsB`, decidable; the driver
    evaluates it for every diagnostic the harness sees and the oracle must agree). -/
theorem template_faithful (T : Node) (σ : Nat → Node) (hT : wfT T = true)
    (h : ∀ r ∈ reqs 1 false false T, meetsB r (σ r.hole) = true) :
    Der 1 (fillT (fun i => stringify (desugar (σ i))) (wrap 1 T.prec (pr T))) (fillN σ T) :=
  fragment_in_hole T _ σ hT (fun r hr => meets_of_meetsB σ r (h r hr))

/-- every committed template is well-formed … -/
theorem templates_wf : ∀ t ∈ templates, wfT t.shape = true := by
  simp [templates, wfT, T.h, T.nm, T.att, T.call, T.meth, T.sliceAll, fillN, fillNL, fillNA, fillNO, fillNC, fillNP, wf,
    wfArgs, wfItems, wfIndex, wfOpt, wfCmp, wfParts, noAdjLits, isFieldB, argsOrdered, dummy, isName, isIdent,
    isIdentStart, isIdentChar, keywords, constNames, hasBrace]

/-- … and these are the levels its holes require: e.g. the operand of FURB145's `{0}[:]` / `{0}.copy()` must be a
    primary (16) and not a bare integer; FURB110's `{0} or {1}` needs levels 4 and 3; FURB171's `{0} == {1}` needs 7
    on both sides; an f-string field needs 3 and no leading brace; a plain call argument needs nothing (0). -/
theorem templates_levels :
    templateReqs.map (fun t => (t.1, t.2.1, t.2.2.map (fun r => (r.hole, r.level, r.notInt, r.noBrace)))) = [
      ("FURB145", "old", [(0, 16, false, false)]), ("FURB145", "new", [(0, 16, true, false)]),
      ("FURB110", "old", [(0, 3, false, false), (0, 3, false, false), (1, 1, false, false)]),
      ("FURB110", "new", [(0, 4, false, false), (1, 3, false, false)]),
      ("FURB143", "old", [(0, 4, false, false), (1, 3, false, false)]), ("FURB143", "new", [(0, 1, false, false)]),
      ("FURB129", "old", [(0, 16, true, false)]), ("FURB129", "new", [(0, 1, false, false)]),
      ("FURB185", "old", [(0, 16, true, false)]), ("FURB185", "new", [(0, 1, false, false)]),
      ("FURB131", "new", [(0, 16, true, false)]),
      ("FURB115", "new", [(0, 5, false, false)]), ("FURB115", "new", [(0, 1, false, false)]),
      ("FURB149", "new", [(0, 5, false, false)]), ("FURB149", "new", [(0, 1, false, false)]),
      ("FURB166", "old", [(0, 16, false, false), (1, 0, false, false)]), ("FURB166", "new", [(0, 0, false, false)]),
      ("FURB169", "old", [(0, 0, false, false)]), ("FURB169", "new", [(0, 7, false, false)]),
      ("FURB169", "old", [(0, 0, false, false)]), ("FURB169", "new", [(0, 7, false, false)]),
      ("FURB171", "old", [(0, 7, false, false), (1, 0, false, false)]),
      ("FURB171", "new", [(0, 7, false, false), (1, 7, false, false)]),
      ("FURB183", "old", [(0, 3, false, true)]), ("FURB183", "new", [(0, 0, false, false)]),
      ("FURB116", "new", [(0, 3, false, true)]),
      ("FURB123", "old", [(1, 16, false, false), (0, 0, false, false)]),
      ("FURB123", "new", [(0, 1, false, false)]), ("FURB123", "new", [(0, 16, true, false)]),
      ("FURB122", "new", [(0, 16, true, false), (1, 0, false, false)]),
      ("FURB132", "new", [(0, 16, true, false), (1, 0, false, false)]),
      ("FURB142", "new", [(0, 16, true, false), (1, 0, false, false)]),
      ("FURB142", "new", [(0, 16, true, false), (1, 0, false, false)]),
      ("FURB113", "new", [(0, 16, true, false)]), ("FURB187", "new", [(0, 16, true, false)]),
      ("FURB186", "new", [(0, 16, true, false)]),
      ("FURB181", "old", [(0, 16, true, false)]), ("FURB181", "new", [(0, 16, true, false)]),
      ("FURB173", "new", [(0, 7, false, false), (1, 8, false, false)]),
      ("FURB117", "old", [(0, 0, false, false)]), ("FURB117", "old", [(0, 0, false, false)]),
      ("FURB117", "new", [(0, 16, true, false)]),
      ("FURB164", "new", [(0, 16, false, false), (1, 0, false, false)]),
      ("FURB192", "old", [(0, 0, false, false)]), ("FURB192", "old", [(0, 0, false, false)]),
      ("FURB192", "new", [(0, 0, false, false)]), ("FURB192", "new", [(0, 0, false, false)]),
      ("FURB188", "new", [(0, 16, true, false), (1, 0, false, false)]),
      ("FURB188", "new", [(0, 16, true, false), (1, 0, false, false)]),
      ("FURB130", "new", [(0, 7, false, false)]), ("FURB135", "new", [(0, 16, true, false)]),
      ("FURB118", "new", [(0, 0, false, false)])] := by
  simp [templateReqs, templates, T.h, T.nm, T.att, T.call, T.meth, T.sliceAll, reqs, reqsA, reqsL, reqsO, reqsC, reqsI,
    reqsP, isHoleB, BinOp.lhs, BinOp.rhs, BinOp.prec, UnOp.prec]

/-! ### Non-vacuity -/

/-- the hypotheses of the partial theorem are met by a nested, non-trivial expression:
    `f(a.b[1:c], key=lambda x: not a) if a < b <= c else -a ** b` -/
example : ∃ e : Node, wf e = true ∧ safe e = true ∧ 1 ≤ e.prec ∧
    render (stringify (desugar e)) = "f(a.b[1:c], key=lambda x: not a) if a < b <= c else -a ** b".toList :=
  ⟨.cond (.call (.name ['f']) [(.pos, [], .index (.member na ['b']) (.slice (some (.int 1)) (some nc) none)),
        (.named, ['k', 'e', 'y'], .lambda [(['x'], .pos)] (some (.unary .not_ na)))])
      (.cmp na [(.lt, nb), (.le, nc)]) (.unary .neg (.op .pow na nb)),
    by simp [wf, wfArgs, wfIndex, wfOpt, wfCmp, argsOrdered, na, nb, nc, isName, isIdent, isIdentStart, isIdentChar, keywords],
    by simp [safe, safeArgs, safeIndex, safeOpt, safeCmp, na, nb, nc, BinOp.lhs, BinOp.rhs, BinOp.prec, Node.prec,
      UnOp.prec, isIntLit, looksLikeFString],
    by decide, by decide⟩

/-- the template theorem applies to a real case: FURB145 on `a.b[:]` … -/
example : meetsB ⟨0, 16, true, false⟩ (.member na ['b']) = true := by
  simp [meetsB, wf, safe, na, isName, isIdent, isIdentStart, keywords, Node.prec, isIntLit, pr, startsWithBrace,
    wrap]

/-- … and rejects `(a + b)[:]`, whose quoted form `a + b[:]` is another expression -/
example : meetsB ⟨0, 16, true, false⟩ (.op .add na nb) = false := by
  simp [meetsB, Node.prec, BinOp.prec]

/-- … and the refutation witnesses are well-formed trees outside the guard -/
example : wf (.op .mul (.op .add na nb) nc) = true ∧ safe (.op .mul (.op .add na nb) nc) = false :=
  ⟨by simp [wf, na, nb, nc, isName, isIdent, isIdentStart, keywords],
   by simp [safe, na, nb, nc, BinOp.lhs, BinOp.rhs, BinOp.prec, Node.prec]⟩

end RefurbVerif.C02
