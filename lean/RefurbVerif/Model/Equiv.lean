/-
Model of refurb/checks/common.py:123-201 — `unmangle_name`, `is_equivalent` (one case per mypy node class, then the
`str(lhs) == str(rhs)` fallback) and `get_common_expr_positions`.

The expression type mirrors exactly the node classes `is_equivalent` distinguishes.  What the code never looks at
(positions, `NameExpr.name`, `analyzed`, inferred types) is either kept because the *property* talks about it
(`name`) or dropped.  The fallback compares mypy's `str(node)` (StrConv text):

* for the six literal classes that text is `ClassName(` ++ rendering of the value ++ `)`; the rendering is the
  value itself for Int/Float/Complex and mypy's `StrConv.str_repr` (modelled below, `strRepr`) for Str/Bytes;
* for every other class without a case of its own (ConditionalExpr, LambdaExpr, AwaitExpr, AssignmentExpr,
  comprehensions, generators, yield, …) the node carries the text itself (`sc`) — it embeds LINE NUMBERS
  (`LambdaExpr:14(`) — next to `syn`, a position-free syntactic identity (Python's `ast.dump` of the source
  segment) that only the specification side (`syn`/`synEq`) reads;
* trusted shape fact A1 (checked by the harness on every serialised node): `str(node)` starts with the class name
  followed by `(` or `:`, and `str(None)` is `None`; hence nodes of different classes never have the same text.
  `StrKey` is that abstraction: class tag for the structural classes, (class, text) for literals, text for the rest.

No proofs here.
-/

namespace RefurbVerif.Equiv

abbrev Str := List Char

inductive LitKind where
  | int | str | bytes | float | complex | ellipsis
  deriving DecidableEq, Repr

inductive SeqKind where
  | list | tuple | set
  deriving DecidableEq, Repr

mutual
/-- a mypy expression node, as far as `is_equivalent` and the property can tell nodes apart -/
inductive Expr where
  /-- `NameExpr`: `name` as mypy stores it (may carry redefinition suffixes `'`), `fullname` ("" / None when unresolved) -/
  | name (nm : Str) (fullname : Option Str)
  | member (e : Expr) (nm : Str) (fullname : Option Str)
  | index (base idx : Expr)
  /-- `CallExpr`: callee and the parallel lists args / arg_kinds / arg_names (mypy keeps them the same length) -/
  | call (callee : Expr) (args : Args)
  | seq (k : SeqKind) (items : Exprs)
  /-- `DictExpr`: a key is `None` for `**mapping` items -/
  | dict (items : Items)
  | star (e : Expr)
  | unary (op : Str) (e : Expr)
  | op (op : Str) (l r : Expr)
  /-- `ComparisonExpr`: operands = first :: operands of `rest`, operators = operators of `rest` -/
  | cmp (first : Expr) (rest : Rest)
  | slice (b e s : OExpr)
  /-- Int/Str/Bytes/Float/Complex/Ellipsis: `value` is the source-level value (Str/Bytes: the characters,
      numbers: Python's `str(value)`) -/
  | lit (k : LitKind) (value : Str)
  /-- any class `is_equivalent` has no case for: `sc` = `str(node)`, `syn` = position-free syntactic identity
      (it names the syntactic class itself; `kind`, the mypy class name, is informational) -/
  | other (kind : Str) (sc : Str) (syn : Str)
  deriving DecidableEq, Repr
inductive Exprs where
  | nil
  | cons (e : Expr) (t : Exprs)
  deriving DecidableEq, Repr
/-- one argument of a call: expression, `ArgKind` value (0 POS, 1 OPT, 2 STAR, 3 NAMED, 4 STAR2, 5 NAMED_OPT), keyword -/
inductive Args where
  | nil
  | cons (e : Expr) (kind : Nat) (kw : Option Str) (t : Args)
  deriving DecidableEq, Repr
inductive Items where
  | nil
  | cons (k : OExpr) (v : Expr) (t : Items)
  deriving DecidableEq, Repr
inductive Rest where
  | nil
  | cons (op : Str) (e : Expr) (t : Rest)
  deriving DecidableEq, Repr
/-- `Expression | None` (slice parts, dict keys, and the two parameters of `is_equivalent` itself) -/
inductive OExpr where
  | none
  | some (e : Expr)
  deriving DecidableEq, Repr
end

/-! ### `unmangle_name` -/

def isMangleChar (c : Char) : Bool := c == '\'' || c == '*'

/-- Python's `s.rstrip("'*")` -/
def rstrip (s : Str) : Str := (s.reverse.dropWhile isMangleChar).reverse

/-- `unmangle_name`: `(name or "").rstrip("'*")` -/
def unmangle (o : Option Str) : Str := rstrip (o.getD [])

/-! ### mypy's `StrConv.str_repr` (the text of a Str/Bytes literal inside `str(node)`) -/

def isHex (c : Char) : Bool :=
  ('0' ≤ c && c ≤ '9') || ('a' ≤ c && c ≤ 'f') || ('A' ≤ c && c ≤ 'F')

def startsUHex : Str → Bool
  | 'u' :: a :: b :: c :: d :: _ => isHex a && isHex b && isHex c && isHex d
  | _ => false

/-- `re.sub(r"\\u[0-9a-fA-F]{4}", lambda m: "\\" + m.group(0), s)`: a backslash is put in front of every
    literal `\uXXXX` (matches cannot overlap: the five characters after the backslash are not backslashes) -/
def escU : Str → Str
  | [] => []
  | c :: t => if c == '\\' && startsUHex t then '\\' :: '\\' :: escU t else c :: escU t

/-- `"%.4x" % n` -/
def hex4 (n : Nat) : Str :=
  let d := Nat.toDigits 16 n
  List.replicate (4 - d.length) '0' ++ d

def isPrintable (c : Char) : Bool := 0x20 ≤ c.toNat && c.toNat ≤ 0x7e

/-- `re.sub("[^\\x20-\\x7e]", lambda m: r"\u%.4x" % ord(m.group(0)), s)` -/
def escNonPrintable : Str → Str
  | [] => []
  | c :: t => if isPrintable c then c :: escNonPrintable t else '\\' :: 'u' :: (hex4 c.toNat ++ escNonPrintable t)

def strRepr (s : Str) : Str := escNonPrintable (escU s)

/-- what stands between `ClassName(` and `)` in `str(node)` of a literal -/
def litRepr : LitKind → Str → Str
  | .str, v => strRepr v
  | .bytes, v => strRepr v
  | _, v => v

/-! ### the `str()` fallback -/

/-- abstraction of `str(node)` (see A1 in the header) -/
inductive StrKey where
  | none
  | node (cls : Nat)
  | seq (k : SeqKind)
  | lit (k : LitKind) (text : Str)
  | text (s : Str)
  deriving DecidableEq, Repr

def strKey : Expr → StrKey
  | .name _ _ => .node 0
  | .member _ _ _ => .node 1
  | .index _ _ => .node 2
  | .call _ _ => .node 3
  | .seq k _ => .seq k
  | .dict _ => .node 7
  | .star _ => .node 8
  | .unary _ _ => .node 9
  | .op _ _ _ => .node 10
  | .cmp _ _ => .node 11
  | .slice _ _ _ => .node 12
  | .lit k v => .lit k (litRepr k v)
  | .other _ sc _ => .text sc

def strKeyO : OExpr → StrKey
  | .none => .none
  | .some e => strKey e

/-! ### `is_equivalent` -/

/-- the one point where the relation is read off the source on every run (Generated/EquivCfg.lean, by execution):
    does the NameExpr case compare `name` next to `fullname`?  (refurb 2.0.0: no.) -/
structure Cfg where
  cmpName : Bool
  /-- `get_common_expr_positions` only pairs an operand of the first comparison with one of the second (refurb after
      "FURB108/FURB124 need an operand shared BETWEEN the two comparisons"); false: every pair (`combinations(exprs, 2)`) -/
  crossOnly : Bool
  deriving DecidableEq, Repr

def Exprs.len : Exprs → Nat
  | .nil => 0
  | .cons _ t => t.len + 1

def Items.len : Items → Nat
  | .nil => 0
  | .cons _ _ t => t.len + 1

/-- `lhs.arg_kinds` -/
def Args.kinds : Args → List Nat
  | .nil => []
  | .cons _ k _ t => k :: t.kinds

/-- `lhs.arg_names` -/
def Args.kws : Args → List (Option Str)
  | .nil => []
  | .cons _ _ n t => n :: t.kws

/-- `lhs.operators` -/
def Rest.ops : Rest → List Str
  | .nil => []
  | .cons o _ t => o :: t.ops

mutual
/-- `is_equivalent(lhs, rhs)` for two nodes: the thirteen class cases in source order, then `str(lhs) == str(rhs)` -/
def isEquiv (c : Cfg) : Expr → Expr → Bool
  | .name n₁ f₁, .name n₂ f₂ => (!c.cmpName || rstrip n₁ == rstrip n₂) && unmangle f₁ == unmangle f₂
  | .member e₁ n₁ f₁, .member e₂ n₂ f₂ => n₁ == n₂ && unmangle f₁ == unmangle f₂ && isEquiv c e₁ e₂
  | .index b₁ i₁, .index b₂ i₂ => isEquiv c b₁ b₂ && isEquiv c i₁ i₂
  | .call c₁ a₁, .call c₂ a₂ => isEquiv c c₁ c₂ && allZipArgs c a₁ a₂ && a₁.kinds == a₂.kinds && a₁.kws == a₂.kws
  | .seq k₁ l₁, .seq k₂ l₂ =>
      if k₁ = k₂ then l₁.len == l₂.len && allZip c l₁ l₂ else StrKey.seq k₁ == StrKey.seq k₂
  | .dict d₁, .dict d₂ => d₁.len == d₂.len && allZipItems c d₁ d₂
  | .star e₁, .star e₂ => isEquiv c e₁ e₂
  | .unary o₁ e₁, .unary o₂ e₂ => o₁ == o₂ && isEquiv c e₁ e₂
  | .op o₁ l₁ r₁, .op o₂ l₂ r₂ => o₁ == o₂ && isEquiv c l₁ l₂ && isEquiv c r₁ r₂
  | .cmp f₁ r₁, .cmp f₂ r₂ => r₁.ops == r₂.ops && (isEquiv c f₁ f₂ && allZipRest c r₁ r₂)
  | .slice b₁ e₁ s₁, .slice b₂ e₂ s₂ => isEquivO c b₁ b₂ && isEquivO c e₁ e₂ && isEquivO c s₁ s₂
  | a, b => strKey a == strKey b
termination_by structural a => a
/-- `all(starmap(is_equivalent, zip(xs, ys)))` — `zip` stops at the shorter list -/
def allZip (c : Cfg) : Exprs → Exprs → Bool
  | .cons a t, .cons b u => isEquiv c a b && allZip c t u
  | _, _ => true
termination_by structural a => a
def allZipArgs (c : Cfg) : Args → Args → Bool
  | .cons a _ _ t, .cons b _ _ u => isEquiv c a b && allZipArgs c t u
  | _, _ => true
termination_by structural a => a
def allZipItems (c : Cfg) : Items → Items → Bool
  | .cons k₁ v₁ t, .cons k₂ v₂ u => (isEquivO c k₁ k₂ && isEquiv c v₁ v₂) && allZipItems c t u
  | _, _ => true
termination_by structural a => a
/-- `zip` over the operands after the first -/
def allZipRest (c : Cfg) : Rest → Rest → Bool
  | .cons _ a t, .cons _ b u => isEquiv c a b && allZipRest c t u
  | _, _ => true
termination_by structural a => a
/-- `is_equivalent` on `Node | None`: `(None, None)` is True; `(None, node)` falls through to the `str()` comparison -/
def isEquivO (c : Cfg) : OExpr → OExpr → Bool
  | .none, .none => true
  | .some a, .some b => isEquiv c a b
  | a, b => strKeyO a == strKeyO b
termination_by structural a => a
end

/-! ### `get_common_expr_positions` -/

/-- first `j > i` (searching `l` whose head has index `j₀`) such that `a` is equivalent to `l[j - j₀]` -/
def findFrom (c : Cfg) (a : Expr) : List Expr → Nat → Option Nat
  | [], _ => none
  | b :: t, j => if isEquiv c a b then some j else findFrom c a t (j + 1)

/-- `for lhs, rhs in combinations(exprs, 2): if is_equivalent(lhs, rhs): return index(lhs), index(rhs)`; `i₀` is
    the index of the head of the list (the operands are distinct node objects, so `list.index` is the position) -/
def commonFrom (c : Cfg) : List Expr → Nat → Option (Nat × Nat)
  | [], _ => none
  | a :: t, i => match findFrom c a t (i + 1) with
    | some j => some (i, j)
    | none => commonFrom c t (i + 1)

/-- `for (i, lhs), (j, rhs) in product(enumerate(exprs[:half]), enumerate(exprs[half:], half))`: `l` = what is left of the
    first half (its head has index `i`), `r` = the whole second half (its head has index `h`) -/
def crossFrom (c : Cfg) : List Expr → List Expr → Nat → Nat → Option (Nat × Nat)
  | [], _, _, _ => none
  | a :: t, r, i, h => match findFrom c a r h with
    | some j => some (i, j)
    | none => crossFrom c t r (i + 1) h

/-- the search over all pairs (before the change) -/
def commonAll (c : Cfg) (l : List Expr) : Option (Nat × Nat) := commonFrom c l 0

/-- the search over cross pairs only: `half = len(exprs) // 2` -/
def commonCross (c : Cfg) (l : List Expr) : Option (Nat × Nat) :=
  crossFrom c (l.take (l.length / 2)) (l.drop (l.length / 2)) 0 (l.length / 2)

def commonPositions (c : Cfg) (l : List Expr) : Option (Nat × Nat) :=
  if c.crossOnly then commonCross c l else commonAll c l

/-! ### the property's notion: syntactic identity -/

mutual
/-- what `is_equivalent` looks at: `NameExpr.name` forgotten (unless the relation compares it), fullnames unmangled, literals rendered, `syn` forgotten -/
def norm (c : Cfg) : Expr → Expr
  | .name n f => .name (if c.cmpName then rstrip n else []) (some (unmangle f))
  | .member e n f => .member (norm c e) n (some (unmangle f))
  | .index b i => .index (norm c b) (norm c i)
  | .call f a => .call (norm c f) (normArgs c a)
  | .seq k l => .seq k (normL c l)
  | .dict d => .dict (normItems c d)
  | .star e => .star (norm c e)
  | .unary o e => .unary o (norm c e)
  | .op o l r => .op o (norm c l) (norm c r)
  | .cmp f r => .cmp (norm c f) (normRest c r)
  | .slice b e s => .slice (normO c b) (normO c e) (normO c s)
  | .lit k v => .lit k (litRepr k v)
  | .other _ sc _ => .other [] sc []
def normL (c : Cfg) : Exprs → Exprs
  | .nil => .nil
  | .cons e t => .cons (norm c e) (normL c t)
def normArgs (c : Cfg) : Args → Args
  | .nil => .nil
  | .cons e k n t => .cons (norm c e) k n (normArgs c t)
def normItems (c : Cfg) : Items → Items
  | .nil => .nil
  | .cons k v t => .cons (normO c k) (norm c v) (normItems c t)
def normRest (c : Cfg) : Rest → Rest
  | .nil => .nil
  | .cons o e t => .cons o (norm c e) (normRest c t)
def normO (c : Cfg) : OExpr → OExpr
  | .none => .none
  | .some e => .some (norm c e)
end

mutual
/-- what the property looks at ("syntactically identical up to parentheses and whitespace"): source names
    (redefinition suffix dropped), attributes, arguments with kind and keyword, operators, literal values, arity;
    no fullnames, no `str()` text -/
def syn : Expr → Expr
  | .name n _ => .name (rstrip n) none
  | .member e n _ => .member (syn e) n none
  | .index b i => .index (syn b) (syn i)
  | .call c a => .call (syn c) (synArgs a)
  | .seq k l => .seq k (synL l)
  | .dict d => .dict (synItems d)
  | .star e => .star (syn e)
  | .unary o e => .unary o (syn e)
  | .op o l r => .op o (syn l) (syn r)
  | .cmp f r => .cmp (syn f) (synRest r)
  | .slice b e s => .slice (synO b) (synO e) (synO s)
  | .lit k v => .lit k v
  | .other _ _ s => .other [] [] s
def synL : Exprs → Exprs
  | .nil => .nil
  | .cons e t => .cons (syn e) (synL t)
def synArgs : Args → Args
  | .nil => .nil
  | .cons e k n t => .cons (syn e) k n (synArgs t)
def synItems : Items → Items
  | .nil => .nil
  | .cons k v t => .cons (synO k) (syn v) (synItems t)
def synRest : Rest → Rest
  | .nil => .nil
  | .cons o e t => .cons o (syn e) (synRest t)
def synO : OExpr → OExpr
  | .none => .none
  | .some e => .some (syn e)
end

/-- executable form of the specification (driven by the harness against `ast.dump` equality) -/
def synEqB (a b : Expr) : Bool := decide (syn a = syn b)

end RefurbVerif.Equiv
