import RefurbVerif.Wire.Basic
open Lean

namespace RefurbVerif.Wire

/-- driver verbs of the whole-run model (Model/Run.lean): filled in by the property that owns it -/
def handleRun (_verb : String) (_j : Json) : Option Json := none

end RefurbVerif.Wire
