/-
Model for C07 — where the line/column of a diagnostic comes from.

Code mirrored (refurb 2.0.0):
* `refurb/error.py:56-67`    `Error.__str__` prints `column + 1`; `Error.from_node` copies
                             `node.line / column / end_line / end_column`.
* `refurb/main.py:257-310`   the GitHub and colour formatters print `column + 1` too (Model/Report.lean).
* `refurb/checks/readability/use_abc_shorthand.py`  FURB180: `metaclass.column - 10` on `metaclass.line`.
* `refurb/checks/string/expandtabs.py`              FURB106: `(func.end_column or 0) - len("replace")`
                                                    on `func.line` (func = the MemberExpr `recv.replace`).
* `refurb/checks/builtin/list_extend.py`            FURB113: line/column of the *previous* statement.

Two views of a source file are used:
* `SrcFile`: physical lines, each with its byte length and its tokens (UTF-8 byte start column, length) —
  what Python's tokenizer sees; `ValidPos` is the property's notion of "a real token position".
* a *layout*: the text as a list of `Piece`s (`bytes n` = n bytes on the current physical line,
  `nl` = a physical line break), enough to compute where a token lands.  The layouts of
  `class C(…, metaclass <gap> = <gap> V)` and `recv <…> . <…> replace` are quantified over in Props/C07.

What mypy does (gives a node the line/column of its first token and the end of its last token, in UTF-8
bytes) is NOT modelled as code: it is the explicit assumption `FirstTok` / `LastTok` below.
-/
import RefurbVerif.Model.Report

namespace RefurbVerif.Pos

/-! ### Files, tokens, valid positions -/

/-- a lexical token on a physical line: UTF-8 byte offset of its first byte, byte length -/
structure Tok where
  col : Nat
  len : Nat
  deriving DecidableEq, Repr

/-- a physical line: its length in UTF-8 bytes (line terminator excluded) and its tokens, left to right -/
structure PLine where
  bytes : Nat
  toks : List Tok
  deriving DecidableEq, Repr

abbrev SrcFile := List PLine

/-- the physical line with 1-based number `line` -/
def lineAt (f : SrcFile) (line : Int) : Option PLine :=
  if 1 ≤ line then f[(line - 1).toNat]? else none

/-- a token of the file starts at `line` (1-based) and printed column `col` (1-based) -/
def tokenStartsAt (f : SrcFile) (line col : Int) : Prop :=
  ∃ l, lineAt f line = some l ∧ ∃ t ∈ l.toks, (t.col : Int) + 1 = col

/-- the property's notion of a real position, for a printed `(line, column)` pair -/
def ValidPos (f : SrcFile) (p : Int × Int) : Prop :=
  1 ≤ p.1 ∧ p.1 ≤ f.length ∧ 1 ≤ p.2 ∧ (∃ l, lineAt f p.1 = some l ∧ p.2 ≤ (l.bytes : Int) + 1) ∧ tokenStartsAt f p.1 p.2

/-- executable form of `ValidPos`, clause by clause (line exists, column within the line, token starts there) -/
def lineOk (f : SrcFile) (p : Int × Int) : Bool := decide (1 ≤ p.1) && decide (p.1 ≤ f.length)
def colOk (f : SrcFile) (p : Int × Int) : Bool :=
  match lineAt f p.1 with
  | some l => decide (1 ≤ p.2) && decide (p.2 ≤ (l.bytes : Int) + 1)
  | none => false
def tokOk (f : SrcFile) (p : Int × Int) : Bool :=
  match lineAt f p.1 with
  | some l => l.toks.any (fun t => decide ((t.col : Int) + 1 = p.2))
  | none => false
def validPosB (f : SrcFile) (p : Int × Int) : Bool := lineOk f p && colOk f p && tokOk f p

/-- every token lies inside its physical line and is not empty -/
def WellFormed (f : SrcFile) : Prop := ∀ l ∈ f, ∀ t ∈ l.toks, t.col + t.len ≤ l.bytes ∧ 1 ≤ t.len

/-! ### Nodes and errors -/

/-- the position fields of a mypy `Context` (`end_line`/`end_column` are `int | None`) -/
structure Span where
  line : Int
  col : Int
  endLine : Option Int := none
  endCol : Option Int := none
  deriving DecidableEq, Repr

/-- the position fields of a refurb `Error` -/
structure Err where
  line : Int
  col : Int
  lineEnd : Option Int := none
  colEnd : Option Int := none
  deriving DecidableEq, Repr

/-- `Error.from_node` -/
def fromNode (s : Span) : Err := { line := s.line, col := s.col, lineEnd := s.endLine, colEnd := s.endCol }

/-- the `(line, column)` pair every formatter prints: `line`, `column + 1` -/
def render (e : Err) : Int × Int := (e.line, e.col + 1)

/-- the diagnostic the report stage formats (main.py:214-217 attaches the file name) -/
def toDiag (file pfx : Str) (code : Nat) (msg : Str) (e : Err) : Diag :=
  { file := file, line := e.line, col := e.col, pfx := pfx, code := code, msg := msg }

/-- tokens of the file in reading order, each with its 1-based line number -/
def streamFrom (k : Nat) : SrcFile → List (Nat × Tok)
  | [] => []
  | l :: ls => l.toks.map (fun t => (k, t)) ++ streamFrom (k + 1) ls

def stream (f : SrcFile) : List (Nat × Tok) := streamFrom 1 f

/-- a syntax-tree node: the indices (into `stream`) of its first and last token, and the span mypy gave it -/
structure Node where
  first : Nat
  last : Nat
  span : Span
  deriving DecidableEq, Repr

/-- a parsed file: the token table and the nodes of its tree (mypy is external: this is its output) -/
structure Parse where
  file : SrcFile
  nodes : List Node

/-- ASSUMPTION about mypy/`ast` (validated by the oracle on every diagnostic seen): a node's `line`/`column`
    are the line and UTF-8 byte column of its first token -/
def FirstTok (f : SrcFile) (n : Node) : Prop :=
  ∃ p, (stream f)[n.first]? = some p ∧ n.span.line = (p.1 : Int) ∧ n.span.col = (p.2.col : Int)

def FirstTokenInvariant (p : Parse) : Prop := ∀ n ∈ p.nodes, FirstTok p.file n

/-! ### The positions that are computed instead of copied -/

/-- Python truthiness of an `int | None` (`x if x else None`, `x or 0`) -/
def truthy : Option Int → Bool
  | some v => v != 0
  | none => false

/-- FURB180 (`use_abc_shorthand.check`): `m` is the span of the `metaclass=` VALUE expression -/
def abcShorthand (m : Span) : Err :=
  { line := m.line
    col := m.col - 10
    lineEnd := m.endLine
    colEnd := if truthy m.endCol then m.endCol.map (· - 10) else none }

/-- which field of `func` FURB106 takes the line from (`line` today; `endLine` is the proposed repair).
    Generated/Positions.lean says which one the working tree uses (probed by calling the check). -/
inductive LineField where
  | line | endLine
  deriving DecidableEq, Repr

/-- `x or y` on `int | None` operands -/
def pyOr (x : Option Int) (y : Int) : Int := if truthy x then x.getD y else y

/-- FURB106 (`expandtabs.check_str` / `check_bytes`): `func` is the span of the MemberExpr `recv.replace` -/
def expandtabs (lf : LineField) (func : Span) : Err :=
  { line := match lf with
      | .line => func.line
      | .endLine => pyOr func.endLine func.line
    col := pyOr func.endCol 0 - 7 }

/-- a statement as `list_extend.check_stmts` sees it: its span and, if it is `<e>.append(x)` on a `list`,
    the equivalence class of `<e>` under `is_equivalent` -/
structure Stmt where
  span : Span
  app : Option Nat
  deriving DecidableEq, Repr

/-- the `Last` record of list_extend.py -/
structure Last where
  expr : Option Nat := none
  line : Int := 0
  col : Int := 0
  didError : Bool := false
  deriving DecidableEq, Repr

/-- one iteration of the `for stmt in stmts` loop: new `Last` and the error appended, if any -/
def extendStep (last : Last) (s : Stmt) : Last × Option Err :=
  match s.app with
  | some k =>
    let fire := !last.didError && last.expr == some k
    ({ expr := some k, line := s.span.line, col := s.span.col, didError := last.didError || fire },
     if fire then some { line := last.line, col := last.col } else none)
  | none => ({}, none)

def extendLoop (last : Last) : List Stmt → List Err
  | [] => []
  | s :: rest =>
    let (last', e) := extendStep last s
    e.toList ++ extendLoop last' rest

/-- FURB113 (`list_extend.check_stmts`) on the statements of one block -/
def listExtend (stmts : List Stmt) : List Err := extendLoop {} stmts

/-! ### Layouts -/

/-- a stretch of source text: `bytes n` = n UTF-8 bytes that stay on the current physical line (tokens,
    blanks, a backslash, brackets, a comment), `nl` = a physical line break -/
inductive Piece where
  | bytes (n : Nat)
  | nl
  deriving DecidableEq, Repr

/-- a place in the text: 1-based line, 0-based byte column -/
structure Loc where
  line : Nat
  col : Nat
  deriving DecidableEq, Repr

def origin : Loc := ⟨1, 0⟩

def Loc.step (p : Loc) : Piece → Loc
  | .bytes n => ⟨p.line, p.col + n⟩
  | .nl => ⟨p.line + 1, 0⟩

/-- where the text continues after the pieces `ps`, starting at `p` -/
def Loc.run (p : Loc) (ps : List Piece) : Loc := ps.foldl Loc.step p

def Loc.right (p : Loc) (n : Nat) : Loc := ⟨p.line, p.col + n⟩

def Loc.printed (p : Loc) : Int × Int := ((p.line : Int), (p.col : Int) + 1)

def width : List Piece → Nat
  | [] => 0
  | .bytes n :: r => n + width r
  | .nl :: r => width r

def hasNl (ps : List Piece) : Bool := ps.any (· == .nl)

/-- `class C(<pre…> metaclass <g1> = <g2> V…`: `pre` is ALL the text of the file before the keyword,
    `klen` the byte length of the keyword as spelled (9 unless written with compatibility characters that
    NFKC-normalise to `metaclass`), `g1`/`g2` the text between keyword and `=` and between `=` and the first
    token of the value expression (blanks, line breaks, backslashes, comments, opening parentheses) -/
structure AbcLayout where
  pre : List Piece
  klen : Nat := 9
  g1 : List Piece
  g2 : List Piece

def AbcLayout.kw (l : AbcLayout) : Loc := origin.run l.pre
def AbcLayout.eq (l : AbcLayout) : Loc := (l.kw.right l.klen).run l.g1
def AbcLayout.value (l : AbcLayout) : Loc := (l.eq.right 1).run l.g2

/-- the span mypy gives the value expression, as far as FURB180 reads it — by `FirstTok` -/
def AbcLayout.valueSpan (l : AbcLayout) : Span := { line := l.value.line, col := l.value.col }

def AbcLayout.reported (l : AbcLayout) : Err := abcShorthand l.valueSpan

/-- `<pre…> R… <mid> replace`: `pre` is all the text before the first token of the receiver expression,
    `mid` the text from there to the attribute name (the receiver, blanks, line breaks, the dot), `alen` the
    byte length of the attribute name as spelled (7 unless written with compatibility characters) -/
structure TabsLayout where
  pre : List Piece
  mid : List Piece
  alen : Nat := 7

def TabsLayout.recv (l : TabsLayout) : Loc := origin.run l.pre
def TabsLayout.attr (l : TabsLayout) : Loc := l.recv.run l.mid

/-- the span mypy gives `recv.replace`: starts at the receiver's first token (`FirstTok`), ends at the end
    of the attribute name (the assumption `LastTok`: end_line/end_column = end of the node's last token) -/
def TabsLayout.funcSpan (l : TabsLayout) : Span :=
  { line := l.recv.line, col := l.recv.col, endLine := some l.attr.line, endCol := some ((l.attr.col : Int) + l.alen) }

def TabsLayout.reported (lf : LineField) (l : TabsLayout) : Err := expandtabs lf l.funcSpan

/-! ### Which checks compute a position (shape of Generated/Positions.lean) -/

/-- how one `Error` object constructed in a check module gets its position (source text, by `ast` scan) -/
inductive PosSource where
  | fromNode (arg : String)               -- `ErrorInfo.from_node(<arg>)`
  | explicit (line col : String)          -- `ErrorInfo(<line>, <col>, …)`
  | other (text : String)                 -- anything else that reaches the error list / writes a position
  deriving DecidableEq, Repr

def PosSource.isFromNode : PosSource → Bool
  | .fromNode _ => true
  | _ => false

structure CheckPos where
  module : String
  code : Nat
  sites : List PosSource
  deriving DecidableEq, Repr

/-- codes of the checks that construct an error other than by `from_node` -/
def computedCodes (t : List CheckPos) : List Nat :=
  (t.filter (fun c => c.sites.any (fun s => !s.isFromNode))).map (·.code)

end RefurbVerif.Pos
