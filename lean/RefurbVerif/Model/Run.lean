/-
WHOLE-RUN model: `refurb.main.main()` / `run_refurb()` (refurb/main.py:139-232, 368-403) as ONE function,
composed only from the component models:

  argv + config file  --Settings.loadSettings-->  Settings            (settings.py; failure = one `refurb:` line, exit 1)
  early exits of `main` (help / version / gen / explain)               (order as in main.py:375-393)
  mypy (process_options + build)                                       DATA: `Mypy.failed lines` or the files
  load_checks: Settings.shouldLoad over the catalogue                  (loader.py:77-94, 161-180; `--verbose` listing)
  per file, in mypy's (= command-line) order: [str(tree)] if --debug, then the diagnostics of the LOADED checks
      in traversal order, stamped with `file.path`                     (main.py:199-222)
  Noqa.runReport: `# noqa` / amend filter, then the stable sort        (main.py:229-232; amend = Paths.ignoredViaAmend)
  Report.formatErrors (plain / colour / github, hint), print, exit     (main.py:313-326, 395-403)

Everything refurb takes from mypy and from the check functions is DATA of the input (`RunInput`): which files were
built (path, cwd-relative spelling for the github format, decoded text, `str(tree)`), and for every file the RAW
diagnostics that ALL available checks produce for it in traversal order.  That the diagnostics of a run with fewer
checks are exactly the raw ones of the loaded checks is Props/C10 `visitAll_select` (checks with private state,
any number of nodes); Props/C10 `raw_of_loaded_is_visitor` states the bridge.

Identification used: a diagnostic's class is named by prefix+code (`RawDiag.pfx/code`); a raw diagnostic is kept iff
SOME catalogue entry with that prefix+code is loaded, and its categories (for amend tables) are those of the first
such entry.  refurb's own catalogue has pairwise distinct prefix+code (the harness checks this on every run).

Failure modes kept: settings errors (`Err.refurb`: the line is printed, exit 1; `Err.foreign`: the library's text,
not modelled, exit 1; `Err.crash`: traceback), mypy failing (`Mypy.failed`: its lines are returned before any check
is loaded, unsorted and unfiltered), a `TypeError`/`ImportError` of `load_checks` (`loadError`: its text, exit 1),
`IndexError` of the `# noqa` line lookup (traceback; `none` of `Noqa.runReport`).
NOT modelled: `Path.resolve()` raising for the checked file itself inside `is_ignored_via_amend` (a file mypy has
just read resolves; `amendB` answers `false` there), `--timing-stats` (a side file), the texts of `--help`,
`--version`, `--explain` and `gen` (`Outcome.early`).
-/
import RefurbVerif.Model.Settings
import RefurbVerif.Model.Report
import RefurbVerif.Model.Noqa
import RefurbVerif.Model.Paths

namespace RefurbVerif.Run
open RefurbVerif

/-- what a check appended for one node: `Error(line, column, msg)` of the class `pfx`+`code` (no file name yet) -/
structure RawDiag where
  line : Int
  col : Int
  pfx : Str
  code : Nat
  msg : Str
  deriving DecidableEq, Repr

/-- one `BuildSource` mypy returned, with what the run reads of it -/
structure FileIn where
  /-- `file.path`: what is stamped into `error.filename` -/
  path : Str
  /-- `Path(path).resolve()` made relative to the working directory when possible (github format) -/
  rel : Str
  /-- the decoded text `get_source_lines` reads (`tokenize.open(path).read()`) -/
  source : Str
  /-- `str(tree)`, appended to the result with `--debug` -/
  dump : Str
  /-- `visitor.errors` with EVERY available check loaded, in traversal order -/
  raw : List RawDiag
  deriving DecidableEq, Repr

/-- `process_options` + `build` -/
inductive Mypy where
  /-- both succeeded: the files, in the order of the command line -/
  | built (files : List FileIn)
  /-- `SystemExit` of `process_options` / `CompileError` of `build`: the lines `run_refurb` returns at once -/
  | failed (lines : List Str)
  deriving Repr

structure RunInput where
  /-- stdout is a tty and NO_COLOR is unset -/
  envColor : Bool
  argv : List String
  /-- what reading the config file gave (as `loadSettings` takes it) -/
  config : FileOutcome
  /-- how `get_source_lines` cuts lines (Generated/NoqaLines.lean) -/
  lineCfg : LineCfg
  /-- every check module `get_modules` finds (built-in and `--load`ed), in load order -/
  checks : List CheckSel
  mypy : Mypy
  /-- text of the `TypeError`/`ImportError` `load_checks` raises, if it does (Model/Loader.lean computes it) -/
  loadError : Option Str := none
  /-- `Path.resolve` of the environment (Model/Paths.lean `resolvePy fs fuel cwd`) -/
  resolver : Paths.Resolver

inductive Early where
  | help | version | generate | explain
  deriving DecidableEq, Repr

inductive Outcome where
  /-- `main` returned `exit` after writing `out` to stdout -/
  | printed (out : Str) (exit : Nat)
  /-- not a lint run: `usage()`, `version()`, `gen`, `--explain` (exit 0) -/
  | early (what : Early)
  /-- a library's `ValueError` text is printed (exit 1) -/
  | libraryError (kind : String)
  /-- an uncaught exception after `out` was written: traceback on stderr, exit 1 -/
  | traceback (out : Str)
  deriving DecidableEq, Repr

/-! ### load_checks -/

/-- the catalogue entry is the class of a diagnostic with this prefix and code -/
def ownedBy (c : CheckSel) (pfx : Str) (code : Nat) : Bool := c.pfx.toList == pfx && c.code == code

/-- some LOADED check has this prefix+code (`should_load_check` per module) -/
def selected (s : Settings) (cat : List CheckSel) (pfx : Str) (code : Nat) : Bool :=
  cat.any (fun c => ownedBy c pfx code && shouldLoad s c)

/-- `str(ErrorCode.from_error(error))` of a catalogue entry -/
def CheckSel.codeChars (c : CheckSel) : Str := c.pfx.toList ++ natChars c.code

def joinSep (sep : Str) : List Str → Str
  | [] => []
  | [l] => l
  | l :: ls => l ++ sep ++ joinSep sep ls

/-- `sorted(enabled_errors)`: the set of `str(code)` of the loaded modules -/
def enabledCodes (s : Settings) (cat : List CheckSel) : List Str :=
  ssort leChars ((cat.filter (shouldLoad s)).map CheckSel.codeChars).eraseDups

/-- `print(f"Enabled checks: {msg}\n")` of `load_checks` when `--verbose` -/
def preamble (s : Settings) (cat : List CheckSel) : Str :=
  if s.verbose then
    "Enabled checks: ".toList
      ++ (if (enabledCodes s cat).isEmpty then "No checks enabled".toList else joinSep [',', ' '] (enabledCodes s cat))
      ++ ['\n', '\n']
  else []

/-! ### the visiting loop -/

/-- `error.filename = file.path` -/
def stamp (path : Str) (r : RawDiag) : Diag :=
  { file := path, line := r.line, col := r.col, pfx := r.pfx, code := r.code, msg := r.msg }

/-- what one file adds to `errors`: the tree dump with `--debug`, then the diagnostics of the loaded checks -/
def fileItems (s : Settings) (cat : List CheckSel) (f : FileIn) : List Item :=
  (if s.debug then [Item.text f.dump] else [])
    ++ (f.raw.filter (fun r => selected s cat r.pfx r.code)).map (fun r => Item.diag (stamp f.path r))

/-- `errors` after the loop over `files` -/
def collected (s : Settings) (cat : List CheckSel) (files : List FileIn) : List Item :=
  files.flatMap (fileItems s cat)

/-! ### should_ignore_error, sort -/

def srcOf (files : List FileIn) : Str → Str :=
  fun p => ((files.find? (fun f => f.path == p)).map (·.source)).getD []

def relOf (files : List FileIn) : Str → Str :=
  fun p => ((files.find? (fun f => f.path == p)).map (·.rel)).getD p

/-- `error.categories` -/
def categoriesOf (cat : List CheckSel) (pfx : Str) (code : Nat) : List String :=
  ((cat.find? (fun c => ownedBy c pfx code)).map (·.categories)).getD []

def amendDiag (cat : List CheckSel) (d : Diag) : Paths.AmendDiag :=
  { file := String.ofList d.file, pfx := String.ofList d.pfx, code := d.code, categories := categoriesOf cat d.pfx d.code }

/-- `is_ignored_via_amend(error, settings)` -/
def amendB (R : Paths.Resolver) (s : Settings) (cat : List CheckSel) (d : Diag) : Bool :=
  (Paths.ignoredViaAmend R s (amendDiag cat d)).getD false

def sortByOf (s : Settings) : SortBy := if s.sortBy = some "error" then .error else .filename

def formatOf (s : Settings) : Format :=
  if s.format = some "github" then .github else if s.color then .color else .plain

def filesOf : Mypy → List FileIn
  | .built fs => fs
  | .failed _ => []

/-- `run_refurb(settings)`; `none` = the `# noqa` line lookup raised `IndexError` -/
def runRefurb (i : RunInput) (s : Settings) : Option (List Item) :=
  match i.mypy with
  | .failed lines => some (lines.map Item.text)
  | .built files =>
    runReport i.lineCfg (sortByOf s) (srcOf files) (amendB i.resolver s i.checks) (collected s i.checks files)

/-! ### main -/

/-- `print(x)` for a non-empty text (`if formatted_errors := …: print(formatted_errors)`) -/
def printed (out : Str) : Str := if out.isEmpty then [] else out ++ ['\n']

/-- what `load_checks` has written to stdout by the time `run_refurb` returns or raises -/
def preambleOf (i : RunInput) (s : Settings) : Str :=
  match i.mypy with
  | .built _ => preamble s i.checks
  | .failed _ => []

/-- the text `main` prints for the list `run_refurb` returned -/
def body (i : RunInput) (s : Settings) (items : List Item) : Str :=
  printed (formatErrors (formatOf s) (relOf (filesOf i.mypy)) s.quiet items)

/-- `load_checks` is only reached when mypy has built the files: the `TypeError`/`ImportError` text, if it raises -/
def loadFailure (i : RunInput) : Option Str :=
  match i.mypy with
  | .built _ => i.loadError
  | .failed _ => none

/-- `main(args)` once the settings are loaded -/
def runWith (i : RunInput) (s : Settings) : Outcome :=
  if s.help then .early .help
  else if s.version then .early .version
  else if s.generate then .early .generate
  else if s.explain.isSome then .early .explain
  else
    match loadFailure i with
    | some e => .printed (e ++ ['\n']) 1
    | none =>
      match runRefurb i s with
      | none => .traceback (preambleOf i s)
      | some items => .printed (preambleOf i s ++ body i s items) (exitStatus items)

/-- `main(args)` -/
def run (i : RunInput) : Outcome :=
  match loadSettings i.envColor i.argv i.config with
  | .error (.refurb m) => .printed (m.toList ++ ['\n']) 1
  | .error (.foreign k) => .libraryError k
  | .error (.crash _) => .traceback []
  | .ok s => runWith i s

/-- stdout and exit status of the process (an uncaught exception ends the interpreter with status 1; the early
    exits return 0 and their texts are not part of this model: `[]`) -/
def Outcome.result : Outcome → Str × Nat
  | .printed out e => (out, e)
  | .early _ => ([], 0)
  | .libraryError _ => ([], 1)
  | .traceback out => (out, 1)

/-- stdout text and exit status of `python -m refurb ARGV` -/
def runMain (i : RunInput) : Str × Nat := (run i).result

end RefurbVerif.Run
