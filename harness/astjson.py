"""mypy syntax trees as JSON (shared by the expression-level properties C01, C02, C05, C06, C07).

    python -m harness.astjson OUT.json FILE...     (fresh process, cwd = directory of the files)

runs refurb's own pipeline up to the analysed trees (refurb.main.run_refurb with `load_checks` stubbed)
and writes, per file, every statement as a JSON tree.  Expression nodes carry

    kind, line, col, end_line, end_col          position as mypy stores it
    sc                                          str(node) — mypy's StrConv text (what is_equivalent falls back on)
    ty                                          what refurb.checks.common.get_mypy_type returns, rendered by `describe_type`
    mty                                         what mypy itself inferred (result.types), rendered the same way
    str                                         what refurb.checks.common.stringify returns (None if it raised)

plus the class-specific fields listed in `expr_to_json`.  `parse_only(src)` gives un-analysed trees
(no fullnames/types; ~14k statements/s) for properties that only need the shape.
"""

from __future__ import annotations

import json
import sys
from typing import Any


def describe_type(t: Any) -> Any:
    """A small, stable rendering of a mypy Type / SymbolNode / None."""
    if t is None:
        return None
    import mypy.nodes as N
    import mypy.types as T

    if isinstance(t, T.TypeAliasType):
        return {"t": "alias", "target": describe_type(t.alias.target) if t.alias else None}
    if isinstance(t, T.Instance):
        return {"t": "inst", "name": t.type.fullname, "args": [describe_type(a) for a in t.args], "mro": [x.fullname for x in t.type.mro][:12]}
    if isinstance(t, T.TupleType):
        return {"t": "tuple", "items": [describe_type(a) for a in t.items], "fallback": t.partial_fallback.type.fullname}
    if isinstance(t, T.AnyType):
        return {"t": "any"}
    if isinstance(t, T.NoneType):
        return {"t": "none"}
    if isinstance(t, T.UnionType):
        return {"t": "union", "items": [describe_type(a) for a in t.items]}
    if isinstance(t, T.CallableType):
        return {"t": "callable", "ret": describe_type(t.ret_type), "is_type_obj": t.is_type_obj()}
    if isinstance(t, T.Overloaded):
        return {"t": "overloaded"}
    if isinstance(t, T.TypeVarType):
        return {"t": "typevar", "name": t.name}
    if isinstance(t, T.LiteralType):
        return {"t": "literal", "base": describe_type(t.fallback)}
    if isinstance(t, T.UninhabitedType):
        return {"t": "uninhabited"}
    if isinstance(t, T.TypeType):
        return {"t": "typetype", "item": describe_type(t.item)}
    if isinstance(t, T.Type):
        return {"t": "othertype", "cls": type(t).__name__}
    if isinstance(t, N.TypeInfo):
        return {"t": "typeinfo", "name": t.fullname}
    if isinstance(t, N.MypyFile):
        return {"t": "module", "name": t.fullname}
    if isinstance(t, N.TypeAlias):
        return {"t": "typealias", "target": describe_type(t.target)}
    if isinstance(t, N.SymbolNode):
        return {"t": "symbol", "cls": type(t).__name__}
    return {"t": "unknown", "cls": type(t).__name__}


def pos(n: Any) -> dict[str, Any]:
    return {"line": getattr(n, "line", -1), "col": getattr(n, "column", -1), "end_line": getattr(n, "end_line", None), "end_col": getattr(n, "end_column", None)}


def expr_to_json(n: Any, ctx: dict[str, Any] | None = None) -> Any:
    """ctx: {"types": result.types or None, "annotate": bool}"""
    import mypy.nodes as N

    if n is None:
        return None
    ctx = ctx or {}
    rec = lambda x: expr_to_json(x, ctx)  # noqa: E731
    d: dict[str, Any] = {"kind": type(n).__name__, **pos(n)}
    if isinstance(n, N.NameExpr):
        d.update(name=n.name, fullname=n.fullname or "", node=type(n.node).__name__ if n.node is not None else None)
    elif isinstance(n, N.MemberExpr):
        d.update(expr=rec(n.expr), name=n.name, fullname=n.fullname or "")
    elif isinstance(n, N.IntExpr):
        d.update(value=str(n.value))
    elif isinstance(n, (N.StrExpr, N.BytesExpr)):
        d.update(value=n.value)
    elif isinstance(n, N.FloatExpr):
        d.update(value=repr(n.value), pystr=str(n.value))
    elif isinstance(n, N.ComplexExpr):
        d.update(value=repr(n.value), pystr=str(n.value))
    elif isinstance(n, N.EllipsisExpr):
        pass
    elif isinstance(n, N.CallExpr):
        d.update(
            callee=rec(n.callee),
            args=[[rec(a), k.name, nm] for a, k, nm in zip(n.args, n.arg_kinds, n.arg_names)],
            analyzed=type(n.analyzed).__name__ if n.analyzed is not None else None,
        )
    elif isinstance(n, N.IndexExpr):
        d.update(base=rec(n.base), index=rec(n.index), method_type=describe_type(getattr(n, "method_type", None)))
    elif isinstance(n, N.SliceExpr):
        d.update(begin=rec(n.begin_index), end=rec(n.end_index), stride=rec(n.stride))
    elif isinstance(n, N.OpExpr):
        d.update(op=n.op, left=rec(n.left), right=rec(n.right), method_type=describe_type(getattr(n, "method_type", None)))
    elif isinstance(n, N.ComparisonExpr):
        d.update(ops=list(n.operators), operands=[rec(x) for x in n.operands])
    elif isinstance(n, N.UnaryExpr):
        d.update(op=n.op, expr=rec(n.expr), method_type=describe_type(getattr(n, "method_type", None)))
    elif isinstance(n, (N.ListExpr, N.TupleExpr, N.SetExpr)):
        d.update(items=[rec(x) for x in n.items])
    elif isinstance(n, N.DictExpr):
        d.update(items=[[rec(k), rec(v)] for k, v in n.items])
    elif isinstance(n, N.StarExpr):
        d.update(expr=rec(n.expr))
    elif isinstance(n, N.ConditionalExpr):
        d.update(if_expr=rec(n.if_expr), cond=rec(n.cond), else_expr=rec(n.else_expr))
    elif isinstance(n, N.LambdaExpr):
        body = None
        if len(n.body.body) == 1 and isinstance(n.body.body[0], N.ReturnStmt):
            body = rec(n.body.body[0].expr)
        d.update(arg_names=[a for a in n.arg_names], arg_kinds=[k.name for k in n.arg_kinds], body=body, nbody=len(n.body.body))
    elif isinstance(n, N.AwaitExpr):
        d.update(expr=rec(n.expr))
    elif isinstance(n, N.AssignmentExpr):
        d.update(target=rec(n.target), value=rec(n.value))
    elif isinstance(n, (N.ListComprehension, N.SetComprehension)):
        d.update(generator=rec(n.generator))
    elif isinstance(n, N.GeneratorExpr):
        d.update(left=rec(n.left_expr), indices=[rec(x) for x in n.indices], sequences=[rec(x) for x in n.sequences], condlists=[[rec(c) for c in cl] for cl in n.condlists], is_async=list(n.is_async))
    elif isinstance(n, N.DictionaryComprehension):
        d.update(key=rec(n.key), value=rec(n.value), indices=[rec(x) for x in n.indices], sequences=[rec(x) for x in n.sequences], condlists=[[rec(c) for c in cl] for cl in n.condlists])
    elif isinstance(n, (N.YieldExpr, N.YieldFromExpr)):
        d.update(expr=rec(n.expr))
    else:
        d["opaque"] = True
    if ctx.get("annotate"):
        try:
            d["sc"] = str(n)
        except Exception as e:  # noqa: BLE001
            d["sc"] = f"<str() raised {type(e).__name__}>"
        from refurb.checks import common

        try:
            d["ty"] = describe_type(common.get_mypy_type(n))
        except Exception as e:  # noqa: BLE001
            d["ty"] = {"t": "raised", "cls": type(e).__name__}
        types = ctx.get("types")
        if types is not None:
            d["mty"] = describe_type(types.get(n))
        try:
            d["str"] = common._stringify(n)
        except ValueError:
            d["str"] = None
        except Exception as e:  # noqa: BLE001
            d["str"] = {"raised": type(e).__name__}
    return d


def stmt_to_json(s: Any, ctx: dict[str, Any]) -> Any:
    """statements: kind + position + their expressions/blocks, generically (by reflection over known fields)"""
    import mypy.nodes as N

    d: dict[str, Any] = {"kind": type(s).__name__, **pos(s)}
    rec_e = lambda x: expr_to_json(x, ctx)  # noqa: E731
    rec_b = lambda b: [stmt_to_json(x, ctx) for x in b.body] if b is not None else None  # noqa: E731
    if isinstance(s, N.AssignmentStmt):
        d.update(lvalues=[rec_e(x) for x in s.lvalues], rvalue=rec_e(s.rvalue))
    elif isinstance(s, N.OperatorAssignmentStmt):
        d.update(op=s.op, lvalue=rec_e(s.lvalue), rvalue=rec_e(s.rvalue))
    elif isinstance(s, N.ExpressionStmt):
        d.update(expr=rec_e(s.expr))
    elif isinstance(s, N.ReturnStmt):
        d.update(expr=rec_e(s.expr))
    elif isinstance(s, N.DelStmt):
        d.update(expr=rec_e(s.expr))
    elif isinstance(s, N.AssertStmt):
        d.update(expr=rec_e(s.expr), msg=rec_e(s.msg))
    elif isinstance(s, N.IfStmt):
        d.update(expr=[rec_e(x) for x in s.expr], body=[rec_b(b) for b in s.body], else_body=rec_b(s.else_body))
    elif isinstance(s, N.WhileStmt):
        d.update(expr=rec_e(s.expr), body=rec_b(s.body), else_body=rec_b(s.else_body))
    elif isinstance(s, N.ForStmt):
        d.update(index=rec_e(s.index), expr=rec_e(s.expr), body=rec_b(s.body), else_body=rec_b(s.else_body), is_async=s.is_async)
    elif isinstance(s, N.WithStmt):
        d.update(expr=[rec_e(x) for x in s.expr], target=[rec_e(x) for x in s.target], body=rec_b(s.body), is_async=s.is_async)
    elif isinstance(s, N.FuncDef):
        d.update(name=s.name, body=rec_b(s.body), defaults=[rec_e(a.initializer) for a in (s.arguments or [])])
    elif isinstance(s, N.Decorator):
        d.update(func=stmt_to_json(s.func, ctx), decorators=[rec_e(x) for x in s.decorators])
    elif isinstance(s, N.ClassDef):
        d.update(name=s.name, body=rec_b(s.defs), bases=[rec_e(x) for x in s.base_type_exprs])
    elif isinstance(s, N.TryStmt):
        d.update(body=rec_b(s.body), handlers=[rec_b(h) for h in s.handlers], else_body=rec_b(s.else_body), finally_body=rec_b(s.finally_body))
    elif isinstance(s, N.Block):
        d.update(body=[stmt_to_json(x, ctx) for x in s.body])
    else:
        d["opaque"] = True
    return d


def parse_only(src: str, fnam: str = "<src>") -> list[Any]:
    """un-analysed mypy statements of a source text (raises on syntax errors)"""
    from mypy.errors import Errors
    from mypy.options import Options
    from mypy.parse import parse

    opts = Options()
    errs = Errors(opts)
    tree = parse(src, fnam, "__main__", errs, opts)
    if errs.is_blockers():
        raise SyntaxError("\n".join(errs.new_messages()))
    return list(tree.defs)


def build_trees(files: list[str], extra_argv: list[str] | None = None) -> dict[str, Any]:
    """run refurb's pipeline on the files (in this process) and return {"trees": {path: MypyFile}, "types": result.types, "errors": [...]}"""
    from collections import defaultdict

    import refurb.main as rmain
    from refurb.settings import load_settings

    captured: dict[str, Any] = {}
    real_build = rmain.build

    def build(*a: Any, **k: Any) -> Any:
        opts = k.get("options")
        if opts is not None:
            opts.export_types = True  # keep mypy's own expression types (result.types); nothing else changes
        res = real_build(*a, **k)
        captured["result"] = res
        return res

    rmain.build = build
    rmain.load_checks = lambda settings: defaultdict(list)
    errors = rmain.run_refurb(load_settings([*files, "--quiet", *(extra_argv or [])]))
    result = captured.get("result")
    out: dict[str, Any] = {"trees": {}, "types": None, "errors": [e for e in errors if isinstance(e, str)]}
    if result is None:
        return out
    out["types"] = result.types
    for path in files:
        st = next((s for s in result.graph.values() if s.path == path or s.xpath == path), None)
        if st is not None and st.tree is not None:
            out["trees"][path] = st.tree
    return out


def main() -> None:
    out_path, files = sys.argv[1], sys.argv[2:]
    built = build_trees(files)
    ctx = {"types": built["types"], "annotate": True}
    sys.setrecursionlimit(20000)
    data = {"errors": built["errors"], "files": {p: [stmt_to_json(s, ctx) for s in t.defs] for p, t in built["trees"].items()}}
    json.dump(data, open(out_path, "w"))


if __name__ == "__main__":
    main()
