# Tree shapes that only exist after mypy's semantic analysis (valid Python all of it).
import sys
from typing import TYPE_CHECKING, Any, NamedTuple, TypedDict, overload

IMPL = "CPython"
name = "abc"


@overload
def f(v: int) -> int: ...


if IMPL.startswith("Py"):

    @overload
    def f(v: str) -> str: ...


def f(v: Any) -> Any:
    return v


@overload
def g(v: int) -> int: ...


if name.endswith(".txt"):

    @overload
    def g(v: bytes) -> bytes: ...

elif len(name) == 0:

    @overload
    def g(v: str) -> str: ...


def g(v: Any) -> Any:
    return v


if sys.version_info >= (3, 8):

    def h() -> int:
        return int(0)

else:

    def h() -> int:
        return 1


if TYPE_CHECKING:
    from collections.abc import Iterable


class NT(NamedTuple):
    a: int
    b: str = ""


class TD(TypedDict, total=False):
    k: int


class Empty:
    """only a docstring"""


def only_docstring() -> None:
    """nothing else"""


def only_ellipsis() -> None: ...


x = y = z = int(0)
(a, b), c = (1, 2), 3
lam0 = lambda: None  # noqa: E731
lam1 = lambda *args, **kw: (args, kw)  # noqa: E731
empties = [(), [], {}, set(), "", b"", f""]
print()
try:
    pass
finally:
    pass
with open("f"):
    pass
for _ in ():
    pass
while False:
    pass
assert True
del x
if name.startswith("a"):
    pass
