/-
The value-level (and, below, statement-level) rewrite rules of refurb's checks, as pairs of expressions of Model/PyVal.lean over
operand variables.  Each row says which check proposes it, for which declared operand types, and
whether only the truth value is observable (the check fires in condition position only).
harness/props/c01.py checks on every run that refurb really proposes `new` for `old`.
-/
import RefurbVerif.Model.PyVal

namespace RefurbVerif.Py

structure Rule where
  code : Nat
  label : String
  /-- operand variables with the exact runtime class their declared static type stands for (`none` = any scalar) -/
  vars : List (String × Option TypeName)
  old : PyExpr
  new : PyExpr
  /-- the check only fires where the value is used as a condition: compare truthiness -/
  condPos : Bool := false
  /-- non-empty for the rows of `guardedRules`: the part of the declared domain on which the rewrite is proved (in words) -/
  guard : String := ""
  deriving Repr

def x : PyExpr := .var "x"
def y : PyExpr := .var "y"
def z : PyExpr := .var "z"
def lTrue : PyExpr := .lit (vBool true)
def lFalse : PyExpr := .lit (vBool false)
def lNone : PyExpr := .lit vNone
def lInt (i : Int) : PyExpr := .lit (vInt i)
def lStrEmpty : PyExpr := .lit (.sc (.str []))
def lListEmpty : PyExpr := .lit (.list [])
def lTupleEmpty : PyExpr := .lit (.tuple [])

def anyS : Option TypeName := none
def w : PyExpr := .var "w"
def lOne : PyExpr := .lit (.sc (.str ['1']))
def lFloatZero : PyExpr := .lit (.sc (.flt (.whole 0)))

def r108_eq_or_eq : Rule :=
  { code := 108, label := "eq-or-eq", vars := [("x", anyS), ("y", anyS), ("z", anyS)],
    old := .or_ (.eq x y) (.eq x z), new := .in_ x (.tup2 y z) }

def r109_in_list : Rule :=
  { code := 109, label := "in-list", vars := [("x", anyS), ("y", anyS), ("z", anyS)],
    old := .in_ x (.list2 y z), new := .in_ x (.tup2 y z) }

def r110_if_else_or : Rule :=
  { code := 110, label := "if-else-or", vars := [("x", anyS), ("y", anyS)],
    old := .ifExp x x y, new := .or_ x y }

def r114_not_not : Rule :=
  { code := 114, label := "not-not", vars := [("x", anyS)], old := .not_ (.not_ x), new := .boolOf x }

def r115_len_eq_0_str : Rule :=
  { code := 115, label := "len-eq-0:str", vars := [("x", some .str)], old := .eq (.len x) (lInt 0), new := .not_ x, condPos := true }

def r115_len_eq_0_list : Rule :=
  { code := 115, label := "len-eq-0:list", vars := [("x", some .list)], old := .eq (.len x) (lInt 0), new := .not_ x, condPos := true }

def r115_len_ge_1_list : Rule :=
  { code := 115, label := "len-ge-1:list", vars := [("x", some .list)], old := .ge (.len x) (lInt 1), new := x, condPos := true }

def r115_len_gt_0_tuple : Rule :=
  { code := 115, label := "len-gt-0:tuple", vars := [("x", some .tuple)], old := .gt (.len x) (lInt 0), new := x, condPos := true }

def r115_len_ne_0_str : Rule :=
  { code := 115, label := "len-ne-0:str", vars := [("x", some .str)], old := .ne (.len x) (lInt 0), new := x, condPos := true }

def r123_int : Rule :=
  { code := 123, label := "int", vars := [("x", some .int)], old := .intOf x, new := x }

def r123_str : Rule :=
  { code := 123, label := "str", vars := [("x", some .str)], old := .strOf x, new := x }

def r123_bool : Rule :=
  { code := 123, label := "bool", vars := [("x", some .bool)], old := .boolOf x, new := x }

def r123_list : Rule :=
  { code := 123, label := "list", vars := [("x", some .list)], old := .listOf x, new := .copy x }

def r123_tuple : Rule :=
  { code := 123, label := "tuple", vars := [("x", some .tuple)], old := .tupleOf x, new := x }

def r124_eq_and_eq : Rule :=
  { code := 124, label := "eq-and-eq", vars := [("x", anyS), ("y", anyS), ("z", anyS)],
    old := .and_ (.eq x y) (.eq x z), new := .chainEq x y z }

def r136_max_int : Rule :=
  { code := 136, label := "max:int", vars := [("x", some .int), ("y", some .int)], old := .ifExp x (.gt x y) y, new := .max2 x y }

def r136_min_int : Rule :=
  { code := 136, label := "min:int", vars := [("x", some .int), ("y", some .int)], old := .ifExp x (.lt x y) y, new := .min2 x y }

def r136_max_str : Rule :=
  { code := 136, label := "max:str", vars := [("x", some .str), ("y", some .str)], old := .ifExp x (.gt x y) y, new := .max2 x y }

def r143_or_empty_str : Rule :=
  { code := 143, label := "or-empty:str", vars := [("x", some .str)], old := .or_ x lStrEmpty, new := x }

def r143_or_zero_int : Rule :=
  { code := 143, label := "or-zero:int", vars := [("x", some .int)], old := .or_ x (lInt 0), new := x }

def r143_or_empty_list : Rule :=
  { code := 143, label := "or-empty:list", vars := [("x", some .list)], old := .or_ x lListEmpty, new := x }

def r143_or_false_bool : Rule :=
  { code := 143, label := "or-false:bool", vars := [("x", some .bool)], old := .or_ x lFalse, new := x }

def r143_or_empty_tuple : Rule :=
  { code := 143, label := "or-empty:tuple", vars := [("x", some .tuple)], old := .or_ x lTupleEmpty, new := x }

def r145_slice_copy_list : Rule :=
  { code := 145, label := "slice-copy:list", vars := [("x", some .list)], old := .sliceAll x, new := .copy x }

def r149_eq_true : Rule :=
  { code := 149, label := "eq-true", vars := [("x", some .bool)], old := .eq x lTrue, new := x }

def r149_is_true : Rule :=
  { code := 149, label := "is-true", vars := [("x", some .bool)], old := .is_ x lTrue, new := x }

def r149_ne_false : Rule :=
  { code := 149, label := "ne-false", vars := [("x", some .bool)], old := .ne x lFalse, new := x }

def r149_eq_false : Rule :=
  { code := 149, label := "eq-false", vars := [("x", some .bool)], old := .eq x lFalse, new := .not_ x }

def r149_is_not_true : Rule :=
  { code := 149, label := "is-not-true", vars := [("x", some .bool)], old := .isNot x lTrue, new := .not_ x }

def r168_isinstance_none : Rule :=
  { code := 168, label := "isinstance-none", vars := [("x", anyS)], old := .isinstance x .noneType, new := .is_ x lNone }

def r169_type_is_none : Rule :=
  { code := 169, label := "type-is-none", vars := [("x", anyS)], old := .typeIsNone x, new := .is_ x lNone }

def r171_in_single : Rule :=
  { code := 171, label := "in-single", vars := [("x", anyS), ("y", anyS)], old := .in_ x (.tup1 y), new := .eq x y }

def r192_sorted_0_ints : Rule :=
  { code := 192, label := "sorted-0:ints", vars := [("x", some .list)], old := .index0 (.sorted x), new := .minL x }


/-! #### rows added in the second round -/

def r102_startswith : Rule :=
  { code := 102, label := "startswith", vars := [("x", some .str), ("y", anyS), ("z", anyS)],
    old := .or_ (.startswith x y) (.startswith x z), new := .startswith x (.tup2 y z) }

def r102_endswith : Rule :=
  { code := 102, label := "endswith", vars := [("x", some .str), ("y", anyS), ("z", anyS)],
    old := .or_ (.endswith x y) (.endswith x z), new := .endswith x (.tup2 y z) }

def r102_not_startswith : Rule :=
  { code := 102, label := "not-startswith", vars := [("x", some .str), ("y", some .str), ("z", some .str)],
    old := .and_ (.not_ (.startswith x y)) (.not_ (.startswith x z)), new := .not_ (.startswith x (.tup2 y z)) }

def r102_not_endswith : Rule :=
  { code := 102, label := "not-endswith", vars := [("x", some .str), ("y", some .str), ("z", some .str)],
    old := .and_ (.not_ (.endswith x y)) (.not_ (.endswith x z)), new := .not_ (.endswith x (.tup2 y z)) }

def r109_in_list3 : Rule :=
  { code := 109, label := "in-list3", vars := [("x", anyS), ("y", anyS), ("z", anyS), ("w", anyS)],
    old := .in_ x (.list3 y z w), new := .in_ x (.tup3 y z w) }

def r109_in_list1 : Rule :=
  { code := 109, label := "in-list1", vars := [("x", anyS), ("y", anyS)], old := .in_ x (.list1 y), new := .in_ x (.tup1 y) }

def r112_list : Rule := { code := 112, label := "list()", vars := [], old := .call0 .list, new := lListEmpty }
def r112_tuple : Rule := { code := 112, label := "tuple()", vars := [], old := .call0 .tuple, new := lTupleEmpty }
def r112_str : Rule := { code := 112, label := "str()", vars := [], old := .call0 .str, new := lStrEmpty }
def r112_int : Rule := { code := 112, label := "int()", vars := [], old := .call0 .int, new := lInt 0 }
def r112_bool : Rule := { code := 112, label := "bool()", vars := [], old := .call0 .bool, new := lFalse }
def r112_float : Rule := { code := 112, label := "float()", vars := [], old := .call0 .float, new := lFloatZero }

def r115_len_eq_0_tuple : Rule :=
  { code := 115, label := "len-eq-0:tuple", vars := [("x", some .tuple)], old := .eq (.len x) (lInt 0), new := .not_ x, condPos := true }

def r115_len_gt_0_str : Rule :=
  { code := 115, label := "len-gt-0:str", vars := [("x", some .str)], old := .gt (.len x) (lInt 0), new := x, condPos := true }

def r115_len_ne_0_list : Rule :=
  { code := 115, label := "len-ne-0:list", vars := [("x", some .list)], old := .ne (.len x) (lInt 0), new := x, condPos := true }

def r119_str : Rule :=
  { code := 119, label := "fstring-str", vars := [("x", anyS)], old := .fstr (.strOf x), new := .fstr x }

def r119_bin : Rule :=
  { code := 119, label := "fstring-bin", vars := [("x", some .int)], old := .fstr (.radixOf .bin x), new := .fmtRadix .bin true x }

def r119_oct : Rule :=
  { code := 119, label := "fstring-oct", vars := [("x", some .int)], old := .fstr (.radixOf .oct x), new := .fmtRadix .oct true x }

def r119_hex : Rule :=
  { code := 119, label := "fstring-hex", vars := [("x", some .int)], old := .fstr (.radixOf .hex x), new := .fmtRadix .hex true x }

def r121_int_str : Rule :=
  { code := 121, label := "isinstance-or:int-str", vars := [("x", anyS)],
    old := .or_ (.isinstance x .int) (.isinstance x .str), new := .isinstance2 x .int .str }

def r121_bool_float : Rule :=
  { code := 121, label := "isinstance-or:bool-float", vars := [("x", anyS)],
    old := .or_ (.isinstance x .bool) (.isinstance x .float), new := .isinstance2 x .bool .float }

def r121_list_tuple : Rule :=
  { code := 121, label := "isinstance-or:list-tuple", vars := [("x", some .list)],
    old := .or_ (.isinstance x .list) (.isinstance x .tuple), new := .isinstance2 x .list .tuple }

def r124_eq_and_eq_mid : Rule :=
  { code := 124, label := "eq-and-eq:shared-middle", vars := [("x", anyS), ("y", anyS), ("z", anyS)],
    old := .and_ (.eq x y) (.eq y z), new := .chainEq x y z }

def r124_eq_and_eq_rev : Rule :=
  { code := 124, label := "eq-and-eq:second-reversed", vars := [("x", anyS), ("y", anyS), ("z", anyS)],
    old := .and_ (.eq x y) (.eq z x), new := .chainEq x y z }

def r136_max_ge_int : Rule :=
  { code := 136, label := "max-ge:int", vars := [("x", some .int), ("y", some .int)], old := .ifExp x (.ge x y) y, new := .max2 x y }

def r136_min_le_int : Rule :=
  { code := 136, label := "min-le:int", vars := [("x", some .int), ("y", some .int)], old := .ifExp x (.le x y) y, new := .min2 x y }

def r136_min_swapped_int : Rule :=
  { code := 136, label := "min-swapped:int", vars := [("x", some .int), ("y", some .int)], old := .ifExp y (.gt x y) x, new := .min2 x y }

def r136_max_swapped_int : Rule :=
  { code := 136, label := "max-swapped:int", vars := [("x", some .int), ("y", some .int)], old := .ifExp y (.lt x y) x, new := .max2 x y }

def r136_min_str : Rule :=
  { code := 136, label := "min:str", vars := [("x", some .str), ("y", some .str)], old := .ifExp x (.lt x y) y, new := .min2 x y }

def r149_ne_true : Rule :=
  { code := 149, label := "ne-true", vars := [("x", some .bool)], old := .ne x lTrue, new := .not_ x }

def r149_is_not_false : Rule :=
  { code := 149, label := "is-not-false", vars := [("x", some .bool)], old := .isNot x lFalse, new := x }

def r149_is_false : Rule :=
  { code := 149, label := "is-false", vars := [("x", some .bool)], old := .is_ x lFalse, new := .not_ x }

def r161_bit_count : Rule :=
  { code := 161, label := "bit-count", vars := [("x", some .int)], old := .count (.radixOf .bin x) lOne, new := .bitCount x }

def r161_bit_count_sliced : Rule :=
  { code := 161, label := "bit-count:sliced", vars := [("x", some .int)], old := .count (.sliceFrom (.radixOf .bin x) (lInt 2)) lOne, new := .bitCount x }

def r169_type_eq_none : Rule :=
  { code := 169, label := "type-eq-none", vars := [("x", anyS)], old := .typeEqNone x, new := .is_ x lNone }

def r169_type_ne_none : Rule :=
  { code := 169, label := "type-ne-none", vars := [("x", anyS)], old := .typeNeNone x, new := .isNot x lNone }

def r169_type_is_not_none : Rule :=
  { code := 169, label := "type-is-not-none", vars := [("x", anyS)], old := .typeIsNotNone x, new := .isNot x lNone }

def r171_in_single_list : Rule :=
  { code := 171, label := "in-single:list", vars := [("x", anyS), ("y", anyS)], old := .in_ x (.list1 y), new := .eq x y }

def r171_not_in_single : Rule :=
  { code := 171, label := "not-in-single", vars := [("x", anyS), ("y", anyS)], old := .notIn x (.tup1 y), new := .ne x y }

def r183_fstring : Rule :=
  { code := 183, label := "fstring", vars := [("x", anyS)], old := .fstr x, new := .strOf x }

def r188_removeprefix : Rule :=
  { code := 188, label := "removeprefix", vars := [("x", some .str), ("y", some .str)],
    old := .ifExp (.sliceFrom x (.len y)) (.startswith x y) x, new := .removeprefix x y }

/-- FURB188 has no type guard at all: the same rewrite on operands of ANY scalar class (both sides raise unless both are strs) -/
def r188_removeprefix_any : Rule :=
  { code := 188, label := "removeprefix:any-operands", vars := [("x", anyS), ("y", anyS)],
    old := .ifExp (.sliceFrom x (.len y)) (.startswith x y) x, new := .removeprefix x y }

def r192_sorted_rev_0_ints : Rule :=
  { code := 192, label := "sorted-reverse-0:ints", vars := [("x", some .list)], old := .index0 (.sortedRev x), new := .maxL x }

def rules : List Rule := [
  r108_eq_or_eq,
  r109_in_list,
  r110_if_else_or,
  r114_not_not,
  r115_len_eq_0_str,
  r115_len_eq_0_list,
  r115_len_ge_1_list,
  r115_len_gt_0_tuple,
  r115_len_ne_0_str,
  r123_int,
  r123_str,
  r123_bool,
  r123_list,
  r123_tuple,
  r124_eq_and_eq,
  r136_max_int,
  r136_min_int,
  r136_max_str,
  r143_or_empty_str,
  r143_or_zero_int,
  r143_or_empty_list,
  r143_or_false_bool,
  r143_or_empty_tuple,
  r145_slice_copy_list,
  r149_eq_true,
  r149_is_true,
  r149_ne_false,
  r149_eq_false,
  r149_is_not_true,
  r168_isinstance_none,
  r169_type_is_none,
  r171_in_single,
  r192_sorted_0_ints,
  r102_startswith,
  r102_endswith,
  r102_not_startswith,
  r102_not_endswith,
  r109_in_list3,
  r109_in_list1,
  r112_list,
  r112_tuple,
  r112_str,
  r112_int,
  r112_bool,
  r112_float,
  r115_len_eq_0_tuple,
  r115_len_gt_0_str,
  r115_len_ne_0_list,
  r119_str,
  r119_bin,
  r119_oct,
  r119_hex,
  r121_int_str,
  r121_bool_float,
  r121_list_tuple,
  r124_eq_and_eq_mid,
  r124_eq_and_eq_rev,
  r136_max_ge_int,
  r136_min_le_int,
  r136_min_swapped_int,
  r136_max_swapped_int,
  r136_min_str,
  r149_ne_true,
  r149_is_not_false,
  r149_is_false,
  r161_bit_count,
  r161_bit_count_sliced,
  r169_type_eq_none,
  r169_type_ne_none,
  r169_type_is_not_none,
  r171_in_single_list,
  r171_not_in_single,
  r183_fstring,
  r188_removeprefix,
  r188_removeprefix_any,
  r192_sorted_rev_0_ints
]

/- rules that are FALSE on part of the domain their check accepts and PROVED on the rest: each has a refutation by witness
   and a partial theorem under `guard` (Props/C01.lean) -/

def g116_bin : Rule :=
  { code := 116, label := "bin-slice", vars := [("x", some .int)], old := .sliceFrom (.radixOf .bin x) (lInt 2), new := .fmtRadix .bin false x,
    guard := "0 <= x (the check's docstring: negative numbers differ)" }

def g116_oct : Rule :=
  { code := 116, label := "oct-slice", vars := [("x", some .int)], old := .sliceFrom (.radixOf .oct x) (lInt 2), new := .fmtRadix .oct false x,
    guard := "0 <= x (the check's docstring: negative numbers differ)" }

def g116_hex : Rule :=
  { code := 116, label := "hex-slice", vars := [("x", some .int)], old := .sliceFrom (.radixOf .hex x) (lInt 2), new := .fmtRadix .hex false x,
    guard := "0 <= x (the check's docstring: negative numbers differ)" }

def g188_removesuffix : Rule :=
  { code := 188, label := "removesuffix", vars := [("x", some .str), ("y", some .str)],
    old := .ifExp (.sliceTo x (.neg (.len y))) (.endswith x y) x, new := .removesuffix x y,
    guard := "y is not the empty string (x[:-0] is empty)" }

def g192_sorted_last : Rule :=
  { code := 192, label := "sorted-last", vars := [("x", some .list)], old := .indexLast (.sorted x), new := .maxL x,
    guard := "x is a list of ints (ties between equal but distinguishable items: C01-furb192-ties)" }

def g192_sorted_rev_last : Rule :=
  { code := 192, label := "sorted-reverse-last", vars := [("x", some .list)], old := .indexLast (.sortedRev x), new := .minL x,
    guard := "x is a list of ints (ties between equal but distinguishable items: C01-furb192-ties)" }

def guardedRules : List Rule := [
  g116_bin,
  g116_oct,
  g116_hex,
  g188_removesuffix,
  g192_sorted_last,
  g192_sorted_rev_last
]

/- rules whose full statement is false on part of their declared domain: the refuting variants -/
def x136_max_bool_int : Rule :=
  { code := 136, label := "max:bool-int", vars := [("x", some .bool), ("y", some .int)], old := .ifExp x (.gt x y) y, new := .max2 x y }

def x143_or_zero_float : Rule :=
  { code := 143, label := "or-zero:float", vars := [("x", some .float)], old := .or_ x (.lit (.sc (.flt (.whole 0)))), new := x }

def x145_slice_copy_tuple : Rule :=
  { code := 145, label := "slice-copy:tuple", vars := [("x", some .tuple)], old := .sliceAll x, new := .copy x }

def x123_int_bool_operand : Rule :=
  { code := 123, label := "int:bool-operand", vars := [("x", some .bool)], old := .intOf x, new := x }

def refutedRules : List Rule := [
  x136_max_bool_int,
  x143_or_zero_float,
  x145_slice_copy_tuple,
  x123_int_bool_operand
]

/-! ### Statement-level rules (function bodies in the block language of Model/PyVal.lean)

`advice` is the exact message refurb gives for `old`: these messages are schematic, so `new` is the advice
applied by hand; harness/props/c01_stmt.py checks on every run that refurb reports `advice` on the rendered
`old` block, and that CPython runs the rendered `old` and `new` blocks as the model does. -/

structure SRule where
  code : Nat
  label : String
  vars : List (String × Option TypeName)
  old : List Stmt
  new : List Stmt
  advice : String
  /-- names whose final binding is NOT compared: a temporary / loop variable the rewrite removes -/
  ignore : List String := []
  /-- the rule's blocks are rendered inside this many enclosing `for _ in range(1):` blocks (FURB128 only sees
      swaps below the top level of a function) -/
  nest : Nat := 0
  /-- non-empty for the rows of `guardedSRules`: the part of the declared domain on which the rewrite is proved -/
  guard : String := ""

def acc : PyExpr := .var "acc"
def e_ : PyExpr := .var "e"
def a_ : PyExpr := .var "a"
def b_ : PyExpr := .var "b"
def xs_ : PyExpr := .var "xs"

def s113_two_appends : SRule :=
  { code := 113, label := "two-appends", vars := [("acc", some .list), ("a", anyS), ("b", anyS)],
    old := [.append "acc" a_, .append "acc" b_], new := [.extend2 "acc" a_ b_],
    advice := "Replace `acc.append(...); acc.append(...)` with `acc.extend((..., ...))`" }

def s125_trailing_return : SRule :=
  { code := 125, label := "trailing-return", vars := [("acc", some .list), ("a", anyS)],
    old := [.append "acc" a_, .ret none], new := [.append "acc" a_], advice := "Return is redundant here" }

def s125_return_in_else : SRule :=
  { code := 125, label := "return-in-else", vars := [("acc", some .list), ("a", anyS), ("b", anyS)],
    old := [.ifElse a_ [.append "acc" a_] [.append "acc" b_, .ret none]], new := [.ifElse a_ [.append "acc" a_] [.append "acc" b_]],
    advice := "Return is redundant here" }

def s126_else_return : SRule :=
  { code := 126, label := "else-return", vars := [("a", anyS), ("b", anyS)],
    old := [.ifElse a_ [.ret (some a_)] [.ret (some b_)]], new := [.ifElse a_ [.ret (some a_)] [], .ret (some b_)],
    advice := "Replace `else: return x` with `return x`" }

def s128_swap : SRule :=
  { code := 128, label := "swap", vars := [("a", anyS), ("b", anyS)],
    old := [.assign "tmp" a_, .assign "a" b_, .assign "b" (.var "tmp")], new := [.assign2 "a" "b" b_ a_],
    advice := "Use tuple unpacking instead of temporary variables to swap values", ignore := ["tmp"], nest := 1 }

def s133_trailing_continue : SRule :=
  { code := 133, label := "trailing-continue", vars := [("acc", some .list), ("xs", some .list)],
    old := [.forIn "e" xs_ [.append "acc" e_, .cont]], new := [.forIn "e" xs_ [.append "acc" e_]],
    advice := "Continue is redundant here" }

def s138_loop_append : SRule :=
  { code := 138, label := "loop-append", vars := [("xs", some .list)],
    old := [.assign "acc" lListEmpty, .forIn "e" xs_ [.append "acc" e_]], new := [.listComp "acc" e_ "e" xs_ none],
    advice := "Consider using list comprehension", ignore := ["e"] }

def s138_loop_append_if : SRule :=
  { code := 138, label := "loop-append-if", vars := [("xs", some .tuple)],
    old := [.assign "acc" lListEmpty, .forIn "e" xs_ [.ifElse e_ [.append "acc" e_] []]], new := [.listComp "acc" e_ "e" xs_ (some e_)],
    advice := "Consider using list comprehension", ignore := ["e"] }

def s148_index_unused : SRule :=
  { code := 148, label := "index-unused", vars := [("acc", some .list), ("xs", some .list)],
    old := [.forEnum "i" "e" xs_ [.append "acc" e_]], new := [.forIn "e" xs_ [.append "acc" e_]],
    advice := "Index is unused, use `for e in xs` instead", ignore := ["i"] }


/-! #### rows added in the second round.  Lists are values in the block language: the in-place methods rebind the
name, so these theorems say nothing about OTHER references to the same list (that `x = sorted(x)` -> `x.sort()` and
`x = x[::-1]` -> `x.reverse()` change what an alias / the caller sees is the recorded finding C01-inplace-rewrites-alias). -/

def s109_loop_over_list : SRule :=
  { code := 109, label := "loop-over-list-display", vars := [("acc", some .list), ("a", anyS), ("b", anyS)],
    old := [.forIn "e" (.list2 a_ b_) [.append "acc" e_]], new := [.forIn "e" (.tup2 a_ b_) [.append "acc" e_]],
    advice := "Replace `in [x, y, z]` with `in (x, y, z)`" }

def s131_del_slice : SRule :=
  { code := 131, label := "del-slice", vars := [("xs", some .list)], old := [.delAll "xs"], new := [.clear "xs"],
    advice := "Replace `del xs[:]` with `xs.clear()`" }

def s131_slice_assign : SRule :=
  { code := 131, label := "slice-assign-empty", vars := [("xs", some .list)], old := [.sliceAssignEmpty "xs"], new := [.clear "xs"],
    advice := "Replace `xs[:] = []` with `xs.clear()`" }

def s160_self_assign : SRule :=
  { code := 160, label := "self-assign", vars := [("a", anyS)], old := [.assign "a" a_], new := [],
    advice := "Remove redundant assignment of variable to itself" }

def s186_sort : SRule :=
  { code := 186, label := "sorted-assign", vars := [("xs", some .list)], old := [.assign "xs" (.sorted xs_)], new := [.sortIn "xs" false],
    advice := "Replace `xs = sorted(xs)` with `xs.sort()`" }

def s186_sort_reverse : SRule :=
  { code := 186, label := "sorted-reverse-assign", vars := [("xs", some .list)], old := [.assign "xs" (.sortedRev xs_)], new := [.sortIn "xs" true],
    advice := "Replace `xs = sorted(xs, reverse=True)` with `xs.sort(reverse=True)`" }

def s187_slice_reverse : SRule :=
  { code := 187, label := "slice-reverse-assign", vars := [("xs", some .list)], old := [.assign "xs" (.sliceRev xs_)], new := [.reverseIn "xs"],
    advice := "Replace `xs = xs[::-1]` with `xs.reverse()`" }

def s187_list_reversed : SRule :=
  { code := 187, label := "list-reversed-assign", vars := [("xs", some .list)], old := [.assign "xs" (.listReversed xs_)], new := [.reverseIn "xs"],
    advice := "Replace `xs = list(reversed(xs))` with `xs.reverse()`" }

def s188_removeprefix : SRule :=
  { code := 188, label := "if-startswith", vars := [("a", some .str), ("b", some .str)],
    old := [.ifElse (.startswith a_ b_) [.assign "a" (.sliceFrom a_ (.len b_))] []], new := [.assign "a" (.removeprefix a_ b_)],
    advice := "Replace `if a.startswith(b): a = a[len(b):]` with `a = a.removeprefix(b)`" }

def srules : List SRule := [
  s113_two_appends,
  s125_trailing_return,
  s125_return_in_else,
  s126_else_return,
  s128_swap,
  s133_trailing_continue,
  s138_loop_append,
  s138_loop_append_if,
  s148_index_unused,
  s109_loop_over_list,
  s131_del_slice,
  s131_slice_assign,
  s160_self_assign,
  s186_sort,
  s186_sort_reverse,
  s187_slice_reverse,
  s187_list_reversed,
  s188_removeprefix
]

/-- FURB188, statement form, suffix: false for the empty suffix (`a[:-0]` is empty), proved for every other -/
def gs188_removesuffix : SRule :=
  { code := 188, label := "if-endswith", vars := [("a", some .str), ("b", some .str)],
    old := [.ifElse (.endswith a_ b_) [.assign "a" (.sliceTo a_ (.neg (.len b_)))] []], new := [.assign "a" (.removesuffix a_ b_)],
    advice := "Replace `if a.endswith(b): a = a[:-len(b)]` with `a = a.removesuffix(b)`",
    guard := "b is not the empty string" }

def guardedSRules : List SRule := [gs188_removesuffix]

/- the same advice where refurb gives it although the rewrite is not behaviour-preserving: the refuting variants -/

/-- FURB113 when the second appended value reads the list -/
def sx113_reads_list : SRule :=
  { code := 113, label := "two-appends:second-reads-list", vars := [("acc", some .list), ("a", anyS)],
    old := [.append "acc" a_, .append "acc" (.len acc)], new := [.extend2 "acc" a_ (.len acc)],
    advice := "Replace `acc.append(...); acc.append(...)` with `acc.extend((..., ...))`" }

/-- FURB128 when the temporary's binding is observed afterwards -/
def sx128_swap_tmp_observed : SRule := { s128_swap with label := "swap:temporary-observed", ignore := [] }

/-- FURB138 when the filter reads the list being built (the de-duplication loop) -/
def sx138_condition_reads_list : SRule :=
  { code := 138, label := "loop-append-if:condition-reads-list", vars := [("xs", some .list)],
    old := [.assign "acc" lListEmpty, .forIn "e" xs_ [.ifElse (.notIn e_ acc) [.append "acc" e_] []]],
    new := [.listComp "acc" e_ "e" xs_ (some (.notIn e_ acc))],
    advice := "Consider using list comprehension", ignore := ["e"] }

/-- FURB138 / FURB148 when the loop variable (the dropped index) is read after the loop -/
def sx138_loop_var_observed : SRule := { s138_loop_append with label := "loop-append:loop-variable-observed", ignore := [] }
def sx148_index_observed : SRule := { s148_index_unused with label := "index-unused:index-observed", ignore := [] }

def refutedSRules : List SRule := [
  sx113_reads_list,
  sx128_swap_tmp_observed,
  sx138_condition_reads_list,
  sx138_loop_var_observed,
  sx148_index_observed
]

end RefurbVerif.Py
