"""Imports every harness/extract_*.py module (each registers its extractors into extract.EXTRACTORS)."""
import importlib
import pkgutil
from pathlib import Path

for _m in pkgutil.iter_modules([str(Path(__file__).parent)]):
    if _m.name.startswith("extract_") and _m.name not in ("extract_more", "extract_main"):
        importlib.import_module(f"harness.{_m.name}")
