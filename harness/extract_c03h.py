"""Translator for C03: the exception-handler table of main()/run_refurb(), by fault injection."""

from __future__ import annotations

import json
import subprocess
import textwrap
from concurrent.futures import ThreadPoolExecutor

from . import core, extract
from .extract import HEADER

STAGES = ["loadSettings", "processOptions", "build", "loadChecks", "visit", "readSource", "timing", "format"]
EXCS = {
    "valueError": "ValueError('boom')",
    "typeError": "TypeError('boom')",
    "systemExit": "SystemExit(2)",
    "compileError": "__import__('mypy.errors').errors.CompileError(['f.py:1: error: boom'])",
    "recursionError": "RecursionError('boom')",
    "notImplementedError": "NotImplementedError('boom')",
    "unicodeDecodeError": "UnicodeDecodeError('utf-8', b'\\xe9', 0, 1, 'boom')",
    "importError": "ModuleNotFoundError('boom')",
    "osError": "PermissionError('boom')",
    "keyError": "KeyError('boom')",
    "attributeError": "AttributeError('boom')",
    "assertionError": "AssertionError('boom')",
}

WORKER = textwrap.dedent(
    """
    import io, json, sys, contextlib
    import refurb.main as m
    stage, exc_src = sys.argv[1], sys.argv[2]
    def boom(*a, **k):
        raise eval(exc_src)
    open("f.py", "w").write("x = int(0)  # noqa: FURB999\\n")
    open("pyproject.toml", "w").write("")
    if stage == "loadSettings": m.load_settings = boom
    elif stage == "processOptions": m.process_options = boom
    elif stage == "build": m.build = boom
    elif stage == "loadChecks": m.load_checks = boom
    elif stage == "visit": m.RefurbVisitor.accept = boom
    elif stage == "readSource": m.get_source_lines = boom
    elif stage == "timing": m.output_timing_stats = boom
    elif stage == "format": m.format_errors = boom
    out = io.StringIO()
    res = {}
    try:
        with contextlib.redirect_stdout(out):
            rc = m.main(["f.py", "--quiet"])
        res = {"r": "returned", "rc": rc, "stdout": out.getvalue()}
    except BaseException as e:
        res = {"r": "raised", "type": type(e).__name__, "stdout": out.getvalue()}
    json.dump(res, open("_out.json", "w"))
    """
)

_cache: dict[str, list[tuple[str, str, str, dict]]] = {}


def inject_all() -> list[tuple[str, str, str, dict]]:
    if "t" not in _cache:
        # every Python file of refurb can influence what main() does with an exception
        rows = core.cached_json("handlers", ["refurb/**/*.py"], lambda: [list(r) for r in _inject_all()])
        _cache["t"] = [tuple(r) for r in rows]
    return _cache["t"]


def _inject_all() -> list[tuple[str, str, str, dict]]:
    rows: list[tuple[str, str, str, dict]] = []
    with core.scratch("rv-c03h-") as root:
        (root / "_worker.py").write_text(WORKER)

        def one(job):
            i, (stage, exc) = job
            d = root / f"j{i}"
            d.mkdir()
            p = subprocess.run([core.PY, str(root / "_worker.py"), stage, EXCS[exc]], cwd=d, capture_output=True, text=True, timeout=300, env=core.py_env())
            if p.returncode != 0 or not (d / "_out.json").exists():
                return stage, exc, "uncaught", {"r": "worker-died", "stderr": p.stderr[-500:]}
            res = json.loads((d / "_out.json").read_text())
            if res["r"] == "raised":
                return stage, exc, "uncaught", res
            # returned: was the normal diagnostic still printed (exception swallowed) or an error line (exit 1 without it)?
            if "[FURB123]" in res["stdout"]:
                return stage, exc, "suppressed", res
            return stage, exc, "errorLine", res

        jobs = list(enumerate((s, e) for s in STAGES for e in EXCS))
        with ThreadPoolExecutor(16) as ex:
            rows = list(ex.map(one, jobs))
    return rows


@extract.register("Handlers")
def gen_handlers() -> str:
    rows = inject_all()
    items = ["(.%s, .%s, .%s)" % (s, e, h) for s, e, h, _ in rows]
    return (
        HEADER
        + "import RefurbVerif.Model.Pipeline\nnamespace RefurbVerif.Generated\n\n"
        + "/-- (stage, exception kind, what main() did) — observed by making the stage's function raise that exception -/\n"
        + "def handlerRows : List (Stage × Exc × Handling) := [\n  " + ",\n  ".join(items) + "\n]\n\n"
        + "def handlers : HandlerTable := lookupHandling handlerRows\n"
        + "\nend RefurbVerif.Generated\n"
    )
