/-
Lemma for C02: on a well-formed tree that satisfies the safe, refurb's `_stringify` (applied to what mypy makes
of the tree) prints exactly what the reference printer prints.
-/
import RefurbVerif.Lemmas.Grammar

namespace RefurbVerif.C02
open RefurbVerif.Sfy

theorem isIdent_nonempty {s : Str} (h : isIdent s = true) : s.isEmpty = false := by
  cases s with
  | nil => simp [isIdent] at h
  | cons c cs => rfl

theorem isIdent_isName {s : Str} (h : isIdent s = true) : isName s = true := by simp [isName, h]

theorem fmtFormat_eq : (['{'] ++ ([] : Str) ++ ":{}}".toList) = fmtFormat := by decide

theorem fstrCall_field (e' : Node) (spec : Str) (hs : spec.all plainSpecChar = true) :
    fstrCall (.member (.str fmtFormat) sFormat) [(.pos, [], e'), (.pos, [], .str spec)]
      = .isF ((sfy e').map (fun t => [.t "{"] ++ t ++ (if spec.isEmpty then [] else [.t ":", .fspec spec]) ++ [.t "}"])) := by
  rw [fstrCall.eq_def]
  simp only [hs, ↓reduceIte]
  simp

theorem fstrCall_join (ps : List Node) (body : Option Toks) (h : fstrItems ps = some (true, body)) :
    fstrCall (.member (.str []) sJoin) [(.pos, [], .list ps)] = .isF body := by
  rw [fstrCall.eq_def]
  have : ¬ (fmtFormat = ([] : Str) ∧ sJoin = sFormat) := by decide
  simp [this, h]

/-- the reference text of a replacement field without conversion whose expression needs no parentheses -/
theorem pr_ffield_guard (e : Node) (spec : Str) (hp : 3 ≤ e.prec) (hs : spec.all plainSpecChar = true)
    (hb : startsWithBrace (pr e) = false) :
    pr (.ffield e none spec) = [.t "{"] ++ pr e ++ (if spec.isEmpty then [] else [.t ":", .fspec spec]) ++ [.t "}"] := by
  simp [pr, wrap_ge _ hp, hb, hs]

mutual
theorem sfy_desugar : (e : Node) → wf e = true → safe e = true → sfy (desugar e) = some (pr e)
  | .name s, hw, _ => by simp [desugar, sfy, pr, unmangle_name s (by simpa [wf] using hw)]
  | .int v, _, _ => by simp [desugar, sfy, pr]
  | .float s, _, _ => by simp [desugar, sfy, pr]
  | .complex s, _, _ => by simp [desugar, sfy, pr]
  | .str v, _, _ => by simp [desugar, sfy, pr]
  | .bytes v, _, _ => by simp [desugar, sfy, pr]
  | .ellipsis, _, hg => by simp [safe] at hg
  | .member e a, hw, hg => by
    have he : wf e = true := by simp [wf] at hw; exact hw.1
    have ⟨⟨hge, hi⟩, hp⟩ : (safe e = true ∧ isIntLit e = false) ∧ 16 ≤ e.prec := by simpa [safe] using hg
    simp [desugar, sfy, pr, sfy_desugar e he hge, hi, wrap_ge _ hp]
  | .dict items, hw, hg => by
    simp [desugar, sfy, pr, sfyDict_desugar items (by simpa [wf] using hw) (by simpa [safe] using hg)]
  | .tuple items, hw, hg => by
    simp [desugar, sfy, pr, sfyItems_desugar false items (by simpa [wf] using hw) (by simpa [safe] using hg),
      desugarL_length]
  | .list items, hw, hg => by
    simp [desugar, sfy, pr, sfyItems_desugar false items (by simpa [wf] using hw) (by simpa [safe] using hg)]
  | .set items, hw, hg => by
    have hi : wfItems false items = true := by simp [wf] at hw; exact hw.2
    simp [desugar, sfy, pr, sfyItems_desugar false items hi (by simpa [safe] using hg)]
  | .call f args, hw, hg => by
    have ⟨⟨hf, ha⟩, _⟩ : (wf f = true ∧ wfArgs args = true) ∧ argsOrdered (args.map (·.1)) = true := by
      simpa [wf] using hw
    have ⟨⟨⟨hgf, hp⟩, hl⟩, hga⟩ : ((safe f = true ∧ 16 ≤ f.prec) ∧ looksLikeFString f = false) ∧ safeArgs args = true := by
      simpa [safe] using hg
    simp [desugar, sfy, fstrCall_notF hf hl, sfy_desugar f hf hgf, sfyArgs_desugar args ha hga, pr, wrap_ge _ hp]
  | .index b i, hw, hg => by
    have ⟨hb, hi⟩ : wf b = true ∧ wfIndex i = true := by simpa [wf] using hw
    have ⟨⟨hgb, hp⟩, hgi⟩ : (safe b = true ∧ 16 ≤ b.prec) ∧ safeIndex i = true := by simpa [safe] using hg
    simp [desugar, sfy, sfy_desugar b hb hgb, sfyIndex_desugar i hi hgi, orX, pr, wrap_ge _ hp]
  | .slice .., _, hg => by simp [safe] at hg
  | .op o l r, hw, hg => by
    have ⟨hl, hr⟩ : wf l = true ∧ wf r = true := by simpa [wf] using hw
    have ⟨⟨⟨hgl, hgr⟩, hpl⟩, hpr⟩ : ((safe l = true ∧ safe r = true) ∧ o.lhs ≤ l.prec) ∧ o.rhs ≤ r.prec := by
      simpa [safe] using hg
    simp [desugar, sfy, sfy_desugar l hl hgl, sfy_desugar r hr hgr, pr, wrap_ge _ hpl, wrap_ge _ hpr]
  | .cmp f rest, hw, hg => by
    have ⟨⟨hf, _⟩, hr⟩ : (wf f = true ∧ rest ≠ []) ∧ wfCmp rest = true := by simpa [wf] using hw
    have ⟨⟨hgf, hp⟩, hgr⟩ : (safe f = true ∧ 7 ≤ f.prec) ∧ safeCmp rest = true := by simpa [safe] using hg
    simp [desugar, sfy, sfy_desugar f hf hgf, sfyCmp_desugar rest hr hgr, pr, wrap_ge _ hp]
  | .unary o e, hw, hg => by
    have he : wf e = true := by simpa [wf] using hw
    have ⟨hge, hp⟩ : safe e = true ∧ o.prec ≤ e.prec := by simpa [safe] using hg
    simp [desugar, sfy, sfy_desugar e he hge, pr, wrap_ge _ hp]
  | .lambda ps none, hw, _ => by simp [wf] at hw
  | .lambda ps (some b), hw, hg => by
    have ⟨hps, hb⟩ : (ps.all (fun p => p.2 = .pos && isIdent p.1)) = true ∧ wf b = true := by simpa [wf] using hw
    have ⟨hgb, hp⟩ : safe b = true ∧ 1 ≤ b.prec := by simpa [safe] using hg
    have hps' : (ps.all (fun p => p.2 = .pos && !p.1.isEmpty)) = true := by
      rw [List.all_eq_true] at hps ⊢
      intro p hp
      have := hps p hp
      simp at this
      simp [this.1, isIdent_nonempty this.2]
    simp [desugar, desugarO, sfy, hps', sfy_desugar b hb hgb, pr, prOpt, wrap_ge _ hp]
  | .cond t c e, hw, hg => by
    have ⟨⟨ht, hc⟩, he⟩ : (wf t = true ∧ wf c = true) ∧ wf e = true := by simpa [wf] using hw
    have ⟨⟨⟨⟨⟨hgt, hgc⟩, hge⟩, hpt⟩, hpc⟩, hpe⟩ :
        (((((safe t = true ∧ safe c = true) ∧ safe e = true) ∧ 3 ≤ t.prec) ∧ 3 ≤ c.prec) ∧ 1 ≤ e.prec) := by
      simpa [safe] using hg
    simp [desugar, sfy, sfy_desugar t ht hgt, sfy_desugar c hc hgc, sfy_desugar e he hge, pr, wrap_ge _ hpt,
      wrap_ge _ hpc, wrap_ge _ hpe]
  | .await e, hw, hg => by
    have he : wf e = true := by simpa [wf] using hw
    have ⟨hge, hp⟩ : safe e = true ∧ 16 ≤ e.prec := by simpa [safe] using hg
    simp [desugar, sfy, sfy_desugar e he hge, pr, wrap_ge _ hp]
  | .walrus l r, hw, hg => by
    have ⟨hgr, hp⟩ : safe r = true ∧ 1 ≤ r.prec := by simpa [safe] using hg
    cases l <;> simp [wf] at hw
    rename_i s
    simp [desugar, sfy, sfy_desugar r hw.2 hgr, pr, wrap_ge _ hp, unmangle_name s (isIdent_isName hw.1)]
  | .star _, _, hg => by simp [safe] at hg
  | .ffield .., _, hg => by simp [safe] at hg
  | .other _, _, hg => by simp [safe] at hg
  | .fstr [], hw, _ => by simp [wf] at hw
  | .fstr [p], hw, hg => by
    have hw' : wfParts [p] = true ∧ isFieldB p = true := by simp [wf] at hw; exact ⟨hw.1.1, hw.1.2⟩
    have hg' : safeParts [p] = true := by simpa [safe] using hg
    cases p <;> simp [isFieldB] at hw'
    rename_i e conv spec
    have ⟨⟨⟨⟨hge, hp⟩, hc⟩, hs⟩, hb⟩ :
        ((((safe e = true ∧ 3 ≤ e.prec) ∧ conv = none) ∧ spec.all plainSpecChar = true) ∧ startsWithBrace (pr e) = false) := by
      simpa [safeParts] using hg'
    subst hc
    have he : wf e = true := by simp [wfParts] at hw'; exact hw'.1
    have hf := fstrCall_field (desugar e) spec hs
    rw [sfy_desugar e he hge] at hf
    simp only [desugar, desugarL, joinForm, formatCall, fmtFormat_eq, sfy, hf]
    simp [pr, prParts, pr_ffield_guard e spec hp hs hb]
  | .fstr (p :: q :: rest), hw, hg => by
    have ⟨⟨hp, hf⟩, _⟩ : (wfParts (p :: q :: rest) = true ∧ (p :: q :: rest).any isFieldB = true) ∧
        noAdjLits (p :: q :: rest) = true := by simpa [wf] using hw
    have hgp : safeParts (p :: q :: rest) = true := by simpa [safe] using hg
    have hi := fstrItems_desugar (p :: q :: rest) hp hgp
    rw [hf] at hi
    have hj := fstrCall_join (desugarL (p :: q :: rest)) _ hi
    have hd : desugar (.fstr (p :: q :: rest)) = .call (.member (.str []) sJoin) [(.pos, [], .list (desugarL (p :: q :: rest)))] := by
      simp [desugar, desugarL, joinForm]
    rw [hd]
    simp only [sfy, hj]
    simp [pr]

theorem sfyOpt_desugar : (o : Option Node) → wfOpt o = true → safeOpt o = true → sfyOptX (desugarO o) = prOpt o
  | none, _, _ => by simp [desugarO, sfyOptX, prOpt]
  | some e, hw, hg => by
    have he : wf e = true := by simpa [wfOpt] using hw
    have ⟨hge, hp⟩ : safe e = true ∧ 1 ≤ e.prec := by simpa [safeOpt] using hg
    simp [desugarO, sfyOptX, prOpt, sfy_desugar e he hge, orX, wrap_ge _ hp]

theorem sfyItems_desugar : (sl : Bool) → (es : List Node) → wfItems sl es = true → safeItems es = true →
    sfyItems (desugarL es) = prItems es
  | _, [], _, _ => by simp [desugarL, sfyItems, prItems]
  | sl, x :: rest, hw, hg => by
    have ⟨hgx, hgr⟩ : safe x = true ∧ safeItems rest = true := by simpa [safeItems] using hg
    have hw' : wfItems sl (x :: rest) = (wf x && wfItems sl rest) := by
      cases x <;> simp_all [wfItems, safe]
    have ⟨hx, hr⟩ : wf x = true ∧ wfItems sl rest = true := by simpa [hw'] using hw
    simp [desugarL, sfyItems, prItems, sfy_desugar x hx hgx, orX, wrap_zero, sfyItems_desugar sl rest hr hgr]

theorem sfyDict_desugar : (items : List (Option Node × Node)) → wfDict items = true → safeDict items = true →
    sfyDict (desugarD items) = prDict items
  | [], _, _ => by simp [desugarD, sfyDict, prDict]
  | (some k, v) :: rest, hw, hg => by
    have ⟨⟨hk, hv⟩, hr⟩ : (wf k = true ∧ wf v = true) ∧ wfDict rest = true := by simpa [wfDict, wfOpt] using hw
    have ⟨⟨⟨⟨hgk, hpk⟩, hgv⟩, hpv⟩, hgr⟩ :
        ((((safe k = true ∧ 1 ≤ k.prec) ∧ safe v = true) ∧ 1 ≤ v.prec) ∧ safeDict rest = true) := by
      simpa [safeDict] using hg
    simp [desugarD, desugarO, sfyDict, prDict, sfy_desugar k hk hgk, sfy_desugar v hv hgv, orX, wrap_ge _ hpk,
      wrap_ge _ hpv, sfyDict_desugar rest hr hgr]
  | (none, v) :: rest, hw, hg => by
    have ⟨hv, hr⟩ : wf v = true ∧ wfDict rest = true := by simpa [wfDict, wfOpt] using hw
    have ⟨⟨hgv, hpv⟩, hgr⟩ : (safe v = true ∧ 7 ≤ v.prec) ∧ safeDict rest = true := by simpa [safeDict] using hg
    simp [desugarD, desugarO, sfyDict, prDict, sfy_desugar v hv hgv, orX, wrap_ge _ hpv, sfyDict_desugar rest hr hgr]

theorem sfyArgs_desugar : (args : List (ArgKind × Str × Node)) → wfArgs args = true → safeArgs args = true →
    sfyArgs (desugarA args) = some (prArgs args)
  | [], _, _ => by simp [desugarA, sfyArgs, prArgs]
  | (k, nm, a) :: rest, hw, hg => by
    have ⟨⟨hga, hk⟩, hgr⟩ : (safe a = true ∧ (k = .pos ∨ 1 ≤ a.prec)) ∧ safeArgs rest = true := by
      simpa [safeArgs] using hg
    cases k <;> simp [wfArgs] at hw <;> simp at hk
    · simp [desugarA, sfyArgs, prArgs, sfy_desugar a hw.1 hga, sfyArgs_desugar rest hw.2 hgr, wrap_zero]
    · simp [desugarA, sfyArgs, prArgs, sfy_desugar a hw.1 hga, sfyArgs_desugar rest hw.2 hgr, wrap_ge _ hk]
    · simp [desugarA, sfyArgs, prArgs, sfy_desugar a hw.1.2 hga, sfyArgs_desugar rest hw.2 hgr, wrap_ge _ hk]
    · simp [desugarA, sfyArgs, prArgs, sfy_desugar a hw.1 hga, sfyArgs_desugar rest hw.2 hgr, wrap_ge _ hk]

theorem sfyCmp_desugar : (rest : List (CmpOp × Node)) → wfCmp rest = true → safeCmp rest = true →
    sfyCmp (desugarC rest) = some (prCmp rest)
  | [], _, _ => by simp [desugarC, sfyCmp, prCmp]
  | (o, e) :: rest, hw, hg => by
    have ⟨he, hr⟩ : wf e = true ∧ wfCmp rest = true := by simpa [wfCmp] using hw
    have ⟨⟨hge, hp⟩, hgr⟩ : (safe e = true ∧ 7 ≤ e.prec) ∧ safeCmp rest = true := by simpa [safeCmp] using hg
    simp [desugarC, sfyCmp, prCmp, sfy_desugar e he hge, sfyCmp_desugar rest hr hgr, wrap_ge _ hp]

theorem sfyIndex_desugar : (i : Node) → wfIndex i = true → safeIndex i = true → sfy (desugar i) = some (prIndex i)
  | i, hw, hg => by
    by_cases h1 : ∃ b e s, i = .slice b e s
    · obtain ⟨b, e, s, rfl⟩ := h1
      have ⟨⟨hb, he⟩, hs⟩ : (wfOpt b = true ∧ wfOpt e = true) ∧ wfOpt s = true := by simpa [wfIndex] using hw
      have ⟨⟨hgb, hge⟩, hgs⟩ : (safeOpt b = true ∧ safeOpt e = true) ∧ safeOpt s = true := by
        simpa [safeIndex] using hg
      have h3 := sfyOpt_desugar s hs hgs
      cases s with
      | none => simp [desugar, desugarO, sfy, prIndex, pr, sfyOpt_desugar b hb hgb, sfyOpt_desugar e he hge]
      | some s' =>
        simp [desugarO, sfyOptX, prOpt] at h3
        simp [desugar, desugarO, sfy, prIndex, pr, sfyOpt_desugar b hb hgb, sfyOpt_desugar e he hge, h3]
    · by_cases h2 : ∃ items, i = .tuple items
      · obtain ⟨items, rfl⟩ := h2
        have ⟨hns, hgi⟩ : items.any isSliceB = false ∧ safeItems items = true := by simpa [safeIndex] using hg
        have hi : wfItems false items = true := by simpa [wfIndex, hns] using hw
        simp [desugar, sfy, prIndex, hns, sfyItems_desugar false items hi hgi, desugarL_length]
      · have hw' : wfIndex i = wf i := by cases i <;> simp_all [wfIndex]
        have hg' : safeIndex i = safe i := by cases i <;> simp_all [safeIndex]
        have hp : prIndex i = pr i := by cases i <;> simp_all [prIndex]
        rw [hp]
        exact sfy_desugar i (by simpa [hw'] using hw) (by simpa [hg'] using hg)

theorem fstrItems_desugar : (parts : List Node) → wfParts parts = true → safeParts parts = true →
    fstrItems (desugarL parts) = some (parts.any isFieldB, some (prParts parts))
  | [], _, _ => by simp [desugarL, fstrItems, prParts]
  | p :: rest, hw, hg => by
    by_cases h1 : ∃ v, p = .str v
    · obtain ⟨v, rfl⟩ := h1
      have hr : wfParts rest = true := by simp [wfParts] at hw; exact hw.2
      have ⟨hb, hgr⟩ : hasBrace v = false ∧ safeParts rest = true := by simpa [safeParts] using hg
      simp [desugarL, desugar, fstrItems, fstrItems_desugar rest hr hgr, consPart, optAppend, prParts, hb, isFieldB]
    · by_cases h2 : ∃ e conv spec, p = .ffield e conv spec
      · obtain ⟨e, conv, spec, rfl⟩ := h2
        have ⟨⟨⟨⟨⟨hge, hp⟩, hc⟩, hs⟩, hb⟩, hgr⟩ :
            (((((safe e = true ∧ 3 ≤ e.prec) ∧ conv = none) ∧ spec.all plainSpecChar = true) ∧
              startsWithBrace (pr e) = false) ∧ safeParts rest = true) := by
          simpa [safeParts] using hg
        subst hc
        have ⟨he, hr⟩ : wf e = true ∧ wfParts rest = true := by simp [wfParts] at hw; exact ⟨hw.1.1, hw.2⟩
        have hf := fstrCall_field (desugar e) spec hs
        rw [sfy_desugar e he hge] at hf
        simp only [desugarL, desugar, formatCall, fmtFormat_eq, fstrItems, hf, fstrItems_desugar rest hr hgr]
        simp [consPart, optAppend, prParts, pr_ffield_guard e spec hp hs hb, isFieldB]
      · exfalso
        cases p <;> simp_all [wfParts]
end

end RefurbVerif.C02
