"""Translator for C08: how refurb.main.get_source_lines cuts a file into lines, tabulated by calling it.

Generated/NoqaLines.lean holds `noqaLineCfg : LineCfg` = (code points at which a line ends, whether a text
ending in a separator yields a final empty line).  The probe is behavioural — any implementation of
get_source_lines that belongs to the family {split at a set of single characters (+ CRLF), with or without
Python's `str.split` trailing empty string} is recognised whatever its spelling; anything else is an
extraction error.
"""

from __future__ import annotations

import importlib

from . import core, extract

# every character some Python line-splitting routine knows, plus controls that none does
CANDIDATES = [9, 10, 11, 12, 13, 28, 29, 30, 31, 32, 0x85, 0xA0, 0x2028, 0x2029, 0xFEFF]


def probe() -> tuple[list[int], bool]:
    main = importlib.import_module("refurb.main")
    with core.scratch("rv-c08x-") as d:

        def lines(text: str) -> list[str]:
            p = d / ("p%d.txt" % lines.n)
            lines.n += 1
            p.write_bytes(text.encode("utf8"))
            return list(main.get_source_lines(str(p)))

        lines.n = 0
        seps = []
        for cp in CANDIDATES:
            got = lines("a" + chr(cp) + "b")
            if got == ["a", "b"]:
                seps.append(cp)
            elif got != ["a" + chr(cp) + "b"]:
                raise ValueError(f"get_source_lines('a{chr(cp)!r}b') = {got!r}: neither split nor kept")
        t1, t2, t3, t4 = lines("a\n"), lines(""), lines("a\r\nb"), lines("a")
        getattr(main.get_source_lines, "cache_clear", lambda: None)()
    if t4 != ["a"] or t3 != ["a", "b"]:
        raise ValueError(f"get_source_lines: unexpected shape {t3!r} {t4!r}")
    if t1 == ["a"] and t2 == []:
        trailing = False
    elif t1 == ["a", ""] and t2 == [""]:
        trailing = True
    else:
        raise ValueError(f"get_source_lines('a\\n') = {t1!r}, ('') = {t2!r}: not a known trailing-line rule")
    return seps, trailing


@extract.register("NoqaLines")
def noqa_lines() -> str:
    seps, trailing = probe()
    return (
        extract.HEADER
        + "import RefurbVerif.Model.Noqa\nnamespace RefurbVerif.Generated\n\n"
        + "/-- how `refurb.main.get_source_lines` cuts a decoded file into lines (probed by calling it) -/\n"
        + f"def noqaLineCfg : LineCfg := ⟨{extract.llist([str(c) for c in seps])}, {extract.lbool(trailing)}⟩\n\n"
        + "end RefurbVerif.Generated\n"
    )
