/-
C08 — `# noqa` suppresses exactly the named diagnostics on its own line.

Text is `List Char`; every statement holds for files, lines, code lists and diagnostic lists of any length.
-/
import RefurbVerif.Model.Noqa
import RefurbVerif.Generated.NoqaLines
import RefurbVerif.Lemmas.Sort
import RefurbVerif.Lemmas.Order

namespace RefurbVerif.C08
open RefurbVerif

/-! ### Which line is looked at -/

/-- the text contains none of `\v \f \x1c \x1d \x1e \x85 U+2028 U+2029` -/
def NoExotic (s : Str) : Prop := ∀ c ∈ s, isExoticSep c = false

theorem splitLines_congr (p q : Char → Bool) (s : Str) (h : ∀ c ∈ s, p c = q c) (b : Bool) :
    splitLines p b s = splitLines q b s := by
  induction s generalizing b with
  | nil => rfl
  | cons c r ih =>
    have hr : ∀ c ∈ r, p c = q c := fun x hx => h x (List.mem_cons_of_mem _ hx)
    simp only [splitLines, h c (List.mem_cons_self), ih hr]

/-- **`str.splitlines` and Python agree on the lines of a text without the eight exotic separators.** -/
theorem lines_agree_partial (s : Str) (h : NoExotic s) : pySplitlines s = physLines s := by
  unfold pySplitlines physLines
  apply splitLines_congr
  intro c hc
  simp [isPySep, h c hc]

/-- the full statement: `str.splitlines` yields Python's physical lines, whatever the text contains -/
def LinesAgree : Prop := ∀ s : Str, pySplitlines s = physLines s

/-- **…and it is false of the code**: a form feed on a line of its own (`"a\n\x0c\nb"`, valid Python) is one
    blank line for Python and two lines for `str.splitlines`. -/
theorem lines_agree_refuted : ¬ LinesAgree := by
  intro h
  exact absurd (h ['a', '\n', '\x0c', '\n', 'b']) (by decide)

theorem translate_noExotic (s : Str) (h : NoExotic s) (b : Bool) : NoExotic (translateNewlines b s) := by
  induction s generalizing b with
  | nil => intro c hc; simp [translateNewlines] at hc
  | cons x r ih =>
    have hr : NoExotic r := fun c hc => h c (List.mem_cons_of_mem _ hc)
    unfold translateNewlines
    split
    · exact ih hr _
    · split
      · intro c hc
        rcases List.mem_cons.mp hc with rfl | hc
        · decide
        · exact ih hr _ c hc
      · intro c hc
        rcases List.mem_cons.mp hc with rfl | hc
        · exact h _ (List.mem_cons_self)
        · exact ih hr _ c hc

/-- universal-newline decoding does not change the lines (for any splitter that knows `\n` and `\r`) -/
theorem splitLines_translate (sep : Char → Bool) (hn : sep '\n' = true) (hr : sep '\r' = true) (s : Str) (b : Bool) :
    splitLines sep false (translateNewlines b s) = splitLines sep b s := by
  induction s generalizing b with
  | nil => rfl
  | cons c r ih =>
    unfold translateNewlines
    by_cases h1 : (b && decide (c = '\n')) = true
    · simp only [h1, ↓reduceIte]
      rw [ih false]
      conv => rhs; unfold splitLines
      simp only [h1, ↓reduceIte]
    · by_cases h2 : c = '\r'
      · subst h2
        simp only [h1, ↓reduceIte]
        conv => rhs; unfold splitLines
        simp only [h1, hr, ↓reduceIte, decide_true]
        conv => lhs; unfold splitLines
        simp [hn, ih true]
      · simp only [h1, h2, ↓reduceIte]
        conv => rhs; unfold splitLines
        conv => lhs; unfold splitLines
        simp [h1, h2, ih false]

/-! `get_source_lines` as probed from the working tree (`LineCfg`, see Generated/NoqaLines.lean) -/

/-- the splitter knows `\n` and `\r` (every implementation in the recognised family does) -/
def Sane (cfg : LineCfg) : Prop := cfg.sep '\n' = true ∧ cfg.sep '\r' = true

instance (cfg : LineCfg) : Decidable (Sane cfg) := by unfold Sane; infer_instance

/-- on this text the splitter ends lines exactly where Python does -/
def Agrees (cfg : LineCfg) (s : Str) : Prop := ∀ c ∈ s, cfg.sep c = isNlSep c

/-- the splitter ends lines exactly where Python does, on every text (true of `nlCfg`, false of `pyCfg`) -/
def SplitsAtNewlinesOnly (cfg : LineCfg) : Prop := ∀ c : Char, cfg.sep c = isNlSep c

theorem pyCfg_sep (c : Char) : pyCfg.sep c = isPySep c := by
  simp [LineCfg.sep, pyCfg, isPySep, isNlSep, isExoticSep, Bool.or_assoc, Bool.or_left_comm]

theorem nlCfg_splits : SplitsAtNewlinesOnly nlCfg := by
  intro c; simp [LineCfg.sep, nlCfg, isNlSep]

theorem agrees_of_noExotic (s : Str) (h : NoExotic s) : Agrees pyCfg s := by
  intro c hc; rw [pyCfg_sep]; simp [isPySep, h c hc]

theorem translate_agrees (cfg : LineCfg) (hs : Sane cfg) (s : Str) (h : Agrees cfg s) (b : Bool) :
    Agrees cfg (translateNewlines b s) := by
  induction s generalizing b with
  | nil => intro c hc; simp [translateNewlines] at hc
  | cons x r ih =>
    have hr : Agrees cfg r := fun c hc => h c (List.mem_cons_of_mem _ hc)
    unfold translateNewlines
    split
    · exact ih hr _
    · split
      · intro c hc
        rcases List.mem_cons.mp hc with rfl | hc
        · rw [hs.1]; decide
        · exact ih hr _ c hc
      · intro c hc
        rcases List.mem_cons.mp hc with rfl | hc
        · exact h _ (List.mem_cons_self)
        · exact ih hr _ c hc

/-- where the splitter agrees with Python on the text, `get_source_lines` is Python's physical lines, possibly
    followed by one empty string -/
theorem source_lines_agree (cfg : LineCfg) (hs : Sane cfg) (raw : Str) (h : Agrees cfg raw) :
    getSourceLines cfg raw = physLines raw ∨ getSourceLines cfg raw = physLines raw ++ [[]] := by
  have hl : splitLines cfg.sep false (translateNewlines false raw) = physLines raw := by
    rw [splitLines_congr cfg.sep isNlSep _ (translate_agrees cfg hs raw h false)]
    exact splitLines_translate isNlSep (by decide) (by decide) raw false
  unfold getSourceLines
  simp only [hl]
  split
  · exact Or.inr rfl
  · exact Or.inl rfl

/-- refurb 2.0.0's `get_source_lines` is `str.splitlines` of the file (CRLF / CR files included) -/
theorem source_lines_eq (raw : Str) : getSourceLines pyCfg raw = pySplitlines raw := by
  simp only [getSourceLines, show pyCfg.trailing = false from rfl, Bool.false_and, Bool.false_eq_true, ↓reduceIte]
  rw [splitLines_congr pyCfg.sep isPySep _ (fun c _ => pyCfg_sep c)]
  exact splitLines_translate isPySep (by decide) (by decide) raw false

/-- the full statement: the line `is_ignored_via_comment` inspects for a diagnostic on line `n` is physical line `n` -/
def LookupHitsReportedLine (cfg : LineCfg) : Prop :=
  ∀ (raw : Str) (n : Int), 1 ≤ n → n ≤ (physLines raw).length →
    pyIndex (getSourceLines cfg raw) (n - 1) = (physLines raw)[(n - 1).toNat]?

/-- **The line that is searched for `# noqa` is the reported line** wherever the splitter agrees with Python on
    the file's characters — for refurb 2.0.0 (`pyCfg`): files without the eight exotic separators. -/
theorem lookup_hits_reported_line (cfg : LineCfg) (hs : Sane cfg) (raw : Str) (h : Agrees cfg raw) (n : Int)
    (h1 : 1 ≤ n) (h2 : n ≤ (physLines raw).length) :
    pyIndex (getSourceLines cfg raw) (n - 1) = (physLines raw)[(n - 1).toNat]? := by
  unfold pyIndex
  have h0 : 0 ≤ n - 1 := by omega
  rw [if_pos h0]
  rcases source_lines_agree cfg hs raw h with e | e
  · rw [e]
  · rw [e, List.getElem?_append_left (by omega)]

theorem lookup_hits_reported_line_partial (raw : Str) (h : NoExotic raw) (n : Int) (h1 : 1 ≤ n)
    (h2 : n ≤ (physLines raw).length) :
    pyIndex (getSourceLines pyCfg raw) (n - 1) = (physLines raw)[(n - 1).toNat]? :=
  lookup_hits_reported_line pyCfg (by decide) raw (agrees_of_noExotic raw h) n h1 h2

/-- …for every file, if lines are cut at `\n`/`\r` only (the proposed repair, `nlCfg`) -/
theorem lookup_hits_reported_line_full (cfg : LineCfg) (hs : Sane cfg) (hc : SplitsAtNewlinesOnly cfg) :
    LookupHitsReportedLine cfg :=
  fun raw n h1 h2 => lookup_hits_reported_line cfg hs raw (fun c _ => hc c) n h1 h2

/-- the DESIGN §5 program: `x = int(0)⏎ \f⏎ y = int(1)  # noqa⏎ z = int(2)` -/
def ffProgram : Str :=
  "x = int(0)\n\x0c\ny = int(1)  # noqa\nz = int(2)\n".toList

/-- **…and false of refurb 2.0.0**: in `ffProgram` the diagnostic on line 3 (`y`, which carries `# noqa`) is
    looked up on an empty line, and the one on line 4 (`z`, no comment) on `y`'s line. -/
theorem lookup_hits_reported_line_refuted : ¬ LookupHitsReportedLine pyCfg := by
  intro h
  exact absurd (h ffProgram 3 (by decide) (by decide)) (by decide)

/-! ### `rstrip` -/

/-- the text ends in a character `str.rstrip()` keeps -/
def EndsNonSpace (s : Str) : Prop := ∃ a c, s = a ++ [c] ∧ isPySpace c = false

theorem rstrip_endsNonSpace (s : Str) (h : EndsNonSpace s) : rstrip s = s := by
  obtain ⟨a, c, rfl, hc⟩ := h
  induction a with
  | nil => simp [rstrip, hc]
  | cons x a ih =>
    show rstrip (x :: (a ++ [c])) = _
    unfold rstrip
    rw [ih]
    split
    · rename_i h; simp at h
    · rfl

theorem endsNonSpace_append (a b : Str) (h : EndsNonSpace b) : EndsNonSpace (a ++ b) := by
  obtain ⟨x, c, rfl, hc⟩ := h
  exact ⟨a ++ x, c, by simp, hc⟩

theorem rstrip_spaces (w : Str) (h : ∀ c ∈ w, isPySpace c = true) : rstrip w = [] := by
  induction w with
  | nil => rfl
  | cons c r ih =>
    unfold rstrip
    rw [ih (fun x hx => h x (List.mem_cons_of_mem _ hx))]
    simp [h c (List.mem_cons_self)]

/-- trailing blanks (of any of Python's 29 white-space characters) are dropped -/
theorem rstrip_append_spaces (s w : Str) (h : ∀ c ∈ w, isPySpace c = true) : rstrip (s ++ w) = rstrip s := by
  induction s with
  | nil => simpa [rstrip] using rstrip_spaces w h
  | cons c r ih =>
    show rstrip (c :: (r ++ w)) = rstrip (c :: r)
    unfold rstrip
    rw [ih]

/-- `rstrip` only removes a suffix -/
theorem rstrip_prefix (s : Str) : ∃ t, s = rstrip s ++ t := by
  induction s with
  | nil => exact ⟨[], rfl⟩
  | cons c r ih =>
    obtain ⟨t, ht⟩ := ih
    unfold rstrip
    split
    · rename_i h0
      split
      · exact ⟨c :: r, rfl⟩
      · exact ⟨r, rfl⟩
    · rename_i h0
      exact ⟨t, by rw [List.cons_append, ← ht]⟩

/-! ### The search for `# noqa` -/

/-- the text contains `# noqa` somewhere -/
def HasTag (s : Str) : Prop := ∃ a b, s = a ++ noqaTag ++ b

theorem dropPrefix_eq_some (p s r : Str) : dropPrefix? p s = some r ↔ s = p ++ r := by
  induction p generalizing s with
  | nil => simp [dropPrefix?, eq_comm]
  | cons x p ih =>
    cases s with
    | nil => simp [dropPrefix?]
    | cons c s =>
      unfold dropPrefix?
      by_cases h : x = c
      · subst h; simp [ih]
      · simp [h]; intro h'; exact absurd h'.symm h

theorem dropPrefix_append (p r : Str) : dropPrefix? p (p ++ r) = some r :=
  (dropPrefix_eq_some p (p ++ r) r).mpr rfl

theorem matchHere_none (s : Str) (h : dropPrefix? noqaTag s = none) : matchHere s = none := by
  unfold matchHere; rw [h]

theorem searchNoqa_cons_none (c : Char) (r : Str) (h : matchHere (c :: r) = none) :
    searchNoqa (c :: r) = searchNoqa r := by
  conv => lhs; unfold searchNoqa
  rw [h]

theorem searchNoqa_cons_some (c : Char) (r : Str) (m : NoqaMatch) (h : matchHere (c :: r) = some m) :
    searchNoqa (c :: r) = some m := by
  conv => lhs; unfold searchNoqa
  rw [h]

/-- skipping a stretch at no position of which the tag starts -/
theorem search_skip (l t : Str)
    (h : ∀ a s', l = a ++ s' → s' ≠ [] → dropPrefix? noqaTag (s' ++ t) = none) :
    searchNoqa (l ++ t) = searchNoqa t := by
  induction l with
  | nil => rfl
  | cons c r ih =>
    have h0 := h [] (c :: r) rfl (by simp)
    rw [show (c :: r) ++ t = c :: (r ++ t) from rfl] at h0 ⊢
    rw [searchNoqa_cons_none _ _ (matchHere_none _ h0)]
    exact ih (fun a s' ha hs => h (c :: a) s' (by rw [ha]; rfl) hs)

theorem hasTag_of_suffix (a s : Str) (h : HasTag s) : HasTag (a ++ s) := by
  obtain ⟨x, y, rfl⟩ := h
  exact ⟨a ++ x, y, by simp⟩

/-- **No `# noqa` in the line, no suppression** (`noqa_absent`, search part). -/
theorem search_none_of_noTag (l : Str) (h : ¬ HasTag l) : searchNoqa l = none := by
  have := search_skip l [] (fun a s' ha _ => by
    cases hd : dropPrefix? noqaTag (s' ++ []) with
    | none => rfl
    | some r =>
      exfalso; apply h
      rw [dropPrefix_eq_some] at hd
      simp at hd
      exact ⟨a, r, by rw [ha, hd]; simp⟩)
  simpa [searchNoqa] using this

/-- blanks between the code and the appended comment -/
def Blanks (g : Str) : Prop := ∀ c ∈ g, c = ' ' ∨ c = '\t'

theorem dropPrefix_append_cases (p a b r : Str) (h : dropPrefix? p (a ++ b) = some r) :
    (∃ r', a = p ++ r') ∨ (∃ p2, p2 ≠ [] ∧ p = a ++ p2 ∧ dropPrefix? p2 b = some r) := by
  induction p generalizing a with
  | nil => exact Or.inl ⟨a, rfl⟩
  | cons x p ih =>
    cases a with
    | nil => exact Or.inr ⟨x :: p, by simp, rfl, h⟩
    | cons c a =>
      rw [List.cons_append] at h
      unfold dropPrefix? at h
      by_cases hx : x = c
      · subst hx
        simp only [↓reduceIte] at h
        rcases ih a h with ⟨r', hr'⟩ | ⟨p2, hp2, hp, hd⟩
        · exact Or.inl ⟨r', by rw [hr']; rfl⟩
        · exact Or.inr ⟨p2, hp2, by rw [hp]; rfl, hd⟩
      · simp [hx] at h

theorem tag_suffix_cases (a p2 : Str) (h : noqaTag = a ++ p2) (ha : a ≠ []) (hp : p2 ≠ []) :
    p2 = [' ', 'n', 'o', 'q', 'a'] ∨ p2 = ['n', 'o', 'q', 'a'] ∨ p2 = ['o', 'q', 'a'] ∨ p2 = ['q', 'a'] ∨ p2 = ['a'] := by
  rcases a with _ | ⟨a0, _ | ⟨a1, _ | ⟨a2, _ | ⟨a3, _ | ⟨a4, _ | ⟨a5, a6⟩⟩⟩⟩⟩⟩ <;> simp_all [noqaTag]

/-- what follows the user's line: optional blanks, then `# noqa…` — its first two characters -/
def Safe (u : Str) : Prop :=
  ∃ x y u', u = x :: y :: u' ∧ (x = ' ' ∨ x = '\t' ∨ x = '#') ∧ (y = ' ' ∨ y = '\t' ∨ y = '#')

theorem safe_of_blanks (g rest : Str) (hg : Blanks g) : Safe (g ++ (noqaTag ++ rest)) := by
  rcases g with _ | ⟨x, _ | ⟨y, g⟩⟩
  · exact ⟨'#', ' ', _, rfl, by simp, by simp⟩
  · rcases hg x (by simp) with h | h <;> exact ⟨x, '#', _, rfl, by simp [h], by simp⟩
  · rcases hg x (by simp) with h | h <;> rcases hg y (by simp) with h' | h' <;>
      exact ⟨x, y, _, rfl, by simp [h], by simp [h']⟩

theorem no_tail_match (p2 u r : Str) (hu : Safe u)
    (hp : p2 = [' ', 'n', 'o', 'q', 'a'] ∨ p2 = ['n', 'o', 'q', 'a'] ∨ p2 = ['o', 'q', 'a'] ∨ p2 = ['q', 'a'] ∨ p2 = ['a']) :
    dropPrefix? p2 u ≠ some r := by
  obtain ⟨x, y, u', rfl, hx, hy⟩ := hu
  rcases hp with rfl | rfl | rfl | rfl | rfl <;> rcases hx with rfl | rfl | rfl <;> rcases hy with rfl | rfl | rfl <;>
    simp [dropPrefix?]

/-- the tag cannot start inside a tag-free line and run over into the appended text -/
theorem no_cross (l g rest : Str) (hl : ¬ HasTag l) (hg : Blanks g) :
    ∀ a s', l = a ++ s' → s' ≠ [] → dropPrefix? noqaTag (s' ++ (g ++ (noqaTag ++ rest))) = none := by
  intro a s' ha hs
  cases h : dropPrefix? noqaTag (s' ++ (g ++ (noqaTag ++ rest))) with
  | none => rfl
  | some r =>
    exfalso
    rcases dropPrefix_append_cases _ _ _ _ h with ⟨r', hr'⟩ | ⟨p2, hp2, hp, hd⟩
    · exact hl ⟨a, r', by rw [ha, hr']; simp⟩
    · exact no_tail_match p2 _ r (safe_of_blanks g rest hg) (tag_suffix_cases s' p2 hp hs hp2) hd

theorem no_start_in_blanks (g rest : Str) (hg : Blanks g) :
    ∀ a s', g = a ++ s' → s' ≠ [] → dropPrefix? noqaTag (s' ++ (noqaTag ++ rest)) = none := by
  intro a s' ha hs
  cases s' with
  | nil => exact absurd rfl hs
  | cons x s' =>
    have hx : x = ' ' ∨ x = '\t' := hg x (by rw [ha]; simp)
    rcases hx with rfl | rfl <;> simp [dropPrefix?, noqaTag]

/-- in `line ++ blanks ++ "# noqa" ++ rest` the search arrives at the appended tag -/
theorem search_reaches_tag (l g rest : Str) (hl : ¬ HasTag l) (hg : Blanks g) :
    searchNoqa (l ++ (g ++ (noqaTag ++ rest))) = searchNoqa (noqaTag ++ rest) := by
  rw [search_skip l _ (no_cross l g rest hl hg), search_skip g _ (no_start_in_blanks g rest hg)]

theorem matchHere_tag_end : matchHere noqaTag = some none := by decide

theorem matchHere_tag_codes (body : Str) (hq : ∀ c ∈ body, isQuote c = false) :
    matchHere (noqaTag ++ (':' :: ' ' :: body)) = some (some (':' :: ' ' :: body)) := by
  unfold matchHere
  rw [dropPrefix_append]
  have : dropPrefix? [':', ' '] (':' :: ' ' :: body) = some body := dropPrefix_append [':', ' '] body
  simp only [this]
  have hall : body.all (fun c => !isQuote c) = true := by
    rw [List.all_eq_true]; intro c hc; simp [hq c hc]
  simp [hall]

theorem endsNonSpace_tag : EndsNonSpace noqaTag := ⟨['#', ' ', 'n', 'o', 'q'], 'a', rfl, by decide⟩

/-- **`# noqa` silences the whole line**: a line that does not already contain `# noqa`, followed by blanks,
    `# noqa` and any trailing white space, is ignored for every error code. -/
theorem noqa_bare (l g w code : Str) (hl : ¬ HasTag l) (hg : Blanks g) (hw : ∀ c ∈ w, isPySpace c = true) :
    isIgnoredViaComment (l ++ g ++ noqaTag ++ w) code = true := by
  unfold isIgnoredViaComment
  rw [rstrip_append_spaces _ w hw, List.append_assoc,
    rstrip_endsNonSpace _ (endsNonSpace_append _ _ (endsNonSpace_append _ _ endsNonSpace_tag))]
  have := search_reaches_tag l g [] hl hg
  simp only [List.append_nil] at this
  rw [this, show noqaTag = '#' :: [' ', 'n', 'o', 'q', 'a'] from rfl,
    searchNoqa_cons_some _ _ _ matchHere_tag_end]

/-- the full statement without the guard on the line -/
def NoqaBareAlways : Prop := ∀ l code : Str, isIgnoredViaComment (l ++ "  # noqa".toList) code = true

/-- **…is false**: after an earlier `# noqa: OTHER` on the same line the appended `# noqa` is read as part of
    that comment's code list (`re.search` returns the leftmost match). -/
theorem noqa_bare_refuted : ¬ NoqaBareAlways := by
  intro h
  exact absurd (h "x = int(0)  # noqa: FURB999".toList "FURB123".toList) (by decide)

/-- **No `# noqa`, no suppression.** -/
theorem noqa_absent (l code : Str) (hl : ¬ HasTag l) : isIgnoredViaComment l code = false := by
  unfold isIgnoredViaComment
  have : ¬ HasTag (rstrip l) := by
    intro h
    obtain ⟨t, ht⟩ := rstrip_prefix l
    obtain ⟨a, b, hab⟩ := h
    exact hl ⟨a, b ++ t, by rw [ht, hab]; simp⟩
  rw [search_none_of_noTag _ this]

/-! ### Code lists -/

/-- `sep.join(codes)` -/
def joinCodes (sep : Str) : List Str → Str
  | [] => []
  | [k] => k
  | k :: k2 :: ks => k ++ sep ++ joinCodes sep (k2 :: ks)

/-- an error code as one writes it in a comment: non-empty, no comma, quote or white space (`FURB123`, `XYZ100`) -/
def WellFormedCode (k : Str) : Prop := k ≠ [] ∧ ∀ ch ∈ k, ch ≠ ',' ∧ isQuote ch = false ∧ isPySpace ch = false

/-- a list separator: commas and spaces in any non-empty combination (`,`  ` `  `, `  …) -/
def SepOk (sep : Str) : Prop := sep ≠ [] ∧ ∀ ch ∈ sep, ch = ',' ∨ ch = ' '

theorem splitAt_ne_nil (c : Char) (s : Str) : splitAt c s ≠ [] := by
  induction s with
  | nil => simp [splitAt]
  | cons x xs ih =>
    unfold splitAt
    split
    · simp
    · split <;> simp

theorem splitAt_no_sep (c : Char) (s : Str) (h : c ∉ s) : splitAt c s = [s] := by
  induction s with
  | nil => rfl
  | cons x xs ih =>
    have hx : x ≠ c := fun hx => h (by simp [hx])
    unfold splitAt
    rw [ih (fun hm => h (List.mem_cons_of_mem _ hm))]
    simp [hx]

theorem splitAt_cons_sep (c : Char) (b : Str) : splitAt c (c :: b) = [] :: splitAt c b := by
  conv => lhs; unfold splitAt
  split
  · rename_i h'; exact absurd h' (splitAt_ne_nil c b)
  · rename_i p ps h'; simp [h']

theorem splitAt_cons_other (c x : Char) (b : Str) (p : Str) (ps : List Str) (hx : x ≠ c)
    (h : splitAt c b = p :: ps) : splitAt c (x :: b) = (x :: p) :: ps := by
  conv => lhs; unfold splitAt
  simp [h, hx]

theorem splitAt_append_sep (c : Char) (a b : Str) (h : c ∉ a) :
    splitAt c (a ++ c :: b) = a :: splitAt c b := by
  induction a with
  | nil => exact splitAt_cons_sep c b
  | cons x xs ih =>
    have hx : x ≠ c := fun hx => h (by simp [hx])
    exact splitAt_cons_other c x _ xs _ hx (ih (fun hm => h (List.mem_cons_of_mem _ hm)))

/-- leading separators only contribute empty pieces -/
theorem mem_splitAt_spaces (sp R c : Str) (hsp : ∀ ch ∈ sp, ch = ' ') (hc : c ≠ []) :
    c ∈ splitAt ' ' (sp ++ R) ↔ c ∈ splitAt ' ' R := by
  induction sp with
  | nil => rfl
  | cons x sp ih =>
    have hx : x = ' ' := hsp x (by simp)
    subst hx
    rw [List.cons_append, splitAt_cons_sep, List.mem_cons, ih (fun ch h => hsp ch (List.mem_cons_of_mem _ h))]
    constructor
    · rintro (h | h)
      · exact absurd h hc
      · exact h
    · exact Or.inr

theorem wf_no_space (k : Str) (h : WellFormedCode k) : ' ' ∉ k := by
  intro hm
  have := (h.2 ' ' hm).2.2
  revert this; decide

/-- the pieces of a joined list, empty pieces aside, are the codes -/
theorem mem_splitAt_joinCodes (sp : Str) (cs : List Str) (c : Str) (hsp : ∀ ch ∈ sp, ch = ' ') (hne : sp ≠ [])
    (hcs : cs ≠ []) (hwf : ∀ k ∈ cs, ' ' ∉ k) (hc : c ≠ []) :
    c ∈ splitAt ' ' (joinCodes sp cs) ↔ c ∈ cs := by
  induction cs with
  | nil => exact absurd rfl hcs
  | cons k ks ih =>
    cases ks with
    | nil =>
      show c ∈ splitAt ' ' k ↔ _
      rw [splitAt_no_sep _ _ (hwf k (by simp))]
    | cons k2 ks =>
      show c ∈ splitAt ' ' (k ++ sp ++ joinCodes sp (k2 :: ks)) ↔ _
      cases sp with
      | nil => exact absurd rfl hne
      | cons x sp' =>
        have hx : x = ' ' := hsp x (by simp)
        subst hx
        rw [List.append_assoc, List.cons_append, splitAt_append_sep _ _ _ (hwf k (by simp)), List.mem_cons,
          mem_splitAt_spaces sp' _ c (fun ch h => hsp ch (List.mem_cons_of_mem _ h)) hc,
          ih (by simp) (fun k' hk' => hwf k' (List.mem_cons_of_mem _ hk'))]
        simp

theorem mem_joinCodes (sep : Str) (cs : List Str) (ch : Char) (h : ch ∈ joinCodes sep cs) :
    ch ∈ sep ∨ ∃ k ∈ cs, ch ∈ k := by
  induction cs with
  | nil => simp [joinCodes] at h
  | cons k ks ih =>
    cases ks with
    | nil => exact Or.inr ⟨k, by simp, h⟩
    | cons k2 ks =>
      change ch ∈ k ++ sep ++ joinCodes sep (k2 :: ks) at h
      rcases List.mem_append.mp h with h | h
      · rcases List.mem_append.mp h with h | h
        · exact Or.inr ⟨k, by simp, h⟩
        · exact Or.inl h
      · rcases ih h with h | ⟨k', hk', h⟩
        · exact Or.inl h
        · exact Or.inr ⟨k', List.mem_cons_of_mem _ hk', h⟩

def commaToSpace (c : Char) : Char := if c = ',' then ' ' else c

theorem map_joinCodes (sep : Str) (cs : List Str) (hwf : ∀ k ∈ cs, ',' ∉ k) :
    (joinCodes sep cs).map commaToSpace = joinCodes (sep.map commaToSpace) cs := by
  have hk : ∀ k : Str, ',' ∉ k → k.map commaToSpace = k := by
    intro k hk
    induction k with
    | nil => rfl
    | cons x k ih =>
      have : x ≠ ',' := fun h => hk (by simp [h])
      simp [commaToSpace, this]
      exact ih (fun h => hk (List.mem_cons_of_mem _ h))
  induction cs with
  | nil => rfl
  | cons k ks ih =>
    cases ks with
    | nil => exact hk k (hwf k (by simp))
    | cons k2 ks =>
      show (k ++ sep ++ joinCodes sep (k2 :: ks)).map commaToSpace = k ++ sep.map commaToSpace ++ joinCodes _ (k2 :: ks)
      rw [List.map_append, List.map_append, hk k (hwf k (by simp)), ih (fun k' h => hwf k' (List.mem_cons_of_mem _ h))]

theorem endsNonSpace_joinCodes (sep : Str) (cs : List Str) (hcs : cs ≠ []) (hwf : ∀ k ∈ cs, WellFormedCode k) :
    EndsNonSpace (joinCodes sep cs) := by
  induction cs with
  | nil => exact absurd rfl hcs
  | cons k ks ih =>
    cases ks with
    | nil =>
      have hk := hwf k (by simp)
      show EndsNonSpace k
      refine ⟨k.dropLast, k.getLast hk.1, (List.dropLast_concat_getLast hk.1).symm, ?_⟩
      exact (hk.2 _ (List.getLast_mem hk.1)).2.2
    | cons k2 ks =>
      exact endsNonSpace_append _ _ (ih (by simp) (fun k' h => hwf k' (List.mem_cons_of_mem _ h)))

/-- **`# noqa: LIST` silences exactly the listed codes**: for a line without `# noqa`, blanks, the tag, a
    non-empty list of well-formed codes joined by any comma/space separator and trailing white space, the
    line is ignored for an error code iff that code is in the list (exact string comparison — `FURB12`,
    `furb123`, `123` do not stand for `FURB123`, other prefixes such as `XYZ100` work the same way). -/
theorem noqa_codes (l g sep w code : Str) (cs : List Str) (hl : ¬ HasTag l) (hg : Blanks g) (hsep : SepOk sep)
    (hcs : cs ≠ []) (hwf : ∀ k ∈ cs, WellFormedCode k) (hw : ∀ c ∈ w, isPySpace c = true) (hcode : code ≠ []) :
    isIgnoredViaComment (l ++ g ++ noqaTag ++ [':', ' '] ++ joinCodes sep cs ++ w) code = decide (code ∈ cs) := by
  unfold isIgnoredViaComment
  have hends : EndsNonSpace (joinCodes sep cs) := endsNonSpace_joinCodes sep cs hcs hwf
  have hshape : l ++ g ++ noqaTag ++ [':', ' '] ++ joinCodes sep cs
      = l ++ (g ++ (noqaTag ++ (':' :: ' ' :: joinCodes sep cs))) := by simp
  have hends2 : EndsNonSpace (':' :: ' ' :: joinCodes sep cs) := endsNonSpace_append [':', ' '] _ hends
  rw [rstrip_append_spaces _ w hw, hshape,
    rstrip_endsNonSpace _ (endsNonSpace_append _ _ (endsNonSpace_append _ _ (endsNonSpace_append _ _ hends2))),
    search_reaches_tag l g _ hl hg]
  have hq : ∀ c ∈ joinCodes sep cs, isQuote c = false := by
    intro c hc
    rcases mem_joinCodes sep cs c hc with h | ⟨k, hk, h⟩
    · rcases hsep.2 c h with rfl | rfl <;> decide
    · exact ((hwf k hk).2 c h).2.1
  have hm : matchHere ('#' :: ([' ', 'n', 'o', 'q', 'a'] ++ ':' :: ' ' :: joinCodes sep cs))
      = some (some (':' :: ' ' :: joinCodes sep cs)) := matchHere_tag_codes _ hq
  rw [show noqaTag ++ (':' :: ' ' :: joinCodes sep cs) = '#' :: ([' ', 'n', 'o', 'q', 'a'] ++ (':' :: ' ' :: joinCodes sep cs)) from rfl,
    searchNoqa_cons_some _ _ _ hm]
  show (([':', ' '] ++ joinCodes sep cs).isEmpty || (codeList (':' :: ' ' :: joinCodes sep cs)).any (fun k => k == code)) = _
  have hcl : codeList (':' :: ' ' :: joinCodes sep cs) = splitAt ' ' (joinCodes (sep.map commaToSpace) cs) := by
    unfold codeList
    rw [show (':' :: ' ' :: joinCodes sep cs).drop 2 = joinCodes sep cs from rfl]
    rw [← map_joinCodes sep cs (fun k hk hm => ((hwf k hk).2 ',' hm).1 rfl)]
    rfl
  rw [hcl]
  have hsp : ∀ ch ∈ sep.map commaToSpace, ch = ' ' := by
    intro ch hch
    obtain ⟨x, hx, rfl⟩ := List.mem_map.mp hch
    rcases hsep.2 x hx with rfl | rfl <;> decide
  have hmem := mem_splitAt_joinCodes (sep.map commaToSpace) cs code hsp (by simpa using hsep.1) hcs
    (fun k hk => wf_no_space k (hwf k hk)) hcode
  simp only [List.cons_append, List.nil_append, List.isEmpty_cons, Bool.false_or]
  rw [Bool.eq_iff_iff, List.any_eq_true, decide_eq_true_iff, ← hmem]
  constructor
  · rintro ⟨k, hk, hkc⟩
    rw [beq_iff_eq] at hkc
    exact hkc ▸ hk
  · intro h; exact ⟨code, h, by simp⟩

/-! ### Appending comments to a file, and what the report does -/

/-- what is appended to one physical line: nothing, `<blanks># noqa<white space>`, or
    `<blanks># noqa: <codes joined by sep><white space>` -/
inductive Annot where
  | none
  | bare (g w : Str)
  | codes (g sep : Str) (cs : List Str) (w : Str)

def Annot.text : Annot → Str
  | .none => []
  | .bare g w => g ++ noqaTag ++ w
  | .codes g sep cs w => g ++ noqaTag ++ [':', ' '] ++ joinCodes sep cs ++ w

/-- the property's reading of the comment: bare → every code, list → exactly the listed codes -/
def Annot.suppresses : Annot → Str → Bool
  | .none, _ => false
  | .bare _ _, _ => true
  | .codes _ _ cs _, code => decide (code ∈ cs)

def Annot.WF : Annot → Prop
  | .none => True
  | .bare g w => Blanks g ∧ ∀ c ∈ w, isPySpace c = true
  | .codes g sep cs w => Blanks g ∧ SepOk sep ∧ cs ≠ [] ∧ (∀ k ∈ cs, WellFormedCode k) ∧ ∀ c ∈ w, isPySpace c = true

/-- append `S n` to physical line `n` (1-based), for every line -/
def annotateLines (S : Nat → Annot) (ls : List Str) : List Str := ls.mapIdx (fun i l => l ++ (S (i + 1)).text)

/-- **One line, one comment**: appending a well-formed comment to a line (free of `# noqa` if something is
    appended) adds exactly the suppressions the comment names and removes none. -/
theorem ignored_annotated (l code : Str) (a : Annot) (hwf : a.WF) (hfree : a ≠ .none → ¬ HasTag l) (hcode : code ≠ []) :
    isIgnoredViaComment (l ++ a.text) code = (isIgnoredViaComment l code || a.suppresses code) := by
  cases a with
  | none => simp [Annot.text, Annot.suppresses]
  | bare g w =>
    have hl := hfree (by simp)
    rw [show l ++ (Annot.bare g w).text = l ++ g ++ noqaTag ++ w by simp [Annot.text],
      noqa_bare l g w code hl hwf.1 hwf.2]
    simp [Annot.suppresses]
  | codes g sep cs w =>
    have hl := hfree (by simp)
    obtain ⟨hg, hsep, hcs, hk, hw⟩ := hwf
    rw [show l ++ (Annot.codes g sep cs w).text = l ++ g ++ noqaTag ++ [':', ' '] ++ joinCodes sep cs ++ w by
        simp [Annot.text],
      noqa_codes l g sep w code cs hl hg hsep hcs hk hw hcode, noqa_absent l code hl]
    simp [Annot.suppresses]

/-- **Other codes on the line stay**: a list that does not name the code leaves the diagnostic alone. -/
theorem other_codes_unaffected (l g sep w code : Str) (cs : List Str) (hwf : (Annot.codes g sep cs w).WF)
    (hl : ¬ HasTag l) (hcode : code ≠ []) (hnot : code ∉ cs) :
    isIgnoredViaComment (l ++ (Annot.codes g sep cs w).text) code = false := by
  rw [ignored_annotated l code _ hwf (fun _ => hl) hcode, noqa_absent l code hl]
  simp [Annot.suppresses, hnot]

theorem annotateLines_get (S : Nat → Annot) (ls : List Str) (i : Nat) :
    (annotateLines S ls)[i]? = ls[i]?.map (fun l => l ++ (S (i + 1)).text) := by
  unfold annotateLines
  rw [List.getElem?_mapIdx]

/-- **Other lines stay**: a line that gets no comment is the same line afterwards, whatever happens elsewhere. -/
theorem other_lines_unaffected (S : Nat → Annot) (ls : List Str) (i : Nat) (h : S (i + 1) = .none) :
    (annotateLines S ls)[i]? = ls[i]? := by
  rw [annotateLines_get, h]
  cases ls[i]? <;> simp [Annot.text]

theorem length_annotateLines (S : Nat → Annot) (ls : List Str) : (annotateLines S ls).length = ls.length := by
  unfold annotateLines; simp

/-- which diagnostics the appended comments name -/
def suppressedBy (S : Str → Nat → Annot) : Item → Bool
  | .text _ => false
  | .diag d => (S d.file d.line.toNat).suppresses d.codeChars

theorem codeChars_ne_nil (d : Diag) : d.codeChars ≠ [] := by
  unfold Diag.codeChars natChars
  intro h
  exact Nat.toDigits_ne_nil (List.append_eq_nil_iff.mp h).2

/-- the two files of a metamorphic pair: `src'` is `src` with the comments `S` appended to its physical lines
    (whatever the line terminators are); lines that get a comment do not contain `# noqa` yet -/
structure AnnotatedAny (src src' : Str → Str) (S : Str → Nat → Annot) : Prop where
  lines : ∀ f, physLines (src' f) = annotateLines (S f) (physLines (src f))
  wf : ∀ f n, (S f n).WF
  free : ∀ f n l, S f (n + 1) ≠ .none → (physLines (src f))[n]? = some l → ¬ HasTag l

/-- …and `get_source_lines` cuts both files where Python does -/
structure Annotated (cfg : LineCfg) (src src' : Str → Str) (S : Str → Nat → Annot) : Prop
    extends AnnotatedAny src src' S where
  agree : ∀ f, Agrees cfg (src f)
  agree' : ∀ f, Agrees cfg (src' f)

/-- diagnostics are reported on lines the file has (C07) -/
def InRange (src : Str → Str) (items : List Item) : Prop :=
  ∀ d, Item.diag d ∈ items → 1 ≤ d.line ∧ d.line ≤ (physLines (src d.file)).length

theorem shouldIgnore_annotated (cfg : LineCfg) (hs : Sane cfg) (src src' : Str → Str) (S : Str → Nat → Annot)
    (amend : Diag → Bool) (h : Annotated cfg src src' S) (d : Diag) (h1 : 1 ≤ d.line)
    (h2 : d.line ≤ (physLines (src d.file)).length) :
    ∃ ig, shouldIgnoreDiag cfg src amend d = some ig ∧
      shouldIgnoreDiag cfg src' amend d = some (ig || suppressedBy S (.diag d)) := by
  unfold shouldIgnoreDiag
  by_cases hf : d.file.isEmpty = true
  · exact ⟨true, by simp [hf], by simp [hf]⟩
  · simp only [hf, Bool.false_eq_true, ↓reduceIte]
    have h2' : d.line ≤ (physLines (src' d.file)).length := by
      rw [h.lines, length_annotateLines]; exact h2
    rw [lookup_hits_reported_line cfg hs _ (h.agree d.file) d.line h1 h2,
      lookup_hits_reported_line cfg hs _ (h.agree' d.file) d.line h1 h2', h.lines, annotateLines_get]
    have hlt : (d.line - 1).toNat < (physLines (src d.file)).length := by omega
    have hget : (physLines (src d.file))[(d.line - 1).toNat]? = some ((physLines (src d.file))[(d.line - 1).toNat]) :=
      List.getElem?_eq_getElem hlt
    have hn : (d.line - 1).toNat + 1 = d.line.toNat := by omega
    rw [hget, hn]
    refine ⟨_, rfl, ?_⟩
    simp only [Option.map_some]
    rw [ignored_annotated _ _ _ (h.wf _ _) (fun hne => h.free d.file (d.line - 1).toNat _ (by rw [hn]; exact hne) hget)
      (codeChars_ne_nil d)]
    simp only [suppressedBy]
    cases isIgnoredViaComment _ d.codeChars <;> cases (S d.file d.line.toNat).suppresses d.codeChars <;>
      cases amend d <;> rfl

theorem noqaFilter_annotated (cfg : LineCfg) (hs : Sane cfg) (src src' : Str → Str) (S : Str → Nat → Annot)
    (amend : Diag → Bool) (h : Annotated cfg src src' S) (items : List Item) (hr : InRange src items) :
    ∃ kept, noqaFilter cfg src amend items = some kept ∧
      noqaFilter cfg src' amend items = some (kept.filter (fun it => !suppressedBy S it)) := by
  induction items with
  | nil => exact ⟨[], rfl, rfl⟩
  | cons it rest ih =>
    obtain ⟨kept, hk, hk'⟩ := ih (fun d hd => hr d (List.mem_cons_of_mem _ hd))
    cases it with
    | text s =>
      refine ⟨.text s :: kept, ?_, ?_⟩
      · simp [noqaFilter, shouldIgnore, hk]
      · simp [noqaFilter, shouldIgnore, hk', suppressedBy]
    | diag d =>
      obtain ⟨h1, h2⟩ := hr d (by simp)
      obtain ⟨ig, hi, hi'⟩ := shouldIgnore_annotated cfg hs src src' S amend h d h1 h2
      refine ⟨if ig then kept else .diag d :: kept, ?_, ?_⟩
      · simp [noqaFilter, shouldIgnore, hi, hk]
      · simp only [noqaFilter, shouldIgnore, hi', hk']
        cases ig <;> cases hs : suppressedBy S (.diag d) <;> simp [hs]

/-- **The run does not crash on the line lookup** when diagnostics are reported on existing lines. -/
theorem report_defined (cfg : LineCfg) (hs : Sane cfg) (by_ : SortBy) (src src' : Str → Str) (S : Str → Nat → Annot)
    (amend : Diag → Bool) (h : Annotated cfg src src' S) (items : List Item) (hr : InRange src items) :
    (runReport cfg by_ src amend items).isSome = true ∧ (runReport cfg by_ src' amend items).isSome = true := by
  obtain ⟨kept, hk, hk'⟩ := noqaFilter_annotated cfg hs src src' S amend h items hr
  simp [runReport, hk, hk']

/-- **The metamorphic law** (`filter_exact`): where `get_source_lines` cuts the files as Python does, the report
    of the annotated program is the report of the original program minus exactly the diagnostics the appended
    comments name — same-code diagnostics on other lines, other-code diagnostics on the same line, error strings
    and everything else stay, in the same order (filtering commutes with the stable sort, for either `--sort`). -/
theorem filter_exact (cfg : LineCfg) (hs : Sane cfg) (by_ : SortBy) (src src' : Str → Str) (S : Str → Nat → Annot)
    (amend : Diag → Bool) (h : Annotated cfg src src' S) (items : List Item) (hr : InRange src items) :
    runReport cfg by_ src' amend items
      = (runReport cfg by_ src amend items).map (List.filter (fun it => !suppressedBy S it)) := by
  obtain ⟨kept, hk, hk'⟩ := noqaFilter_annotated cfg hs src src' S amend h items hr
  unfold runReport
  rw [hk, hk']
  simp only [Option.map_some]
  rw [filter_ssort (leItem by_) (leItem_total by_) (leItem_trans by_)]

theorem noqaFilter_subset (cfg : LineCfg) (src : Str → Str) (amend : Diag → Bool) (items kept : List Item)
    (h : noqaFilter cfg src amend items = some kept) : ∀ it ∈ kept, it ∈ items := by
  induction items generalizing kept with
  | nil => simp [noqaFilter] at h; subst h; simp
  | cons x rest ih =>
    unfold noqaFilter at h
    cases hx : shouldIgnore cfg src amend x with
    | none => simp [hx] at h
    | some ig =>
      cases hr : noqaFilter cfg src amend rest with
      | none => simp [hx, hr] at h
      | some r =>
        simp only [hx, hr, Option.some.injEq] at h
        subst h
        intro it hit
        cases ig
        · simp only [Bool.false_eq_true, ↓reduceIte] at hit
          rcases List.mem_cons.mp hit with rfl | hit
          · simp
          · exact List.mem_cons_of_mem _ (ih r hr it hit)
        · simp only [↓reduceIte] at hit
          exact List.mem_cons_of_mem _ (ih r hr it hit)

/-- **The verdict on a diagnostic depends on its own reported line and nothing else**: two versions of the files
    that show the same text on line `d.line` of `d.file` (whatever differs elsewhere — the last line of the
    diagnosed node, the lines of its body, continuation lines, neighbours) give the same verdict. The model has no
    access to `line_end`/`column_end` at all: `Diag` does not carry them. -/
theorem verdict_depends_on_own_line_only (cfg : LineCfg) (src src₂ : Str → Str) (amend : Diag → Bool) (d : Diag)
    (h : pyIndex (getSourceLines cfg (src d.file)) (d.line - 1) = pyIndex (getSourceLines cfg (src₂ d.file)) (d.line - 1)) :
    shouldIgnoreDiag cfg src amend d = shouldIgnoreDiag cfg src₂ amend d := by
  unfold shouldIgnoreDiag
  rw [h]

/-- **Comments on lines that carry no diagnostic change nothing**: if none of the reported lines gets a comment
    (the comments may sit on the last line of a diagnosed multi-line statement or expression, inside its body,
    on continuation lines or next to it, and may be bare or name the very codes reported nearby), the report
    is identical. -/
theorem unreported_lines_free (cfg : LineCfg) (hs : Sane cfg) (by_ : SortBy) (src src' : Str → Str)
    (S : Str → Nat → Annot) (amend : Diag → Bool) (h : Annotated cfg src src' S) (items : List Item)
    (hr : InRange src items) (hno : ∀ d, Item.diag d ∈ items → S d.file d.line.toNat = .none) :
    runReport cfg by_ src' amend items = runReport cfg by_ src amend items := by
  rw [filter_exact cfg hs by_ src src' S amend h items hr]
  obtain ⟨kept, hk, _⟩ := noqaFilter_annotated cfg hs src src' S amend h items hr
  unfold runReport
  rw [hk]
  simp only [Option.map_some, Option.some.injEq]
  apply List.filter_eq_self.mpr
  intro it hit
  have hmem : it ∈ items := noqaFilter_subset cfg src amend items kept hk it ((mem_ssort _ it kept).mp hit)
  cases it with
  | text s => rfl
  | diag d => simp [suppressedBy, hno d hmem, Annot.suppresses]

/-- the full statement: the metamorphic law for all file contents -/
def FilterExactAlways (cfg : LineCfg) : Prop :=
  ∀ (by_ : SortBy) (src src' : Str → Str) (S : Str → Nat → Annot) (amend : Diag → Bool) (items : List Item),
    AnnotatedAny src src' S → InRange src items →
    runReport cfg by_ src' amend items
      = (runReport cfg by_ src amend items).map (List.filter (fun it => !suppressedBy S it))

/-- **refurb 2.0.0: the law holds for files without `\v \f \x1c \x1d \x1e \x85 U+2028 U+2029`** (CRLF, CR, BOM,
    tabs, non-ASCII text are all fine). -/
theorem filter_exact_partial (by_ : SortBy) (src src' : Str → Str) (S : Str → Nat → Annot) (amend : Diag → Bool)
    (items : List Item) (h : AnnotatedAny src src' S) (hr : InRange src items)
    (hx : ∀ f, NoExotic (src f)) (hx' : ∀ f, NoExotic (src' f)) :
    runReport pyCfg by_ src' amend items
      = (runReport pyCfg by_ src amend items).map (List.filter (fun it => !suppressedBy S it)) :=
  filter_exact pyCfg (by decide) by_ src src' S amend
    { toAnnotatedAny := h, agree := fun f => agrees_of_noExotic _ (hx f), agree' := fun f => agrees_of_noExotic _ (hx' f) }
    items hr

/-- **…and for all file contents once lines are cut at `\n`/`\r` only** (the proposed repair). -/
theorem filter_exact_full (cfg : LineCfg) (hs : Sane cfg) (hc : SplitsAtNewlinesOnly cfg) : FilterExactAlways cfg :=
  fun by_ src src' S amend items h hr =>
    filter_exact cfg hs by_ src src' S amend
      { toAnnotatedAny := h, agree := fun _ c _ => hc c, agree' := fun _ c _ => hc c } items hr

/-! ### The unguarded law is false of refurb 2.0.0; the guards are satisfiable -/

instance (s : Str) : Decidable (NoExotic s) := by unfold NoExotic; infer_instance
instance (g : Str) : Decidable (Blanks g) := by unfold Blanks; infer_instance
instance (k : Str) : Decidable (WellFormedCode k) := by unfold WellFormedCode; infer_instance
instance (sep : Str) : Decidable (SepOk sep) := by unfold SepOk; infer_instance

/-- executable form of `HasTag` -/
def hasTagB : Str → Bool
  | [] => false
  | c :: r => (dropPrefix? noqaTag (c :: r)).isSome || hasTagB r

theorem hasTag_iff (s : Str) : HasTag s ↔ hasTagB s = true := by
  constructor
  · rintro ⟨a, b, rfl⟩
    induction a with
    | nil =>
      show hasTagB ('#' :: ([' ', 'n', 'o', 'q', 'a'] ++ b)) = true
      unfold hasTagB
      rw [show '#' :: ([' ', 'n', 'o', 'q', 'a'] ++ b) = noqaTag ++ b from rfl, dropPrefix_append]
      rfl
    | cons x a ih =>
      show hasTagB (x :: (a ++ noqaTag ++ b)) = true
      unfold hasTagB
      rw [ih]; simp
  · intro h
    induction s with
    | nil => simp [hasTagB] at h
    | cons c r ih =>
      unfold hasTagB at h
      rcases Bool.or_eq_true_iff.mp h with h | h
      · cases hd : dropPrefix? noqaTag (c :: r) with
        | none => simp [hd] at h
        | some rest => exact ⟨[], rest, by rw [(dropPrefix_eq_some _ _ _).mp hd]; rfl⟩
      · exact hasTag_of_suffix [c] r (ih h)

def ffBefore : Str := "x = int(0)\n\x0c\ny = int(1)\nz = int(2)\n".toList
def ffAfter : Str := "x = int(0)\n\x0c\ny = int(1)  # noqa\nz = int(2)\n".toList
def ffS : Nat → Annot := fun n => if n = 3 then .bare [' ', ' '] [] else .none
def ffDiag (line : Int) (col : Int) : Item :=
  .diag { file := "f.py".toList, line := line, col := col, pfx := "FURB".toList, code := 123, msg := [] }

theorem ff_annotated : AnnotatedAny (fun _ => ffBefore) (fun _ => ffAfter) (fun _ => ffS) := by
  refine ⟨fun _ => by decide, ?_, ?_⟩
  · intro _ n
    unfold ffS
    split
    · exact ⟨by decide, by decide⟩
    · trivial
  · intro _ n l hne hl
    unfold ffS at hne
    split at hne
    · rename_i hn
      have : n = 2 := by omega
      subst this
      have : l = "y = int(1)".toList := by
        have : (physLines ffBefore)[2]? = some "y = int(1)".toList := by decide
        rw [this] at hl; exact (Option.some.inj hl).symm
      subst this
      rw [hasTag_iff]; decide
    · exact absurd rfl hne

theorem ff_inRange : InRange (fun _ => ffBefore) [ffDiag 3 4, ffDiag 4 4] := by
  intro d hd
  simp only [ffDiag, List.mem_cons, Item.diag.injEq, List.not_mem_nil, or_false] at hd
  rcases hd with rfl | rfl <;> decide

/-- **…and it is false of refurb 2.0.0** (DESIGN §5 witness): in `x = int(0)⏎\f⏎y = int(1)⏎z = int(2)`, appending
    `  # noqa` to line 3 (`y`) leaves `y`'s diagnostic in the report and removes `z`'s (line 4). -/
theorem filter_exact_refuted : ¬ FilterExactAlways pyCfg := by
  intro h
  exact absurd (h .filename _ _ _ (fun _ => false) _ ff_annotated ff_inRange) (by decide)

/-- the same witness is handled correctly when lines are cut at `\n`/`\r` only -/
example : runReport nlCfg .filename (fun _ => ffAfter) (fun _ => false) [ffDiag 3 4, ffDiag 4 4] = some [ffDiag 4 4] := by
  decide

/-! ### What the working tree does (Generated/NoqaLines.lean, re-probed on every run) -/

/-- the probed `get_source_lines` is one of the two analysed implementations -/
theorem current_cfg_known : Generated.noqaLineCfg = pyCfg ∨ Generated.noqaLineCfg = nlCfg := by decide

theorem current_cfg_sane : Sane Generated.noqaLineCfg := by decide

/-- if the tree cuts lines like `str.splitlines` (refurb 2.0.0), the guarded law holds and the unguarded one fails -/
theorem current_splitlines (h : Generated.noqaLineCfg = pyCfg) :
    ¬ FilterExactAlways Generated.noqaLineCfg ∧ ¬ LookupHitsReportedLine Generated.noqaLineCfg := by
  rw [h]; exact ⟨filter_exact_refuted, lookup_hits_reported_line_refuted⟩

/-- if the tree cuts lines at `\n`/`\r` only (repaired), both full statements hold for all file contents -/
theorem current_newlines_only (h : Generated.noqaLineCfg = nlCfg) :
    FilterExactAlways Generated.noqaLineCfg ∧ LookupHitsReportedLine Generated.noqaLineCfg := by
  rw [h]
  exact ⟨filter_exact_full nlCfg (by decide) nlCfg_splits, lookup_hits_reported_line_full nlCfg (by decide) nlCfg_splits⟩

/-! ### Non-vacuity: the hypotheses of the theorems are met by ordinary programs -/

/-- a CRLF file with a BOM, tabs and non-ASCII text -/
def okBefore : Str := "\uFEFFé = int(0)\r\nif é:\r\n\ty = int(1); w = list()\r\nz = '日本語'\r\n".toList
def okAfter : Str :=
  "\uFEFFé = int(0)  # noqa\r\nif é:\r\n\ty = int(1); w = list()\t# noqa: XYZ100, FURB123 \r\nz = '日本語'\r\n".toList
def okS : Nat → Annot := fun n =>
  if n = 1 then .bare [' ', ' '] []
  else if n = 3 then .codes ['\t'] [',', ' '] ["XYZ100".toList, "FURB123".toList] [' ']
  else .none

theorem ok_annotated : AnnotatedAny (fun _ => okBefore) (fun _ => okAfter) (fun _ => okS) := by
  refine ⟨fun _ => by decide, ?_, ?_⟩
  · intro _ n
    unfold okS
    split
    · exact ⟨by decide, by decide⟩
    · split
      · exact ⟨by decide, ⟨by decide, by decide⟩, by decide, by decide, by decide⟩
      · trivial
  · intro _ n l hne hl
    rw [hasTag_iff]
    unfold okS at hne
    have hn : n = 0 ∨ n = 2 := by
      by_cases h0 : n = 0
      · exact Or.inl h0
      · by_cases h2 : n = 2
        · exact Or.inr h2
        · simp [h0, h2] at hne
    rcases hn with rfl | rfl
    · have : (physLines okBefore)[0]? = some "\uFEFFé = int(0)".toList := by decide
      rw [this] at hl; rw [← Option.some.inj hl]; decide
    · have : (physLines okBefore)[2]? = some "\ty = int(1); w = list()".toList := by decide
      rw [this] at hl; rw [← Option.some.inj hl]; decide

example : NoExotic okBefore ∧ NoExotic okAfter := by decide

def okDiag (line col : Int) (pfx : String) (code : Nat) : Item :=
  .diag { file := "f.py".toList, line := line, col := col, pfx := pfx.toList, code := code, msg := [] }

def okItems : List Item :=
  [okDiag 3 19 "FURB" 112, okDiag 3 5 "FURB" 123, okDiag 1 4 "FURB" 123, .text "note".toList, okDiag 4 0 "FURB" 123]

/-- the law at work: `# noqa` on line 1 removes its diagnostic, the list on line 3 removes FURB123 but not
    FURB112, line 4 and the error string stay; the rest is sorted as before -/
example : runReport pyCfg .filename (fun _ => okAfter) (fun _ => false) okItems
    = some [.text "note".toList, okDiag 3 19 "FURB" 112, okDiag 4 0 "FURB" 123] := by decide

example : runReport pyCfg .filename (fun _ => okBefore) (fun _ => false) okItems
    = some [.text "note".toList, okDiag 1 4 "FURB" 123, okDiag 3 5 "FURB" 123, okDiag 3 19 "FURB" 112, okDiag 4 0 "FURB" 123] := by
  decide

example : InRange (fun _ => okBefore) okItems := by
  intro d hd
  simp only [okItems, okDiag, List.mem_cons, Item.diag.injEq, List.not_mem_nil, or_false, reduceCtorEq, false_or] at hd
  rcases hd with rfl | rfl | rfl | rfl <;> decide

/-- a diagnostic outside the file makes the lookup raise (`IndexError`), which the model reports as `none` -/
example : runReport pyCfg .filename (fun _ => okBefore) (fun _ => false) [okDiag 9 0 "FURB" 123] = none := by decide
/-- line 0 wraps around to the last line (Python's negative indexing) -/
example : pyIndex (getSourceLines pyCfg okBefore) (0 - 1) = some "z = '日本語'".toList := by decide

/-- a diagnosed `try` statement (reported at line 1, ending at line 4): `# noqa` on its last line, in its body and
    on the `except` line changes nothing; on line 1 it suppresses -/
example : runReport nlCfg .filename (fun _ => "try:\n    f()  # noqa: FURB107\nexcept E:  # noqa\n    pass  # noqa\n".toList)
    (fun _ => false) [okDiag 1 0 "FURB" 107] = some [okDiag 1 0 "FURB" 107] := by decide
example : runReport nlCfg .filename (fun _ => "try:  # noqa: FURB107\n    f()\nexcept E:\n    pass\n".toList)
    (fun _ => false) [okDiag 1 0 "FURB" 107] = some [] := by decide

-- guards of `noqa_bare` / `noqa_codes` on concrete values
example : ¬ HasTag "s = \"it's\"  # why".toList := by rw [hasTag_iff]; decide
example : WellFormedCode "XYZ100".toList := ⟨by decide, by decide⟩
example : SepOk [',', ' '] := ⟨by decide, by decide⟩
example : isIgnoredViaComment "x = 1  # noqa: FURB123,XYZ100".toList "XYZ100".toList = true := by decide
example : isIgnoredViaComment "x = 1  # noqa: FURB123 XYZ100".toList "FURB12".toList = false := by decide
/-- quotes after the comment switch it off; `# noqa` inside a string literal does not count -/
example : isIgnoredViaComment "x = 1  # noqa: FURB123 it's".toList "FURB123".toList = false := by decide
example : isIgnoredViaComment "x = \"# noqa\"".toList "FURB123".toList = false := by decide
/-- an empty list after the colon is no suppression at all (`# noqa: ` is stripped to `# noqa:`) -/
example : isIgnoredViaComment "x = 1  # noqa: ".toList "FURB123".toList = false := by decide

end RefurbVerif.C08
