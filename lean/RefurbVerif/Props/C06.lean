/-
C06 — "same expression" diagnostics fire only when the operands really are the same.

Model: Model/Equiv.lean (`isEquiv` = refurb/checks/common.py:is_equivalent, case by case, with Python's `zip`
truncation, list `==` on arg_kinds / arg_names / operators, `unmangle_name`, `(None, None)`, and the `str()`
fallback).  Specification: `syn` / `synEq` — syntactic identity (names, attributes, arguments with kind and keyword,
operators, literal values, arity; no positions, no parentheses, no redefinition suffixes).

The relation is parameterised by `Cfg.cmpName` (does the NameExpr case also compare `name`?), which the translator
reads off /repo by execution on every run (Generated/EquivCfg.lean); every theorem holds for both values, the
`repo_…` theorems instantiate them at the extracted value.

All theorems are for unbounded expressions (mutual structural recursion over the expression type); nothing is
`decide`d over a generated table.  The concrete witnesses of `full_refuted` are closed terms checked by `decide`.
-/
import RefurbVerif.Model.Equiv
import RefurbVerif.Generated.EquivCfg

namespace RefurbVerif.C06
open RefurbVerif.Equiv

variable {cf : Cfg}

/-! ## 1. Exact characterisation: `is_equivalent` is the kernel of `norm` -/

theorem strKey_ne_none (e : Expr) : strKey e ≠ StrKey.none := by
  cases e <;> simp [strKey]

mutual
/-- EXACT characterisation, for all pairs of expressions: `is_equivalent(a, b)` is true if and only if `a` and `b`
    agree on what `norm` keeps — unmangled fullnames (never `NameExpr.name`), attribute names, operators, argument
    kinds and keywords, arity, the rendered text of literals and, for node classes without a case, `str(node)`.
    In particular `zip` truncation never lets lists of different length through (the `len`/`arg_kinds`/`operators`
    comparisons catch it). -/
theorem isEquiv_iff_norm (cf : Cfg) : ∀ a b : Expr, isEquiv cf a b = true ↔ norm cf a = norm cf b
  | .name n f, b => by
      cases b with
      | name n' f' => cases hc : cf.cmpName <;> simp [isEquiv, norm, hc]
      | _ => simp [isEquiv, norm, strKey]
  | .member e n f, b => by
      cases b with
      | member e' n' f' => have := isEquiv_iff_norm cf e e'; simp [isEquiv, norm]; grind
      | _ => simp [isEquiv, norm, strKey]
  | .index b₁ i₁, b => by
      cases b <;> simp [isEquiv, norm, strKey, isEquiv_iff_norm cf b₁, isEquiv_iff_norm cf i₁]
  | .call c a, b => by
      cases b with
      | call c' a' =>
        have h1 := isEquiv_iff_norm cf c c'; have h2 := args_iff cf a a'
        simp [isEquiv, norm] at h2 ⊢; grind
      | _ => simp [isEquiv, norm, strKey]
  | .seq k l, b => by
      cases b with
      | seq k' l' =>
        have h := list_iff cf l l'
        simp [isEquiv, norm] at h ⊢
        by_cases hk : k = k' <;> simp [hk, h]
      | _ => simp [isEquiv, norm, strKey]
  | .dict d, b => by
      cases b with
      | dict d' => have h := items_iff cf d d'; simp [isEquiv, norm] at h ⊢; exact h
      | _ => simp [isEquiv, norm, strKey]
  | .star e, b => by
      cases b <;> simp [isEquiv, norm, strKey, isEquiv_iff_norm cf e]
  | .unary o e, b => by
      cases b <;> simp [isEquiv, norm, strKey, isEquiv_iff_norm cf e]
  | .op o l r, b => by
      cases b with
      | op o' l' r' =>
        have h1 := isEquiv_iff_norm cf l l'; have h2 := isEquiv_iff_norm cf r r'; simp [isEquiv, norm]; grind
      | _ => simp [isEquiv, norm, strKey]
  | .cmp f r, b => by
      cases b with
      | cmp f' r' =>
        have h1 := isEquiv_iff_norm cf f f'; have h2 := rest_iff cf r r'; simp [isEquiv, norm] at h2 ⊢; grind
      | _ => simp [isEquiv, norm, strKey]
  | .slice x y z, b => by
      cases b with
      | slice x' y' z' =>
        have h1 := opt_iff cf x x'; have h2 := opt_iff cf y y'; have h3 := opt_iff cf z z'; simp [isEquiv, norm]; grind
      | _ => simp [isEquiv, norm, strKey]
  | .lit k v, b => by cases b <;> simp [isEquiv, norm, strKey]
  | .other k sc s, b => by cases b <;> simp [isEquiv, norm, strKey]
/-- `len(l₁) == len(l₂) and all(zip …)` (List/Tuple/Set items) -/
theorem list_iff (cf : Cfg) : ∀ l₁ l₂ : Exprs, (l₁.len == l₂.len && allZip cf l₁ l₂) = true ↔ normL cf l₁ = normL cf l₂
  | .nil, l₂ => by cases l₂ <;> simp [Exprs.len, allZip, normL]
  | .cons a t, l₂ => by
      cases l₂ with
      | nil => simp [Exprs.len, allZip, normL]
      | cons b u =>
        have := list_iff cf t u
        simp [Exprs.len, allZip, normL, isEquiv_iff_norm cf a] at this ⊢
        grind
/-- `all(zip(args)) and arg_kinds == arg_kinds and arg_names == arg_names`: the two list comparisons make up for
    `zip` stopping at the shorter argument list -/
theorem args_iff (cf : Cfg) : ∀ a₁ a₂ : Args,
    (allZipArgs cf a₁ a₂ && a₁.kinds == a₂.kinds && a₁.kws == a₂.kws) = true ↔ normArgs cf a₁ = normArgs cf a₂
  | .nil, a₂ => by cases a₂ <;> simp [allZipArgs, normArgs, Args.kinds, Args.kws]
  | .cons e k n t, a₂ => by
      cases a₂ with
      | nil => simp [allZipArgs, normArgs, Args.kinds, Args.kws]
      | cons e' k' n' u =>
        have := args_iff cf t u
        simp [allZipArgs, normArgs, Args.kinds, Args.kws, isEquiv_iff_norm cf e] at this ⊢
        grind
theorem items_iff (cf : Cfg) : ∀ d₁ d₂ : Items, (d₁.len == d₂.len && allZipItems cf d₁ d₂) = true ↔ normItems cf d₁ = normItems cf d₂
  | .nil, d₂ => by cases d₂ <;> simp [Items.len, allZipItems, normItems]
  | .cons k v t, d₂ => by
      cases d₂ with
      | nil => simp [Items.len, allZipItems, normItems]
      | cons k' v' u =>
        have := items_iff cf t u
        simp [Items.len, allZipItems, normItems, isEquiv_iff_norm cf v, opt_iff cf k] at this ⊢
        grind
/-- `operators == operators and all(zip(operands))` -/
theorem rest_iff (cf : Cfg) : ∀ r₁ r₂ : Rest, (r₁.ops == r₂.ops && allZipRest cf r₁ r₂) = true ↔ normRest cf r₁ = normRest cf r₂
  | .nil, r₂ => by cases r₂ <;> simp [Rest.ops, allZipRest, normRest]
  | .cons o e t, r₂ => by
      cases r₂ with
      | nil => simp [Rest.ops, allZipRest, normRest]
      | cons o' e' u =>
        have := rest_iff cf t u
        simp [Rest.ops, allZipRest, normRest, isEquiv_iff_norm cf e] at this ⊢
        grind
/-- the `Node | None` entry point (slice parts, dict keys): `(None, None)` is equivalent, `(None, node)` never is -/
theorem opt_iff (cf : Cfg) : ∀ x y : OExpr, isEquivO cf x y = true ↔ normO cf x = normO cf y
  | .none, y => by cases y <;> simp [isEquivO, normO, strKeyO, (strKey_ne_none _).symm]
  | .some a, y => by cases y <;> simp [isEquivO, normO, strKeyO, isEquiv_iff_norm cf a, strKey_ne_none]
end

/-! ## 2. `is_equivalent` is an equivalence relation -/

/-- every expression is equivalent to itself (an identical operand pair is always recognised by the relation) -/
theorem isEquiv_refl (cf : Cfg) (a : Expr) : isEquiv cf a a = true := (isEquiv_iff_norm cf a a).2 rfl

/-- the order of the two operands does not matter -/
theorem isEquiv_symm (a b : Expr) : isEquiv cf a b = isEquiv cf b a := by
  rw [Bool.eq_iff_iff, isEquiv_iff_norm, isEquiv_iff_norm]; exact eq_comm

theorem isEquiv_trans {a b c : Expr} (h₁ : isEquiv cf a b = true) (h₂ : isEquiv cf b c = true) : isEquiv cf a c = true := by
  rw [isEquiv_iff_norm] at *; exact h₁.trans h₂

theorem isEquivO_refl (cf : Cfg) (a : OExpr) : isEquivO cf a a = true := (opt_iff cf a a).2 rfl

theorem isEquivO_symm (a b : OExpr) : isEquivO cf a b = isEquivO cf b a := by
  rw [Bool.eq_iff_iff, opt_iff, opt_iff]; exact eq_comm

theorem isEquivO_trans {a b c : OExpr} (h₁ : isEquivO cf a b = true) (h₂ : isEquivO cf b c = true) :
    isEquivO cf a c = true := by
  rw [opt_iff] at *; exact h₁.trans h₂

/-! ## 3. `unmangle_name` -/

theorem dropWhile_idem (p : Char → Bool) (l : List Char) : (l.dropWhile p).dropWhile p = l.dropWhile p := by
  induction l with
  | nil => rfl
  | cons a t ih => by_cases h : p a <;> simp [h, ih]

theorem rstrip_idem (s : Str) : rstrip (rstrip s) = rstrip s := by
  simp [rstrip, dropWhile_idem]

/-- a trailing `'` or `*` (mypy's redefinition / implicit-definition suffix) is dropped -/
theorem rstrip_snoc (s : Str) (c : Char) (h : isMangleChar c = true) : rstrip (s ++ [c]) = rstrip s := by
  simp [rstrip, h]

/-- on text without `'` and `*` — every Python identifier and dotted name — unmangling changes nothing -/
theorem rstrip_clean (s : Str) (h : ∀ c ∈ s, isMangleChar c = false) : rstrip s = s := by
  unfold rstrip
  have : s.reverse.dropWhile isMangleChar = s.reverse := by
    cases hr : s.reverse with
    | nil => rfl
    | cons a t =>
      have : a ∈ s := by
        have : a ∈ s.reverse := by simp [hr]
        simpa using this
      simp [h a this]
  rw [this]; simp

/-- a variable and its redefinition (`x` and `x'`, mypy's `allow_redefinition` renaming) are the same operand -/
theorem redefinition_ignored (n f : Str) :
    isEquiv cf (.name (n ++ ['\'']) (some (f ++ ['\'']))) (.name n (some f)) = true := by
  simp [isEquiv, unmangle, rstrip_snoc, isMangleChar]

/-! ## 4. The property: `is_equivalent` ⇔ syntactic identity, under resolved names -/

/-- the property's relation: syntactically identical up to parentheses, whitespace (and redefinition suffixes) -/
def synEq (a b : Expr) : Prop := syn a = syn b

instance (a b : Expr) : Decidable (synEq a b) := inferInstanceAs (Decidable (syn a = syn b))

theorem synEqB_iff (a b : Expr) : synEqB a b = true ↔ synEq a b := by simp [synEqB, synEq]

/-- what the analysed program provides: how source names resolve, what fullname mypy gives a member expression,
    and the `str()` text of the node classes `is_equivalent` has no case for -/
structure World where
  /-- (unmangled) source name ↦ unmangled fullname; "" = unresolved -/
  fn : Str → Str
  /-- (syntactic view of the base, attribute name) ↦ unmangled fullname of the MemberExpr -/
  mf : Expr → Str → Str
  /-- position-free syntactic identity ↦ `str(node)` -/
  sc : Str → Str

/-- different source names resolve to different objects (fails for two unresolved names — both "" — and for two
    import aliases of one module) -/
def World.FnInj (w : World) : Prop := ∀ x y, w.fn x = w.fn y → x = y

/-- `str(node)` determines the node's syntax (fails for mypy's StrConv, e.g. `{**a, **b}` / `{a: b}` inside a lambda) -/
def World.ScInj (w : World) : Prop := ∀ s₁ s₂, w.sc s₁ = w.sc s₂ → s₁ = s₂

mutual
/-- `e` lives in world `w`: every NameExpr's fullname is `w.fn` of its name, every MemberExpr's fullname is `w.mf`
    of (base, attribute), every Str/Bytes literal is rendered verbatim by `str_repr`, and the `str()` text of every
    other node is `w.sc` of its syntax — in particular it does not depend on the line the node is on -/
def Resolved (w : World) : Expr → Prop
  | .name n f => unmangle f = w.fn (rstrip n)
  | .member e n f => Resolved w e ∧ unmangle f = w.mf (syn e) n
  | .index b i => Resolved w b ∧ Resolved w i
  | .call c a => Resolved w c ∧ ResolvedArgs w a
  | .seq _ l => ResolvedL w l
  | .dict d => ResolvedItems w d
  | .star e => Resolved w e
  | .unary _ e => Resolved w e
  | .op _ l r => Resolved w l ∧ Resolved w r
  | .cmp f r => Resolved w f ∧ ResolvedRest w r
  | .slice b e s => ResolvedO w b ∧ ResolvedO w e ∧ ResolvedO w s
  | .lit k v => litRepr k v = v
  | .other _ sc s => sc = w.sc s
def ResolvedL (w : World) : Exprs → Prop
  | .nil => True
  | .cons e t => Resolved w e ∧ ResolvedL w t
def ResolvedArgs (w : World) : Args → Prop
  | .nil => True
  | .cons e _ _ t => Resolved w e ∧ ResolvedArgs w t
def ResolvedItems (w : World) : Items → Prop
  | .nil => True
  | .cons k v t => ResolvedO w k ∧ Resolved w v ∧ ResolvedItems w t
def ResolvedRest (w : World) : Rest → Prop
  | .nil => True
  | .cons _ e t => Resolved w e ∧ ResolvedRest w t
def ResolvedO (w : World) : OExpr → Prop
  | .none => True
  | .some e => Resolved w e
end

mutual
theorem norm_syn (cf : Cfg) (w : World) (hf : cf.cmpName = true ∨ w.FnInj) (hs : w.ScInj) : ∀ a b : Expr, Resolved w a → Resolved w b → norm cf a = norm cf b → syn a = syn b
  | .name n f, b, ha, hb, h => by
      cases b with
      | name n' f' =>
        simp [norm] at h; simp [Resolved] at ha hb; simp [syn]
        cases hf with
        | inl hc => simpa [hc] using h.1
        | inr hf => exact hf _ _ (by rw [← ha, ← hb, h.2])
      | _ => simp [norm] at h
  | .member e n f, b, ha, hb, h => by
      cases b with
      | member e' n' f' =>
        simp [norm] at h; simp [Resolved] at ha hb; simp [syn]
        exact ⟨norm_syn cf w hf hs e e' ha.1 hb.1 h.1, h.2.1⟩
      | _ => simp [norm] at h
  | .index x y, b, ha, hb, h => by
      cases b with
      | index x' y' =>
        simp [norm] at h; simp [Resolved] at ha hb; simp [syn]
        exact ⟨norm_syn cf w hf hs x x' ha.1 hb.1 h.1, norm_syn cf w hf hs y y' ha.2 hb.2 h.2⟩
      | _ => simp [norm] at h
  | .call c a, b, ha, hb, h => by
      cases b with
      | call c' a' =>
        simp [norm] at h; simp [Resolved] at ha hb; simp [syn]
        exact ⟨norm_syn cf w hf hs c c' ha.1 hb.1 h.1, normArgs_syn cf w hf hs a a' ha.2 hb.2 h.2⟩
      | _ => simp [norm] at h
  | .seq k l, b, ha, hb, h => by
      cases b with
      | seq k' l' =>
        simp [norm] at h; simp [Resolved] at ha hb; simp [syn]
        exact ⟨h.1, normL_syn cf w hf hs l l' ha hb h.2⟩
      | _ => simp [norm] at h
  | .dict d, b, ha, hb, h => by
      cases b with
      | dict d' =>
        simp [norm] at h; simp [Resolved] at ha hb; simp [syn]
        exact normItems_syn cf w hf hs d d' ha hb h
      | _ => simp [norm] at h
  | .star e, b, ha, hb, h => by
      cases b with
      | star e' =>
        simp [norm] at h; simp [Resolved] at ha hb; simp [syn]
        exact norm_syn cf w hf hs e e' ha hb h
      | _ => simp [norm] at h
  | .unary o e, b, ha, hb, h => by
      cases b with
      | unary o' e' =>
        simp [norm] at h; simp [Resolved] at ha hb; simp [syn]
        exact ⟨h.1, norm_syn cf w hf hs e e' ha hb h.2⟩
      | _ => simp [norm] at h
  | .op o l r, b, ha, hb, h => by
      cases b with
      | op o' l' r' =>
        simp [norm] at h; simp [Resolved] at ha hb; simp [syn]
        exact ⟨h.1, norm_syn cf w hf hs l l' ha.1 hb.1 h.2.1, norm_syn cf w hf hs r r' ha.2 hb.2 h.2.2⟩
      | _ => simp [norm] at h
  | .cmp f r, b, ha, hb, h => by
      cases b with
      | cmp f' r' =>
        simp [norm] at h; simp [Resolved] at ha hb; simp [syn]
        exact ⟨norm_syn cf w hf hs f f' ha.1 hb.1 h.1, normRest_syn cf w hf hs r r' ha.2 hb.2 h.2⟩
      | _ => simp [norm] at h
  | .slice x y z, b, ha, hb, h => by
      cases b with
      | slice x' y' z' =>
        simp [norm] at h; simp [Resolved] at ha hb; simp [syn]
        exact ⟨normO_syn cf w hf hs x x' ha.1 hb.1 h.1, normO_syn cf w hf hs y y' ha.2.1 hb.2.1 h.2.1, normO_syn cf w hf hs z z' ha.2.2 hb.2.2 h.2.2⟩
      | _ => simp [norm] at h
  | .lit k v, b, ha, hb, h => by
      cases b with
      | lit k' v' =>
        simp [norm] at h; simp [Resolved] at ha hb; simp [syn]
        obtain ⟨hk, h2⟩ := h
        subst hk
        exact ⟨rfl, by rw [ha, hb] at h2; exact h2⟩
      | _ => simp [norm] at h
  | .other k sc s, b, ha, hb, h => by
      cases b with
      | other k' sc' s' =>
        simp [norm] at h; simp [Resolved] at ha hb; simp [syn]
        exact hs _ _ (by rw [← ha, ← hb, h])
      | _ => simp [norm] at h
theorem normL_syn (cf : Cfg) (w : World) (hf : cf.cmpName = true ∨ w.FnInj) (hs : w.ScInj) : ∀ a b : Exprs, ResolvedL w a → ResolvedL w b → normL cf a = normL cf b → synL a = synL b
  | .nil, b, _, _, h => by cases b <;> simp [normL] at h ⊢
  | .cons e t, b, ha, hb, h => by
      cases b with
      | nil => simp [normL] at h
      | cons e' t' =>
        simp [normL] at h; simp [ResolvedL] at ha hb; simp [synL]
        exact ⟨norm_syn cf w hf hs e e' ha.1 hb.1 h.1, normL_syn cf w hf hs t t' ha.2 hb.2 h.2⟩
theorem normArgs_syn (cf : Cfg) (w : World) (hf : cf.cmpName = true ∨ w.FnInj) (hs : w.ScInj) : ∀ a b : Args, ResolvedArgs w a → ResolvedArgs w b → normArgs cf a = normArgs cf b → synArgs a = synArgs b
  | .nil, b, _, _, h => by cases b <;> simp [normArgs] at h ⊢
  | .cons e k n t, b, ha, hb, h => by
      cases b with
      | nil => simp [normArgs] at h
      | cons e' k' n' t' =>
        simp [normArgs] at h; simp [ResolvedArgs] at ha hb; simp [synArgs]
        exact ⟨norm_syn cf w hf hs e e' ha.1 hb.1 h.1, h.2.1, h.2.2.1, normArgs_syn cf w hf hs t t' ha.2 hb.2 h.2.2.2⟩
theorem normItems_syn (cf : Cfg) (w : World) (hf : cf.cmpName = true ∨ w.FnInj) (hs : w.ScInj) : ∀ a b : Items, ResolvedItems w a → ResolvedItems w b → normItems cf a = normItems cf b → synItems a = synItems b
  | .nil, b, _, _, h => by cases b <;> simp [normItems] at h ⊢
  | .cons k v t, b, ha, hb, h => by
      cases b with
      | nil => simp [normItems] at h
      | cons k' v' t' =>
        simp [normItems] at h; simp [ResolvedItems] at ha hb; simp [synItems]
        exact ⟨normO_syn cf w hf hs k k' ha.1 hb.1 h.1, norm_syn cf w hf hs v v' ha.2.1 hb.2.1 h.2.1, normItems_syn cf w hf hs t t' ha.2.2 hb.2.2 h.2.2⟩
theorem normRest_syn (cf : Cfg) (w : World) (hf : cf.cmpName = true ∨ w.FnInj) (hs : w.ScInj) : ∀ a b : Rest, ResolvedRest w a → ResolvedRest w b → normRest cf a = normRest cf b → synRest a = synRest b
  | .nil, b, _, _, h => by cases b <;> simp [normRest] at h ⊢
  | .cons o e t, b, ha, hb, h => by
      cases b with
      | nil => simp [normRest] at h
      | cons o' e' t' =>
        simp [normRest] at h; simp [ResolvedRest] at ha hb; simp [synRest]
        exact ⟨h.1, norm_syn cf w hf hs e e' ha.1 hb.1 h.2.1, normRest_syn cf w hf hs t t' ha.2 hb.2 h.2.2⟩
theorem normO_syn (cf : Cfg) (w : World) (hf : cf.cmpName = true ∨ w.FnInj) (hs : w.ScInj) : ∀ a b : OExpr, ResolvedO w a → ResolvedO w b → normO cf a = normO cf b → synO a = synO b
  | .none, b, _, _, h => by cases b <;> simp [normO] at h ⊢
  | .some e, b, ha, hb, h => by
      cases b with
      | none => simp [normO] at h
      | some e' =>
        simp [normO] at h; simp [ResolvedO] at ha hb; simp [synO]
        exact norm_syn cf w hf hs e e' ha hb h
end


mutual
theorem syn_norm (cf : Cfg) (w : World) : ∀ a b : Expr, Resolved w a → Resolved w b → syn a = syn b → norm cf a = norm cf b
  | .name n f, b, ha, hb, h => by
      cases b with
      | name n' f' =>
        simp [syn] at h; simp [Resolved] at ha hb; simp [norm]
        simp [ha, hb, h]
      | _ => simp [syn] at h
  | .member e n f, b, ha, hb, h => by
      cases b with
      | member e' n' f' =>
        simp [syn] at h; simp [Resolved] at ha hb; simp [norm]
        refine ⟨syn_norm cf w e e' ha.1 hb.1 h.1, h.2, ?_⟩
        rw [ha.2, hb.2, h.1, h.2]
      | _ => simp [syn] at h
  | .index x y, b, ha, hb, h => by
      cases b with
      | index x' y' =>
        simp [syn] at h; simp [Resolved] at ha hb; simp [norm]
        exact ⟨syn_norm cf w x x' ha.1 hb.1 h.1, syn_norm cf w y y' ha.2 hb.2 h.2⟩
      | _ => simp [syn] at h
  | .call c a, b, ha, hb, h => by
      cases b with
      | call c' a' =>
        simp [syn] at h; simp [Resolved] at ha hb; simp [norm]
        exact ⟨syn_norm cf w c c' ha.1 hb.1 h.1, synArgs_norm cf w a a' ha.2 hb.2 h.2⟩
      | _ => simp [syn] at h
  | .seq k l, b, ha, hb, h => by
      cases b with
      | seq k' l' =>
        simp [syn] at h; simp [Resolved] at ha hb; simp [norm]
        exact ⟨h.1, synL_norm cf w l l' ha hb h.2⟩
      | _ => simp [syn] at h
  | .dict d, b, ha, hb, h => by
      cases b with
      | dict d' =>
        simp [syn] at h; simp [Resolved] at ha hb; simp [norm]
        exact synItems_norm cf w d d' ha hb h
      | _ => simp [syn] at h
  | .star e, b, ha, hb, h => by
      cases b with
      | star e' =>
        simp [syn] at h; simp [Resolved] at ha hb; simp [norm]
        exact syn_norm cf w e e' ha hb h
      | _ => simp [syn] at h
  | .unary o e, b, ha, hb, h => by
      cases b with
      | unary o' e' =>
        simp [syn] at h; simp [Resolved] at ha hb; simp [norm]
        exact ⟨h.1, syn_norm cf w e e' ha hb h.2⟩
      | _ => simp [syn] at h
  | .op o l r, b, ha, hb, h => by
      cases b with
      | op o' l' r' =>
        simp [syn] at h; simp [Resolved] at ha hb; simp [norm]
        exact ⟨h.1, syn_norm cf w l l' ha.1 hb.1 h.2.1, syn_norm cf w r r' ha.2 hb.2 h.2.2⟩
      | _ => simp [syn] at h
  | .cmp f r, b, ha, hb, h => by
      cases b with
      | cmp f' r' =>
        simp [syn] at h; simp [Resolved] at ha hb; simp [norm]
        exact ⟨syn_norm cf w f f' ha.1 hb.1 h.1, synRest_norm cf w r r' ha.2 hb.2 h.2⟩
      | _ => simp [syn] at h
  | .slice x y z, b, ha, hb, h => by
      cases b with
      | slice x' y' z' =>
        simp [syn] at h; simp [Resolved] at ha hb; simp [norm]
        exact ⟨synO_norm cf w x x' ha.1 hb.1 h.1, synO_norm cf w y y' ha.2.1 hb.2.1 h.2.1, synO_norm cf w z z' ha.2.2 hb.2.2 h.2.2⟩
      | _ => simp [syn] at h
  | .lit k v, b, _, _, h => by
      cases b with
      | lit k' v' => simp [syn] at h; simp [norm, h.1, h.2]
      | _ => simp [syn] at h
  | .other k sc s, b, ha, hb, h => by
      cases b with
      | other k' sc' s' =>
        simp [syn] at h; simp [Resolved] at ha hb; simp [norm]
        rw [ha, hb, h]
      | _ => simp [syn] at h
theorem synL_norm (cf : Cfg) (w : World) : ∀ a b : Exprs, ResolvedL w a → ResolvedL w b → synL a = synL b → normL cf a = normL cf b
  | .nil, b, _, _, h => by cases b <;> simp [synL] at h ⊢
  | .cons e t, b, ha, hb, h => by
      cases b with
      | nil => simp [synL] at h
      | cons e' t' =>
        simp [synL] at h; simp [ResolvedL] at ha hb; simp [normL]
        exact ⟨syn_norm cf w e e' ha.1 hb.1 h.1, synL_norm cf w t t' ha.2 hb.2 h.2⟩
theorem synArgs_norm (cf : Cfg) (w : World) : ∀ a b : Args, ResolvedArgs w a → ResolvedArgs w b → synArgs a = synArgs b → normArgs cf a = normArgs cf b
  | .nil, b, _, _, h => by cases b <;> simp [synArgs] at h ⊢
  | .cons e k n t, b, ha, hb, h => by
      cases b with
      | nil => simp [synArgs] at h
      | cons e' k' n' t' =>
        simp [synArgs] at h; simp [ResolvedArgs] at ha hb; simp [normArgs]
        exact ⟨syn_norm cf w e e' ha.1 hb.1 h.1, h.2.1, h.2.2.1, synArgs_norm cf w t t' ha.2 hb.2 h.2.2.2⟩
theorem synItems_norm (cf : Cfg) (w : World) : ∀ a b : Items, ResolvedItems w a → ResolvedItems w b → synItems a = synItems b → normItems cf a = normItems cf b
  | .nil, b, _, _, h => by cases b <;> simp [synItems] at h ⊢
  | .cons k v t, b, ha, hb, h => by
      cases b with
      | nil => simp [synItems] at h
      | cons k' v' t' =>
        simp [synItems] at h; simp [ResolvedItems] at ha hb; simp [normItems]
        exact ⟨synO_norm cf w k k' ha.1 hb.1 h.1, syn_norm cf w v v' ha.2.1 hb.2.1 h.2.1, synItems_norm cf w t t' ha.2.2 hb.2.2 h.2.2⟩
theorem synRest_norm (cf : Cfg) (w : World) : ∀ a b : Rest, ResolvedRest w a → ResolvedRest w b → synRest a = synRest b → normRest cf a = normRest cf b
  | .nil, b, _, _, h => by cases b <;> simp [synRest] at h ⊢
  | .cons o e t, b, ha, hb, h => by
      cases b with
      | nil => simp [synRest] at h
      | cons o' e' t' =>
        simp [synRest] at h; simp [ResolvedRest] at ha hb; simp [normRest]
        exact ⟨h.1, syn_norm cf w e e' ha.1 hb.1 h.2.1, synRest_norm cf w t t' ha.2 hb.2 h.2.2⟩
theorem synO_norm (cf : Cfg) (w : World) : ∀ a b : OExpr, ResolvedO w a → ResolvedO w b → synO a = synO b → normO cf a = normO cf b
  | .none, b, _, _, h => by cases b <;> simp [synO] at h ⊢
  | .some e, b, ha, hb, h => by
      cases b with
      | none => simp [synO] at h
      | some e' =>
        simp [synO] at h; simp [ResolvedO] at ha hb; simp [normO]
        exact syn_norm cf w e e' ha hb h
end


/-- SOUNDNESS (no false "same expression"): if both operands live in a world where different names resolve to
    different objects and `str()` text determines syntax, then `is_equivalent` only accepts syntactically identical
    operands — whatever their size and nesting. -/
theorem equiv_sound_partial (w : World) (hf : cf.cmpName = true ∨ w.FnInj) (hs : w.ScInj) {a b : Expr}
    (ha : Resolved w a) (hb : Resolved w b) (h : isEquiv cf a b = true) : synEq a b :=
  norm_syn cf w hf hs a b ha hb ((isEquiv_iff_norm cf a b).1 h)

/-- COMPLETENESS (no missed "same expression"): if both operands live in one world — equal names resolve equally,
    member fullnames are a function of (base, attribute), and `str()` text is a function of the syntax, i.e. does
    not depend on the line — then syntactically identical operands are always recognised. -/
theorem equiv_complete_partial (w : World) {a b : Expr}
    (ha : Resolved w a) (hb : Resolved w b) (h : synEq a b) : isEquiv cf a b = true :=
  (isEquiv_iff_norm cf a b).2 (syn_norm cf w a b ha hb h)

/-- the property, for every pair of operands of a well-resolved program -/
theorem isEquiv_iff_synEq (w : World) (hf : cf.cmpName = true ∨ w.FnInj) (hs : w.ScInj) {a b : Expr}
    (ha : Resolved w a) (hb : Resolved w b) : isEquiv cf a b = true ↔ synEq a b :=
  ⟨equiv_sound_partial w hf hs ha hb, equiv_complete_partial w ha hb⟩

/-- operands that differ syntactically ANYWHERE (a name, an attribute, an argument, a kind, a keyword, an operator,
    a literal, the arity, at any depth) are never "the same expression" -/
theorem differing_never_same (w : World) (hf : cf.cmpName = true ∨ w.FnInj) (hs : w.ScInj) {a b : Expr}
    (ha : Resolved w a) (hb : Resolved w b) (h : ¬ synEq a b) : isEquiv cf a b = false := by
  cases hq : isEquiv cf a b with
  | false => rfl
  | true => exact absurd (equiv_sound_partial w hf hs ha hb hq) h

/-! ## 5. The full statement is false of the code -/

/-- the property as stated: for ALL operand pairs, flagged as "the same" iff syntactically identical -/
def Full (cf : Cfg) : Prop := ∀ a b : Expr, isEquiv cf a b = true ↔ synEq a b

/-- witness 1 (false positive): two different names mypy left unresolved (undefined, or in unreachable code) —
    both fullnames are "" — `undefined1 if undefined2 else 3` -/
def w1a : Expr := .name "undefined1".toList (some [])
def w1b : Expr := .name "undefined2".toList (some [])

/-- witness 2 (false negative): the same lambda on lines 1 and 2 — `(lambda: 1) if (⏎ lambda: 1) else c` -/
def w2a : Expr := .other "LambdaExpr".toList "LambdaExpr:1(Block:1(ReturnStmt:1(IntExpr(1))))".toList "Lambda(args=[],body=Constant(1))".toList
def w2b : Expr := .other "LambdaExpr".toList "LambdaExpr:2(Block:2(ReturnStmt:2(IntExpr(1))))".toList "Lambda(args=[],body=Constant(1))".toList

/-- witness 3 (false positive): string literals whose `str_repr` renderings collide — `"\\\x01"` and `"\\u0001"` -/
def w3a : Expr := .lit .str ['\\', Char.ofNat 1]
def w3b : Expr := .lit .str ['\\', 'u', '0', '0', '0', '1']

/-- witness 4 (false positive): two import aliases of one module (`import os.path as p1, os.path as p2`) -/
def w4a : Expr := .name "p1".toList (some "os.path".toList)
def w4b : Expr := .name "p2".toList (some "os.path".toList)

/-- refurb 2.0.0 (`cmpName = false`): flagged although the names differ; with the name comparison: not flagged -/
theorem w1_flagged_but_different (x : Bool) : isEquiv ⟨false, x⟩ w1a w1b = true ∧ isEquiv ⟨true, x⟩ w1a w1b = false ∧ ¬ synEq w1a w1b := by cases x <;> decide
/-- in either configuration: not flagged although identical -/
theorem w2_same_but_not_flagged : isEquiv cf w2a w2b = false ∧ synEq w2a w2b := by
  obtain ⟨b, x⟩ := cf; cases b <;> cases x <;> decide
/-- in either configuration: flagged although the literals differ -/
theorem w3_flagged_but_different : isEquiv cf w3a w3b = true ∧ ¬ synEq w3a w3b := by
  obtain ⟨b, x⟩ := cf; cases b <;> cases x <;> decide
theorem w4_alias_flagged (x : Bool) : isEquiv ⟨false, x⟩ w4a w4b = true ∧ isEquiv ⟨true, x⟩ w4a w4b = false ∧ ¬ synEq w4a w4b := by cases x <;> decide

/-- the full statement fails — whether or not the relation also compares names — in both directions -/
theorem full_refuted (cf : Cfg) : ¬ Full cf := fun h =>
  (w3_flagged_but_different (cf := cf)).2 ((h w3a w3b).1 (w3_flagged_but_different (cf := cf)).1)

theorem full_refuted_completeness (cf : Cfg) : ¬ (∀ a b : Expr, synEq a b → isEquiv cf a b = true) := fun h => by
  have := h w2a w2b (w2_same_but_not_flagged (cf := cf)).2
  rw [(w2_same_but_not_flagged (cf := cf)).1] at this
  exact absurd this (by decide)

/-- no world with injective name resolution contains two unresolved names: witness 1 is outside the guard -/
theorem unresolved_outside_guard (w : World) (hf : w.FnInj) : ¬ (Resolved w w1a ∧ Resolved w w1b) := by
  intro ⟨h1, h2⟩
  simp [w1a, w1b, Resolved] at h1 h2
  have := hf _ _ (h1.symm.trans h2)
  revert this; decide

/-- no world at all contains the same lambda with two line numbers: witness 2 is outside the guard -/
theorem lines_outside_guard (w : World) : ¬ (Resolved w w2a ∧ Resolved w w2b) := by
  intro ⟨h1, h2⟩
  simp [w2a, w2b, Resolved] at h1 h2
  have := h1.trans h2.symm
  revert this; decide

/-- for the relation as extracted from /repo on this run (Generated/EquivCfg.lean): the full statement is false … -/
theorem repo_full_refuted : ¬ Full Generated.equivCfg := full_refuted _

/-- … and what does hold of it: between operands of a well-resolved program it is exactly syntactic identity -/
theorem repo_isEquiv_iff_synEq (w : World) (hf : w.FnInj) (hs : w.ScInj) {a b : Expr}
    (ha : Resolved w a) (hb : Resolved w b) : isEquiv Generated.equivCfg a b = true ↔ synEq a b :=
  isEquiv_iff_synEq w (Or.inr hf) hs ha hb

/-- once the relation compares names (`cmpName`), soundness needs no assumption on name resolution at all:
    unresolved names and aliases cannot be confused any more -/
theorem sound_when_names_compared (w : World) (hs : w.ScInj) {a b : Expr} (hc : cf.cmpName = true)
    (ha : Resolved w a) (hb : Resolved w b) (h : isEquiv cf a b = true) : synEq a b :=
  equiv_sound_partial w (Or.inl hc) hs ha hb h

/-! ## 6. Single-edit mutants: each kind of difference is fatal, at any depth -/

/-- a differing attribute name is never the same expression (unconditional) -/
theorem attribute_differs {e₁ e₂ : Expr} {n₁ n₂ : Str} {f₁ f₂ : Option Str} (h : n₁ ≠ n₂) :
    isEquiv cf (.member e₁ n₁ f₁) (.member e₂ n₂ f₂) = false := by
  simp [isEquiv, h]

/-- a differing binary operator (arithmetic, bitwise, `and`/`or`) -/
theorem operator_differs {o₁ o₂ : Str} {l₁ r₁ l₂ r₂ : Expr} (h : o₁ ≠ o₂) :
    isEquiv cf (.op o₁ l₁ r₁) (.op o₂ l₂ r₂) = false := by
  simp [isEquiv, h]

theorem unary_operator_differs {o₁ o₂ : Str} {e₁ e₂ : Expr} (h : o₁ ≠ o₂) :
    isEquiv cf (.unary o₁ e₁) (.unary o₂ e₂) = false := by
  simp [isEquiv, h]

/-- differing comparison operators, or a different number of them (`a < b` vs `a <= b`, `a < b` vs `a < b < c`) -/
theorem comparison_operators_differ {f₁ f₂ : Expr} {r₁ r₂ : Rest} (h : r₁.ops ≠ r₂.ops) :
    isEquiv cf (.cmp f₁ r₁) (.cmp f₂ r₂) = false := by
  simp [isEquiv, h]

/-- a differing argument kind (`f(a)` / `f(*a)` / `f(**a)`), or a different number of arguments: `zip` truncation
    is harmless because `arg_kinds` are compared as whole lists -/
theorem arg_kinds_differ {c₁ c₂ : Expr} {a₁ a₂ : Args} (h : a₁.kinds ≠ a₂.kinds) :
    isEquiv cf (.call c₁ a₁) (.call c₂ a₂) = false := by
  simp [isEquiv, h]

/-- a differing keyword (`f(k=a)` / `f(j=a)` / `f(a)`) -/
theorem keywords_differ {c₁ c₂ : Expr} {a₁ a₂ : Args} (h : a₁.kws ≠ a₂.kws) :
    isEquiv cf (.call c₁ a₁) (.call c₂ a₂) = false := by
  simp [isEquiv, h]

theorem kinds_length : ∀ a : Args, a.kinds.length = (a.kws).length
  | .nil => rfl
  | .cons _ _ _ t => by simp [Args.kinds, Args.kws, kinds_length t]

/-- list / tuple / set displays of different length -/
theorem display_arity_differs {k : SeqKind} {l₁ l₂ : Exprs} (h : l₁.len ≠ l₂.len) :
    isEquiv cf (.seq k l₁) (.seq k l₂) = false := by
  simp [isEquiv, h]

theorem dict_arity_differs {d₁ d₂ : Items} (h : d₁.len ≠ d₂.len) : isEquiv cf (.dict d₁) (.dict d₂) = false := by
  simp [isEquiv, h]

/-- node class tag: what `norm` preserves of the constructor -/
def cls : Expr → Nat
  | .name _ _ => 0
  | .member _ _ _ => 1
  | .index _ _ => 2
  | .call _ _ => 3
  | .seq .list _ => 4
  | .seq .tuple _ => 5
  | .seq .set _ => 6
  | .dict _ => 7
  | .star _ => 8
  | .unary _ _ => 9
  | .op _ _ _ => 10
  | .cmp _ _ => 11
  | .slice _ _ _ => 12
  | .lit .int _ => 13
  | .lit .str _ => 14
  | .lit .bytes _ => 15
  | .lit .float _ => 16
  | .lit .complex _ => 17
  | .lit .ellipsis _ => 18
  | .other _ _ _ => 19

theorem cls_norm (cf : Cfg) (a : Expr) : cls (norm cf a) = cls a := by
  cases a with
  | seq k l => cases k <;> rfl
  | lit k v => cases k <;> rfl
  | _ => rfl

/-- operands of different node classes (a name vs a call, a list vs a tuple, `*a` vs `a`, `1` vs `1.0` vs `"1"`,
    a structural node vs a lambda …) are never the same expression -/
theorem class_differs {a b : Expr} (h : cls a ≠ cls b) : isEquiv cf a b = false := by
  cases hq : isEquiv cf a b with
  | false => rfl
  | true =>
    have := congrArg cls ((isEquiv_iff_norm cf a b).1 hq)
    rw [cls_norm, cls_norm] at this
    exact absurd this h

/-- `{k: v}` vs `{**v}`: presence of a dict key -/
theorem dict_key_presence {k : Expr} {v₁ v₂ : Expr} {t₁ t₂ : Items} :
    isEquiv cf (.dict (.cons (.some k) v₁ t₁)) (.dict (.cons .none v₂ t₂)) = false := by
  simp [isEquiv, allZipItems, isEquivO, strKeyO, strKey_ne_none]

/-- `x[a:b]` vs `x[:b]`: presence of a slice part -/
theorem slice_part_presence {x : Expr} {e₁ s₁ e₂ s₂ : OExpr} :
    isEquiv cf (.slice (.some x) e₁ s₁) (.slice .none e₂ s₂) = false := by
  simp [isEquiv, isEquivO, strKeyO, strKey_ne_none]

/-- differing number literals (Int/Float/Complex: `str()` prints the value itself) -/
theorem number_literal_differs {k : LitKind} {v₁ v₂ : Str} (hk : k ≠ .str) (hb : k ≠ .bytes) (h : v₁ ≠ v₂) :
    isEquiv cf (.lit k v₁) (.lit k v₂) = false := by
  cases k <;> simp_all [isEquiv, strKey, litRepr]

/-- text that mypy's `str_repr` prints verbatim: printable ASCII without a backslash -/
def Plain (s : Str) : Prop := ∀ c ∈ s, isPrintable c = true ∧ c ≠ '\\'

theorem escU_plain : ∀ s : Str, Plain s → escU s = s
  | [], _ => rfl
  | c :: t, h => by
      have hc := h c (by simp)
      have ht : Plain t := fun x hx => h x (by simp [hx])
      simp [escU, hc.2, escU_plain t ht]

theorem escNonPrintable_plain : ∀ s : Str, Plain s → escNonPrintable s = s
  | [], _ => rfl
  | c :: t, h => by
      have hc := h c (by simp)
      have ht : Plain t := fun x hx => h x (by simp [hx])
      simp [escNonPrintable, hc.1, escNonPrintable_plain t ht]

theorem litRepr_plain (k : LitKind) (v : Str) (h : Plain v) : litRepr k v = v := by
  cases k <;> simp [litRepr, strRepr, escU_plain v h, escNonPrintable_plain v h]

/-- differing string / bytes literals of printable ASCII without backslashes -/
theorem string_literal_differs {k : LitKind} {v₁ v₂ : Str} (h₁ : Plain v₁) (h₂ : Plain v₂) (h : v₁ ≠ v₂) :
    isEquiv cf (.lit k v₁) (.lit k v₂) = false := by
  simp [isEquiv, strKey, litRepr_plain, h₁, h₂, h]

/-- two different names: never the same if the relation compares names, or if both resolve (to different objects) -/
theorem name_differs (w : World) (hf : cf.cmpName = true ∨ w.FnInj) {n₁ n₂ : Str} {f₁ f₂ : Option Str}
    (h₁ : Resolved w (.name n₁ f₁)) (h₂ : Resolved w (.name n₂ f₂)) (h : rstrip n₁ ≠ rstrip n₂) :
    isEquiv cf (.name n₁ f₁) (.name n₂ f₂) = false := by
  simp [Resolved] at h₁ h₂
  cases hf with
  | inl hc => simp [isEquiv, hc, h]
  | inr hf =>
    simp [isEquiv, h₁, h₂]
    exact fun _ hq => h (hf _ _ hq)

/-! ### …at any depth: one-hole contexts -/

def appL : Exprs → Exprs → Exprs
  | .nil, r => r
  | .cons e t, r => .cons e (appL t r)
def appArgs : Args → Args → Args
  | .nil, r => r
  | .cons e k n t, r => .cons e k n (appArgs t r)
def appItems : Items → Items → Items
  | .nil, r => r
  | .cons k v t, r => .cons k v (appItems t r)
def appRest : Rest → Rest → Rest
  | .nil, r => r
  | .cons o e t, r => .cons o e (appRest t r)

/-- one layer of syntax around a hole: every position where an operand can contain a sub-expression -/
inductive Frame where
  | memberBase (n : Str) (f : Option Str)
  | indexBase (idx : Expr)
  | indexIdx (base : Expr)
  | callCallee (args : Args)
  | callArg (callee : Expr) (pre : Args) (kind : Nat) (kw : Option Str) (post : Args)
  | seqItem (k : SeqKind) (pre post : Exprs)
  | dictKey (pre : Items) (v : Expr) (post : Items)
  | dictVal (pre : Items) (k : OExpr) (post : Items)
  | star
  | unary (op : Str)
  | opL (op : Str) (r : Expr)
  | opR (op : Str) (l : Expr)
  | cmpFirst (rest : Rest)
  | cmpOperand (first : Expr) (pre : Rest) (op : Str) (post : Rest)
  | sliceB (e s : OExpr)
  | sliceE (b s : OExpr)
  | sliceS (b e : OExpr)

def Frame.fill : Frame → Expr → Expr
  | .memberBase n f, x => .member x n f
  | .indexBase i, x => .index x i
  | .indexIdx b, x => .index b x
  | .callCallee a, x => .call x a
  | .callArg c pre k n post, x => .call c (appArgs pre (.cons x k n post))
  | .seqItem k pre post, x => .seq k (appL pre (.cons x post))
  | .dictKey pre v post, x => .dict (appItems pre (.cons (.some x) v post))
  | .dictVal pre k post, x => .dict (appItems pre (.cons k x post))
  | .star, x => .star x
  | .unary o, x => .unary o x
  | .opL o r, x => .op o x r
  | .opR o l, x => .op o l x
  | .cmpFirst r, x => .cmp x r
  | .cmpOperand f pre o post, x => .cmp f (appRest pre (.cons o x post))
  | .sliceB e s, x => .slice (.some x) e s
  | .sliceE b s, x => .slice b (.some x) s
  | .sliceS b e, x => .slice b e (.some x)

/-- a context: frames from the inside out -/
def fill : List Frame → Expr → Expr
  | [], x => x
  | F :: C, x => fill C (F.fill x)

theorem normL_app (cf : Cfg) : ∀ (pre post : Exprs) (x y : Expr),
    normL cf (appL pre (.cons x post)) = normL cf (appL pre (.cons y post)) ↔ norm cf x = norm cf y
  | .nil, post, x, y => by simp [appL, normL]
  | .cons e t, post, x, y => by simp [appL, normL, normL_app cf t post x y]

theorem normArgs_app (cf : Cfg) : ∀ (pre post : Args) (k : Nat) (n : Option Str) (x y : Expr),
    normArgs cf (appArgs pre (.cons x k n post)) = normArgs cf (appArgs pre (.cons y k n post)) ↔ norm cf x = norm cf y
  | .nil, post, k, n, x, y => by simp [appArgs, normArgs]
  | .cons e k' n' t, post, k, n, x, y => by simp [appArgs, normArgs, normArgs_app cf t post k n x y]

theorem normItems_appK (cf : Cfg) : ∀ (pre post : Items) (v x y : Expr),
    normItems cf (appItems pre (.cons (.some x) v post)) = normItems cf (appItems pre (.cons (.some y) v post)) ↔ norm cf x = norm cf y
  | .nil, post, v, x, y => by simp [appItems, normItems, normO]
  | .cons k' v' t, post, v, x, y => by simp [appItems, normItems, normItems_appK cf t post v x y]

theorem normItems_appV (cf : Cfg) : ∀ (pre post : Items) (k : OExpr) (x y : Expr),
    normItems cf (appItems pre (.cons k x post)) = normItems cf (appItems pre (.cons k y post)) ↔ norm cf x = norm cf y
  | .nil, post, k, x, y => by simp [appItems, normItems]
  | .cons k' v' t, post, k, x, y => by simp [appItems, normItems, normItems_appV cf t post k x y]

theorem normRest_app (cf : Cfg) : ∀ (pre post : Rest) (o : Str) (x y : Expr),
    normRest cf (appRest pre (.cons o x post)) = normRest cf (appRest pre (.cons o y post)) ↔ norm cf x = norm cf y
  | .nil, post, o, x, y => by simp [appRest, normRest]
  | .cons o' e t, post, o, x, y => by simp [appRest, normRest, normRest_app cf t post o x y]

theorem frame_norm (cf : Cfg) (F : Frame) (x y : Expr) : norm cf (F.fill x) = norm cf (F.fill y) ↔ norm cf x = norm cf y := by
  cases F <;> simp [Frame.fill, norm, normO, normL_app, normArgs_app, normItems_appK, normItems_appV, normRest_app]

/-- CONGRUENCE: wrapping both operands in the same layer of syntax (same attribute, same other arguments with the
    same kinds and keywords, same operator, same other items …) does not change the verdict -/
theorem frame_congr (cf : Cfg) (F : Frame) (x y : Expr) : isEquiv cf (F.fill x) (F.fill y) = isEquiv cf x y := by
  rw [Bool.eq_iff_iff, isEquiv_iff_norm, isEquiv_iff_norm, frame_norm]

/-- …and so for contexts of any depth: a sub-expression pair decides the verdict of the whole pair -/
theorem ctx_congr (cf : Cfg) : ∀ (C : List Frame) (x y : Expr), isEquiv cf (fill C x) (fill C y) = isEquiv cf x y
  | [], _, _ => rfl
  | F :: C, x, y => by rw [fill, fill, ctx_congr cf C, frame_congr]

/-- EVERY SINGLE-EDIT MUTANT DIFFERS: if an operand is changed at one place, at any depth, into something that is
    not equivalent there (sections 6: another attribute, operator, kind, keyword, arity, class, literal, resolved
    name), then the two operands as a whole are not "the same expression" -/
theorem mutant_differs (C : List Frame) {x y : Expr} (h : isEquiv cf x y = false) :
    isEquiv cf (fill C x) (fill C y) = false := by rw [ctx_congr, h]

/-- and unchanged operands stay the same under any context -/
theorem identical_same (C : List Frame) (x : Expr) : isEquiv cf (fill C x) (fill C x) = true := isEquiv_refl cf _

/-! ### the specification is a congruence as well -/

theorem synL_app : ∀ (pre post : Exprs) (x y : Expr),
    synL (appL pre (.cons x post)) = synL (appL pre (.cons y post)) ↔ syn x = syn y
  | .nil, post, x, y => by simp [appL, synL]
  | .cons e t, post, x, y => by simp [appL, synL, synL_app t post x y]

theorem synArgs_app : ∀ (pre post : Args) (k : Nat) (n : Option Str) (x y : Expr),
    synArgs (appArgs pre (.cons x k n post)) = synArgs (appArgs pre (.cons y k n post)) ↔ syn x = syn y
  | .nil, post, k, n, x, y => by simp [appArgs, synArgs]
  | .cons e k' n' t, post, k, n, x, y => by simp [appArgs, synArgs, synArgs_app t post k n x y]

theorem synItems_appK : ∀ (pre post : Items) (v x y : Expr),
    synItems (appItems pre (.cons (.some x) v post)) = synItems (appItems pre (.cons (.some y) v post)) ↔ syn x = syn y
  | .nil, post, v, x, y => by simp [appItems, synItems, synO]
  | .cons k' v' t, post, v, x, y => by simp [appItems, synItems, synItems_appK t post v x y]

theorem synItems_appV : ∀ (pre post : Items) (k : OExpr) (x y : Expr),
    synItems (appItems pre (.cons k x post)) = synItems (appItems pre (.cons k y post)) ↔ syn x = syn y
  | .nil, post, k, x, y => by simp [appItems, synItems]
  | .cons k' v' t, post, k, x, y => by simp [appItems, synItems, synItems_appV t post k x y]

theorem synRest_app : ∀ (pre post : Rest) (o : Str) (x y : Expr),
    synRest (appRest pre (.cons o x post)) = synRest (appRest pre (.cons o y post)) ↔ syn x = syn y
  | .nil, post, o, x, y => by simp [appRest, synRest]
  | .cons o' e t, post, o, x, y => by simp [appRest, synRest, synRest_app t post o x y]

/-- the specification is a congruence too: a pair of operands is syntactically identical inside one layer of syntax
    iff it is identical at the hole -/
theorem frame_synEq (F : Frame) (x y : Expr) : synEq (F.fill x) (F.fill y) ↔ synEq x y := by
  unfold synEq
  cases F <;> simp [Frame.fill, syn, synO, synL_app, synArgs_app, synItems_appK, synItems_appV, synRest_app]

theorem ctx_synEq : ∀ (C : List Frame) (x y : Expr), synEq (fill C x) (fill C y) ↔ synEq x y
  | [], _, _ => Iff.rfl
  | F :: C, x, y => by rw [fill, fill, ctx_synEq C, frame_synEq]

/-- a single edit is a single edit for specification and implementation alike: inside ANY common context the verdict
    on the whole pair equals the verdict on the edited sub-expressions, and so does syntactic identity — hence the
    relation is right on `C[x]` / `C[y]` as soon as it is right on `x` / `y` -/
theorem right_in_context (C : List Frame) {x y : Expr} (h : isEquiv cf x y = true ↔ synEq x y) :
    isEquiv cf (fill C x) (fill C y) = true ↔ synEq (fill C x) (fill C y) := by
  rw [ctx_congr, ctx_synEq]; exact h

/-! ## 7. `get_common_expr_positions` (FURB108 / FURB124), in both shapes (`Cfg.crossOnly`) -/

theorem findFrom_some {a : Expr} : ∀ {l : List Expr} {j₀ j : Nat}, findFrom cf a l j₀ = some j →
    j₀ ≤ j ∧ ∃ b, l[j - j₀]? = some b ∧ isEquiv cf a b = true
  | [], _, _, h => by simp [findFrom] at h
  | b :: t, j₀, j, h => by
      simp only [findFrom] at h
      split at h
      · next hb =>
        cases h
        exact ⟨Nat.le_refl _, b, by simp, hb⟩
      · obtain ⟨h1, c, h2, h3⟩ := findFrom_some h
        refine ⟨by omega, c, ?_, h3⟩
        have : j - j₀ = (j - (j₀ + 1)) + 1 := by omega
        rw [this]; simpa using h2

theorem findFrom_none {a : Expr} : ∀ {l : List Expr} {j₀ : Nat}, findFrom cf a l j₀ = none → ∀ b ∈ l, isEquiv cf a b = false
  | [], _, _ => by simp
  | c :: t, j₀, h => by
      simp only [findFrom] at h
      split at h
      · cases h
      · next hc =>
        intro b hb
        cases hb with
        | head => simpa using hc
        | tail _ hb => exact findFrom_none h b hb

/-- what FURB108/FURB124 act on: a reported pair of positions really is a pair of equivalent operands, in order -/
theorem commonFrom_some : ∀ {l : List Expr} {i₀ i j : Nat}, commonFrom cf l i₀ = some (i, j) →
    i₀ ≤ i ∧ i < j ∧ ∃ a b, l[i - i₀]? = some a ∧ l[j - i₀]? = some b ∧ isEquiv cf a b = true
  | [], _, _, _, h => by simp [commonFrom] at h
  | a :: t, i₀, i, j, h => by
      simp only [commonFrom] at h
      split at h
      · next j' hj =>
        cases h
        obtain ⟨h1, b, h2, h3⟩ := findFrom_some hj
        refine ⟨Nat.le_refl _, by omega, a, b, by simp, ?_, h3⟩
        have : j - i₀ = (j - (i₀ + 1)) + 1 := by omega
        rw [this]; simpa using h2
      · obtain ⟨h1, h2, x, y, hx, hy, hxy⟩ := commonFrom_some h
        refine ⟨by omega, h2, x, y, ?_, ?_, hxy⟩
        · have : i - i₀ = (i - (i₀ + 1)) + 1 := by omega
          rw [this]; simpa using hx
        · have : j - i₀ = (j - (i₀ + 1)) + 1 := by omega
          rw [this]; simpa using hy

/-- no pair is reported exactly when no two of the operands are equivalent -/
theorem commonFrom_none_iff : ∀ {l : List Expr} {i₀ : Nat}, commonFrom cf l i₀ = none ↔
    l.Pairwise (fun a b => isEquiv cf a b = false)
  | [], _ => by simp [commonFrom]
  | a :: t, i₀ => by
      simp only [commonFrom, List.pairwise_cons]
      split
      · next j hj =>
        obtain ⟨_, b, h2, h3⟩ := findFrom_some hj
        simp only [reduceCtorEq, false_iff, not_and]
        intro hall
        have := hall b (List.mem_of_getElem? h2)
        rw [h3] at this; cases this
      · next hn =>
        rw [commonFrom_none_iff]
        exact ⟨fun h => ⟨findFrom_none hn, h⟩, fun h => h.2⟩

/-- the cross search (`product(first half, second half)`): a reported pair takes one operand from each half, in the
    reported positions, and the two are equivalent -/
theorem crossFrom_some : ∀ {l r : List Expr} {i₀ h i j : Nat}, crossFrom cf l r i₀ h = some (i, j) →
    i₀ ≤ i ∧ h ≤ j ∧ ∃ a b, l[i - i₀]? = some a ∧ r[j - h]? = some b ∧ isEquiv cf a b = true
  | [], _, _, _, _, _, hq => by simp [crossFrom] at hq
  | a :: t, r, i₀, h, i, j, hq => by
      simp only [crossFrom] at hq
      split at hq
      · next j' hj =>
        cases hq
        obtain ⟨h1, b, h2, h3⟩ := findFrom_some hj
        exact ⟨Nat.le_refl _, h1, a, b, by simp, h2, h3⟩
      · obtain ⟨h1, h2, x, y, hx, hy, hxy⟩ := crossFrom_some hq
        refine ⟨by omega, h2, x, y, ?_, hy, hxy⟩
        have : i - i₀ = (i - (i₀ + 1)) + 1 := by omega
        rw [this]; simpa using hx

theorem crossFrom_none_iff : ∀ {l r : List Expr} {i₀ h : Nat}, crossFrom cf l r i₀ h = none ↔
    ∀ a ∈ l, ∀ b ∈ r, isEquiv cf a b = false
  | [], _, _, _ => by simp [crossFrom]
  | a :: t, r, i₀, h => by
      simp only [crossFrom, List.mem_cons, forall_eq_or_imp]
      split
      · next j hj =>
        obtain ⟨_, b, h2, h3⟩ := findFrom_some hj
        simp only [reduceCtorEq, false_iff, not_and]
        intro hall
        have := hall b (List.mem_of_getElem? h2)
        rw [h3] at this; cases this
      · next hn =>
        rw [crossFrom_none_iff]
        exact ⟨fun hq => ⟨findFrom_none hn, hq⟩, fun hq => hq.2⟩

/-- in either shape of the search: a reported pair of positions is a pair of equivalent operands, in order -/
theorem commonPositions_sound {l : List Expr} {i j : Nat} (h : commonPositions cf l = some (i, j)) :
    i < j ∧ ∃ a b, l[i]? = some a ∧ l[j]? = some b ∧ isEquiv cf a b = true := by
  unfold commonPositions at h
  split at h
  · obtain ⟨_, h2, a, b, ha, hb, hab⟩ := crossFrom_some h
    simp only [Nat.sub_zero, List.getElem?_take, List.getElem?_drop] at ha hb
    split at ha
    · next hi =>
      refine ⟨by omega, a, b, ha, ?_, hab⟩
      rw [← hb]; congr 1; omega
    · cases ha
  · obtain ⟨_, h2, a, b, ha, hb, hab⟩ := commonFrom_some h
    exact ⟨h2, a, b, by simpa using ha, by simpa using hb, hab⟩

/-- after the change: the reported operands come from DIFFERENT comparisons — `i` lies in the first half and `j`
    in the second -/
theorem commonPositions_cross {l : List Expr} {i j : Nat} (hc : cf.crossOnly = true)
    (h : commonPositions cf l = some (i, j)) :
    i < l.length / 2 ∧ l.length / 2 ≤ j ∧ ∃ a b, l[i]? = some a ∧ l[j]? = some b ∧ isEquiv cf a b = true := by
  simp only [commonPositions, hc, if_true, commonCross] at h
  obtain ⟨_, h2, a, b, ha, hb, hab⟩ := crossFrom_some h
  simp only [Nat.sub_zero, List.getElem?_take, List.getElem?_drop] at ha hb
  split at ha
  · next hi =>
    refine ⟨hi, h2, a, b, ha, ?_, hab⟩
    rw [← hb]; congr 1; omega
  · cases ha

/-- two operands of the same comparison are never reported as the common expression (`q == q or p == r`) -/
theorem same_side_never_reported {l : List Expr} {i j : Nat} (hc : cf.crossOnly = true)
    (h : commonPositions cf l = some (i, j)) :
    ¬ (i < l.length / 2 ∧ j < l.length / 2) ∧ ¬ (l.length / 2 ≤ i ∧ l.length / 2 ≤ j) := by
  obtain ⟨h1, h2, _⟩ := commonPositions_cross hc h
  omega

/-- after the change: nothing is reported exactly when no operand of the first comparison is equivalent to one of the second -/
theorem commonPositions_none_iff_cross {l : List Expr} (hc : cf.crossOnly = true) :
    commonPositions cf l = none ↔
      ∀ a ∈ l.take (l.length / 2), ∀ b ∈ l.drop (l.length / 2), isEquiv cf a b = false := by
  simp only [commonPositions, hc, if_true, commonCross]; exact crossFrom_none_iff

/-- before the change: nothing is reported exactly when no two of the operands are equivalent -/
theorem commonPositions_none_iff_all {l : List Expr} (hc : cf.crossOnly = false) :
    commonPositions cf l = none ↔ l.Pairwise (fun a b => isEquiv cf a b = false) := by
  simp only [commonPositions, hc, commonAll]; exact commonFrom_none_iff

/-- the FURB108/FURB124 shape: `q == q or p == r` with `q` different from `p` and `r` has no common expression … -/
theorem repeated_operand_not_common {q p r : Expr} (hc : cf.crossOnly = true)
    (h₁ : isEquiv cf q p = false) (h₂ : isEquiv cf q r = false) : commonPositions cf [q, q, p, r] = none := by
  rw [commonPositions_none_iff_cross hc]; simp [h₁, h₂]

/-- … while `p == p or p == r` has one (positions 0 and 2) -/
theorem shared_operand_common {p r : Expr} (hc : cf.crossOnly = true) :
    commonPositions cf [p, p, p, r] = some (0, 2) := by
  simp [commonPositions, hc, commonCross, crossFrom, findFrom, isEquiv_refl]

/-- for the search as extracted from /repo on this run -/
theorem repo_commonPositions_sound {l : List Expr} {i j : Nat} (h : commonPositions Generated.equivCfg l = some (i, j)) :
    i < j ∧ ∃ a b, l[i]? = some a ∧ l[j]? = some b ∧ isEquiv Generated.equivCfg a b = true :=
  commonPositions_sound h

/-! ## 8. The hypotheses are satisfiable (non-vacuity) -/

/-- a world: module `m`, every name `x` resolves to `m.x`; members have no fullname; `str()` = the syntax -/
def w0 : World := { fn := fun x => 'm' :: '.' :: x, mf := fun _ _ => [], sc := fun s => s }

theorem w0_fnInj : w0.FnInj := fun x y h => by simpa [w0] using h
theorem w0_scInj : w0.ScInj := fun x y h => by simpa [w0] using h

/-- `fa(va, k=vb.at)[1:] + "s"` where `va` has been redefined once (mypy calls it `va'`) … -/
def exA : Expr :=
  .op ['+'] (.index (.call (.name "fa".toList (some "m.fa".toList))
      (.cons (.name "va'".toList (some "m.va'".toList)) 0 none
        (.cons (.member (.name "vb".toList (some "m.vb".toList)) "at".toList none) 3 (some ['k']) .nil)))
      (.slice (.some (.lit .int ['1'])) .none .none)) (.lit .str ['s'])
/-- … and the same source text where mypy kept the plain name -/
def exB : Expr :=
  .op ['+'] (.index (.call (.name "fa".toList (some "m.fa".toList))
      (.cons (.name "va".toList (some "m.va".toList)) 0 none
        (.cons (.member (.name "vb".toList (some "m.vb".toList)) "at".toList (some [])) 3 (some ['k']) .nil)))
      (.slice (.some (.lit .int ['1'])) .none .none)) (.lit .str ['s'])
/-- a single-edit mutant: keyword `j` instead of `k` -/
def exC : Expr :=
  .op ['+'] (.index (.call (.name "fa".toList (some "m.fa".toList))
      (.cons (.name "va".toList (some "m.va".toList)) 0 none
        (.cons (.member (.name "vb".toList (some "m.vb".toList)) "at".toList (some [])) 3 (some ['j']) .nil)))
      (.slice (.some (.lit .int ['1'])) .none .none)) (.lit .str ['s'])

example : Resolved w0 exA ∧ Resolved w0 exB ∧ Resolved w0 exC := by
  simp [exA, exB, exC, Resolved, ResolvedArgs, ResolvedO, w0, litRepr]; decide
example : exA ≠ exB ∧ isEquiv ⟨false, true⟩ exA exB = true ∧ isEquiv ⟨true, true⟩ exA exB = true ∧ synEq exA exB := by decide
example : isEquiv ⟨false, true⟩ exB exC = false ∧ isEquiv ⟨true, true⟩ exB exC = false ∧ ¬ synEq exB exC := by decide
example : commonPositions ⟨false, false⟩ [exC, exA, exC, exB] = some (0, 2) ∧ commonPositions ⟨false, true⟩ [exC, exA, exC, exB] = some (0, 2) := by decide
example : commonPositions ⟨false, true⟩ [exC, exA, .lit .int ['1'], exB] = some (1, 3) := by decide
/-- `q == q or p == r`: reported by the old search (0, 1), not by the new one -/
example : commonPositions ⟨true, false⟩ [exC, exC, exA, .lit .int ['1']] = some (0, 1) ∧ commonPositions ⟨true, true⟩ [exC, exC, exA, .lit .int ['1']] = none := by decide
/-- the lambda of witness 2 on ONE line is inside the guard (and recognised) -/
example : Resolved { w0 with sc := fun _ => "LambdaExpr:1(Block:1(ReturnStmt:1(IntExpr(1))))".toList } w2a := by
  simp [w2a, Resolved]
example : strRepr [Char.ofNat 0x10000] = strRepr [Char.ofNat 0x1000, '0'] := by decide
example : Plain "abc def".toList := by simp [Plain, isPrintable]

end RefurbVerif.C06
