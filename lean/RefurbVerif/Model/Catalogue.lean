/-
Model of the check catalogue and of `refurb.explain.explain` (refurb/explain.py:10-40).

`CheckInfo` is one row of the table the translator (harness/extract.py) regenerates from the
imported check modules; `explain` is "first module, in `get_modules` order, whose ErrorCode
matches".
-/
namespace RefurbVerif

structure CheckInfo where
  module : String
  cls : String
  pfx : String
  code : Nat
  name : String
  hasName : Bool
  enabled : Bool
  categories : List String
  nodeTypes : List String
  nparams : Nat
  nannotations : Nat
  docHash : String
  /-- `error.__doc__` starts with `"<ClassName>("`: the dataclass-generated docstring, i.e. no docs -/
  docIsDefault : Bool
  /-- names in `dir(module)` that satisfy `is_valid_error_class` -/
  errorClasses : List String
  deriving Repr, DecidableEq

def CheckInfo.key (c : CheckInfo) : String × Nat := (c.pfx, c.code)

inductive ExplainResult where
  | found (c : CheckInfo)
  | noDoc
  | notFound
  deriving Repr, DecidableEq

/-- `explain`: the first catalogue entry whose (prefix, id) equals the lookup. -/
def explain (cat : List CheckInfo) (key : String × Nat) : ExplainResult :=
  match cat.find? (fun c => c.key == key) with
  | some c => if c.docIsDefault then .noDoc else .found c
  | none => .notFound

/-- the first line `explain` prints for a documented check: `f"{error_code}: {name} {categories}"` with
    `categories = " ".join(f"[{x}]" for x in error.categories)` and `<name unknown>` for a check without a name -/
def CheckInfo.explainHeader (c : CheckInfo) : String :=
  c.pfx ++ toString c.code ++ ": " ++ (if c.hasName then c.name else "<name unknown>") ++ " "
    ++ " ".intercalate (c.categories.map (fun x => "[" ++ x ++ "]"))

/-- One parsed entry of docs/checks.md. -/
structure DocEntry where
  code : String
  name : String
  categories : List String
  bodyHash : String
  deriving Repr, DecidableEq

def CheckInfo.docEntry (c : CheckInfo) : DocEntry :=
  { code := c.pfx ++ toString c.code, name := c.name, categories := c.categories, bodyHash := c.docHash }

/-- One documented example block and what the check's own run said about it. -/
structure Example where
  code : Nat
  kind : String       -- "Bad" | "Good"
  index : Nat
  flaggedByOwnCheck : Bool
  deriving Repr, DecidableEq

end RefurbVerif
